"""C32 -- the worker queue performs every task exactly once and always drains.

Model:   spec/WorkerQueue.tla   fine-grained pthread protocol of src/abg-workers.cc (every lock/unlock, cond_wait as
                                release+sleep+reacquire, signal-one, broadcast, bounded spurious wake-ups): TLC checks
                                ExactlyOnce, NotifierSequential, AllDoneAtReturn, LockDiscipline, deadlock freedom,
                                Terminates under weak fairness of each thread, and the refinement WorkerQueue => WorkerQueueAbs.
         spec/WorkerQueueAbs.tla the atomic abstraction, same properties; it is what implementation traces are checked against.
         The three protocol mutants of DESIGN.md section 8 are model-checked too: TLC must refute broadcast->signal (deadlock)
         and the dropped tasks_done_mutex (NotifierSequential) -- otherwise the properties would be vacuous.
Shape:   checks/wq_shape.py extracts the ordered pthread calls / shared-state statements of the current source;
         spec/WorkerQueueShape.tla (TLC) accepts exactly WorkerQueue!Skeleton, so the model-checked protocol is the coded one.
Replay:  harness/wq.cc over a matrix (workers, tasks, notifier, schedule_task|schedule_tasks, H2 perturbation seed) on the
         `hooks` build and a smaller matrix on the `tsan` build; every execution = H1 events (ordered by sequence number)
         + the harness's Summary + an End record (exit, signal, time-out, TSan report count), validated by TLC against
         spec/WorkerQueueAbsTrace.tla.  A hang is a time-out: no WaitReturn, rejected."""
import json, os, shutil
import vf
from checks import wq_shape

H1_FIELDS = ("e", "w", "t", "td", "dn")
HANG_CUT = 4
_hangs = [0]


def need_hooks(src):
    t = open(src, encoding="utf-8", errors="replace").read()
    if "LIBABIGAIL_VERIF" not in t or "verif_event" not in t:
        vf.infra("hook H1/H2 is not present in %s (apply /verif/patches/H1H2-workers-hooks.diff to /repo)" % src)


def cfg_text(w, t, s, wake="broadcast", loop="while", locked=True, props=True):
    return ("CONSTANTS MaxWorkers = %d\n MaxTasks = %d\n MaxSpurious = %d\n MutDownWake = \"%s\"\n MutWaitLoop = \"%s\"\n"
            " MutDoneLocked = %s\nSPECIFICATION Spec\nINVARIANTS TypeOK LockDiscipline ExactlyOnce NotifierSequential AllDoneAtReturn\n"
            "%sCHECK_DEADLOCK TRUE\n" % (w, t, s, wake, loop, "TRUE" if locked else "FALSE",
                                        "PROPERTIES Terminates AbsSafe\n" if props else ""))


def models(c):
    c.model("WorkerQueue.tla", "WorkerQueue_thorough.cfg" if c.thorough else "WorkerQueue.cfg", timeout=1400, heap="12g")
    if c.thorough:
        for (w, t, s) in ((4, 2, 1), (2, 4, 2)):
            p = os.path.join(c.workdir, "WorkerQueue_%d_%d_%d.cfg" % (w, t, s))
            open(p, "w").write(cfg_text(w, t, s))
            c.model("WorkerQueue.tla", p, timeout=1400, heap="12g")
        p = os.path.join(c.workdir, "WorkerQueueAbs_big.cfg")
        open(p, "w").write(open(os.path.join(vf.SPEC, "WorkerQueueAbs.cfg")).read().replace("MaxWorkers = 3", "MaxWorkers = 4")
                           .replace("MaxTasks = 4", "MaxTasks = 5"))
        c.model("WorkerQueueAbs.tla", p, timeout=1400)
    else:
        c.model("WorkerQueueAbs.tla", "WorkerQueueAbs.cfg", workers=4)
    # non-vacuity: the mutated protocols must be refuted (a) (b); (c) `while`->`if` is behaviour-preserving for C32
    # (the outer loop re-tests and the pop is guarded), which TLC confirms -- only the shape check distinguishes it.
    b = (3, 3, 1) if c.thorough else (2, 2, 1)
    muts = (("broadcast->signal", dict(wake="signal"), "refuted"),
            ("no tasks_done_mutex around push_back+notify", dict(locked=False), "refuted"),
            ("while->if around the workers' cond_wait", dict(loop="if"), "holds"))

    def mutant(k):
        p = os.path.join(c.workdir, "WorkerQueue_mut%d.cfg" % k)
        open(p, "w").write(cfg_text(*b, **muts[k][1]))
        return vf.tlc_check("WorkerQueue.tla", p, timeout=1400, workers=5)

    for (name, kw, expect), r in zip(muts, vf.pmap(mutant, range(len(muts)))):
        c.cov["models"].append({"spec": "WorkerQueue.tla", "cfg": "mutant: " + name, "distinct": r["distinct"], "generated": r["generated"],
                                "depth": r["depth"], "holds": r["ok"], "expected": expect, "wall_s": round(r["wall"], 1)})
        if r["ok"] != (expect == "holds"):
            vf.infra("protocol mutant '%s' was expected to be %s by TLC (rc=%d): the model's properties are vacuous or the model changed"
                     % (name, expect, r["rc"]))


def shape(c, src):
    try:
        evs = wq_shape.extract(src)
    except wq_shape.ShapeError as ex:
        vf.infra("cannot extract the protocol shape from %s: %s" % (src, ex))
    return c.validate("WorkerQueueShape.tla", "WorkerQueueShape.cfg", evs, traces=1,
                      case_of=lambda ev: {"shape.ndjson": "".join(json.dumps(e) + "\n" for e in evs),
                                          "case.json": {"kind": "shape", "what": "protocol skeleton extracted from src/abg-workers.cc "
                                                        "differs from WorkerQueue!Skeleton at this item"}})


def matrix(c, variant):
    if variant == "hooks":
        if c.thorough:
            ws, ns, seeds = range(1, 17), (0, 1, 2, 3, 4, 5, 8, 13, 17, 33, 64, 100, 200), 3
        else:
            ws, ns, seeds = (1, 2, 3, 4, 8, 16), (0, 1, 2, 3, 5, 17, 64, 200), 1
        modes = ((0, 0), (0, 1), (1, 0), (1, 1))
    else:
        if c.thorough:
            ws, ns, seeds, modes = (1, 2, 3, 4, 8, 16), (0, 1, 3, 17, 100), 2, ((0, 0), (0, 1), (1, 0), (1, 1))
        else:
            ws, ns, seeds, modes = (1, 2, 4, 16), (0, 3, 50), 1, ((0, 0), (1, 1))
    cases = []
    for w in ws:
        for n in ns:
            for (notifier, batch) in modes:
                for k in range(seeds):
                    # one run in four keeps the natural schedule (no H2 perturbation)
                    sched = 0 if c.rng.randrange(4) == 0 else c.rng.randrange(1, 1 << 30)
                    cases.append({"variant": variant, "W": w, "N": n, "notifier": notifier, "batch": batch,
                                  "workseed": c.rng.randrange(1 << 30), "sched": sched})
    return cases


def h1_executions(trace_path, r, cid, needsum):
    """Project one process run into executions for WorkerQueueAbsTrace: per queue of the process, Reset, its H1 events by
    sequence number, the harness's Summary (last queue only, if printed), End.  r is the vf.run result.  Reused by C31."""
    hooks, junk = [], 0
    if os.path.exists(trace_path):
        for ln in open(trace_path, errors="replace"):
            try:
                hooks.append(json.loads(ln))
            except ValueError:
                junk += 1
    hooks.sort(key=lambda e: e.get("seq", 0))
    evs = []
    queues = sorted(set(e.get("q", 1) for e in hooks)) or [1]
    for q in queues:
        evs.append({"e": "Reset"})
        evs += [{k: e[k] for k in H1_FIELDS} for e in hooks if e.get("q", 1) == q]
        summ = None
        if needsum and q == queues[-1]:
            for ln in r.out.splitlines():
                if ln.startswith('{"e":"Summary"'):
                    try:
                        summ = json.loads(ln)
                    except ValueError:
                        pass
            if summ:
                evs.append(summ)
        evs.append({"e": "End", "exit": r.exit if not r.sig else 0, "sig": r.sig, "timeout": bool(r.timeout),
                    "tsan": r.err.count("WARNING: ThreadSanitizer"), "needsum": bool(needsum), "junk": junk})
    for e in evs:
        e["c"] = cid
    return evs


def run_case(c, binaries, case, cid):
    """Run one execution; return its event list (Reset ... End).  Only records."""
    d = os.path.join(c.workdir, "run", str(cid))
    os.makedirs(d, exist_ok=True)
    tr = os.path.join(d, "h1.ndjson")
    extra = {"ABG_VERIF_TRACE": tr}
    if case["sched"]:
        extra["ABG_VERIF_SCHED_SEED"] = str(case["sched"])
    cmd = [binaries[case["variant"]], str(case["W"]), str(case["N"]), str(case["notifier"]), str(case["batch"]), str(case["workseed"])]
    # runs take milliseconds; a hang is a time-out, kept only if a confirming re-run of the same case times out too; after
    # HANG_CUT confirmed hangs the rest of the campaign is skipped (every hang already is a reported rejection)
    limit = 45 if case["variant"] == "tsan" else 15
    if _hangs[0] >= HANG_CUT:
        return None, None, 0
    r, attempts = None, 0
    for attempt in (1, 2):
        if os.path.exists(tr):
            os.remove(tr)
        r = vf.run(cmd, env=vf.henv(d, extra), timeout=limit)
        attempts += 1
        if not r.timeout:
            break
    if r.timeout:
        _hangs[0] += 1
    evs = h1_executions(tr, r, cid, needsum=True)
    shutil.rmtree(d, ignore_errors=True)
    return evs, r, attempts


def overlapping(evs):
    """Coverage only: did two workers hold tasks at the same time / were >= 2 workers idle at shutdown?"""
    holding, overlap, popped = set(), False, set()
    for e in evs:
        if e["e"] == "Pop":
            holding.add(e["w"]); popped.add(e["w"])
            overlap = overlap or len(holding) > 1
        elif e["e"] == "NotifyEnd":
            holding.discard(e["w"])
    return overlap


def selftest(c, good):
    """Converse binding: corrupt one recorded fact of an accepted execution at a time; TLC must reject every variant.
    (A trace specification that accepts these would make the campaign's acceptances meaningless: infrastructure failure.)"""
    body = [dict(e) for e in good]
    idx = lambda name, k=0: [i for i, e in enumerate(body) if e["e"] == name][k]
    variants = []

    def variant(name, f):
        evs = [dict(e) for e in body]
        try:
            evs = f(evs) or evs
        except IndexError:
            return
        variants.append((name, evs))

    variant("Pop event deleted", lambda v: v[:idx("Pop")] + v[idx("Pop") + 1:])

    def swap_pops(v):
        a, b = idx("Pop", 0), idx("Pop", 1)
        v[a]["t"], v[b]["t"] = v[b]["t"], v[a]["t"]
    variant("two Pops out of FIFO order", swap_pops)
    variant("WaitReturn deleted (hang)", lambda v: v[:idx("WaitReturn")] + v[idx("WaitReturn") + 1:])
    variant("DonePush duplicated", lambda v: v[:idx("DonePush") + 1] + [dict(v[idx("DonePush")])] + v[idx("DonePush") + 1:])
    variant("WorkerExit deleted", lambda v: v[:idx("WorkerExit")] + v[idx("WorkerExit") + 1:])

    def early_down(v):
        sd, last = idx("SetDown"), idx("Schedule", -1)
        ev = v.pop(sd)
        v.insert(last + 1, ev)
    variant("SetDown while todo is not empty", early_down)

    def overlap(v):
        nb = idx("NotifyBegin")
        j = [i for i, e in enumerate(v) if i > nb and e["e"] == "DonePush" and e["w"] != v[nb]["w"]][0]
        ev = v.pop(j)
        v.insert(nb, ev)
    variant("DonePush of another worker inside a notification", overlap)

    def perf_twice(v):
        v[idx("Summary")]["perf"] = [2] + v[idx("Summary")]["perf"][1:]
    variant("Summary: a task performed twice", perf_twice)

    def tsan(v):
        v[idx("End")]["tsan"] = 1
    variant("End: one ThreadSanitizer report", tsan)

    evs, bounds = [], []
    for name, v in variants:
        bounds.append((len(evs) + 1, len(evs) + len(v), name))
        evs += v
    r = vf.tlc_validate("WorkerQueueAbsTrace.tla", "WorkerQueueAbsTrace.cfg", evs)
    rejected = set(name for (i, e, v) in r["bad"] for (lo, hi, name) in bounds if lo <= i <= hi)
    missed = [name for (lo, hi, name) in bounds if name not in rejected]
    c.cov["trace_spec_selftest"] = {"corrupted_variants": len(variants), "rejected": len(rejected)}
    if missed or len(variants) < 7:
        vf.infra("WorkerQueueAbsTrace accepts corrupted executions: %s (variants built: %d)" % (missed, len(variants)))


def main():
    import time
    c = vf.Check("C32", "model_checking")
    phase, t_last = {}, [time.time()]

    def mark(name):
        phase[name] = round(time.time() - t_last[0], 1)
        t_last[0] = time.time()
    vf.build("hooks", "tsan")
    src = os.path.join(vf.bdir("hooks"), "src", "abg-workers.cc")       # the copy of the current tree that was just built
    need_hooks(src)
    binaries = {v: vf.build_harness(v, "wq") for v in ("hooks", "tsan")}

    mark("build")
    shape(c, src)
    mark("shape")
    models(c)
    mark("models")

    cases = matrix(c, "hooks") + matrix(c, "tsan")
    results = vf.pmap(lambda ic: run_case(c, binaries, ic[1], ic[0]), list(enumerate(cases)), jobs=max(2, vf.JOBS // 2))
    skipped = [i for i, x in enumerate(results) if x[0] is None]
    if skipped:
        c.discard("campaign cut short after %d confirmed hangs" % HANG_CUT, len(skipped))
    results = [x if x[0] is not None else ([], None, 0) for x in results]
    by_case = {i: x[0] for i, x in enumerate(results)}
    mark("campaign")
    c.cov["evaluations"] = len(cases) - len(skipped)
    c.cov["timeouts"] = sum(1 for (evs, r, a) in results if r and r.timeout)
    n_unconfirmed = sum(1 for (evs, r, a) in results if r and a > 1 and not r.timeout)
    if n_unconfirmed:
        c.discard("time-out not reproduced by the confirming re-run (the re-run is what was validated)", n_unconfirmed)
    c.cov["tsan_reports"] = sum(e.get("tsan", 0) for (evs, r, a) in results for e in evs if e["e"] == "End")
    c.cov["events"] = sum(len(evs) for (evs, r, a) in results)

    def case_of(ev):
        i = ev.get("c", -1)
        return {"case.json": dict(cases[i], kind="run") if 0 <= i < len(cases) else {},
                "trace.ndjson": "".join(json.dumps(e) + "\n" for e in by_case.get(i, []))}

    total = sum(len(v) for v in by_case.values())
    shards = [[] for _ in range(min(vf.JOBS, total // 15000 + 1))]          # ~0.5 ms per event; a JVM start costs seconds
    order = sorted(range(len(cases)), key=lambda i: -len(by_case[i]))
    for k, i in enumerate(order):                                          # balance by size
        shards[k % len(shards)] += by_case[i]
    shards = [s for s in shards if s]
    good = [by_case[i] for i, x in enumerate(cases) if x["variant"] == "hooks" and x["W"] >= 3 and 5 <= x["N"] <= 20 and x["notifier"]
            and len(set(e["w"] for e in by_case[i] if e["e"] == "DonePush")) >= 2]
    jobs = [lambda evs=evs: c.validate("WorkerQueueAbsTrace.tla", "WorkerQueueAbsTrace.cfg", evs, case_of=case_of,
                                       traces=sum(1 for e in evs if e["e"] == "Reset")) for evs in shards]
    if good:
        jobs.append(lambda: selftest(c, good[0]))
    vf.pmap(lambda f: f(), jobs)
    if not good and not c.violations:
        vf.infra("no execution suitable for the trace-specification self-test")

    mark("validation")
    c.cov["phase_s"] = phase
    sig = set()
    for i, case in enumerate(cases):
        if overlapping(by_case[i]):
            sig.add((case["variant"], case["W"], case["N"], case["notifier"], case["batch"],
                     tuple(e["t"] for e in by_case[i] if e["e"] == "DonePush")))
    c.cov["distinct_nontrivial"] = len(sig)
    c.cov["rule"] = ("executions of harness/wq.cc over workers x tasks x {notifier} x {schedule_task, schedule_tasks} x perturbation seeds "
                     "(%d on `hooks`, %d on `tsan`); non-trivial = at least two workers held a task at the same time, counted once per "
                     "(variant, workers, tasks, mode, completion order)" %
                     (sum(1 for x in cases if x["variant"] == "hooks"), sum(1 for x in cases if x["variant"] == "tsan")))
    for i in (len(cases) // 3, len(cases) // 2):
        c.sample({"case": cases[i], "first_events": by_case[i][:12]}, limit=3)
    c.assumptions += ["pthread semantics as modelled in WorkerQueue.tla (signal wakes one sleeper if any, bounded spurious wake-ups, mutexes without fairness)",
                      "H1 sequence numbers are taken inside the critical section of the state change they describe",
                      "ThreadSanitizer reports are observations (tsan build); TLC turns a non-zero count into a rejection",
                      "model bounds: see coverage.models; larger worker/task counts are covered by trace validation only"]
    c.finish()


def replay(path):
    case = json.load(open(os.path.join(path, "case.json")))
    if case.get("kind") == "shape":
        vf.build("hooks")
        evs = wq_shape.extract(os.path.join(vf.bdir("hooks"), "src", "abg-workers.cc"))
        r = vf.tlc_validate("WorkerQueueShape.tla", "WorkerQueueShape.cfg", evs)
    else:
        vf.build(case["variant"])
        binaries = {case["variant"]: vf.build_harness(case["variant"], "wq")}
        c = type("R", (), {"workdir": os.path.join(vf.WORK, "C32-replay")})()
        evs, res, _ = run_case(c, binaries, case, 0)
        r = vf.tlc_validate("WorkerQueueAbsTrace.tla", "WorkerQueueAbsTrace.cfg", evs)
        print(json.dumps(case))
    print("accepted" if r["accepted"] else "rejected: %s" % ([(i, v) for (i, e, v) in r["bad"]],))
    return 0 if r["accepted"] else 1
