"""C07 -- documented harmless changes are filtered by default and shown with --harmless."""
import os
import vf, campaign, report, difftree
from checks.C05 import names


def main():
    c = vf.Check("C07", "exploration")
    vf.build("hooks")
    c.model("Abi.tla", "AbiSmall.cfg" if c.thorough else "AbiSmallQuick.cfg")
    abidiff = vf.tool("hooks", "abidiff")
    cases = campaign.gen_pairs(c, 2000 if c.thorough else 160, MutCats='{"harmless"}', MinMuts=1, MaxMuts=1)
    cases += campaign.gen_pairs(c, 1500 if c.thorough else 120, name="gencxx", Lang='"cxx"', MutCats='{"harmless"}', MinMuts=1, MaxMuts=1)
    comps = ["gcc", "clang", "gcc-dwarf4"] if c.thorough else ["gcc", "clang"]

    def one(job):
        idx, case, comp = job
        ex = case["expect"]
        affected = ["fn%d" % i for i in ex["changedFns"]] + ["var%d" % i for i in ex["changedVars"]]
        if not affected:
            return ("discard", "mutation-not-visible-from-an-interface")
        a, e1, d = campaign.build_one(c, idx, case, comp, which=1, sub=comp + "/a")
        b, e2, d2 = campaign.build_one(c, idx, case, comp, which=2, sub=comp + "/b")
        if not a or not b:
            return ("discard", "does-not-compile")
        r = vf.run([abidiff, "--no-default-suppression", a, b], env=vf.henv(d))
        h = vf.run([abidiff, "--no-default-suppression", "--harmless", a, b], env=vf.henv(d))
        if h.exit == 0 and not h.out and case["muts"][0].get("ty"):
            # nothing at all differs for libabigail: is the edited type described in the debug info in the first place?  (clang's limited debug info
            # leaves a struct that is only reached through a pointer as a declaration, and what it contains is then not emitted); asked of readelf
            ty = case["types2"][case["muts"][0]["ty"] - 1]
            tname = {"struct": "S%d", "union": "U%d", "enum": "E%d", "typedef": "T%d"}.get(ty["k"], "?%d") % ty["id"]
            dump = vf.run(["readelf", "--debug-dump=info", b], env=vf.henv(d), timeout=120).out
            import re as _re
            if not _re.search(r"DW_AT_name\s*:.*\b%s\s*$" % _re.escape(tname), dump, _re.M):
                return ("discard", "edited-type-not-described-in-the-debug-info")
        rep = report.parse(h.out)
        # hook H3: the forest behind both runs; the catalogue entry must show up as a harmless *local* category (Catalogue!CategoryOfKind)
        trees = [difftree.tree_event(abidiff, a, b, o, vf.henv(d), idx, base=bs, extra={"comp": comp, "mutKind": case["muts"][0]["kind"]}) for o, bs in (([], r), (["--harmless"], h))]
        return ("ok", {"trees": [t for t in trees if t is not None], "e": "Harmless", "case": idx, "comp": comp, "kinds": [m["kind"] for m in case["muts"]], "affected": affected, "exit": r.exit,
                       "hexit": h.exit, "hnamed": names(rep, "changed_fns", "changed_vars"), "ret": campaign.retof(r, h), "out": r.out[:300], "hout": h.out[:300]})

    res = vf.pmap(one, [(i, cs, comp) for i, cs in enumerate(cases) for comp in comps])
    events, trees = [], []
    for r in res:
        if r[0] == "discard":
            c.discard(r[1])
        else:
            for st, x in r[1].pop("trees"):
                if st == "ok":
                    trees.append(x)
                else:
                    c.discard(x)
            events.append(r[1])
    c.cov["evaluations"] = len(events)
    c.cov["distinct_nontrivial"] = len({e["case"] for e in events})
    c.cov["by_mutation_kind"] = {k: sum(1 for e in events if e["kinds"] == [k]) for k in sorted({e["kinds"][0] for e in events})}
    c.cov["rule"] = ("program pairs from Abi.tla with ONE harmless catalogue entry (append enumerator, rename typedef, top-level const on a parameter) visible from an exported "
                     "interface; default run must exit 0, --harmless run must set the change bit and name an affected interface; compilers %s; every kept pair is non-trivial" % comps)
    for e in events[:4]:
        c.sample(e)
    case_of = lambda ev: campaign.case_files(os.path.join(c.workdir, "p%d" % ev["case"]))
    vf.pmap(lambda i: c.validate("AbiTrace.tla", "AbiTrace.cfg", events[i:i + 3000], case_of=case_of), range(0, len(events), 3000), jobs=4)
    c.model("DiffTree.tla", "DiffTree.cfg")
    vf.pmap(lambda i: c.validate("DiffTreeTrace.tla", "DiffTreeTrace.cfg", trees[i:i + 400], case_of=case_of), range(0, len(trees), 400), jobs=6)
    c.cov["diff_forests_validated"] = len(trees)
    c.cov["evaluations"] += len(trees)
    c.finish()


def replay(path):
    return vf.replay_event("AbiTrace.tla", "AbiTrace.cfg", path)
