"""C37 -- hash-table symbol lookup agrees with the symbol table.

Model: spec/ElfHash.tla.  TLC exhausts (a) every valid .dynsym of <= 5 symbols linked with 1..3 buckets into every
order of {.hash, .gnu.hash} (BuildSysV / BuildGnu) and looks every name up with the *transcribed* walks
(LookupIffPresent), with and without symbol versions; (b) every sequence of <= 4 sections for
find_hash_table_section_index (SelectionConsistent).  Where a transcription deviates, exactly its named deviation is
tolerated and the strict property is run as well, expected to fail, and its counterexample recorded; the corrected
operators are checked strictly.  Which operator stands for the implementation is decided by fingerprints of the
transcribed source (checks/_elfhash.py).

Conformance: render/elfsyms.py generates libraries of 50-300 symbols (versioned, weak, objects, undefined references,
hidden ones, names colliding on the full hash), links them with ld.bfd / ld.lld / ld.gold x --hash-style=sysv|gnu|both,
takes readelf's view as ground truth, and queries abisym for present names, undefined names and absent names engineered
to fall into occupied buckets / pass the bloom filter / collide on the whole hash.  Every query is one event that TLC
validates against ElfHashTrace.tla."""
import json, os, shutil, statistics, sys, threading
import vf
from checks import _elfhash as eh
import elfsyms


def _models(c, fp, results):
    """run the model configurations (4 JVMs side by side, 4 workers each)"""
    quick = not c.thorough
    build_subst = [("MaxSyms = 5", "MaxSyms = 4")] if quick else []
    jobs = [("build", eh.make_cfg(c, "ElfHash.cfg", "ElfHash.cfg", fp, subst=build_subst), True),
            ("versions", eh.make_cfg(c, "ElfHashVer.cfg", "ElfHashVer.cfg", fp), True),
            ("select", eh.make_cfg(c, "ElfHashSelect.cfg", "ElfHashSelect.cfg", fp), True)]
    # strict properties on the operators that stand for the implementation: expected to fail exactly where a
    # transcription is still in place; with every fingerprint "changed" they are the properties that must hold
    strict = []
    if not (fp["FixedSelect"] and fp["FixedGnu"] and fp["FixedSysV"]):
        strict.append(("strict-versions", eh.make_cfg(c, "ElfHashVer.cfg", "ElfHashVerStrict.cfg", fp, invariants=["LookupIffPresent"],
                                                      subst=[("MaxSyms = 4", "MaxSyms = 3")]), False))
    if not fp["FixedSelect"]:
        strict.append(("strict-select", eh.make_cfg(c, "ElfHashSelect.cfg", "ElfHashSelectStrict.cfg", fp, invariants=["SelectionConsistent"]), False))

    def run(job):
        name, cfg, must = job
        return name, must, vf.tlc_check("ElfHash.tla", cfg, workers=4, timeout=1400, heap="3g")
    for name, must, r in vf.pmap(run, jobs + strict, jobs=5):
        results.append((name, must, r))


def main():
    c = vf.Check("C37", "model_checking")
    vf.build("hooks")
    abisym = vf.tool("hooks", "abisym")
    fp = eh.fingerprints()
    results = []
    err = []

    def bg():
        try:
            _models(c, fp, results)
        except SystemExit as ex:       # vf.infra inside the thread
            err.append(ex)
    th = threading.Thread(target=bg)
    th.start()

    # ---- libraries
    nlibs, per_cfg_present, per_cfg_absent = (30, 10 ** 9, 80) if c.thorough else (12, 34, 28)
    sizes = [50, 60, 80, 100, 120, 150, 180, 200, 220, 250, 280, 300]
    libs = []
    for k in range(nlibs):
        lib = elfsyms.make_lib(c.rng, sizes[k % len(sizes)] + c.rng.randrange(0, 10), versions=(k % 4 != 3))
        d = os.path.join(c.workdir, "lib%02d" % k)
        os.makedirs(d)
        src, script, _ = elfsyms.render(lib)
        with open(os.path.join(d, "gen.s"), "w") as f:
            f.write(src)
        sp = None
        if script:
            sp = os.path.join(d, "gen.map")
            with open(sp, "w") as f:
                f.write(script)
        libs.append({"k": k, "lib": lib, "dir": d, "src": os.path.join(d, "gen.s"), "script": sp})
    cfgs = [(L, ld, st) for L in libs for ld in elfsyms.LINKERS for st in elfsyms.STYLES]

    def do_link(x):
        L, ld, st = x
        out = os.path.join(L["dir"], "lib_%s_%s.so" % (ld, st))
        ok, msg = elfsyms.link(L["src"], L["script"], out, ld, st)
        if not ok:
            return None, "link failed (%s)" % ld
        names, order = elfsyms.truth(out)
        if names is None:
            return None, "no ground truth: " + order
        return {"L": L, "linker": ld, "style": st, "path": out, "names": names, "order": order}, None
    files = []
    for (f, why) in vf.pmap(do_link, cfgs):
        if f is None:
            c.discard(why)
        else:
            files.append(f)
    if len(files) < len(cfgs) // 2:
        vf.infra("only %d of %d libraries could be linked and read back" % (len(files), len(cfgs)))

    # ---- queries
    queries = []
    for fi, f in enumerate(files):
        rng = __import__("random").Random(c.seed * 7919 + fi)
        names = f["names"]
        amb = [n for n, d in names.items() if d["ambiguous"]]
        if amb:
            c.discard("name without ground truth (readelf --dyn-syms and -V disagree, e.g. version-node symbol)", len(amb))
        present = [n for n, d in names.items() if d["present"] and not d["ambiguous"]]
        multi = [n for n in present if len(names[n]["versions"]) > 1]
        single = [n for n in present if len(names[n]["versions"]) == 1]
        pick = multi[:] if len(multi) <= per_cfg_present // 2 else rng.sample(multi, per_cfg_present // 2)
        rest = max(per_cfg_present - len(pick), 0)
        pick += single if len(single) <= rest else rng.sample(single, rest)
        for n in pick:
            queries.append((f, n, "present-multi" if n in multi else "present"))
        for n, d in names.items():
            if d["undef"] and not d["ambiguous"]:
                queries.append((f, n, "undefined"))
        ab = elfsyms.absent_queries(rng, f["path"], names, f["L"]["lib"], want=per_cfg_absent)
        if len(ab) > per_cfg_absent:
            # keep every class represented
            bycls = {}
            for n, cl in ab:
                bycls.setdefault(cl, []).append((n, cl))
            ab2 = []
            while len(ab2) < per_cfg_absent and any(bycls.values()):
                for cl in list(bycls):
                    if bycls[cl] and len(ab2) < per_cfg_absent:
                        ab2.append(bycls[cl].pop(rng.randrange(len(bycls[cl]))))
            ab = ab2
        for n, cl in ab:
            queries.append((f, n, cl))

    # ---- abisym
    def ask(q, timeout=20):
        f, n, cl = q
        r = vf.run([abisym, f["path"], n], env=vf.henv(c.workdir), timeout=timeout)
        return r

    def event(q, r):
        f, n, cl = q
        d = f["names"].get(n, {"present": False, "undef": False, "versions": []})
        ev = {"e": "Lookup", "lib": "lib%02d" % f["L"]["k"], "linker": f["linker"], "style": f["style"], "order": f["order"], "name": n,
              "present": d["present"], "undef": d["undef"], "versions": d["versions"] if d["present"] else [],
              "found": False, "foundVersions": [], "collide": cl, "ret": "ok"}
        ev.update(elfsyms.facts(f["path"], n))
        if r.timeout:
            ev["ret"] = "timeout"
        elif r.sig:
            ev["ret"] = "sig%d" % r.sig
        elif r.abort_assert:
            ev["ret"] = "abort-assert"
        elif r.exit != 0:
            ev["ret"] = "exit%d" % r.exit
        else:
            p = elfsyms.parse_abisym(r.out)
            if p is None:
                ev["ret"] = "unparsed-output"
            else:
                ev["found"], ev["foundVersions"] = p
        return ev
    res = vf.pmap(ask, queries)
    walls = [r.wall for r in res if not r.timeout]
    limit = max(20.0, 50 * (statistics.median(walls) if walls else 0.1))
    for i, r in enumerate(res):
        if r.timeout:                      # confirming re-run with the campaign-relative limit
            res[i] = ask(queries[i], timeout=limit)
    events = [event(q, r) for q, r in zip(queries, res)]
    c.cov["evaluations"] = len(events)

    # ---- TLC validates every event (shards side by side)
    th.join()
    if err:
        raise err[0]
    for name, must, r in results:
        eh.record(c, r, must_hold=must)
    model_findings = []
    for name, must, r in results:
        if not must:
            if r["ok"]:
                vf.infra("strict model %s holds although a transcribed (unrepaired) operator stands for the implementation: "
                         "the transcription or its fingerprint is stale" % name)
            inv = [l for l in r["out"].splitlines() if "is violated" in l][:1]
            model_findings.append({"model": name, "violated": inv[0].strip() if inv else "?",
                                   "state": eh.last_state(r["out"], ["dyn", "nb", "hf", "secs"])})
    c.cov["model_strict_counterexamples"] = model_findings
    c.cov["implementation_operators"] = {k: ("corrected" if fp[k] else "transcribed") for k in ("FixedSelect", "FixedSysV", "FixedGnu")}
    c.cov["source_fingerprints"] = fp["detail"]

    nsh = max(1, min(vf.JOBS // 2, len(events) // 1500 + 1))
    shards = [events[i::nsh] for i in range(nsh)]
    vres = vf.pmap(lambda evs: vf.tlc_validate("ElfHashTrace.tla", "ElfHashTrace.cfg", evs, heap="2g") if evs else None, shards, jobs=nsh)
    qindex = {(("lib%02d" % f["L"]["k"]), f["linker"], f["style"], n): (f, n) for (f, n, cl) in queries}
    groups = {}
    listed = {k["id"]: k for k in c.known if k.get("status") == "known"}
    for evs, r in zip(shards, vres):
        if r is None:
            continue
        c.cov["traces_validated_against_impl"] += len(evs)
        for (i, ev, kid) in r["kf"]:
            if kid in listed:
                c.kf_seen[kid] = c.kf_seen.get(kid, 0) + 1
            else:
                groups.setdefault(("unlisted-known-finding:" + kid, ev["linker"], ev["style"]), []).append(ev)
        for (i, ev, v) in r["bad"]:
            groups.setdefault((v, ev["linker"], ev["style"]), []).append(ev)

    def payload(ev, n_in_group, verdict):
        f, n = qindex[(ev["lib"], ev["linker"], ev["style"], ev["name"])]
        L = f["L"]
        pl = {"gen.s": open(L["src"]).read(), os.path.basename(f["path"]): open(f["path"], "rb").read(),
              "repro.sh": "#!/bin/sh\n# %s  (%d events of this class in the run)\n"
                          "gcc -shared -nostdlib -fuse-ld=%s -Wl,--hash-style=%s -Wl,-soname,libgen.so %s-o lib.so gen.s\n"
                          "readelf --dyn-syms -W lib.so | grep -w -- '%s'\n"
                          "${ABISYM:-%s} lib.so '%s'\n" % (verdict, n_in_group, f["linker"], f["style"],
                                                          "-Wl,--version-script=gen.map " if L["script"] else "", n, abisym, n)}
        if L["script"]:
            pl["gen.map"] = open(L["script"]).read()
        return pl
    for (v, ld, st), evs in sorted(groups.items(), key=lambda x: (-len(x[1]), x[0])):
        ev = evs[0]
        c.violation("abisym disagrees with readelf: %s [%s, --hash-style=%s, sections %s]: %d queries, e.g. '%s' in %s"
                    % (v, ld, st, "+".join(ev["order"]), len(evs), ev["name"], ev["lib"]), ev, payload=payload(ev, len(evs), v))
    c.cov["violation_classes"] = [{"verdict": v, "linker": ld, "style": st, "events": len(evs)} for (v, ld, st), evs in groups.items()]

    # ---- coverage
    hard = {"gnu-full-hash-twin", "sysv-full-hash-twin", "sysv-bucket", "gnu-bucket+bloom", "gnu-bloom", "present", "present-multi"}
    c.cov["distinct_nontrivial"] = len({(e["lib"], e["linker"], e["style"], e["name"]) for e in events if e["collide"] in hard})
    bycls = {}
    for e in events:
        bycls[e["collide"]] = bycls.get(e["collide"], 0) + 1
    c.cov["queries_by_class"] = bycls
    c.cov["files"] = {"linked": len(files), "by_order": {}}
    for f in files:
        k = "%s/%s:%s" % (f["linker"], f["style"], "+".join(f["order"]))
        c.cov["files"]["by_order"][k] = c.cov["files"]["by_order"].get(k, 0) + 1
    c.cov["undefined_names_not_judged"] = sum(1 for e in events if e["undef"])
    c.cov["rule"] = ("model: every valid .dynsym of <= %d symbols x 1..3 buckets x 4 section orders x every name (exhaustive, TLC); campaign: %d libraries "
                     "x {bfd,lld,gold} x {sysv,gnu,both}; one abisym query per event; non-trivial = the name is present, or absent but "
                     "in an occupied bucket / accepted by the bloom filter / equal to a present name on the whole 32-bit hash"
                     % (5 if c.thorough else 4, nlibs))
    for e in events[:2] + [e for e in events if e["collide"] == "gnu-full-hash-twin"][:1] + [e for e in events if e["collide"] == "present-multi"][:2]:
        c.sample(e)
    c.assumptions += ["readelf --dyn-syms/-V/-S is the ground truth of a linked library (names on which its two views disagree are not queried)",
                      "abisym's stdout is parsed by render/elfsyms.parse_abisym; an undefined-only name is outside the statement (abisym cannot show definedness)",
                      "spec/ElfHash.tla's faithful operators transcribe the functions whose fingerprints are recorded under coverage.source_fingerprints"]
    c.finish()


def replay(path):
    return vf.replay_event("ElfHashTrace.tla", "ElfHashTrace.cfg", path)
