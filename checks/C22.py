"""C22 -- a suppression that matches nothing changes nothing.

Model: spec/Suppr.tla mode "ifaces": FrameUnmatched -- on the transcription of the function / variable matching code, a section
that no interface of the set satisfies (MatchesNothing) suppresses nothing -- over every set of 1..3 interfaces x every section
of the product (with the faithful configuration, expected to fail on NullRegexIsSkipped, while the transcribed source is in
place).

Conformance: program pairs from spec/SupprCase.tla (0-3 mutations of any category); suppression files of 1-3 sections drawn
by TLC (spec/SupprGen.tla: [suppress_type], [suppress_function], [suppress_variable], [suppress_file]) whose abstract names are
renamed either to names *outside* the pair's name universe (fnN / varN / S<id> / T<id> with unused numbers, versions that no
symbol has) or to real names (then most sections are satisfiable).  Whether a file matches nothing is decided by TLC from
the model facts in the event: every interface of both programs, every named type of both programs plus the kinds of unnamed
types, the paths and SONAMEs of the two binaries; a pattern counts as matching no unnamed type only if each alternative needs
a letter no generated name contains; sections with name_not_regexp are never "unmatched"; data members count as variables
(libabigail applies [suppress_variable] sections to the var_diff nodes of data members).  Satisfiable files are discarded.
Guard: report bytes and exit status with the file equal the run without it, under several reporting modes.

Reading: "matches no artifact" = no constraint set of the section is satisfied by any interface / type / binary of the model;
a malformed pattern matches nothing (so `name_regexp = (` alone is an unmatched section).
"""
import os, threading
import vf, campaign, difftree
from checks import _suppr as S

MALFORMED = ["(", "a[", "*a", "a{"]
OPTSETS = [[], ["--redundant", "--harmless"], ["--leaf-changes-only"]]
STRATA = [("pattern-only", "tfv", (2,), 1, 30), ("one-property", "tfv", (1, 2, 4, 5), 3, 150), ("type-kind-location", "t", (1, 4, 5, 6), 2, 80), ("binaries", "tfvF", (1, 7, 8), 2, 60),
          ("all", "tfvF", tuple(range(1, 11)), 3, 200)]
KINDS = {"t": "type", "f": "function", "v": "variable", "F": "file"}


def absent_mapping(case, rng):
    mx = S.max_id(case)
    n = iter(rng.sample(range(mx + 3, mx + 60), 20))
    m = {}
    for a in ("fn1", "fn12", "fn3", "fn9"):
        m[a] = "fn%d" % next(n)
    for a in ("var4", "var1"):
        m[a] = "var%d" % next(n)
    m["zz"] = "zz%d" % next(n)
    m["S1"], m["S9"], m["T3"] = "S%d" % next(n), "S%d" % next(n), "T%d" % next(n)
    for v in ("V1", "V12", "V4", "V9"):
        m[v] = "V%d" % next(n)
    return m


def real_mapping(case, ifaces, types, rng):
    m = absent_mapping(case, rng)
    fns = [i["name"] for i in ifaces if i["kind"] == "fn"]
    vs = [i["name"] for i in ifaces if i["kind"] == "var"]
    st = [t["name"] for t in types if t["kind"] == "struct"]
    td = [t["name"] for t in types if t["kind"] == "typedef"]
    rng.shuffle(fns), rng.shuffle(vs)
    for a, pool in (("fn1", fns), ("fn12", fns), ("var4", vs), ("var1", vs), ("S1", st), ("T3", td)):
        if pool and rng.random() < 0.7:
            m[a] = pool.pop() if pool is fns or pool is vs else rng.choice(pool)
    return m


def main():
    c = vf.Check("C22", "model_checking")
    vf.build("hooks")
    fp = S.fingerprints()
    c.cov["source_fingerprints"] = fp["detail"]
    err = []

    def bg():
        try:
            S.run_models(c, ["ifaces"], fp)
        except SystemExit as ex:
            err.append(ex)
    th = threading.Thread(target=bg)
    th.start()

    tool = vf.tool("hooks", "abidiff")
    jobs = [("cases", lambda: S.gen_cases(c, 400 if c.thorough else 50, MaxIfaces=5, MinMuts=0, MaxMuts=3, MutCats='{"breaking", "harmless", "unlisted"}'))]
    for name, kinds, fields, odds, ngen in STRATA:
        jobs.append((name, (lambda name=name, kinds=kinds, fields=fields, odds=odds, ngen=ngen:
                            S.gen_sections(c, ngen, [KINDS[k] for k in kinds], fields=fields, odds=odds, name="sec-" + name))))
    got = dict(vf.pmap(lambda j: (j[0], j[1]()), jobs, jobs=6))
    cases = got.pop("cases")
    pools = [(n, got[n]) for n, *_ in STRATA if got[n]]
    S.tick(c, "generated")
    bad = sorted(S.invalid_patterns(c, MALFORMED))
    comps = ["gcc", "clang"] if c.thorough else ["gcc"]
    per_case = 40 if c.thorough else 24

    def one(job):
        idx, case, comp = job
        a, e1, da = S.build(c, idx, case, comp, which=1, sub=comp + "/a")
        b, e2, db = S.build(c, idx, case, comp, which=2, sub=comp + "/b")
        if not a or not b:
            return [("discard", "does-not-compile")]
        env = vf.henv(da)
        ifaces = S.iface_records(case, "ab")
        types = S.type_records(case, all_via_ptr=True)
        members = S.member_names(case)
        rng = c.rng.__class__(c.seed * 15485863 + idx)
        base = {}
        evs = []
        for k in range(per_case):
            nsec = 1 if k % 4 else rng.choice([2, 3])
            mp = absent_mapping(case, rng) if k % 3 else real_mapping(case, ifaces, types, rng)
            secs, names = [], []
            for _ in range(nsec):
                stratum, pool = rng.choice(pools)        # a stratum first, then a section of it
                sec = rng.choice(pool)
                s = S.instantiate(sec, mp)
                for key in ("name_regexp", "name_not_regexp", "file_name_regexp", "soname_regexp"):
                    if s[key]["k"] == "invalid":
                        s[key] = dict(s[key], bad=bad[(k + idx) % len(bad)])
                secs.append(s)
                names.append(stratum)
            f = S.write_suppr(os.path.join(da, "s%d.suppr" % k), secs)
            opts = OPTSETS[k % len(OPTSETS)]
            key = " ".join(opts)
            if key not in base:
                base[key] = S.abidiff(tool, a, b, opts, env=env)
            r0 = base[key]
            r1 = S.abidiff(tool, a, b, opts, suppr=f, env=env)
            if not opts and k % 2 == 0:          # hook H3: the forest after the suppression pass (DiffTreeTrace: no mark without a cause)
                te = difftree.tree_event(tool, a, b, [], env, idx, suppr=f, base=r1, extra={"comp": comp, "k": k, "supprFile": f})
                if te is not None:
                    evs.append(("tree",) + te)
            evs.append(("ok", {"e": "Unmatched", "case": idx, "comp": comp, "k": k, "strata": names, "opts": key, "sections": secs, "ifaces": ifaces, "types": types, "members": members,
                               "env": {"paths": [a, b], "bases": [os.path.basename(a), os.path.basename(b)], "sonames": ["", ""]}, "exit0": r0.exit, "exit1": r1.exit, "same": r0.out == r1.out,
                               "changes": r0.exit != 0, "ret": campaign.retof(r0, r1), "out0": r0.out[:200], "out1": r1.out[:200]}))
        return evs

    res = [x for xs in vf.pmap(one, [(i, cs, comp) for i, cs in enumerate(cases) for comp in comps]) for x in xs]
    events, trees = [], []
    for kind, x, *more in res:
        if kind == "discard" or (kind == "tree" and x == "discard"):
            c.discard(more[0] if more else x)
        elif kind == "tree":
            trees.append(more[0])
        else:
            events.append(x)
    S.tick(c, "replayed")
    th.join()
    S.tick(c, "models-done")
    if err:
        raise err[0]
    case_of = lambda ev: dict(campaign.case_files(os.path.join(c.workdir, "p%d" % ev["case"], ev["comp"])), **{"sections.suppr": S.supprfile.render(ev["sections"])})
    S.validate(c, events, case_of)
    tree_case = lambda ev: dict(campaign.case_files(os.path.join(c.workdir, "p%d" % ev["case"], ev["comp"])), **{"sections.suppr": open(ev["supprFile"]).read()})
    vf.pmap(lambda i: c.validate("DiffTreeTrace.tla", "DiffTreeTrace.cfg", trees[i:i + 400], case_of=tree_case), range(0, len(trees), 400), jobs=6)
    c.cov["diff_forests_validated"] = len(trees)
    c.cov["diff_forests_with_suppressed_nodes"] = sum(1 for t in trees if any(n["sup"] for n in t["nodes"]))
    S.tick(c, "validated")
    live = [e for e in events if not e.get("_skipped")]
    c.cov["evaluations"] = len(live)
    c.cov["distinct_nontrivial"] = len({(e["case"], e["comp"], e["k"]) for e in live if e["changes"]})
    c.cov["by_section_kind"] = {k: sum(1 for e in live if any(s["kind"] == k for s in e["sections"])) for k in ("type", "function", "variable", "file")}
    c.cov["with_malformed_pattern"] = sum(1 for e in live if any(S.patterns_of(s) for s in e["sections"]))
    c.cov["multi_section_files"] = sum(1 for e in live if len(e["sections"]) > 1)
    c.cov["rule"] = ("TLC-generated program pairs (0-3 mutations) compiled by %s x suppression files of 1-3 TLC-generated sections renamed to names outside the pair's "
                     "name universe (2/3) or to real names (1/3); files that TLC finds satisfiable in the model are discarded; reporting modes %s; guard: same bytes, same "
                     "exit status; non-trivial = events whose baseline reports a change" % (comps, OPTSETS))
    for e in [e for e in live if e["changes"]][:3]:
        c.sample({k: e[k] for k in ("sections", "opts", "exit0", "exit1", "same")})
    c.assumptions += ["Reading: see the module docstring of checks/C22.py"]
    c.finish()


replay = S.replay
