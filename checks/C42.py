"""C42 -- interned strings compare like their contents.

Model: spec/Intern.tla (pool [content -> object], histories of Intern calls, the operators of interned_string transcribed on
objects) checked by TLC over all histories of <= MaxCalls calls: same object iff same content; ==, !=, <, conversion, hash,
hash-set membership and the mixed comparisons with plain strings agree with the contents.
Conformance: harness/intern.cc replays exactly the histories the model enumerates (count cross-checked with TLC's distinct
states), each in a fresh environment, and records the returned objects (numbered by first appearance of raw()) and every
pairwise / mixed comparison, conversion and hash; TLC validates the events against InternTrace.tla, whose Intern step is
the module's own action (enabled only for the object the pool holds for that content, or a fresh one)."""
import json, os
import vf

# the content sets are defined in Intern.tla (a configuration file cannot spell sequences); the harness gets the same list
CONTENTS = {"ContentsSmall": ["", "a", "aa", "ab"], "ContentsLarge": ["", "a", "aa", "ab", "b", "aaa"]}
CHUNK = 30000   # events per TLC validation run (cut at history boundaries)


def main():
    c = vf.Check("C42", "model_checking")
    vf.build("hooks")
    h = vf.build_harness("hooks", "intern")
    cname, maxcalls, nrand = ("ContentsLarge", 5, 64) if c.thorough else ("ContentsSmall", 5, 8)
    contents = CONTENTS[cname]
    cfg = os.path.join(c.workdir, "Intern.cfg")
    with open(cfg, "w") as f:
        f.write("CONSTANTS Contents <- %s\n MaxCalls = %d\nSPECIFICATION Spec\n"
                "INVARIANTS SameIffEqualContents CompareLikeContents MixedCompareLikeContents ConvertLikeContents HashLikeContents\n"
                "           SetLikeContents OrderIsStrictTotal PoolWellFormed\nCHECK_DEADLOCK FALSE\n" % (cname, maxcalls))
    m = c.model("Intern.tla", cfg)
    shards = 8 if c.thorough else 4      # harness processes = TLC validation runs (vf limits concurrent JVMs machine-wide)

    def shard(i):
        out = os.path.join(c.workdir, "i%d.ndjson" % i)
        r = vf.run([h, out, ",".join(contents), str(maxcalls), str(i), str(shards), str(nrand // shards), str(c.seed)], timeout=1200)
        lines = open(out).read().split("\n") if os.path.exists(out) else []
        evs = [json.loads(l) for l in lines if l.endswith("}")]
        if r.exit != 0 or r.sig or r.timeout or (lines and lines[-1].strip()):
            # C42 implies that the calls return: the history that did not complete is closed with an event no step accepts
            evs.append({"e": "Aborted", "how": "sig%d-exit%d%s" % (r.sig, r.exit, "-timeout" if r.timeout else "")})
        return evs

    evs_by_shard = vf.pmap(shard, range(shards))
    # binding of the explored spaces: one Reset per history, and the histories are the model's states
    n_hist = sum(1 for evs in evs_by_shard for e in evs if e["e"] == "Reset")
    n_rand = (nrand // shards) * shards
    if n_hist - n_rand != m["distinct"]:
        vf.infra("harness replayed %d histories, the model has %d" % (n_hist - n_rand, m["distinct"]))
    # cut into validation runs at history boundaries
    chunks, nontrivial = [], 0
    for evs in evs_by_shard:
        cur = []
        for e in evs:
            if e["e"] == "Reset" and len(cur) >= CHUNK:
                chunks.append(cur)
                cur = []
            cur.append(e)
        if cur:
            chunks.append(cur)
    for ch in chunks:
        calls = []
        for e in ch + [{"e": "Reset"}]:
            if e["e"] == "Reset":
                cs = [tuple(x["c"]) for x in calls]
                if len(set(cs)) >= 2 and len(set(cs)) < len(cs):
                    nontrivial += 1
                calls = []
            elif e["e"] == "Intern":
                calls.append(e)

    def case_of_chunk(ch):
        def case_of(ev):
            # the history the event belongs to: from the preceding Reset up to the event
            k = max(i for i, e in enumerate(ch) if e is ev)
            s = max(i for i in range(k + 1) if ch[i]["e"] == "Reset")
            hist = ["".join(e["c"]) for e in ch[s:k + 1] if e["e"] == "Intern"]
            return {"case.json": {"contents": contents, "history": hist, "event": ev},
                    "trace.ndjson": "".join(json.dumps(e, separators=(",", ":")) + "\n" for e in ch[s:k + 1])}
        return case_of

    vf.pmap(lambda ch: c.validate("InternTrace.tla", "InternTrace.cfg", ch, case_of=case_of_chunk(ch)), chunks, jobs=shards)
    total = sum(len(ch) for ch in chunks)
    c.cov["evaluations"] = total - n_hist
    c.cov["distinct_nontrivial"] = nontrivial
    c.cov["rule"] = ("all histories of <= %d environment::intern calls over the contents %s (= the model's %d states), each followed by all pairwise "
                     "==, !=, <, all mixed ==/!= with every content in both orders, conversions, hashes and a hash set; plus %d random histories of 32 "
                     "calls over the 31 strings of length <= 4 over {a, b}; non-trivial = history that interns at least two distinct contents "
                     "and some content twice" % (maxcalls, json.dumps(contents), m["distinct"], n_rand))
    c.cov["exhaustive"] = True
    c.cov["histories"] = n_hist
    for evs in evs_by_shard[1:2]:
        for e in evs[2:6]:
            c.sample(e)
    c.assumptions += ["object numbers are assigned by the harness in the order raw() pointers first appear; the null pointer of \"\" is an object",
                      "hash values are compared as recorded (four 16-bit words); only 'equal contents => equal hash' is demanded",
                      "harness/intern.cc records arguments and results faithfully"]
    c.finish()


def replay(path):
    """Re-run the history of a violation directory against the current tree and let TLC judge the new trace."""
    p = os.path.join(path, "case.json")
    if not os.path.exists(p):
        return vf.replay_event("InternTrace.tla", "InternTrace.cfg", path)
    case = json.load(open(p))
    vf.build("hooks")
    h = vf.build_harness("hooks", "intern")
    os.makedirs(os.path.join(vf.WORK, "C42-replay"), exist_ok=True)
    out = os.path.join(vf.WORK, "C42-replay", "h.ndjson")
    contents = case["contents"]
    r = vf.run([h, out, "--history", ",".join(contents), ",".join(str(contents.index(x)) for x in case["history"])], timeout=120)
    evs = [json.loads(l) for l in open(out) if l.endswith("}\n")]
    if r.exit != 0 or r.sig or r.timeout:
        evs.append({"e": "Aborted", "how": "sig%d-exit%d" % (r.sig, r.exit)})
    v = vf.tlc_validate("InternTrace.tla", "InternTrace.cfg", evs)
    print(json.dumps({"contents": contents, "history": case["history"], "events": len(evs)}))
    print("accepted" if v["accepted"] else "rejected: %s" % (v["bad"] or v["kf"],))
    return 0 if v["accepted"] else 1
