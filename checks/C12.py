"""C12 -- presentation options never change the verdict (exit status and the sets of removed / added / changed interfaces)."""
import os, itertools, re
import vf, campaign, report

PRES = ["--no-show-locs", "--show-bytes", "--show-bits", "--show-hex", "--show-dec", "--no-linkage-name", "--no-show-relative-offset-changes",
        "--no-corpus-path", "--no-architecture"]


def entry_key(n):
    """what identifies a listed interface in an entry that carries no generated name (a C++ member function): the quoted declaration; the source
    location, the `{linkage name}` suffix and the rest of the sentence are presentation, which the options under test change by design"""
    m = re.match(r"^'([^']*)'", n)
    if m:
        return m.group(1)
    n = re.sub(r"\s*\{[^{}]*\}\s*$", "", n)
    return re.sub(r"\s+at \S+:\d+:\d+.*$", "", n).strip()


def verdict_names(rep):
    out = []
    for sec in ("removed_fns", "added_fns", "changed_fns", "removed_vars", "added_vars", "changed_vars", "removed_fsyms", "added_fsyms", "removed_vsyms", "added_vsyms"):
        # an entry without a generated name (a C++ member function) is kept as printed, minus the `{linkage name}` suffix that --no-linkage-name removes by design
        out += ["%s:%s" % (sec, entry_key(n)) for n in rep["names"].get(sec, [])]
    return sorted(set(out))


def main():
    c = vf.Check("C12", "exploration")
    vf.build("hooks")
    c.model("Abi.tla", "AbiSmall.cfg" if c.thorough else "AbiSmallQuick.cfg")
    abidiff = vf.tool("hooks", "abidiff")
    cases = campaign.gen_pairs(c, 1200 if c.thorough else 90, MutCats='{"breaking", "harmless", "unlisted"}', MinMuts=0, MaxMuts=3)
    cases += campaign.gen_pairs(c, 600 if c.thorough else 40, name="gencxx", Lang='"cxx"', MutCats='{"breaking", "harmless", "unlisted"}', MinMuts=0, MaxMuts=3)
    subsets = [list(s) for k in range(1, len(PRES) + 1) for s in itertools.combinations(PRES, k)
               if not ({"--show-bytes", "--show-bits"} <= set(s) or {"--show-hex", "--show-dec"} <= set(s))]

    def one(job):
        idx, case = job
        a, e1, da = campaign.build_one(c, idx, case, "gcc", which=1, sub="a")
        b, e2, db = campaign.build_one(c, idx, case, "gcc", which=2, sub="b")
        if not a or not b:
            return []
        env = vf.henv(da)
        r0 = vf.run([abidiff, "--no-default-suppression", a, b], env=env)
        n0 = verdict_names(report.parse(r0.out))
        r = c.rng.__class__(c.seed * 31 + idx)
        evs = []
        for o in ([[x] for x in PRES] + r.sample(subsets, 6 if not c.thorough else 25)):
            r1 = vf.run([abidiff, "--no-default-suppression"] + o + [a, b], env=env)
            evs.append({"e": "SameVerdict", "case": idx, "opts": " ".join(o), "exit1": r0.exit, "exit2": r1.exit, "names1": n0,
                        "names2": verdict_names(report.parse(r1.out)), "ret": campaign.retof(r0, r1)})
        return evs

    events = [e for evs in vf.pmap(one, list(enumerate(cases))) for e in evs]
    c.cov["evaluations"] = len(events)
    c.cov["distinct_nontrivial"] = len({(e["case"], e["opts"]) for e in events if e["exit1"] != 0})
    c.cov["rule"] = ("TLC-generated program pairs with 0-3 mutations of any catalogue category x each presentation option alone + random subsets of the 9 options "
                     "(contradictory pairs excluded); baseline = no presentation option; non-trivial = distinct (pair, option set) whose baseline reports a change")
    for e in events[:3]:
        c.sample(e)
    case_of = lambda ev: campaign.case_files(os.path.join(c.workdir, "p%d" % ev["case"]))
    vf.pmap(lambda i: c.validate("AbiTrace.tla", "AbiTrace.cfg", events[i:i + 3000], case_of=case_of), range(0, len(events), 3000), jobs=4)
    c.finish()


def replay(path):
    return vf.replay_event("AbiTrace.tla", "AbiTrace.cfg", path)
