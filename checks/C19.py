"""C19 -- symbol-only comparisons report exactly the symbol set difference (campaign X restricted to declaration-less corpora)."""
from checks import C11


def main():
    C11.main("C19", "setdiff")


replay = C11.replay
