"""C08 -- exit status obeys the documented bit-field and agrees with the report.

Model: spec/Tools.tla (main() of abidiff and abicompat as control-flow machines over argument / input classes; lattice,
change-bit <=> net change, load failure => error, all checked by TLC over every run record).
Conformance: (A) every argument class x input class pair is *constructed* (the class is established by construction,
independently of libabigail) and the real tool's exit status must equal Tools!AbidiffExit / AbicompatExit;
(B) real comparisons of TLC-generated program pairs: lattice on the status and change bit <=> parsed summary has a net change."""
import os, shutil, struct, subprocess, json
import vf, campaign, report


def make_inputs(c, d, abidw):
    """One well-known library in every input class.  Returns dict class -> path."""
    os.makedirs(d, exist_ok=True)
    src = "struct S { int a; long b; };\nint fn1(struct S* s) { return s->a; }\nint fn2(int x) { return x; }\nint var1;\n"
    open(os.path.join(d, "l.c"), "w").write(src)
    subprocess.run(["gcc", "-g", "-shared", "-fPIC", "-o", "lib.so", "l.c"], cwd=d, check=True)
    so = os.path.join(d, "lib.so")
    abi = os.path.join(d, "lib.abi")
    vf.run([abidw, "--no-corpus-path", "--out-file", abi, so], env=vf.henv(d))
    doc = open(abi).read()
    P = {}
    P["elf"] = so
    P["xml"] = abi
    P["group"] = os.path.join(d, "group.abi")
    open(P["group"], "w").write("<abi-corpus-group version='2.1' architecture='elf-amd-x86_64'>\n" + doc + "</abi-corpus-group>\n")
    a, b = doc.index("<abi-instr"), doc.index("</abi-instr>") + len("</abi-instr>")
    P["bi"] = os.path.join(d, "tu.bi")
    open(P["bi"], "w").write(doc[a:b] + "\n")
    P["xml-fail"] = os.path.join(d, "trunc.abi")
    open(P["xml-fail"], "w").write(doc[:len(doc) * 2 // 3])
    P["group-fail"] = os.path.join(d, "trunc-group.abi")
    g = open(P["group"]).read()
    open(P["group-fail"], "w").write(g[:len(g) * 2 // 3])
    P["bi-fail"] = os.path.join(d, "trunc.bi")
    open(P["bi-fail"], "w").write(doc[a:a + (b - a) // 2])
    raw = open(so, "rb").read()
    shoff = struct.unpack_from("<Q", raw, 0x28)[0]
    P["elf-fail"] = os.path.join(d, "trunc.so")          # cut before the section header table: no section can be read
    open(P["elf-fail"], "wb").write(raw[:min(shoff - 1, len(raw) // 2)])
    P["unknown"] = os.path.join(d, "notes.txt")
    open(P["unknown"], "w").write("this is not an ABI artefact\n")
    P["missing"] = os.path.join(d, "does-not-exist.so")
    P["notregular"] = os.path.join(d, "adir")
    os.makedirs(P["notregular"], exist_ok=True)
    P["archive"] = os.path.join(d, "pkg.tar")
    subprocess.run(["tar", "cf", "pkg.tar", "l.c"], cwd=d, check=True)
    # a changed second version: fn2 removed (net + incompatible), and a version with only a sub-type change (net only)
    open(os.path.join(d, "l2.c"), "w").write(src.replace("int fn2(int x) { return x; }\n", ""))
    subprocess.run(["gcc", "-g", "-shared", "-fPIC", "-o", "lib2.so", "l2.c"], cwd=d, check=True)
    open(os.path.join(d, "l3.c"), "w").write(src.replace("long b;", "long b; char c;"))
    subprocess.run(["gcc", "-g", "-shared", "-fPIC", "-o", "lib3.so", "l3.c"], cwd=d, check=True)
    P["elf-removed"] = os.path.join(d, "lib2.so")
    P["elf-changed"] = os.path.join(d, "lib3.so")
    P["xml-oldversion"] = os.path.join(d, "v1.abi")
    open(P["xml-oldversion"], "w").write(doc.replace("version='2.1'", "version='1.0'", 1))
    open(os.path.join(d, "all.suppr"), "w").write("[suppress_file]\n  file_name_regexp = .*\n")
    open(os.path.join(d, "none.suppr"), "w").write("[suppress_function]\n  name = no_such_function_anywhere\n")
    open(os.path.join(d, "app.c"), "w").write("extern int fn1(void*);\nextern int fn2(int);\nint main(void) { return fn1(0) + fn2(1); }\n")
    subprocess.run(["gcc", "-g", "-o", "app", "app.c", "./lib.so"], cwd=d, check=True)
    P["app"] = os.path.join(d, "app")
    return P


CLASSES = ["missing", "notregular", "unknown", "elf", "elf-fail", "xml", "xml-fail", "group", "group-fail", "bi", "bi-fail", "archive"]


def abidiff_runs(P, d):
    runs = []
    base = {"tool": "abidiff", "args": "ok", "suppr": "none", "suppressed": False, "symtabs": False, "vmismatch": False, "net": False, "incompat": False,
            "f3": "elf", "weak": False, "listonly": False}
    for a in CLASSES:
        for b in CLASSES:
            runs.append((dict(base, f1=a, f2=b), ["--no-default-suppression", P[a], P[b]]))
    e, x = P["elf"], P["xml"]
    runs += [
        (dict(base, f1="elf", f2="elf", args="bad-option"), ["--no-such-option", e, e]),
        (dict(base, f1="elf", f2="elf", args="missing-operand"), [e, e, "--suppressions"]),
        (dict(base, f1="elf", f2="elf", args="missing-operand"), ["--headers-dir1"]),
        (dict(base, f1="elf", f2="elf", args="help"), ["--help"]),
        (dict(base, f1="elf", f2="elf", args="version"), ["--version"]),
        (dict(base, f1="elf", f2="elf", args="too-many-files"), [e, e, e]),
        (dict(base, f1="elf", f2="elf", args="no-file"), []),
        (dict(base, f1="elf", f2="elf", args="one-file"), [e]),
        (dict(base, f1="xml", f2="xml", args="one-file"), ["--no-default-suppression", x]),
        (dict(base, f1="elf", f2="elf", suppr="missing"), ["--suppressions", os.path.join(d, "nope.suppr"), e, e]),
        (dict(base, f1="elf", f2="elf", suppr="ok"), ["--suppressions", os.path.join(d, "none.suppr"), e, e]),
        (dict(base, f1="elf", f2="elf", suppr="ok", suppressed=True), ["--suppressions", os.path.join(d, "all.suppr"), e, P["elf-removed"]]),
        (dict(base, f1="elf", f2="elf", symtabs=True), ["--symtabs", e, P["elf-removed"]]),
        (dict(base, f1="xml", f2="xml", vmismatch=True), [P["xml-oldversion"], x]),
        (dict(base, f1="xml", f2="xml", vmismatch=True), [x, P["xml-oldversion"]]),
        (dict(base, f1="elf", f2="elf", net=True, incompat=True), ["--no-default-suppression", e, P["elf-removed"]]),
        (dict(base, f1="elf", f2="elf", net=True, incompat=False), ["--no-default-suppression", e, P["elf-changed"]]),
        (dict(base, f1="xml", f2="elf", net=True, incompat=True), ["--no-default-suppression", x, P["elf-removed"]]),
        (dict(base, f1="elf", f2="elf", net=True, incompat=False), ["--no-default-suppression", P["elf-removed"], e]),
    ]
    return runs


def abicompat_runs(P, d):
    base = {"tool": "abicompat", "args": "ok", "suppr": "none", "suppressed": False, "symtabs": False, "vmismatch": False, "net": False, "incompat": False,
            "weak": False, "listonly": False}
    runs = []
    app = P["app"]
    libs = ["missing", "notregular", "unknown", "elf", "elf-fail", "xml", "xml-fail", "archive"]
    for a in libs:
        for b in libs:
            runs.append((dict(base, f1="elf", f2=a, f3=b), [app, P[a], P[b]]))
    for a in ["missing", "notregular", "unknown", "elf-fail", "xml", "archive"]:
        runs.append((dict(base, f1=a, f2="elf", f3="elf"), [P[a], P["elf"], P["elf"]]))
    e = P["elf"]
    runs += [
        (dict(base, f1="elf", f2="elf", f3="elf", args="bad-option"), ["--no-such-option", app, e, e]),
        (dict(base, f1="elf", f2="elf", f3="elf", args="help"), ["--help"]),
        (dict(base, f1="elf", f2="elf", f3="elf", args="version"), ["--version"]),
        (dict(base, f1="elf", f2="elf", f3="elf", args="wrong-invocation"), []),
        (dict(base, f1="elf", f2="elf", f3="elf", args="wrong-invocation"), [app]),
        (dict(base, f1="elf", f2="elf", f3="elf", args="wrong-invocation"), [app, e, e, e]),
        (dict(base, f1="elf", f2="elf", f3="elf", args="redundant-conflict"), ["--redundant", "--no-redundant", app, e, e]),
        (dict(base, f1="elf", f2="elf", f3="elf", listonly=True), ["--list-undefined-symbols", app]),
        (dict(base, f1="elf", f2="elf", f3="missing", weak=True), ["--weak-mode", app, e]),
        (dict(base, f1="elf", f2="elf", f3="elf", net=True, incompat=True), [app, e, P["elf-removed"]]),
        (dict(base, f1="elf", f2="elf", f3="elf", net=True), [app, e, P["elf-changed"]]),
    ]
    return runs


def symbol_only_pairs(d):
    """(C) pairs whose difference is (partly) in ELF symbols that have no debug info: a library made of core.c (-g) and legacy.c (-g0);
    version 2 removes / adds a function symbol and / or a variable symbol of legacy.c, with or without a type change in core.c.
    -> [(tag, lib1, lib2)]"""
    os.makedirs(d, exist_ok=True)
    core = "struct S { int a; };\nint fn1(struct S* s) { return s->a; }\nint var1;\n"
    def legacy(fns, vs):
        return "".join("int lf%d(void) { return %d; }\n" % (i, i) for i in fns) + "".join("int lv%d = %d;\n" % (i, i) for i in vs)
    def build(tag, core_src, fns, vs):
        sub = os.path.join(d, tag)
        os.makedirs(sub, exist_ok=True)
        open(os.path.join(sub, "core.c"), "w").write(core_src)
        open(os.path.join(sub, "legacy.c"), "w").write(legacy(fns, vs))
        subprocess.run(["gcc", "-g", "-fPIC", "-c", "core.c"], cwd=sub, check=True)
        subprocess.run(["gcc", "-g0", "-fPIC", "-c", "legacy.c"], cwd=sub, check=True)
        subprocess.run(["gcc", "-shared", "-o", "lib.so", "core.o", "legacy.o"], cwd=sub, check=True)
        return os.path.join(sub, "lib.so")
    v1 = build("v1", core, [1, 2], [1, 2])
    out = []
    for bits in range(32):
        rf, af, rv, av, ch = [(bits >> k) & 1 for k in range(5)]
        fns = [1] + ([] if rf else [2]) + ([3] if af else [])
        vs = [1] + ([] if rv else [2]) + ([3] if av else [])
        tag = "v2-%s%s%s%s%s" % ("rf" * rf, "af" * af, "rv" * rv, "av" * av, "ch" * ch) if bits else "v2-same"
        out.append((tag, v1, build(tag, core.replace("int a;", "int a; int b;") if ch else core, fns, vs)))
    return out


def main():
    c = vf.Check("C08", "model_checking")
    vf.build("hooks")
    c.model("Tools.tla", "Tools.cfg")
    abidiff, abicompat, abidw = vf.tool("hooks", "abidiff"), vf.tool("hooks", "abicompat"), vf.tool("hooks", "abidw")
    d = os.path.join(c.workdir, "inputs")
    P = make_inputs(c, d, abidw)
    env = vf.henv(d)

    def run_one(job):
        rec, args = job
        r = vf.run([abidiff if rec["tool"] == "abidiff" else abicompat] + args, env=env, cwd=d)
        ev = dict(rec)
        ev.update({"e": "Run", "exit": r.exit, "ret": campaign.retof(r), "argv": [a.replace(d + "/", "") for a in args], "err": r.err[:200]})
        return ev

    evA = vf.pmap(run_one, abidiff_runs(P, d) + abicompat_runs(P, d))
    c.validate("ToolsTrace.tla", "ToolsTrace.cfg", evA)

    # (B) real comparisons: lattice + change bit <=> summary
    cases = campaign.gen_pairs(c, 1500 if c.thorough else 150, MutCats='{"breaking", "harmless", "unlisted"}', MinMuts=0, MaxMuts=3)
    optsets = [[], ["--leaf-changes-only"], ["--harmless"], ["--no-added-syms"], ["--no-unreferenced-symbols"], ["--redundant"], ["--stat"],
               ["--deleted-fns"], ["--changed-vars"], ["--no-harmful"]]

    def cmp_one(job):
        idx, case = job
        a, e1, da = campaign.build_one(c, idx, case, "gcc", which=1, sub="a")
        b, e2, db = campaign.build_one(c, idx, case, "gcc", which=2, sub="b")
        if not a or not b:
            return []
        evs = []
        for o in optsets:
            r = vf.run([abidiff, "--no-default-suppression"] + o + [a, b], env=vf.henv(da))
            rep = report.parse(r.out)
            has_sum = bool(rep["summary"]) or bool(rep["leaf"])
            evs.append({"e": "Verdict", "tool": "abidiff", "case": idx, "opts": " ".join(o), "exit": r.exit, "hasSummary": has_sum or r.out == "",
                        "summaryNet": report.has_net_change(rep), "ret": campaign.retof(r), "out": r.out[:500]})
        return evs

    evB = [e for evs in vf.pmap(cmp_one, list(enumerate(cases))) for e in evs]

    # (C) the same guard on pairs that differ in symbols without debug info (both directions)
    sym_pairs = symbol_only_pairs(os.path.join(c.workdir, "symonly"))

    def sym_one(job):
        n, (tag, l1, l2) = job
        evs = []
        for a, b, direction in ((l1, l2, "1-2"), (l2, l1, "2-1")):
            for o in optsets:
                r = vf.run([abidiff, "--no-default-suppression"] + o + [a, b], env=vf.henv(os.path.dirname(l2)))
                rep = report.parse(r.out)
                has_sum = bool(rep["summary"]) or bool(rep["leaf"])
                evs.append({"e": "Verdict", "tool": "abidiff", "case": 100000 + n, "opts": " ".join(o), "exit": r.exit, "hasSummary": has_sum or r.out == "",
                            "summaryNet": report.has_net_change(rep), "ret": campaign.retof(r), "out": r.out[:500], "symonly": tag + " " + direction})
        return evs
    evC = [e for evs in vf.pmap(sym_one, list(enumerate(sym_pairs))) for e in evs]
    c.cov["symbol_only_pairs"] = len(sym_pairs)
    evB += evC
    def case_of(ev):
        if "symonly" in ev:
            tag = ev["symonly"].split()[0]
            return {"%s_%s" % (t, f): open(os.path.join(c.workdir, "symonly", t, f)).read() for t in ("v1", tag) for f in ("core.c", "legacy.c")} | {
                "how.txt": "gcc -g -fPIC -c core.c; gcc -g0 -fPIC -c legacy.c; gcc -shared -o lib.so core.o legacy.o  (per version); abidiff --no-default-suppression %s <libs in direction %s>" % (ev["opts"], ev["symonly"].split()[1])}
        return campaign.case_files(os.path.join(c.workdir, "p%d" % ev["case"])) if "case" in ev else {}
    vf.pmap(lambda i: c.validate("ToolsTrace.tla", "ToolsTrace.cfg", evB[i:i + 3000], case_of=case_of), range(0, len(evB), 3000), jobs=4)
    c.cov["evaluations"] = len(evA) + len(evB)
    c.cov["distinct_nontrivial"] = len({(e["tool"], e["args"], e["f1"], e["f2"], e.get("f3")) for e in evA}) + len({(e["case"], e["opts"]) for e in evB if e["exit"] != 0})
    c.cov["rule"] = ("(A) every pair of the 12 input classes for abidiff (and 8x8 library classes for abicompat) plus every argument class, constructed so that the class is known "
                     "independently; exit must equal Tools!AbidiffExit/AbicompatExit.  (B) TLC-generated program pairs with 0-3 mutations x 10 option sets: status lattice and "
                     "change bit <=> parsed summary has a net change; (C) the same on 32 pairs x 2 directions that add / remove function and variable symbols without debug info (with and "
                     "without a type change beside them); non-trivial = distinct class tuples + distinct (pair, option set) with non-zero status")
    for e in evA[:2] + evB[:2]:
        c.sample(e)
    c.finish()


def replay(path):
    return vf.replay_event("ToolsTrace.tla", "ToolsTrace.cfg", path)
