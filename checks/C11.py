"""C11 -- removal in one direction is addition in the other (and C19 shares the machinery: see checks/C19.py).

Model: CorpusDiff.tla (transcription of the lookup tables of corpus_diff; Mirror holds except for the named deviation
KF_DefaultVersionReexport; TLC also shows strict Mirror violated).  Campaign X: EVERY pair of corpora of the model's universe
is rendered as ABIXML and compared by the real abidiff in both directions; TLC validates each observation against the
transcription and against the property."""
import os, sys
import vf, campaign, report
sys.path.insert(0, os.path.join(vf.VERIF, "render"))
import xcorpus


def observe(rep, exit_):
    g = lambda k: rep["ids"].get(k, [])
    return {"removedDecls": g("removed_fns") + g("removed_vars"), "addedDecls": g("added_fns") + g("added_vars"),
            "removedSyms": g("removed_fsyms") + g("removed_vsyms"), "addedSyms": g("added_fsyms") + g("added_vsyms"), "exit": exit_}


def run_pairs(c, pairs, prop):
    abidiff = vf.tool("hooks", "abidiff")
    d = os.path.join(c.workdir, "x")
    os.makedirs(d, exist_ok=True)
    env = vf.henv(d)

    def one(job):
        i, (a, b) = job
        kind = "fn" if i % 3 else "var"
        ren = lambda C: [dict(s, n=(s["n"] if kind == "fn" else s["n"].replace("fn", "var"))) for s in C]
        a2, b2 = ren(a), ren(b)
        fa, fb = os.path.join(d, "%d.a.abi" % i), os.path.join(d, "%d.b.abi" % i)
        open(fa, "w").write(xcorpus.render(a2, kind))
        open(fb, "w").write(xcorpus.render(b2, kind))
        r1 = vf.run([abidiff, "--no-default-suppression", fa, fb], env=env)
        r2 = vf.run([abidiff, "--no-default-suppression", fb, fa], env=env)
        ev = {"e": "SymDiff", "case": i, "prop": prop, "kind": kind, "a": a2, "b": b2, "ab": observe(report.parse(r1.out), r1.exit),
              "ba": observe(report.parse(r2.out), r2.exit), "ret": campaign.retof(r1, r2)}
        os.remove(fa)
        os.remove(fb)
        return ev
    return vf.pmap(one, list(enumerate(pairs)))


def gen_pairs(c, names, versions, maxsyms, declless=False):
    cfg = os.path.join(c.workdir, "gen.cfg")
    open(cfg, "w").write('CONSTANTS Names = {%s}\n Versions = {%s}\n MaxSyms = %d\nSPECIFICATION Spec\nCONSTRAINT EmitPair\nCHECK_DEADLOCK FALSE\n' %
                         (",".join('"%s"' % n for n in names), ",".join('"%s"' % v for v in versions), maxsyms))
    g = vf.tlc_generate("CorpusDiff.tla", cfg, workers=1, timeout=3000, heap="6g")
    pairs = [(x["a"], x["b"]) for x in g["cases"]]
    if declless:
        pairs = [(a, b) for a, b in pairs if not any(s["decl"] for s in a + b)]
    return pairs, g["distinct"]


def main(pid="C11", prop="mirror"):
    c = vf.Check(pid, "model_checking")
    vf.build("hooks")
    mcfg = os.path.join(c.workdir, "model.cfg")
    # universes of the model run (each exhaustive): two names under one version with up to 3 symbols; one name under two versions; thorough adds two names
    # under two versions with up to 2 symbols per corpus (3 would be ~10^6 pairs of corpora)
    universes = [(["fn1", "fn2"], ["V1"], 3), (["fn1"], ["V1", "V2"], 3 if c.thorough else 2)] + ([(["fn1", "fn2"], ["V1", "V2"], 2)] if c.thorough else [])
    for k, (names, versions, maxsyms) in enumerate(universes):
        mcfg = os.path.join(c.workdir, "model%d.cfg" % k)
        open(mcfg, "w").write('CONSTANTS Names = {%s}\n Versions = {%s}\n MaxSyms = %d\nSPECIFICATION Spec\nINVARIANTS MirrorOrKnown SetDifferenceOrKnown SelfDiffEmpty ExitLattice\nCHECK_DEADLOCK FALSE\n' %
                              (",".join('"%s"' % n for n in names), ",".join('"%s"' % v for v in versions), maxsyms))
        c.model("CorpusDiff.tla", mcfg, heap="8g", workers=8)
    strict = vf.tlc_check("CorpusDiff.tla", "CorpusDiffStrict.cfg")
    c.cov["strict_mirror_holds_in_model"] = strict["ok"]      # expected False: the model itself exhibits the listed deviation
    gn, gv, gm = (["fn1", "fn2"], ["V1", "V2"], 2) if c.thorough else (["fn1", "fn2"], ["V1"], 2)
    pairs, nstates = gen_pairs(c, gn, gv, gm, declless=(prop == "setdiff"))
    if not c.thorough:
        # second stratum of the quick tier: ONE name under TWO versions (name@V1 beside name@@V2 ...), which the universe above cannot express
        pairs2, n2 = gen_pairs(c, ["fn1"], ["V1", "V2"], 2, declless=(prop == "setdiff"))
        seen = {vf.sha(repr(p)) for p in pairs}
        pairs += [p for p in pairs2 if vf.sha(repr(p)) not in seen]
        nstates += n2
        c.cov["pairs_one_name_two_versions"] = len(pairs2)
    events = run_pairs(c, pairs, prop)
    c.cov["evaluations"] = len(events)
    c.cov["exhaustive"] = True
    c.cov["distinct_nontrivial"] = sum(1 for e in events if e["ab"]["exit"] != 0 or e["ba"]["exit"] != 0)
    c.cov["rule"] = ("every pair of well-formed corpora with <= %d symbols over names %s, versions {none, %s} x {default, non-default} x {with, without declaration}%s "
                     "(quick tier: plus every such pair over the single name fn1 with versions {none, V1, V2}; enumerated by TLC: %d model states), rendered as ABIXML and compared in both directions by abidiff; non-trivial = pairs with a non-zero exit in some direction"
                     % (gm, gn, ",".join(gv), " restricted to declaration-less corpora" if prop == "setdiff" else "", nstates))
    for e in events[1:4]:
        c.sample(e)
    vf.pmap(lambda i: c.validate("CorpusDiffTrace.tla", "CorpusDiffTrace.cfg", events[i:i + 2500]), range(0, len(events), 2500), jobs=4)
    c.finish()


def replay(path):
    return vf.replay_event("CorpusDiffTrace.tla", "CorpusDiffTrace.cfg", path)
