"""Shared by checks/C33.py and checks/C35.py: running the tools of the sanitizer build under a CPU-time limit and
projecting how a run ended (this module only projects: ret / kind / fn / foreign are FACTS about the run's stderr and
wait status; spec/ReaderTrace.tla decides what is a violation).

  ret   "ok" | "sigN" | "timeout" | "san"          how the process ended (an ASan-handled signal counts as the signal)
  kind  "none" | "assert" (ABG_ASSERT / ABG_ASSERT_NOT_REACHED) | "abort" (silent abort()) | "segv" | "stack-overflow" |
        "fpe" | "throw:<type>" | "san:<report>" | "sigN" | "timeout"
  fn    the function containing the failed assertion (from the assertion text), else the innermost frame of the first
        stack that is neither the runtime nor an inlined standard-library template; for a stack overflow the function that
        recurses (the most frequent one).  Never a line number or an address.
  foreign  that frame belongs to libxml2 / libelf / libdw / a compression library

Frames come from the sanitizer's report (the `asan` build is run with handle_abort=1 so that an abort also has one) or,
for the unsanitized `hooks` build, from a re-run under gdb.  Helpers of checks/_elfhash.py are reused."""
import collections, os, re
import vf
from checks import _elfhash as eh

CPU_SIG = 24
_ASAN = "detect_leaks=0:abort_on_error=0:exitcode=86:allocator_may_return_null=1:max_allocation_size_mb=2048:handle_abort=1"
_SKIP_FN = ("std::", "__gnu_cxx::", "__cxxabiv1::", "__dynamic_cast", "__cxa_", "__interceptor", "void std::", "_Unwind", "__gxx_personality")
_FRAME = re.compile(r"^\s*#(\d+) 0x[0-9a-f]+ (?:in (.+?) )?(\(?[^\s()]+(?:\+0x[0-9a-f]+)?\)?)\s*$", re.M)
_GDB = re.compile(r"^#(\d+)\s+(?:0x[0-9a-f]+ in )?(.+?)\s*(?: from (\S+)| at (\S+))?$", re.M)


def env(scratch):
    return vf.henv(scratch, extra={"ASAN_OPTIONS": _ASAN})


def run(cmd, scratch, cpu, stdin=None):
    """run under a CPU-time limit (prlimit, SIGXCPU): independent of the load of the machine; the wall clock is a backstop"""
    os.makedirs(scratch, exist_ok=True)
    return vf.run(["prlimit", "--cpu=%d:%d" % (cpu, cpu + 5), "--"] + list(cmd), env=env(scratch), timeout=max(900, 40 * cpu))


_NAMESPACES = {"abigail", "xml_reader", "xml_writer", "ir", "comparison", "dwarf_reader", "ctf_reader", "elf_reader", "tools_utils", "suppr", "symtab_reader",
               "elf_helpers", "ini", "xml", "workers", "diff_utils", "hashing", "regex", "sptr_utils", "interned_string_pool", "abidiff", "(anonymous", "{anonymous}"}


def norm_fn(fn):
    """stable name of a function: no arguments / template arguments / return type / ABI tag, and no libabigail namespace (the symbolizer omits the
    namespaces of static functions, __FUNCTION__ omits everything): class::method or function"""
    fn = eh.short_fn(fn.replace("[abi:cxx11]", "").replace("(anonymous namespace)", "{anonymous}"))
    parts = fn.split("::")
    while len(parts) > 1 and parts[0] in _NAMESPACES:
        parts.pop(0)
    return "::".join(parts)


def _first_stack(err):
    """[(function, location)] of the first stack of a sanitizer report"""
    out, last = [], -1
    for m in _FRAME.finditer(err):
        n = int(m.group(1))
        if n <= last:
            break
        last = n
        out.append((m.group(1 + 1) or "", m.group(3)))
    return out


def _gdb_stack(text):
    out, last = [], -1
    for m in _GDB.finditer(text):
        n = int(m.group(1))
        if n <= last:
            break
        last = n
        out.append((m.group(2), m.group(3) or m.group(4) or ""))
    return out


def _site(frames, recursion=False):
    """(fn, foreign) -- see the module text"""
    own = []
    for fn, loc in frames:
        if not fn or fn.startswith(eh._RUNTIME) or any(x in loc for x in eh._RUNTIME_LOC) or fn.startswith(_SKIP_FN):
            continue
        own.append((norm_fn(fn), any(x in loc for x in eh._FOREIGN_LOC)))
    if not own:
        return "", False
    if recursion:
        cnt = collections.Counter(f for f, _ in own)
        top = max(cnt.values())
        f = sorted(k for k, v in cnt.items() if v >= top - 1)[0]
        return f, dict(own)[f]
    return own[0]


def assert_fn(err):
    m = re.search(r"^[^:\n]+: [^:\n]+:\d+: (.*?): Assertion `", err, re.M)
    if m:
        return norm_fn(m.group(1))
    m = re.search(r"^in (\S+) at: [^\n]*should not have reached", err, re.M)      # ABG_ASSERT_NOT_REACHED
    return norm_fn(m.group(1)) if m else ""


def _ubsan(msg):
    t = re.sub(r"0x[0-9a-f]+|-?\d+", "N", msg)
    t = re.sub(r" (for|of|to) type .*$| in type .*$|, which .*$| within .*$", "", t)
    return t[:48].strip().replace(" ", "-").replace("'", "")


def classify(r):
    """vf.Res -> dict(ret, kind, fn, foreign, needs_stack)"""
    err = r.err
    res = {"ret": "ok", "kind": "none", "fn": "", "foreign": False, "needs_stack": False}
    if r.timeout or r.sig == CPU_SIG:
        res.update(ret="timeout", kind="timeout")
        return res
    thrown = re.search(r"terminate called after throwing an instance of '([^']*)'", err)
    is_assert = ("Assertion `" in err or "should not have reached this point" in err)
    m = re.search(r"ERROR: AddressSanitizer: ([\w-]+)", err)
    if m:
        what = m.group(1)
        fr = _first_stack(err)
        if what == "ABRT":
            res["ret"] = "sig6"
            if is_assert:
                res.update(kind="assert", fn=assert_fn(err))
                res["foreign"] = _site(fr)[1] if not res["fn"] else False
            elif thrown:
                f, fo = _site(fr)
                res.update(kind="throw:" + thrown.group(1), fn=f, foreign=fo)
            else:
                f, fo = _site(fr)
                res.update(kind="abort", fn=f, foreign=fo)
        elif what == "stack-overflow":
            f, fo = _site(fr, recursion=True)
            res.update(ret="sig11", kind="stack-overflow", fn=f, foreign=fo)
        elif what in ("SEGV", "BUS", "FPE", "ILL"):
            f, fo = _site(fr)
            res.update(ret={"SEGV": "sig11", "BUS": "sig7", "FPE": "sig8", "ILL": "sig4"}[what], kind={"SEGV": "segv", "FPE": "fpe"}.get(what, what.lower()), fn=f, foreign=fo)
        else:
            f, fo = _site(fr)
            res.update(ret="san", kind="san:asan:" + what, fn=f, foreign=fo)
        res["needs_stack"] = not res["fn"]          # "<empty stack>": the sanitizer could not unwind (deep recursion); gdb can
        return res
    m = re.search(r"runtime error: ([^\n]*)", err)
    if m:
        f, fo = _site(_first_stack(err))
        res.update(ret="san", kind="san:ubsan:" + _ubsan(m.group(1)), fn=f, foreign=fo)
        return res
    if "AddressSanitizer" in err or (r.exit in (86, 87) and not r.sig):
        res.update(ret="san", kind="san:unparsed")
        return res
    if r.sig:
        res["ret"] = "sig%d" % r.sig
        if r.sig == 6 and is_assert:
            res.update(kind="assert", fn=assert_fn(err))
        elif r.sig == 6 and thrown:
            res.update(kind="throw:" + thrown.group(1), needs_stack=True)
        elif r.sig == 6:
            res.update(kind="abort", needs_stack=True)
        elif r.sig == 11:
            res.update(kind="segv", needs_stack=True)
        elif r.sig == 8:
            res.update(kind="fpe", needs_stack=True)
        else:
            res.update(kind="sig%d" % r.sig, needs_stack=True)
    return res


def gdb_site(cmd, scratch, cpu, res):
    """re-run an unsanitized crashing command under gdb and fill fn / foreign (a segv whose stack is a deep recursion is a
    stack overflow); leaves fn empty when gdb shows nothing usable"""
    os.makedirs(scratch, exist_ok=True)
    r = vf.run(["prlimit", "--cpu=%d:%d" % (cpu, cpu + 5), "--", "gdb", "-batch", "-nx", "-ex", "set confirm off", "-ex", "set debuginfod enabled off",
                "-ex", "run", "-ex", "bt 400", "--args"] + list(cmd), env=env(scratch), timeout=max(900, 40 * cpu))
    fr = _gdb_stack(r.out)
    if not fr:
        return res
    own = [norm_fn(f) for f, loc in fr if f and not f.startswith(eh._RUNTIME) and not f.startswith(_SKIP_FN) and not any(x in loc for x in eh._RUNTIME_LOC)]
    deep = len(fr) >= 390 and own and collections.Counter(own).most_common(1)[0][1] >= 30
    if res["kind"] == "segv" and deep:
        res["kind"] = "stack-overflow"
    f, fo = _site(fr, recursion=(res["kind"] == "stack-overflow"))
    res.update(fn=f, foreign=fo)
    return res


def site_name(fn):
    """last component of a function name (what spec/Reader.tla calls a site)"""
    return fn.split("::")[-1] if fn else ""
