"""C09 -- an unreadable input is never reported as 'no change'.

Model: Tools!LoadFailIsError over every run record (TLC).  Fault enumeration: for ABIXML documents that abidw emits for
TLC-generated programs, *every* proper prefix at line boundaries (quick) / byte boundaries (thorough) -- what a crash of
abidw would leave -- and structure-breaking corruptions; plus missing, empty, unrecognized and truncated-ELF inputs.  A case
counts only if an independent parser (expat) rejects the file.  Each is given to abidiff in both positions and to
abicompat as library; TLC validates the recorded exits against ToolsTrace (error bit required)."""
import os, struct, subprocess
import vf, campaign, abixml


def corruptions(doc, rng, n):
    """structure-breaking byte edits of a document (bytes)"""
    out = []
    for _ in range(n):
        b = bytearray(doc)
        kind = rng.choice(["drop-gt", "drop-quote", "dup-lt", "cut-middle", "drop-close"])
        if kind == "drop-gt":
            idx = [i for i, ch in enumerate(b) if ch == ord(">")]
            del b[rng.choice(idx)]
        elif kind == "drop-quote":
            idx = [i for i, ch in enumerate(b) if ch == ord("'")]
            del b[rng.choice(idx)]
        elif kind == "dup-lt":
            idx = [i for i, ch in enumerate(b) if ch == ord("<")]
            b.insert(rng.choice(idx), ord("<"))
        elif kind == "cut-middle":
            i = rng.randrange(len(b) // 4, len(b) // 2)
            del b[i:i + rng.randrange(5, 200)]
        else:
            s = bytes(b)
            k = s.rfind(b"</")
            b = bytearray(s[:k] + s[s.index(b">", k) + 1:])
        out.append((kind, bytes(b)))
    return out


def main():
    c = vf.Check("C09", "fault_enumeration")
    vf.build("hooks")
    c.model("Tools.tla", "Tools.cfg")
    abidiff, abicompat, abidw = vf.tool("hooks", "abidiff"), vf.tool("hooks", "abicompat"), vf.tool("hooks", "abidw")
    cases = campaign.programs(c, 12 if c.thorough else 3)
    from checks.C08 import make_inputs
    base = os.path.join(c.workdir, "inputs")
    P = make_inputs(c, base, abidw)
    docs = [("hand", open(P["xml"], "rb").read(), P["elf"]), ("hand-group", open(P["group"], "rb").read(), None)]
    for i, cs in enumerate(cases):
        path, err, d = campaign.build_one(c, i, cs, "gcc")
        if not path:
            continue
        abi = path + ".abi"
        vf.run([abidw, "--out-file", abi, path], env=vf.henv(d))
        if os.path.exists(abi):
            docs.append(("p%d" % i, open(abi, "rb").read(), path))

    jobs = []
    fd = os.path.join(c.workdir, "faults")
    os.makedirs(fd, exist_ok=True)
    n = 0
    for name, doc, elf in docs:
        if c.thorough:
            cuts = list(range(0, len(doc)))
            if len(cuts) > 2500:
                cuts = sorted(c.rng.sample(cuts, 2500))
        else:
            cuts = sorted({0} | {i + 1 for i, ch in enumerate(doc) if ch == 10} | {c.rng.randrange(len(doc)) for _ in range(25)})
        variants = [("prefix@%d" % k, doc[:k]) for k in cuts if k < len(doc)] + corruptions(doc, c.rng, 60 if c.thorough else 15)
        for kind, data in variants:
            if abixml.well_formed(data) and data.strip():
                c.discard("variant-is-well-formed")
                continue
            fn = os.path.join(fd, "f%d.abi" % n)
            n += 1
            open(fn, "wb").write(data)
            good = os.path.join(fd, name + ".good.abi")
            if not os.path.exists(good):
                open(good, "wb").write(doc)
            jobs.append((name, kind, fn, good))
    # other unloadable inputs
    for cls in ["missing", "unknown", "elf-fail", "notregular", "bi-fail"]:
        jobs.append(("hand", "class:" + cls, P[cls], P["xml"] if cls != "elf-fail" else P["elf"]))
    empty = os.path.join(fd, "empty.abi")
    open(empty, "w").close()
    jobs.append(("hand", "empty-file", empty, P["xml"]))

    env = vf.henv(fd)

    def one(job):
        name, kind, bad, good = job
        evs = []
        for pos, args in ((1, [bad, good]), (2, [good, bad])):
            r = vf.run([abidiff, "--no-default-suppression"] + args, env=env)
            evs.append({"e": "Load", "tool": "abidiff", "doc": name, "kind": kind, "pos": pos, "unloadable": True, "exit": r.exit, "ret": campaign.retof(r),
                        "file": os.path.basename(bad), "err": r.err[:160]})
        if not name.endswith("group") and kind != "class:bi-fail":
            for pos, args in ((2, [P["app"], bad, P["elf"]]), (3, [P["app"], P["elf"], bad])):
                r = vf.run([abicompat] + args, env=env)
                evs.append({"e": "Load", "tool": "abicompat", "doc": name, "kind": kind, "pos": pos, "unloadable": True, "exit": r.exit,
                            "ret": campaign.retof(r), "file": os.path.basename(bad), "err": r.err[:160]})
        return evs

    events = [e for evs in vf.pmap(one, jobs) for e in evs]
    # crashes on malformed ABIXML are C33's subject; C09 is about the verdict of runs that do exit
    c.cov["evaluations"] = len(events)
    c.cov["distinct_nontrivial"] = len({(e["doc"], e["kind"]) for e in events if e["kind"].startswith("prefix@") and int(e["kind"][7:]) > 200})
    c.cov["exhaustive"] = not c.thorough or all(len(d[1]) <= 2500 for d in docs)
    c.cov["rule"] = ("%d documents (abidw output of TLC-generated programs + a hand-written library and its corpus group): every proper prefix at %s, "
                     "structure-breaking corruptions, and the missing/empty/unrecognized/truncated-ELF classes; kept only if expat rejects the file; given to abidiff in both "
                     "positions and to abicompat as either library; non-trivial = distinct (document, prefix longer than 200 bytes)" % (len(docs), "every byte boundary (<= 2500 per document)" if c.thorough else "every line boundary + 25 random bytes"))
    for e in events[:2] + events[len(events) // 2:len(events) // 2 + 2]:
        c.sample(e)

    def case_of(ev):
        p = os.path.join(fd, ev["file"])
        return {"input": open(p, "rb").read()} if os.path.isfile(p) else {}
    vf.pmap(lambda i: c.validate("ToolsTrace.tla", "ToolsTrace.cfg", events[i:i + 3000], case_of=case_of), range(0, len(events), 3000), jobs=4)
    c.assumptions += ["expat decides whether a file is a well-formed document (independent of libxml2)"]
    c.finish()


def replay(path):
    return vf.replay_event("ToolsTrace.tla", "ToolsTrace.cfg", path)
