"""C36 -- tools report failure when their output could not be written.

Model: spec/Output.tla (n writes + close, the k-th fails and the device keeps failing; exit status decided after
flush/close) checked by TLC.  Fault enumeration on the real tools: syscall-level fault injection with strace
(`-e inject=write,writev:error=E:when=k+`, restricted to the output file with -P), for EVERY k up to the number of
write calls of the fault-free run, for the close, for ENOSPC and EIO, for stdout and --out-file, for abidw and abilint,
plus /dev/full.  TLC validates the Fault events (ToolsTrace!VFault)."""
import os, re, subprocess
import vf, campaign


def main():
    c = vf.Check("C36", "fault_enumeration")
    vf.build("hooks")
    c.model("Output.tla", "Output.cfg")
    abidw, abilint = vf.tool("hooks", "abidw"), vf.tool("hooks", "abilint")
    d = os.path.join(c.workdir, "w")
    os.makedirs(d, exist_ok=True)
    # a big program (many 8 KiB writes) and a small one
    nfn = 400 if c.thorough else 120
    big = "".join("struct B%d { int a%d; long b%d; struct B%d* n; };\nstruct B%d* bigfn%d(struct B%d* p, int q) { return p; }\n" % (i, i, i, i, i, i, i) for i in range(nfn))
    open(os.path.join(d, "big.c"), "w").write(big)
    open(os.path.join(d, "small.c"), "w").write("int smallfn(int x) { return x; }\n")
    for n in ("big", "small"):
        subprocess.run(["gcc", "-g", "-shared", "-fPIC", "-o", n + ".so", n + ".c"], cwd=d, check=True)
        vf.run([abidw, "--out-file", os.path.join(d, n + ".abi"), os.path.join(d, n + ".so")], env=vf.henv(d))
    env = vf.henv(d)

    def strace(cmd, target, inject, to_stdout):
        log = os.path.join(d, "st.%d.log" % vf._uniq())
        full = ["strace", "-f", "-o", log, "-P", target, "-e", "trace=write,writev,close"] + (["-e", inject] if inject else []) + cmd
        if to_stdout:
            with open(target, "wb") as out:
                p = subprocess.run(full, env=env, stdout=out, stderr=subprocess.PIPE, stdin=subprocess.DEVNULL, timeout=300)
        else:
            p = subprocess.run(full, env=env, stdout=subprocess.PIPE, stderr=subprocess.PIPE, stdin=subprocess.DEVNULL, timeout=300)
        txt = open(log).read() if os.path.exists(log) else ""
        os.remove(log) if os.path.exists(log) else None
        nw = len(re.findall(r"^\d+\s+writev?\(", txt, re.M))
        inj = "(INJECTED)" in txt
        return p.returncode, nw, inj

    configs = []
    for tool, inp in (("abidw", "so"), ("abilint", "abi")):
        for doc in ("big", "small"):
            for dest in ("stdout", "outfile"):
                if tool == "abilint" and dest == "outfile":
                    continue                      # abilint has no --out-file
                configs.append((tool, doc, dest, inp))

    def cmd_for(tool, doc, dest, inp, target):
        exe = abidw if tool == "abidw" else abilint
        src = os.path.join(d, doc + "." + inp)
        return [exe] + (["--out-file", target] if dest == "outfile" else []) + [src]

    jobs = []
    for cfg in configs:
        tool, doc, dest, inp = cfg
        target = os.path.join(d, "out.%s.%s.%s.ref" % (tool, doc, dest))
        rc, nw, inj = strace(cmd_for(tool, doc, dest, inp, target), target, None, dest == "stdout")
        if rc != 0 or nw == 0:
            vf.infra("fault-free run of %s failed (rc=%d, writes=%d)" % (cfg, rc, nw))
        ks = list(range(1, nw + 1)) if (c.thorough or nw <= 12) else sorted(set([1, 2, 3, nw - 1, nw] + c.rng.sample(range(1, nw + 1), 7)))
        for err in ("ENOSPC", "EIO"):
            for k in ks:
                jobs.append((cfg, "write", k, err, nw))
            jobs.append((cfg, "close", 1, err, nw))

    def one(job):
        (tool, doc, dest, inp), what, k, err, nw = job
        target = os.path.join(d, "out.%d" % vf._uniq())
        inject = ("inject=write,writev:error=%s:when=%d+" % (err, k)) if what == "write" else ("inject=close:error=%s:when=1+" % err)
        try:
            rc, n2, inj = strace(cmd_for(tool, doc, dest, inp, target), target, inject, dest == "stdout")
            ret = "ok" if rc >= 0 else "sig%d" % -rc
        except subprocess.TimeoutExpired:
            rc, inj, ret = -1, True, "timeout"
        if os.path.exists(target):
            os.remove(target)
        # a close() of stdout's descriptor is never issued by the tools themselves; without an injected fault nothing is lost
        return {"e": "Fault", "tool": tool, "doc": doc, "dest": dest, "what": what, "k": k, "errno": err, "nwrites": nw,
                "incomplete": bool(inj), "exit": rc if rc >= 0 else 128 - rc, "ret": ret}

    events = vf.pmap(one, jobs, jobs=8)
    # /dev/full: the kernel itself refuses every write
    for tool, doc, dest, inp in configs:
        if dest == "stdout":
            with open("/dev/full", "wb") as out:
                p = subprocess.run(cmd_for(tool, doc, dest, inp, None), env=env, stdout=out, stderr=subprocess.PIPE)
        else:
            p = subprocess.run(cmd_for(tool, doc, dest, inp, "/dev/full"), env=env, stdout=subprocess.PIPE, stderr=subprocess.PIPE)
        events.append({"e": "Fault", "tool": tool, "doc": doc, "dest": dest, "what": "dev-full", "k": 1, "errno": "ENOSPC", "nwrites": 0,
                       "incomplete": True, "exit": p.returncode if p.returncode >= 0 else 128 - p.returncode, "ret": "ok" if p.returncode >= 0 else "sig%d" % -p.returncode})
    injected = [e for e in events if e["incomplete"]]
    c.discard("fault-point-not-reached", len(events) - len(injected))
    c.cov["evaluations"] = len(events)
    c.cov["distinct_nontrivial"] = len({(e["tool"], e["doc"], e["dest"], e["what"], e["k"], e["errno"]) for e in injected})
    c.cov["exhaustive"] = True
    c.cov["rule"] = ("abidw (stdout, --out-file) and abilint (stdout) on a large and a small input: every k-th write(2)/writev(2) on the output made to fail (and all later ones) "
                     "with ENOSPC and EIO by strace syscall injection, the final close made to fail, and /dev/full; a case counts when strace reports the injection; "
                     "non-trivial = distinct (tool, input, destination, fault point, errno)")
    for e in events[:3] + events[-2:]:
        c.sample(e)
    c.validate("ToolsTrace.tla", "ToolsTrace.cfg", events)
    c.assumptions += ["strace injects the fault at the system-call boundary; the tools do not retry"]
    c.finish()


def replay(path):
    return vf.replay_event("ToolsTrace.tla", "ToolsTrace.cfg", path)
