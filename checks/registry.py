"""The table MANIFEST.json is generated from (bin/manifest)."""
TLC_NOTE = "Trusted: TLC 1.8 and the TLA+ modules under spec/; the Python/C++ glue only renders, executes and projects. "
CHECKS = {
 "C38": dict(level="model_checking",
   technique="TLA+ contract (Myers.tla) model-checked by TLC; every recorded compute_diff call trace-validated by TLC against MyersTrace.tla",
   text="TLC exhausts the pair space (all pairs up to length 4/5 over 3 letters, two equality predicates) for the contract's internal consistency, "
        "and validates one recorded call of the real compute_diff per pair of that same space plus random longer pairs: script applies, is shortest, LCS is a strictly increasing matching of LCS length.",
   note=TLC_NOTE + "Bounded: pairs beyond the enumerated lengths are only sampled."),
}
NOT_APPLICABLE = {}
ENGINES = [
 {"name": "tlc", "path": "/opt/veriftools/tla/tla2tools.jar", "serves_properties": sorted(CHECKS.keys()),
  "kind_free_text": "explicit-state model checking of spec/*.tla; generation of cases from the specification; validation of implementation traces against *Trace.tla"},
]
HOOK_COMMITS = []
NOTES = ("Every check is `bin/check <ID> --tier quick|thorough`; it rebuilds /repo's working tree privately (bin/build), runs TLC on the module, "
         "drives the real code with specification-derived cases and lets TLC validate the recorded trace. Exit 3 = infrastructure failure (no VIOLATION line).")
