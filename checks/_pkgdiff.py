"""Shared by checks/C30.py and checks/C31.py: the binding of spec/PkgDiff.tla to tools/abipkgdiff.cc and the package campaign.

Python only renders (C sources -> DSOs -> package directories), executes (abipkgdiff, abidiff) and projects (report -> numbers of the
binaries listed, ThreadSanitizer reports -> counts); TLC decides (spec/PkgDiffTrace.tla, spec/WorkerQueueAbsTrace.tla).

PkgDiff.tla transcribes two passages of abipkgdiff.cc that deviate from C30; `fingerprints()` hashes the normalised text of those
passages in the tree under test: unchanged text = the faithful action stands for the implementation (Fixed / FixedKeys = FALSE) and the
strict property is expected to be refuted by TLC with a counterexample; changed text = the corrected action stands for it."""
import hashlib, os, re, shutil, subprocess
import vf

# ------------------------------------------------------------------------------------------------- source fingerprints
# normalised-text hashes of the passages as transcribed in spec/PkgDiff.tla
TRANSCRIBED = {
    "compare_prepared_userspace_packages": "89838d99064d7eb1",      # StatusOverwrite: `status = notifier.status;`
    "convert_path_to_unique_suffix": "fa213565f7156cc9",            # Key: suffix after the package's common prefix
    "load_elf_file_paths": "486169785d480fb2",                      # PrefixOfSet: sorted_strings_common_prefix of the package's ELF paths
    "create_maps_of_package_content": "5b189639652aab18",           # MapPackages: which key is used
}


def _norm(t):
    return re.sub(r"\s+", " ", re.sub(r"//[^\n]*", "", t)).strip()


def _passage(src, name):
    """text of the function / member function `name` of tools/abipkgdiff.cc: from its (last) definition header to the closing brace
    at the header's indentation"""
    ms = [m for m in re.finditer(r"^( *)%s\(" % re.escape(name), src, re.M)]
    for m in reversed(ms):
        ind = m.group(1)
        body = src.find("\n" + ind + "{", m.start())
        semi = src.find(";", m.start())
        if body < 0 or (0 <= semi < body):          # a declaration
            continue
        if src.startswith("\n" + ind + "{return", body):          # one-line body
            e = src.find("}\n", body)
            return src[m.start():e + 2]
        e = src.find("\n" + ind + "}\n", body)
        if e >= 0:
            return src[m.start():e + len(ind) + 3]
    return ""


def fingerprints(repo=None):
    """-> dict(Fixed, FixedKeys: bool, detail: {passage: 'transcribed'|'changed'})"""
    src = open(os.path.join(repo or vf.REPO, "tools", "abipkgdiff.cc"), encoding="utf-8", errors="replace").read()
    st, hs = {}, {}
    for fn, h in TRANSCRIBED.items():
        t = _passage(src, fn)
        if not t:
            vf.infra("cannot find %s in tools/abipkgdiff.cc" % fn)
        if fn == "compare_prepared_userspace_packages":     # only the statements about the status
            t = "\n".join(l for l in t.splitlines() if re.search(r"\bstatus\b", l))
        if fn == "create_maps_of_package_content":          # only the statements that derive the keys (the function does much else)
            t = "\n".join(l for l in t.splitlines() if re.search(r"convert_path_to_|load_elf_file_paths|common_paths_prefix|path_elf_file_sptr_map", l))
        hs[fn] = hashlib.sha256(_norm(t).encode()).hexdigest()[:16]
        st[fn] = "transcribed" if hs[fn] == h else "changed"
    keys = ("convert_path_to_unique_suffix", "load_elf_file_paths", "create_maps_of_package_content")
    return {"Fixed": st["compare_prepared_userspace_packages"] == "changed",
            "FixedKeys": any(st[k] == "changed" for k in keys), "detail": st, "hashes": hs}


def make_cfg(c, base, name, fp, invariants=None, properties=True):
    txt = open(os.path.join(vf.SPEC, base)).read()
    txt = re.sub(r"\bFixed = (TRUE|FALSE)", "Fixed = %s" % ("TRUE" if fp["Fixed"] else "FALSE"), txt)
    txt = re.sub(r"\bFixedKeys = (TRUE|FALSE)", "FixedKeys = %s" % ("TRUE" if fp["FixedKeys"] else "FALSE"), txt)
    if invariants is not None:
        txt = re.sub(r"^INVARIANTS? .*$", "INVARIANTS " + " ".join(invariants), txt, flags=re.M)
    if not properties:
        txt = re.sub(r"^PROPERTY .*\n", "", txt, flags=re.M)
    p = os.path.join(c.workdir, name)
    with open(p, "w") as f:
        f.write(txt)
    return p


def last_state(out, keys):
    res = {}
    for k in keys:
        m = re.findall(r"^/\\ %s = (.*)$" % re.escape(k), out, re.M)
        if m:
            res[k] = m[-1][:300]
    return res


def record(c, r, expected="holds"):
    c.cov["states"] += r["distinct"]
    c.cov["transitions"] += r["generated"]
    c.cov["models"].append({"spec": r["spec"], "cfg": os.path.basename(r["cfg"]), "distinct": r["distinct"], "generated": r["generated"],
                            "depth": r["depth"], "holds": r["ok"], "expected": expected, "wall_s": round(r["wall"], 1)})


# ------------------------------------------------------------------------------------------------- binaries
def source(sym, ver, pad=0, bulk=0):
    """C source of one build of the library whose symbols are prefixed `sym`: a struct and three functions; v2 adds a struct member
    (compatible change: change bit), v3 removes a function (incompatible).  pad: bytes of private data (file size), bulk: further
    types and functions (work for the comparison)."""
    s = ["struct %s_s { int a; long b;%s };" % (sym, " char added;" if ver == "v2" else ""),
         "int %s_f1(struct %s_s *p) { return p->a; }" % (sym, sym),
         "long %s_f2(struct %s_s *p, int x) { return p->b + x; }" % (sym, sym)]
    if ver != "v3":
        s.append("void %s_f3(void) {}" % sym)
    for k in range(bulk):
        s.append("struct %s_b%d { int x%d; struct %s_s *s; %s y; };" % (sym, k, k, sym, ("struct %s_b%d *" % (sym, k - 1)) if k else "long"))
        s.append("int %s_g%d(struct %s_b%d *p, struct %s_s v) { return p->x%d + v.a; }" % (sym, k, sym, k, sym, k))
    if pad:
        s.append("__attribute__((used)) static const char %s_pad[%d] = {1};" % (sym, pad))
    return "\n".join(s) + "\n"


def build_bin(root, b, ver):
    """b: dict(sym, file, soname|None, pad, bulk).  -> path of the DSO or None"""
    d = os.path.join(root, b["sym"])
    os.makedirs(d, exist_ok=True)
    src = "%s-%s.c" % (b["sym"], ver)
    with open(os.path.join(d, src), "w") as f:
        f.write(source(b["sym"], ver, b.get("pad", 0), b.get("bulk", 0)))
    out = "%s-%s.so" % (b["sym"], ver)
    cmd = ["gcc", "-g", "-O0", "-w", "-fPIC", "-shared"] + (["-Wl,-soname," + b["soname"]] if b.get("soname") else []) + ["-o", out, src]
    r = subprocess.run(cmd, cwd=d, stdout=subprocess.PIPE, stderr=subprocess.PIPE, text=True)
    return os.path.join(d, out) if r.returncode == 0 else None


def build_all(root, bins, jobs=8):
    """-> {(sym, ver): path}; a build that does not compile is absent (the cases needing it are discarded by the caller)"""
    work = [(b, v) for b in bins for v in ("v1", "v2", "v3")]
    res = vf.pmap(lambda bv: build_bin(root, bv[0], bv[1]), work, jobs=jobs)
    return {(b["sym"], v): p for (b, v), p in zip(work, res) if p}


def lay_out(root, bins, dirs, pkg, built):
    """package directory `root`: binary i (build pkg[i]) at root/dirs[i]/bins[i].file, hard-linked"""
    shutil.rmtree(root, ignore_errors=True)
    os.makedirs(root)
    for b, d, v in zip(bins, dirs, pkg):
        if v == "absent":
            continue
        os.makedirs(os.path.join(root, d), exist_ok=True)
        dst = os.path.join(root, d, b["file"])
        try:
            os.link(built[(b["sym"], v)], dst)
        except OSError:
            shutil.copy2(built[(b["sym"], v)], dst)
    return root


# ------------------------------------------------------------------------------------------------- running and projecting
def nproc_shim(c):
    """harness/nproc_preload.c -> shared object (abipkgdiff has no option for the number of workers)"""
    out = os.path.join(vf.WORK, "nproc_preload.so")
    src = os.path.join(vf.VERIF, "harness", "nproc_preload.c")
    if not os.path.exists(out) or os.path.getmtime(out) < os.path.getmtime(src):
        os.makedirs(vf.WORK, exist_ok=True)
        tmp = out + ".%d" % os.getpid()
        r = subprocess.run(["gcc", "-O1", "-fPIC", "-shared", "-o", tmp, src, "-ldl"], stdout=subprocess.PIPE, stderr=subprocess.STDOUT, text=True)
        if r.returncode != 0:
            vf.infra("cannot build harness/nproc_preload.c: " + r.stdout[-500:])
        os.replace(tmp, out)
    return out


def run_pkgdiff(variant, d1, d2, scratch, seq=False, nproc=0, seed=0, trace=None, shim=None, extra=(), timeout=300):
    os.makedirs(scratch, exist_ok=True)
    env = {"TSAN_OPTIONS": "exitcode=0:halt_on_error=0"}          # the tool's own exit status is an observation; reports are counted from stderr
    if nproc and shim:
        env["LD_PRELOAD"] = shim
        env["ABG_VERIF_NPROC"] = str(nproc)
    if seed:
        env["ABG_VERIF_SCHED_SEED"] = str(seed)
    if trace:
        if os.path.exists(trace):
            os.remove(trace)
        env["ABG_VERIF_TRACE"] = trace
    cmd = [vf.tool(variant, "abipkgdiff"), "--no-default-suppression"] + (["--no-parallel"] if seq else []) + list(extra) + [d1, d2]
    return vf.run(cmd, env=vf.henv(scratch, env), timeout=timeout)


_CHG = re.compile(r"^================ changes of '(.*)'===============$")
_END = re.compile(r"^================ end of changes of '(.*)'===============$")
_ERR = re.compile(r"^==== Error happened during processing of '(.*)' ====$")
_ENT = re.compile(r"^  \[([DA])\] (\S+), (?:SONAME: \S+|no SONAME)$")


def parse_report(out):
    """-> dict(changed: [file name.. in print order], removed: [relative path..], added: [..], errors: [name..], stray: n)
    stray counts top-level lines that belong to no known part of the report (then the projection is not trusted)."""
    res = {"changed": [], "removed": [], "added": [], "errors": [], "stray": 0}
    sec, inside = None, None
    for ln in out.splitlines():
        if inside is not None:
            m = _END.match(ln)
            if m and m.group(1) == inside:
                inside = None
            continue
        m = _CHG.match(ln)
        if m:
            inside = m.group(1)
            res["changed"].append(inside)
            sec = None
            continue
        m = _ERR.match(ln)
        if m:
            res["errors"].append(m.group(1))
            continue
        if ln == "Removed binaries:":
            sec = "removed"
            continue
        if ln == "Added binaries:":
            sec = "added"
            continue
        m = _ENT.match(ln)
        if m and sec == {"D": "removed", "A": "added"}[m.group(1)]:
            res[sec].append(m.group(2))
            continue
        if ln.strip() == "" or ln.startswith("==== End of error for") or (res["errors"] and not ln.startswith("=")):
            continue
        res["stray"] += 1
    if inside is not None:
        res["stray"] += 1
    return res


def retof(r):
    if r.timeout:
        return "timeout"
    if r.sig:
        return "sig%d%s" % (r.sig, (":" + r.abort_assert) if r.abort_assert else "")
    if r.exit in (66, 86, 87) or r.exit >= 16:          # sanitizer exit codes / not a status bit-field
        return "exit%d" % r.exit
    return "ok"


_TSAN_SPLIT = re.compile(r"^=+\n", re.M)
_TSAN_STACK = re.compile(r"^  (?:Write|Read|Previous write|Previous read|Atomic write|Atomic read|Previous atomic write|Previous atomic read)"
                         r" of size[^\n]*\n((?:    #\d+ [^\n]*\n)+)", re.M)
_TSAN_FRAME = re.compile(r"^    #\d+ (.*?) (?:\S+:\d+(?::\d+)? |<null> )?\(([^)+]+)\+0x[0-9a-f]+\)", re.M)
_RUNTIME_MODS = ("libtsan", "libc.so", "libc-", "libstdc++", "libpthread", "libgcc", "ld-linux")
_RUNTIME_FNS = ("operator new", "operator delete", "malloc", "free", "calloc", "realloc", "memcpy", "memmove", "memset", "strlen", "strcmp",
                "memcmp", "__tsan", "__interceptor", "std::", "__gnu_cxx::", "void std::", "bool std::")


def tsan_reports(err):
    """-> (ours, foreign, samples): ThreadSanitizer reports with / without a racing access whose innermost non-runtime frame is inside
    the tool (libabigail is linked statically into it); samples = one-line summaries of ours"""
    ours, foreign, samples = 0, 0, []
    for rep in _TSAN_SPLIT.split(err):
        if "WARNING: ThreadSanitizer" not in rep:
            continue
        inner = []
        for st in _TSAN_STACK.finditer(rep):
            for fm in _TSAN_FRAME.finditer(st.group(1)):
                fn, mod = fm.group(1), os.path.basename(fm.group(2))
                if mod.startswith(_RUNTIME_MODS) or fn.startswith(_RUNTIME_FNS):
                    continue
                inner.append((fn, mod))
                break
        kind = re.search(r"WARNING: ThreadSanitizer: ([^\n(]*)", rep).group(1).strip()
        if not inner or any(mod.startswith(("abipkgdiff", "h_")) for fn, mod in inner):
            ours += 1
            if len(samples) < 3:
                samples.append("%s: %s" % (kind, " / ".join("%s (%s)" % (fn[:90], mod) for fn, mod in inner) or "no frame"))
        else:
            foreign += 1
    return ours, foreign, samples


def abidiff_bits(a, b, scratch):
    r = vf.run([vf.tool("hooks", "abidiff"), "--no-default-suppression", a, b], env=vf.henv(scratch), timeout=120)
    return r
