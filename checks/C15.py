"""C15 -- recorded type layouts match the compiler's layouts.

Layouts are OBSERVED from the compiler by a probe program (sizeof / offsetof / bit-field set-bit scan) built with the same compiler
and flags, never computed by the model; TLC checks the probe facts for sanity (else the case is discarded) and that every aggregate
abidw records has exactly the probe's size and member offsets, and that every aggregate reachable in the model is recorded
(AbiObsTrace!VLayout).  Includes two programs with same-named different types linked into one binary from different TUs."""
import os, json, subprocess
import vf, campaign, abixml, abigraph, cprog


def probe(d, types, cc, flags, tag):
    src = cprog.probe_source(types)
    fn = os.path.join(d, "probe_%s.c" % tag)
    open(fn, "w").write(src)
    exe = os.path.join(d, "probe_%s" % tag)
    r = subprocess.run([cc] + list(flags) + ["-w", "-O0", "-o", exe, fn], stdout=subprocess.PIPE, stderr=subprocess.PIPE, text=True)
    if r.returncode != 0:
        return None
    r = subprocess.run([exe], stdout=subprocess.PIPE, stderr=subprocess.PIPE, text=True, timeout=20)
    if r.returncode != 0:
        return None
    res = []
    for t in json.loads(r.stdout)["types"]:
        ty = types[t["idx"] - 1]
        if ty["k"] in ("struct", "union"):
            res.append({"name": t["name"], "size": t["size"], "isUnion": ty["k"] == "union", "members": t["members"]})
    return res


def layout_twins(case):
    """(a, b): two copies of the program plus one more struct whose two definitions have the same name, size, member names and member types but
    different member *offsets* (the widths of two adjacent bit-fields are exchanged), reachable from a function of its own -- the case
    'different translation units define different types with the same name' at its most similar"""
    import copy
    out = []
    mx = max([t["id"] for t in case["types"] if t["k"] in ("struct", "union", "enum", "typedef")] + [f["id"] for f in case["fns"]] + [v["id"] for v in case["vars"]] + [0])
    for widths in ((3, 5), (5, 3)):
        cs = copy.deepcopy(case)
        ts = cs["types"]
        def add(t):
            ts.append(t)
            return len(ts)
        blank = lambda k, i, t=0: {"k": k, "id": i, "t": t, "d": 0, "m": [], "e": [], "b": [], "vf": [], "mf": []}
        u = add(blank("base", 7))
        n = add(blank("base", 3))
        st = blank("struct", mx + 1)
        st["m"] = [{"n": 1, "t": u, "bw": widths[0], "acc": "public"}, {"n": 2, "t": u, "bw": widths[1], "acc": "public"}, {"n": 3, "t": n, "bw": 0, "acc": "public"}]
        si = add(st)
        pi = add(blank("ptr", 0, si))
        cs["fns"].append({"id": mx + 2, "r": 0, "p": [{"t": pi, "c": False}]})
        cs["reach"] = list(cs["reach"]) + [si]
        out.append(cs)
    return out


def main():
    c = vf.Check("C15", "exploration")
    vf.build("hooks")
    c.model("Abi.tla", "AbiSmall.cfg" if c.thorough else "AbiSmallQuick.cfg")
    abidw = vf.tool("hooks", "abidw")
    cases = campaign.programs(c, 2500 if c.thorough else 240, MaxTypes=10, MaxMembers=5)
    comps = ["gcc-dwarf4", "gcc-dwarf5", "clang-dwarf4", "clang-dwarf5"] if c.thorough else ["gcc", "clang-dwarf4"]

    def names_of(case, idxs):
        out = []
        for i in idxs:
            t = case["types"][i - 1]
            if t["k"] in ("struct", "union"):
                out.append(("S%d" if t["k"] == "struct" else "U%d") % t["id"])
        return out

    def one(job):
        idx, case, comp = job
        cc, flags = campaign.COMPILERS[comp]
        d = os.path.join(c.workdir, "p%d" % idx, comp)
        os.makedirs(d, exist_ok=True)
        if (idx % 4 == 3 and idx + 1 < len(cases)) or idx % 4 == 1:
            # two programs in two TUs of ONE binary: same-named types (S<n>, U<n>) with different definitions -- either an unrelated program,
            # or (idx % 4 == 1) the same program again where one struct differs in member offsets only
            if idx % 4 == 1:
                case, other = layout_twins(case)
            else:
                other = cases[idx + 1]
            srcs = []
            for tag, cs in (("a", case), ("b", other)):
                files = cprog.render(cs["types"], cs["fns"], cs["vars"], "c", {"seed": idx})
                body = files["types.h"] + "\n" + "\n".join(v for k, v in sorted(files.items()) if k.endswith(".c")).replace('#include "types.h"', "")
                for k in sorted({f["id"] for f in cs["fns"]}):
                    body = body.replace("fn%d(" % k, "%s_fn%d(" % (tag, k))
                for k in sorted({v["id"] for v in cs["vars"]}):
                    body = body.replace("var%d;" % k, "%s_var%d;" % (tag, k))
                body = body.replace("VERIF_TYPES_H", "VERIF_TYPES_%s_H" % tag)
                open(os.path.join(d, "tu_%s.c" % tag), "w").write(body)
                srcs.append("tu_%s.c" % tag)
            r = subprocess.run([cc] + list(flags) + ["-w", "-O0", "-fPIC", "-shared", "-o", "lib.so"] + srcs, cwd=d, stdout=subprocess.PIPE, stderr=subprocess.PIPE)
            if r.returncode != 0:
                return ("discard", "does-not-compile")
            path = os.path.join(d, "lib.so")
            pa, pb = probe(d, case["types"], cc, flags, "a"), probe(d, other["types"], cc, flags, "b")
            if pa is None or pb is None:
                return ("discard", "probe-failed")
            ra, rb = set(names_of(case, case["reach"])), set(names_of(other, other["reach"]))
            pfacts = [dict(x, reach=(x["name"] in ra)) for x in pa] + [dict(x, reach=(x["name"] in rb)) for x in pb]      # reachability is per program (translation unit)
            reach = names_of(case, case["reach"]) + names_of(other, other["reach"])
            variant = "two-programs-one-binary" if idx % 4 == 3 else "layout-twins-one-binary"
        else:
            path, err, d2 = campaign.build_one(c, idx, case, comp, style={"tus": 1 + idx % 2, "seed": idx}, sub=comp)
            if not path:
                return ("discard", "does-not-compile")
            pfacts = probe(d, case["types"], cc, flags, "a")
            if pfacts is None:
                return ("discard", "probe-failed")
            reach = names_of(case, case["reach"])
            pfacts = [dict(x, reach=(x["name"] in set(reach))) for x in pfacts]
            variant = "single"
        r = vf.run([abidw, "--no-show-locs", path], env=vf.henv(d), binary=True)
        pr = abixml.project(r.out)
        ev = {"e": "Layout", "case": idx, "comp": comp, "variant": variant, "probe": pfacts, "obs": abigraph.layouts(pr) if pr["wf"] else [],
              "reach": sorted(set(reach)), "ret": campaign.retof(r) if (r.exit == 0 and pr["wf"]) else "abidw-exit%d" % r.exit}
        return ("ok", ev)

    events = []
    for r in vf.pmap(one, [(i, cs, comp) for i, cs in enumerate(cases) for comp in comps]):
        if r[0] == "discard":
            c.discard(r[1])
        else:
            events.append(r[1])
    c.cov["evaluations"] = len(events)
    c.cov["distinct_nontrivial"] = len({(e["case"], e["comp"]) for e in events if any(len(o["members"]) >= 2 for o in e["obs"])})
    c.cov["bitfield_cases"] = sum(1 for e in events if any(m["width"] for p in e["probe"] for m in p["members"]))
    c.cov["same_name_different_type_cases"] = sum(1 for e in events if e["variant"] != "single")
    c.cov["rule"] = ("TLC-generated C programs with nested aggregates, unions, arrays, pointers and bit-fields compiled by %s; the compiler's sizeof/offsetof/bit positions "
                     "(probe program, same compiler and flags) against abidw's size-in-bits / layout-offset-in-bits; every 4th case links two generated programs with clashing type "
                     "names into one binary; non-trivial = a recorded aggregate with >= 2 members" % comps)
    for e in events[:2]:
        c.sample(e)
    case_of = lambda ev: campaign.case_files(os.path.join(c.workdir, "p%d" % ev["case"]))
    vf.pmap(lambda i: c.validate("AbiObsTrace.tla", "AbiObsTrace.cfg", events[i:i + 1000], case_of=case_of), range(0, len(events), 1000), jobs=6)
    c.assumptions += ["the probe program's sizeof/offsetof are the compiler's layout; base classes (C++) are not generated yet"]
    c.finish()


def replay(path):
    return vf.replay_event("AbiObsTrace.tla", "AbiObsTrace.cfg", path)
