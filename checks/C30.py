"""C30 -- abipkgdiff's verdict covers every binary in the packages.

Model:   spec/PkgDiff.tla: packages as [Path -> {absent, v1, v2, v3}], one action per pass of compare_prepared_userspace_packages
         (map, pair/removed, task list, comparison queue in any completion order, sort, print, added, status, exit).  TLC checks
         Verdict (C30 as stated), EveryBinaryCovered, OrderIndependent, termination over 3 binaries x 4 states x both packages x
         2 directory layouts x 1..3 workers (PkgDiff.cfg, corrected actions).  Two passages are transcribed with their deviation
         (StatusOverwrite, keys after the package's common prefix); source fingerprints (checks/_pkgdiff.py) decide which action
         stands for the implementation: while a transcription is in place the implementation's model must still be order
         independent and total, and TLC must REFUTE the strict Verdict on it (counterexample recorded) -- otherwise the
         transcription or its fingerprint is stale.
Replay:  the model's own input space (TLC generator PkgDiffGen.cfg, 8192 invocations; all of them in the thorough tier, a seeded sample
         in the quick tier) rendered as directories of real DSOs (gcc; v2 adds a struct member, v3 removes a function), plus random
         larger packages (4-8 binaries over 4 directories); `abipkgdiff d1 d2` on the `hooks` build, report projected to the numbers
         of the binaries listed, `abidiff` on every pair both packages ship as the recorded per-pair fact.
Verdict: TLC, spec/PkgDiffTrace.tla: PkgDiff!VerdictHolds on exactly the recorded values."""
import json, os, shutil, threading
import vf
from checks import _pkgdiff as pk

LAYOUT_DIR = {"l/": "usr/lib", "l6/": "usr/lib64"}           # the model's abstract directories -> real ones
POOL = [dict(sym="a1", file="liba1.so", soname="liba1.so.1", pad=0),
        dict(sym="b2", file="libb2.so", soname=None, pad=0),
        dict(sym="c3", file="libc3.so", soname="libc3.so.1", pad=12288),
        dict(sym="d4", file="libd4.so", soname="libd4.so.2", pad=0),
        dict(sym="e5", file="libe5.so", soname=None, pad=12288),
        dict(sym="f6", file="libf6.so", soname="libf6.so.0", pad=4096),
        dict(sym="g7", file="libg7.so", soname="libg7.so.1", pad=0),
        dict(sym="h8", file="libh8.so", soname=None, pad=4096)]
RANDOM_DIRS = ["usr/lib", "usr/lib64", "usr/lib/plugins", "opt/p/lib"]
VERS = ["absent", "v1", "v2", "v3"]
MODEL_PAIRBITS = lambda v, w: 0 if v == w else (12 if w == "v3" else 4)          # PkgDiff!DefaultPairBits


def models(c, fp, results):
    jobs = [("corrected", os.path.join(vf.SPEC, "PkgDiff.cfg"), "holds")]
    if not (fp["Fixed"] and fp["FixedKeys"]):
        jobs.append(("implementation", pk.make_cfg(c, "PkgDiff.cfg", "PkgDiffImpl.cfg", fp,
                                                   invariants=["TypeOK", "EveryBinaryCovered", "OrderIndependent", "NotifierStatus"]), "holds"))
        jobs.append(("implementation-strict", pk.make_cfg(c, "PkgDiff.cfg", "PkgDiffImplStrict.cfg", fp, invariants=["Verdict"], properties=False),
                     "refuted"))
    rs = vf.pmap(lambda j: vf.tlc_check("PkgDiff.tla", j[1], workers=4, timeout=1400, heap="6g"), jobs, jobs=3)
    for (name, cfg, expected), r in zip(jobs, rs):
        results.append((name, expected, r))


def make_event(cid, case, r, rep, facts, sizes):
    bins = [POOL[i] for i in case["bins"]]
    byfile = {b["file"]: k + 1 for k, b in enumerate(bins)}
    bypath = {"/%s/%s" % (d, b["file"]): k + 1 for k, (b, d) in enumerate(zip(bins, case["dirs"]))}
    unknown = [x for x in rep["changed"] if x not in byfile] + [x for x in rep["removed"] + rep["added"] if x not in bypath]
    both = [v != "absent" and w != "absent" for v, w in zip(case["pkg1"], case["pkg2"])]
    ev = {"e": "Pkg", "c": cid, "src": case["src"],
          "paths": ["%s/%s" % (d, b["file"]) for b, d in zip(bins, case["dirs"])],
          "dirs": [list("/" + d + "/") for d in case["dirs"]],
          "pkg1": case["pkg1"], "pkg2": case["pkg2"],
          "size": [sizes[(b["sym"], v)] + sizes[(b["sym"], w)] if m else 0 for b, v, w, m in zip(bins, case["pkg1"], case["pkg2"], both)],
          "pairBits": [facts[(b["sym"], v, w)] if m else -1 for b, v, w, m in zip(bins, case["pkg1"], case["pkg2"], both)],
          "exit": r.exit if not r.sig else 0,
          "removed": [bypath[x] for x in rep["removed"] if x in bypath], "added": [bypath[x] for x in rep["added"] if x in bypath],
          "changedListed": [byfile[x] for x in rep["changed"] if x in byfile],
          "ret": pk.retof(r)}
    return ev, (rep["stray"] + len(unknown) + len(rep["errors"]))


def run_case(workdir, cid, case, built, facts, sizes):
    d = os.path.join(workdir, "case", str(cid))
    bins = [POOL[i] for i in case["bins"]]
    d1 = pk.lay_out(os.path.join(d, "d1"), bins, case["dirs"], case["pkg1"], built)
    d2 = pk.lay_out(os.path.join(d, "d2"), bins, case["dirs"], case["pkg2"], built)
    r = pk.run_pkgdiff("hooks", d1, d2, os.path.join(d, "scratch"), timeout=120)
    rep = pk.parse_report(r.out)
    ev, odd = make_event(cid, case, r, rep, facts, sizes)
    shutil.rmtree(d, ignore_errors=True)
    return ev, odd, r.out


def prepare(workdir, used):
    """build the pool binaries that are used, measure the per-pair facts (abidiff) and the sizes"""
    bins = [POOL[i] for i in sorted(used)]
    built = pk.build_all(os.path.join(workdir, "bins"), bins)
    missing = [(b["sym"], v) for b in bins for v in VERS[1:] if (b["sym"], v) not in built]
    if missing:
        vf.infra("gcc failed on the package binaries %s" % missing[:3])
    sizes = {k: os.path.getsize(p) for k, p in built.items()}
    work = [(b["sym"], v, w) for b in bins for v in VERS[1:] for w in VERS[1:]]
    res = vf.pmap(lambda k: pk.abidiff_bits(built[(k[0], k[1])], built[(k[0], k[2])], os.path.join(workdir, "scratch")), work, jobs=8)
    facts = {}
    for k, r in zip(work, res):
        if pk.retof(r) != "ok":
            vf.infra("abidiff did not terminate normally on the pair %s: %s" % (k, pk.retof(r)))
        facts[k] = r.exit
    return built, facts, sizes


def selftest(c, good):
    """converse binding: corrupt one recorded fact of an accepted Pkg event at a time; TLC must reject every variant"""
    n = len(good["pkg1"])
    vs = []
    for name, f in (("change bit flipped", lambda e: e.update(exit=e["exit"] ^ 4)), ("incompatible bit flipped", lambda e: e.update(exit=e["exit"] ^ 8)),
                    ("exit 0", lambda e: e.update(exit=0)),
                    ("a removed binary not listed", lambda e: e.update(removed=e["removed"][1:]) if e["removed"] else e.update(added=e["added"] + [e["changedListed"][0]])),
                    ("a compared binary listed as removed", lambda e: e.update(removed=e["removed"] + [e["changedListed"][0]])),
                    ("a changed pair without report", lambda e: e.update(changedListed=e["changedListed"][1:])),
                    ("reports out of order", lambda e: e.update(changedListed=list(reversed(e["changedListed"])))),
                    ("a binary reported twice", lambda e: e.update(changedListed=e["changedListed"] + e["changedListed"][:1])),
                    ("abnormal end", lambda e: e.update(ret="sig6"))):
        e = json.loads(json.dumps(good))
        f(e)
        vs.append((name, e))
    r = vf.tlc_validate("PkgDiffTrace.tla", "PkgDiffTrace.cfg", [e for nm, e in vs])
    rejected = {i for (i, e, v) in r["bad"]}
    missed = [nm for k, (nm, e) in enumerate(vs) if k + 1 not in rejected]
    c.cov["trace_spec_selftest"] = {"corrupted_variants": len(vs), "rejected": len(vs) - len(missed)}
    if missed:
        vf.infra("PkgDiffTrace accepts corrupted Pkg events: %s" % missed)


def main():
    import time
    c = vf.Check("C30", "model_checking")
    phase, t_last = {}, [time.time()]

    def mark(name):
        phase[name] = round(time.time() - t_last[0], 1)
        t_last[0] = time.time()
    vf.build("hooks")
    mark("build")
    fp = pk.fingerprints()
    mres, merr = [], []

    def bg():
        try:
            models(c, fp, mres)
        except SystemExit as ex:
            merr.append(ex)
    th = threading.Thread(target=bg)
    th.start()

    # ---- cases: the model's input space from TLC + random larger packages
    g = vf.tlc_generate("PkgDiff.tla", "PkgDiffGen.cfg", workers=1, timeout=900)
    space = g["cases"]
    if len(space) != 2 * 4 ** 6 or g["generated"] != len(space):
        vf.infra("the generator produced %d invocations (TLC: %d initial states), expected %d" % (len(space), g["generated"], 2 * 4 ** 6))
    cases = []
    for cs in space:
        dirs = [LAYOUT_DIR["".join(x)] for x in cs["layout"]]
        cases.append({"src": "tlc", "bins": [0, 1, 2], "dirs": dirs, "pkg1": cs["pkg1"], "pkg2": cs["pkg2"]})
    if not c.thorough:
        cases = c.rng.sample(cases, 800)
    nrand = 600 if c.thorough else 100
    for k in range(nrand):
        n = c.rng.randint(4, 8)
        bins = sorted(c.rng.sample(range(len(POOL)), n))
        ndirs = c.rng.choice((1, 2, 2, 3, 4))
        ds = c.rng.sample(RANDOM_DIRS, ndirs)
        absent = c.rng.choice((0.1, 0.25, 0.5))
        pick = lambda: "absent" if c.rng.random() < absent else c.rng.choice(VERS[1:])
        cases.append({"src": "random", "bins": bins, "dirs": [c.rng.choice(ds) for _ in bins], "pkg1": [pick() for _ in bins], "pkg2": [pick() for _ in bins]})

    mark("generate")
    built, facts, sizes = prepare(c.workdir, set(i for cs in cases for i in cs["bins"]))
    mark("binaries+facts")
    bits_match = all(facts[(b["sym"], v, w)] == MODEL_PAIRBITS(v, w) for b in POOL if (b["sym"], "v1", "v1") in facts for v in VERS[1:] for w in VERS[1:])
    c.cov["model_pairbits_match_abidiff"] = bits_match
    if not bits_match:
        vf.infra("abidiff's verdicts on the builds differ from PkgDiff!DefaultPairBits: %s" % sorted(set((v, w, x) for (s, v, w), x in facts.items())))

    outs = {}

    def one(ic):
        ev, odd, out = run_case(c.workdir, ic[0], ic[1], built, facts, sizes)
        if odd:
            outs[ic[0]] = out
        return ev, odd
    res = vf.pmap(one, list(enumerate(cases)), jobs=8)
    events = [ev for ev, odd in res]
    nodd = sum(1 for ev, odd in res if odd)
    if nodd:
        k = min(outs)
        vf.infra("the report of %d runs was not understood by the projection (first: case %d)\n%s" % (nodd, k, outs[k][:1500]))

    mark("campaign")

    def case_of(ev):
        cs = cases[ev["c"]]
        bins = [POOL[i] for i in cs["bins"]]
        pl = {"case.json": cs}
        for b, v, w in zip(bins, cs["pkg1"], cs["pkg2"]):
            for x in (v, w):
                if x != "absent":
                    pl["%s-%s.c" % (b["sym"], x)] = pk.source(b["sym"], x, b["pad"])
        return pl

    starts = list(range(0, len(events), 1500))
    vres = vf.pmap(lambda i: c.validate("PkgDiffTrace.tla", "PkgDiffTrace.cfg", events[i:i + 1500], case_of=case_of), starts, jobs=4)
    hist, rejected = {}, set()
    for i0, r in zip(starts, vres):
        for (i, ev, v) in r["bad"] + [(i, ev, "kf:" + k) for (i, ev, k) in r["kf"]]:
            hist[v] = hist.get(v, 0) + 1
            rejected.add(i0 + i - 1)
    c.cov["verdicts"] = dict(hist, ok=len(events) - len(rejected))
    good = [e for k, e in enumerate(events) if k not in rejected and e["removed"] and len(e["changedListed"]) >= 2] or \
           [e for k, e in enumerate(events) if k not in rejected and len(e["changedListed"]) >= 2]
    if good:
        selftest(c, good[0])
    elif not c.violations:
        vf.infra("no accepted run suitable for the trace-specification self-test")

    mark("validation")
    th.join()
    mark("waiting for the models (they run beside the campaign)")
    c.cov["phase_s"] = phase
    if merr:
        raise merr[0]
    findings = []
    for name, expected, r in mres:
        pk.record(c, r, expected)
        if expected == "holds" and not r["ok"]:
            import sys
            sys.stderr.write(r["out"][-3000:])
            vf.infra("model PkgDiff/%s violates its properties (rc=%d)" % (name, r["rc"]))
        if expected == "refuted":
            if r["ok"]:
                vf.infra("the strict Verdict holds on the implementation's model although a transcribed (uncorrected) passage stands for "
                         "the implementation: the transcription or its fingerprint is stale")
            findings.append({"model": name, "violated": "Verdict", "state": pk.last_state(r["out"], ["layout", "pkg1", "pkg2", "removed", "added", "printed", "exit"])})
    c.cov["model_strict_counterexamples"] = findings
    c.cov["implementation_actions"] = {"status": "StatusAccumulate (corrected)" if fp["Fixed"] else "StatusOverwrite (transcribed)",
                                       "keys": "root-relative (corrected)" if fp["FixedKeys"] else "after the common prefix (transcribed)"}
    c.cov["source_fingerprints"] = fp["detail"]

    def kinds(e):
        both = [v != "absent" and w != "absent" for v, w in zip(e["pkg1"], e["pkg2"])]
        k = set()
        if any(v != "absent" and w == "absent" for v, w in zip(e["pkg1"], e["pkg2"])):
            k.add("removed")
        if any(v == "absent" and w != "absent" for v, w in zip(e["pkg1"], e["pkg2"])):
            k.add("added")
        if any(m and b for m, b in zip(both, e["pairBits"])):
            k.add("changed")
        if any(m and not b for m, b in zip(both, e["pairBits"])):
            k.add("clean")
        return k
    c.cov["evaluations"] = len(events)
    c.cov["distinct_nontrivial"] = len({(tuple(e["paths"]), tuple(e["pkg1"]), tuple(e["pkg2"])) for e in events if len(kinds(e)) >= 2})
    c.cov["by_exit"] = {str(x): sum(1 for e in events if e["exit"] == x) for x in sorted({e["exit"] for e in events})}
    c.cov["exhaustive"] = bool(c.thorough)
    c.cov["rule"] = ("invocations `abipkgdiff d1 d2` on directories of real DSOs: %s of the %d invocations of the model (TLC generator: 3 binaries x "
                     "{absent, v1, v2, v3} x both packages x {one directory, two directories}) plus %d random packages of 4-8 binaries over up to 4 "
                     "directories; per-pair facts = abidiff on the two builds; non-trivial = the pair of packages shows at least two of "
                     "{removed binary, added binary, changed pair, clean pair}" % ("all" if c.thorough else "a seeded sample of 800", len(space), nrand))
    for e in [e for e in events if len(kinds(e)) >= 3][:3] + [e for e in events if e["src"] == "random"][:1]:
        c.sample(e)
    c.assumptions += ["abidiff (same build) on the two builds of a binary is the per-pair fact; its nine verdicts equal PkgDiff!DefaultPairBits (checked)",
                      "Reading: 'a binary of the first package is missing from the second' = no file at the same path below the package root; "
                      "'per-binary verdicts agree' = the binaries with a 'changes of' section are exactly the pairs for which abidiff sets the change bit",
                      "the report projection (checks/_pkgdiff.parse_report) understands every line of the report, else the run is an infrastructure failure",
                      "spec/PkgDiff.tla's faithful actions transcribe the passages whose fingerprints are recorded under coverage.source_fingerprints"]
    c.finish()


def replay(path):
    cs = json.load(open(os.path.join(path, "case.json")))
    vf.build("hooks")
    wd = os.path.join(vf.WORK, "C30-replay")
    shutil.rmtree(wd, ignore_errors=True)
    built, facts, sizes = prepare(wd, set(cs["bins"]))
    ev, odd, out = run_case(wd, 0, cs, built, facts, sizes)
    print(out)
    print(json.dumps(ev))
    r = vf.tlc_validate("PkgDiffTrace.tla", "PkgDiffTrace.cfg", [ev])
    shutil.rmtree(wd, ignore_errors=True)
    print("accepted" if r["accepted"] and not odd else "rejected: %s" % ([(i, v) for (i, e, v) in r["bad"]] or "report not understood",))
    return 0 if r["accepted"] and not odd else 1
