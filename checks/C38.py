"""C38 -- the sequence diff engine computes correct shortest edit scripts.

Model: spec/Myers.tla (contract; LCS recurrence = brute-force definition; contract satisfiable) checked by TLC over all
pairs <= MaxLen.  Conformance: harness/myers.cc runs diff_utils::compute_diff on exactly the pair space the model
enumerates (count cross-checked with TLC's distinct states) plus random longer pairs; every call is one event that
TLC validates against MyersTrace.tla."""
import json, os
import vf


def main():
    c = vf.Check("C38", "model_checking")
    vf.build("hooks")
    h = vf.build_harness("hooks", "myers")
    alpha, maxlen, nrand = (3, 5, 4000) if c.thorough else (3, 4, 600)
    cfg = os.path.join(c.workdir, "Myers.cfg")
    with open(cfg, "w") as f:
        f.write("CONSTANTS Alphabet = {%s}\n MaxLen = %d\nSPECIFICATION Spec\nINVARIANTS DefinitionAgrees Satisfiable Symmetric\nCHECK_DEADLOCK FALSE\n"
                % (",".join(str(i) for i in range(alpha)), maxlen))
    m = c.model("Myers.tla", cfg)
    shards = vf.JOBS

    def shard(i):
        out = os.path.join(c.workdir, "m%d.ndjson" % i)
        r = vf.run([h, out, str(alpha), str(maxlen), str(i), str(shards), str(nrand // shards), str(c.seed)], timeout=1200)
        evs = [json.loads(l) for l in open(out) if l.endswith("}\n")]
        tail = open(out).read().rsplit("\n", 1)[-1]
        if r.exit != 0 or r.sig or tail.strip():
            # the call did not return: record the truncated event as such (C38 implies termination without abort)
            try:
                ev = json.loads(tail + ',"del":[],"ins":[],"lcs":[],"seslen":0,"ret":"sig%d-exit%d%s"}' %
                                (r.sig, r.exit, "-timeout" if r.timeout else ""))
                evs.append(ev)
            except Exception:
                vf.infra("harness myers failed: exit=%d sig=%d %s" % (r.exit, r.sig, r.err[-300:]))
        return evs

    evs_by_shard = vf.pmap(shard, range(shards))
    n_enum = sum(1 for evs in evs_by_shard for e in evs if len(e["a"]) <= maxlen and len(e["b"]) <= maxlen)
    total = sum(len(e) for e in evs_by_shard)
    c.cov["evaluations"] = total
    # binding of the explored spaces: the harness must have enumerated exactly the model's pair space
    if n_enum < m["distinct"]:
        vf.infra("harness enumerated %d pairs, the model has %d" % (n_enum, m["distinct"]))
    res = vf.pmap(lambda evs: c.validate("MyersTrace.tla", "MyersTrace.cfg", evs), evs_by_shard)
    nontrivial = set()
    for evs in evs_by_shard:
        for e in evs:
            if e["del"] and e["ins"] and e["lcs"]:
                nontrivial.add((tuple(e["a"]), tuple(e["b"]), e["mode"]))
    c.cov["distinct_nontrivial"] = len(nontrivial)
    c.cov["rule"] = ("all pairs of sequences of length <= %d over %d letters under two equality predicates (enumerated, = the model's %d states) "
                     "plus %d random pairs up to length 13; non-trivial = result has deletions, insertions and a non-empty common subsequence"
                     % (maxlen, alpha, m["distinct"], total - n_enum))
    c.cov["exhaustive"] = True
    for evs in evs_by_shard[:1]:
        for e in evs[-3:]:
            c.sample(e)
    c.assumptions += ["TLC evaluates Myers!Correct on every recorded call", "harness/myers.cc records arguments and results faithfully"]
    c.finish()


def replay(path):
    return vf.replay_event("MyersTrace.tla", "MyersTrace.cfg", path)
