"""C41 -- name and path helpers behave as specified.

Model: spec/StrUtils.tla.  Strings are token sequences; the module gives the declarative definitions (prefix / suffix /
proper-prefix suffix, the non-empty fields with leading white space removed, component-wise qualified-name equality modulo
anonymous internal names, trimming, character classes), transcriptions of the implementation's algorithms, and the judge
that compares a result with the definitions.  For every helper family (own token alphabet and bounds) TLC checks over all
pairs <x, y> of token strings that the definitions agree with their mathematical characterizations, that the *corrected*
transcriptions satisfy DeclNamesEqualSymmetric, DeclNamesEqualIsStringEqWithoutAnon, SplitIsFields, PrefixSuffixDefs, ...,
and prints every input on which the transcription of the *pinned* code departs from the definitions (PinnedDifferences).
Conformance: harness/strutils.cc calls the real helpers on exactly the pair space of each family (count cross-checked with
TLC's distinct states); every call is one event that TLC judges against the definitions (StrUtilsTrace.tla)."""
import json, os
import vf

INVARIANTS = ("DefinitionsAgree DeclNamesEqualSymmetric DeclNamesEqualIsStringEqWithoutAnon DeclNamesEqualIsComponentwise "
              "SplitIsFields PrefixSuffixDefs TrimAndClassDefs PinnedDifferences")
ANON_S, ANON_U, ANON_E = "__anonymous_struct__", "__anonymous_union__", "__anonymous_enum__"
PREFIX_FNS = ["begins_with", "ends_with", "suffix", "trim_leading"]
UNARY_FNS = ["trim_ws", "is_ascii", "is_ascii_id"]

#            name       helpers               token alphabet                                         MaxLenX MaxLenY
QUICK = [("names",   ["decl_names_equal"], ["a", "::", ANON_S, ANON_U, "1"],                            3, 3),
         ("prefix",  PREFIX_FNS,           ["a", "b", "/"],                                             4, 3),
         ("split",   ["split"],            ["a", ",", " ", "::"],                                       4, 2),
         ("unary",   UNARY_FNS,            ["a", " ", "<09>", "1", "<1F>", "<E9>"],                     4, 0)]
THOROUGH = [("names",   ["decl_names_equal"], ["a", "b", "::", ANON_S, ANON_U, "1"],                    3, 3),
            ("names4",  ["decl_names_equal"], ["a", "::", ANON_S, ANON_E, "2"],                         4, 2),
            ("prefix",  PREFIX_FNS,           ["a", "b", "/"],                                          5, 3),
            ("prefix2", PREFIX_FNS,           ["a", "::", ANON_S, " "],                                 3, 3),
            ("split",   ["split"],            ["a", ",", " ", "::", "<09>"],                            4, 2),
            ("split5",  ["split"],            ["a", ",", " "],                                          6, 2),
            ("unary",   UNARY_FNS,            ["a", "_", " ", "<09>", "<0A>", "1", "<1F>", "<7F>", "<80>", "<E9>"], 4, 0)]


def tla_set(xs):
    return "{" + ", ".join('"%s"' % x for x in xs) + "}"


def nontrivial(e):
    """A call whose recorded result is not the trivial one (recorded facts only; no judgement)."""
    out = e.get("out") or []
    return bool((e.get("res") and e["x"] != e["y"] and e["y"]) or len(out) >= 2 or (out and out[0] and out[0] != e["x"]))


def main():
    c = vf.Check("C41", "model_checking")
    vf.build("hooks")
    h = vf.build_harness("hooks", "strutils")
    shards = 8                               # harness processes per family
    vshards = 8 if c.thorough else 6         # TLC validation runs (vf limits concurrent JVMs machine-wide)
    all_events, predicted, fam_rows = [], [], []
    for (name, fns, toks, mx, my) in (THOROUGH if c.thorough else QUICK):
        cfg = os.path.join(c.workdir, "StrUtils-%s.cfg" % name)
        with open(cfg, "w") as f:
            f.write("CONSTANTS Tokens = %s\n MaxLenX = %d\n MaxLenY = %d\n Fns = %s\n Oddities = {}\nSPECIFICATION Spec\nINVARIANTS %s\nCHECK_DEADLOCK FALSE\n"
                    % (tla_set(toks), mx, my, tla_set(fns), INVARIANTS))
        m = c.model("StrUtils.tla", cfg)
        diffs = [d for d in m["printed"] if isinstance(d, dict) and "fn" in d and "v" in d]
        predicted += diffs

        def shard(i, name=name, fns=fns, toks=toks, mx=mx, my=my):
            out = os.path.join(c.workdir, "s-%s-%d.ndjson" % (name, i))
            r = vf.run([h, out, ",".join(fns), "|".join(toks), str(mx), str(my), str(i), str(shards)], timeout=1500)
            if r.exit != 0 or r.sig or r.timeout:
                vf.infra("harness strutils failed on family %s: exit=%d sig=%d %s" % (name, r.exit, r.sig, r.err[-300:]))
            evs = []
            for ln in open(out):
                ev = json.loads(ln)
                ev["fam"] = name
                evs.append(ev)
            return evs, json.loads(r.out.strip().splitlines()[-1])

        res = vf.pmap(shard, range(shards), jobs=shards)
        evs = [e for (es, _) in res for e in es]
        pairs = set((tuple(e["x"]), tuple(e["y"])) for e in evs)
        # binding of the explored spaces: the harness must have visited exactly the model's pair space
        if len(pairs) != m["distinct"] or sum(s["pairs"] for (_, s) in res) != m["distinct"]:
            vf.infra("family %s: harness visited %d pairs, the model has %d states" % (name, len(pairs), m["distinct"]))
        fam_rows.append({"family": name, "helpers": fns, "tokens": toks, "max_len": [mx, my], "pairs": len(pairs), "calls": len(evs),
                         "calls_that_did_not_return": sum(s["timeouts"] + s["crashes"] for (_, s) in res),
                         "pinned_transcription_differs_on": len(diffs)})
        all_events += evs

    alphabets = {name: toks for (name, _, toks, _, _) in (THOROUGH if c.thorough else QUICK)}

    def case_of(ev):
        return {"case.json": {"fn": ev["fn"], "x": ev["x"], "y": ev["y"], "tokens": alphabets[ev["fam"]],
                              "call": "%s(%s, %s)" % (ev["fn"], json.dumps("".join(ev["x"])), json.dumps("".join(ev["y"])))}}

    # Directed cases first: a few of the inputs on which TLC found the pinned transcription to depart from the definitions (per helper
    # and kind of departure) are validated before the bulk, so that the listed violations show every kind the model predicts.
    by_key = {}
    for e in all_events:
        by_key.setdefault((e["fn"], tuple(e["x"]), tuple(e["y"])), e)
    directed, per_kind = [], {}
    for d in sorted(predicted, key=lambda d: (d["fn"], d["v"], len(d["x"]) + len(d["y"]), d["x"], d["y"])):
        e = by_key.get((d["fn"], tuple(d["x"]), tuple(d["y"])))
        if e is not None and per_kind.get((d["fn"], d["v"]), 0) < 3 and not any(e is o for o in directed):
            per_kind[(d["fn"], d["v"])] = per_kind.get((d["fn"], d["v"]), 0) + 1
            directed.append(e)
    chosen = set(id(e) for e in directed)
    rest = [e for e in all_events if id(e) not in chosen]
    results = [(directed, c.validate("StrUtilsTrace.tla", "StrUtilsTrace.cfg", directed, case_of=case_of))] if directed else []
    n = max(1, (len(rest) + vshards - 1) // vshards)
    chunks = [rest[i:i + n] for i in range(0, len(rest), n)]
    results += vf.pmap(lambda ch: (ch, c.validate("StrUtilsTrace.tla", "StrUtilsTrace.cfg", ch, case_of=case_of)), chunks, jobs=vshards)
    # summaries of what TLC said (recorded, not judged here)
    verdicts, follows = {}, {"pinned": 0, "corrected": 0, "neither": 0}
    for ch, r in results:
        for (i, ev, v) in r["bad"]:
            k = "%s %s" % (ev["fn"], v)
            row = verdicts.setdefault(k, {"count": 0, "first": "%s(%s, %s)" % (ev["fn"], json.dumps("".join(ev["x"])), json.dumps("".join(ev["y"])))})
            row["count"] += 1
        for rec in vf._printed(r["out"]):
            if isinstance(rec, dict) and "follows" in rec:
                follows[rec["follows"]] = follows.get(rec["follows"], 0) + 1
    c.cov["evaluations"] = len(all_events)
    c.cov["distinct_nontrivial"] = len(set((e["fn"], tuple(e["x"]), tuple(e["y"])) for e in all_events if nontrivial(e)))
    c.cov["rule"] = ("per helper family, all pairs <x, y> of token strings up to the stated lengths over the family's alphabet (enumerated, = the "
                     "model's states; unary helpers on every x); non-trivial = the call returned true on distinct non-empty arguments, or produced "
                     "two or more fields, or a non-empty string different from its input")
    c.cov["exhaustive"] = True
    c.cov["families"] = fam_rows
    c.cov["rejected_by_verdict"] = verdicts
    c.cov["model_predicted_differences_of_pinned_code"] = len(predicted)
    c.cov["implementation_follows_transcription"] = dict(follows, both=len(all_events) - sum(follows.values()))
    for k in sorted(verdicts):
        print("# TLC rejected %d calls: %s   first: %s" % (verdicts[k]["count"], k, verdicts[k]["first"]))
    for e in all_events[:2] + [e for e in all_events if nontrivial(e)][:3]:
        c.sample({k: v for k, v in e.items() if k != "fam"})
    c.assumptions += ["the token alphabets are prefix and suffix codes, and byte-disjoint for split_string (verified by the harness), so relations on "
                      "token sequences are the relations on the bytes",
                      "Readings (DESIGN.md C41): split trimming = leading white space; string_suffix = proper prefix; a split return value is judged "
                      "only where the documentation is unambiguous; string_is_ascii_identifier must accept C identifiers and refuse control / "
                      "non-ascii characters; names with an internal anonymous prefix followed by a non-number may compare either way",
                      "a call during which the harness child accumulates 50 ms of user-mode CPU time (confirmed in a fresh child with 250 ms) without returning "
                      "is recorded as not returning; the helpers take microseconds on these inputs",
                      "path helpers that delegate to libc (dir_name, base_name, real_path) and sorted_strings_common_prefix are not modelled",
                      "harness/strutils.cc records arguments and results faithfully"]
    c.finish()


def replay(path):
    """Re-run the recorded call against the current tree and let TLC judge the new event."""
    p = os.path.join(path, "case.json")
    if not os.path.exists(p):
        return vf.replay_event("StrUtilsTrace.tla", "StrUtilsTrace.cfg", path)
    case = json.load(open(p))
    vf.build("hooks")
    h = vf.build_harness("hooks", "strutils")
    d = os.path.join(vf.WORK, "C41-replay")
    os.makedirs(d, exist_ok=True)
    out = os.path.join(d, "one.ndjson")
    r = vf.run([h, out, "--one", case["fn"], "|".join(case["tokens"]), "|".join(case["x"]), "|".join(case["y"])], timeout=120)
    if r.exit != 0 or r.sig or r.timeout:
        vf.infra("harness strutils failed: exit=%d sig=%d %s" % (r.exit, r.sig, r.err[-300:]))
    evs = [json.loads(l) for l in open(out)]
    v = vf.tlc_validate("StrUtilsTrace.tla", "StrUtilsTrace.cfg", evs)
    print(case["call"])
    print(json.dumps(evs[0]))
    print("accepted" if v["accepted"] else "rejected: %s" % ([(i, x) for (i, _, x) in v["bad"]] or v["kf"],))
    return 0 if v["accepted"] else 1
