"""C31 -- parallel package comparison equals sequential comparison.

Model:   spec/PkgDiff.tla composed with the worker-queue abstraction (tasks popped FIFO by 1..3 anonymous workers, completing in any
         order): OrderIndependent -- the printed order (sort by size, then name) and the status (commutative OR) are one function of
         the inputs whatever the number of workers and the completion order, in particular those of the sequential run -- plus
         NotifierStatus, EveryBinaryCovered and termination, over <= 4 comparison tasks (PkgDiffPar.cfg) with the actions that stand
         for the implementation (source fingerprints, checks/_pkgdiff.py).  The queue itself is C32's (WorkerQueue.tla refines
         WorkerQueueAbs.tla).
Replay:  pairs of package directories with 1-40 real DSOs (different sizes and amounts of debug info, removed / added / changed / clean
         binaries); `abipkgdiff --no-parallel d1 d2` against `abipkgdiff d1 d2` with 1..16 worker threads (harness/nproc_preload.c
         answers sysconf(_SC_NPROCESSORS_ONLN): the tool has no option) and H2 schedule perturbation seeds, on the `hooks` and on the
         `tsan` build.
Verdict: TLC.  spec/PkgDiffTrace.tla (event Par): same stdout hash, same exit status, no ThreadSanitizer report with a libabigail frame,
         completion order admissible for PkgDiff's queue.  spec/WorkerQueueAbsTrace.tla: the H1 events of every queue of the process
         (abipkgdiff nests four) are a behaviour of WorkerQueueAbs (checks/C32.h1_executions)."""
import json, os, shutil, threading
import vf
from checks import _pkgdiff as pk
from checks.C32 import h1_executions, need_hooks

NPOOL = 40
POOL = [dict(sym="m%02d" % i, file="libm%02d.so" % i, soname=("libm%02d.so.1" % i) if i % 3 else None,
             pad=((i * 7) % 5) * 4096, bulk=((i * 13) % 4) * 12) for i in range(NPOOL)]
VERS = ["absent", "v1", "v2", "v3"]
OPTS = [[], [], ["--show-identical-binaries"], ["--leaf-changes-only", "--impacted-interfaces"], ["--harmless", "--redundant"], ["--no-added-binaries"],
        ["--verbose"], ["--dso-only", "--no-show-locs"]]
LAYOUTS = [["usr/lib"], ["usr/lib"], ["usr/lib", "usr/lib64"], ["usr/lib", "usr/lib/plugins", "opt/p/lib"]]


class _Proxy:
    """the process result as WorkerQueueAbsTrace's End event wants it: abipkgdiff's status bit-field is not an abnormal exit, and
    ThreadSanitizer reports are judged once, in the Par event"""
    def __init__(self, r):
        self.exit = 0 if pk.retof(r) == "ok" else r.exit
        self.sig, self.timeout, self.out, self.err = r.sig, r.timeout, "", ""


def packages(c):
    if c.thorough:
        ns = list(range(1, NPOOL + 1)) + [c.rng.randint(2, NPOOL) for _ in range(20)]
    else:
        ns = [1, 2, 3, 5, 8, 13, 24, 40]
    res = []
    for n in ns:
        bins = sorted(c.rng.sample(range(NPOOL), n))
        absent = c.rng.choice((0.0, 0.1, 0.2))
        pick = lambda: "absent" if c.rng.random() < absent else c.rng.choice(VERS[1:])
        p1, p2 = [pick() for _ in bins], [pick() for _ in bins]
        if all(v == "absent" for v in p1):
            p1[0] = "v1"
        if all(v == "absent" for v in p2):
            p2[0] = "v2"
        lay_ = c.rng.choice(LAYOUTS)
        res.append({"bins": bins, "dirs": [c.rng.choice(lay_) for _ in bins], "pkg1": p1, "pkg2": p2, "opts": c.rng.choice(OPTS)})
    return res


def runs_of(c, pkgs):
    """(package index, variant, workers, seed); workers 0 = what the machine gives, seed 0 = natural schedule"""
    runs = []
    for i, p in enumerate(pkgs):
        if c.thorough:
            ws = [0] + c.rng.sample(range(1, 17), 5)
            for w in ws:
                for k in range(3):
                    runs.append((i, "hooks", w, 0 if k == 0 else c.rng.randrange(1, 1 << 30)))
            if i % 4 == 0:
                for w in [0] + c.rng.sample(range(2, 17), 4):
                    runs.append((i, "tsan", w, c.rng.randrange(1, 1 << 30) if w else 0))
        else:
            for w in (0, 1, 2, 3, 4, 8):
                for k in range(2):
                    runs.append((i, "hooks", w, 0 if k == 0 else c.rng.randrange(1, 1 << 30)))
            if i % 2 == 1:
                for w in (2, 4, 0):
                    runs.append((i, "tsan", w, c.rng.randrange(1, 1 << 30) if w else 0))
    return runs


def lay(workdir, i, p, built):
    d = os.path.join(workdir, "pkg", str(i))
    bins = [POOL[k] for k in p["bins"]]
    return (pk.lay_out(os.path.join(d, "d1"), bins, p["dirs"], p["pkg1"], built), pk.lay_out(os.path.join(d, "d2"), bins, p["dirs"], p["pkg2"], built))


def par_run(workdir, rid, dirs, variant, workers, seed, seqres, shim, opts=()):
    """one parallel run -> (Par event, H1 executions, ThreadSanitizer samples)"""
    sc = os.path.join(workdir, "run", str(rid))
    tr = os.path.join(sc, "h1.ndjson")
    os.makedirs(sc, exist_ok=True)
    r = pk.run_pkgdiff(variant, dirs[0], dirs[1], sc, nproc=workers, seed=seed, trace=tr, shim=shim, extra=opts, timeout=600 if variant == "tsan" else 240)
    h1 = h1_executions(tr, _Proxy(r), rid, needsum=False)
    ours, foreign, samples = pk.tsan_reports(r.err)
    qs = {}
    raw = [json.loads(l) for l in open(tr, errors="replace") if l.startswith("{")] if os.path.exists(tr) else []
    raw.sort(key=lambda e: e.get("seq", 0))
    for e in raw:
        qs.setdefault(e.get("q", 1), []).append(e)
    cq = qs[max(qs)] if len(qs) >= 4 else []                       # the comparison queue is the fourth (extraction x2, preparation, comparison)
    ev = {"e": "Par", "c": rid, "variant": variant, "seqHash": vf.sha(seqres.out), "seqExit": seqres.exit if not seqres.sig else 0, "seqRet": pk.retof(seqres),
          "parHash": vf.sha(r.out), "parExit": r.exit if not r.sig else 0, "ret": pk.retof(r),
          "workers": workers, "seed": seed, "tsan": ours, "tsanForeign": foreign,
          "nTasks": sum(1 for e in cq if e["e"] == "Schedule"), "qWorkers": max([e["t"] for e in cq if e["e"] == "Start"] or [0]),
          "doneOrder": [e["t"] for e in cq if e["e"] == "DonePush"]}
    shutil.rmtree(sc, ignore_errors=True)
    return ev, h1, samples


def selftest(c, good):
    """converse binding: corrupt one recorded fact of an accepted Par event at a time; TLC must reject every variant"""
    vs = []
    for name, f in (("report hash", lambda e: e.update(parHash=e["parHash"][::-1] + "x")), ("exit status", lambda e: e.update(parExit=e["parExit"] ^ 4)),
                    ("one race", lambda e: e.update(tsan=1)), ("abnormal end", lambda e: e.update(ret="sig11")),
                    ("task completed before it can have been popped", lambda e: e.update(qWorkers=1, doneOrder=list(reversed(e["doneOrder"])))),
                    ("a task completed twice", lambda e: e.update(doneOrder=[e["doneOrder"][0]] + e["doneOrder"][:-1]))):
        e = json.loads(json.dumps(good))
        f(e)
        vs.append((name, e))
    r = vf.tlc_validate("PkgDiffTrace.tla", "PkgDiffTrace.cfg", [e for n, e in vs])
    rejected = {i for (i, e, v) in r["bad"]}
    missed = [n for k, (n, e) in enumerate(vs) if k + 1 not in rejected]
    c.cov["trace_spec_selftest"] = {"corrupted_variants": len(vs), "rejected": len(vs) - len(missed)}
    if missed:
        vf.infra("PkgDiffTrace accepts corrupted Par events: %s" % missed)


def main():
    import time
    c = vf.Check("C31", "model_checking")
    phase, t_last = {}, [time.time()]

    def mark(name):
        phase[name] = round(time.time() - t_last[0], 1)
        t_last[0] = time.time()
    vf.build("hooks", "tsan")
    mark("build")
    need_hooks(os.path.join(vf.bdir("hooks"), "src", "abg-workers.cc"))
    fp = pk.fingerprints()
    shim = pk.nproc_shim(c)
    mres, merr = [], []

    def bg():
        try:
            jobs = [pk.make_cfg(c, "PkgDiffPar.cfg", "PkgDiffPar.cfg", fp)]
            if c.thorough:
                jobs.append(pk.make_cfg(c, "PkgDiff.cfg", "PkgDiffImpl.cfg", fp, invariants=["TypeOK", "EveryBinaryCovered", "OrderIndependent", "NotifierStatus"]))
            mres.extend(vf.pmap(lambda j: vf.tlc_check("PkgDiff.tla", j, workers=6, timeout=1400, heap="6g"), jobs, jobs=2))
        except SystemExit as ex:
            merr.append(ex)
    th = threading.Thread(target=bg)
    th.start()

    pkgs = packages(c)
    used = sorted(set(k for p in pkgs for k in p["bins"]))
    built = pk.build_all(os.path.join(c.workdir, "bins"), [POOL[k] for k in used])
    usable = []
    for p in pkgs:
        need = [(POOL[k]["sym"], x) for k, v, w in zip(p["bins"], p["pkg1"], p["pkg2"]) for x in (v, w) if x != "absent"]
        if all(k in built for k in need):
            usable.append(p)
        else:
            c.discard("a binary of the package does not compile")
    pkgs = usable
    dirs = vf.pmap(lambda ip: lay(c.workdir, ip[0], ip[1], built), list(enumerate(pkgs)), jobs=8)
    runs = runs_of(c, pkgs)
    mark("binaries+packages")
    seqkeys = sorted({(i, v) for (i, v, w, s) in runs})
    seqs = dict(zip(seqkeys, vf.pmap(lambda k: pk.run_pkgdiff(k[1], dirs[k[0]][0], dirs[k[0]][1], os.path.join(c.workdir, "seq", "%d-%s" % k), seq=True,
                                                               extra=pkgs[k[0]]["opts"], timeout=600 if k[1] == "tsan" else 240), seqkeys, jobs=8)))
    # parallel runs need real parallelism to be worth anything: few at a time (each starts up to 16 threads)
    res = vf.pmap(lambda ir: par_run(c.workdir, ir[0], dirs[ir[1][0]], ir[1][1], ir[1][2], ir[1][3], seqs[(ir[1][0], ir[1][1])], shim,
                                     pkgs[ir[1][0]]["opts"]),
                  list(enumerate(runs)), jobs=4)
    mark("campaign")
    pars = [ev for ev, h1, sm in res]
    by_run = {rid: h1 for rid, (ev, h1, sm) in enumerate(res)}

    def case_of(ev):
        rid = ev.get("c", -1)
        if not (0 <= rid < len(runs)):
            return {}
        i, variant, w, s = runs[rid]
        return {"case.json": dict(pkgs[i], kind="par", variant=variant, workers=w, seed=s),
                "par-event.json": pars[rid], "h1.ndjson": "".join(json.dumps(e) + "\n" for e in by_run[rid])}

    total = sum(len(v) for v in by_run.values())
    shards = [[] for _ in range(min(8, total // 15000 + 1))]
    for k, rid in enumerate(sorted(by_run, key=lambda r: -len(by_run[r]))):
        shards[k % len(shards)] += by_run[rid]
    jobs = [lambda evs=evs: c.validate("WorkerQueueAbsTrace.tla", "WorkerQueueAbsTrace.cfg", evs, case_of=case_of, traces=sum(1 for e in evs if e["e"] == "Reset"))
            for evs in shards if evs]
    jobs.append(lambda: c.validate("PkgDiffTrace.tla", "PkgDiffTrace.cfg", pars, case_of=case_of))
    vres = vf.pmap(lambda f: f(), jobs, jobs=6)
    bad = {i for (i, e, v) in (vres[-1]["bad"] + vres[-1]["kf"])} if vres[-1] else set()
    good = [e for k, e in enumerate(pars) if k + 1 not in bad and e["nTasks"] >= 3 and e["qWorkers"] >= 2]
    if good:
        selftest(c, good[0])
    elif not c.violations:
        vf.infra("no accepted run suitable for the trace-specification self-test")

    mark("validation")
    th.join()
    mark("waiting for the models (they run beside the campaign)")
    c.cov["phase_s"] = phase
    if merr:
        raise merr[0]
    for r in mres:
        pk.record(c, r)
        if not r["ok"]:
            import sys
            sys.stderr.write(r["out"][-3000:])
            vf.infra("model PkgDiff/%s violates its properties (rc=%d)" % (os.path.basename(r["cfg"]), r["rc"]))
    c.cov["implementation_actions"] = {"status": "StatusAccumulate (corrected)" if fp["Fixed"] else "StatusOverwrite (transcribed)",
                                       "keys": "root-relative (corrected)" if fp["FixedKeys"] else "after the common prefix (transcribed)"}
    c.cov["evaluations"] = len(pars)
    reordered = {(runs[e["c"]][0], e["variant"], tuple(e["doneOrder"])) for e in pars if e["nTasks"] >= 2 and e["doneOrder"] != sorted(e["doneOrder"])}
    c.cov["distinct_nontrivial"] = len(reordered)
    c.cov["runs"] = {"hooks": sum(1 for e in pars if e["variant"] == "hooks"), "tsan": sum(1 for e in pars if e["variant"] == "tsan"),
                     "sequential_references": len(seqs), "queue_executions": sum(1 for v in by_run.values() for e in v if e["e"] == "Reset"),
                     "h1_events": total, "worker_counts": sorted({e["qWorkers"] for e in pars}), "binaries": sorted({len(p["bins"]) for p in pkgs})}
    c.cov["tsan_reports"] = {"libabigail": sum(e["tsan"] for e in pars), "foreign": sum(e["tsanForeign"] for e in pars),
                             "samples": [s for ev, h1, sm in res for s in sm][:5]}
    c.cov["rule"] = ("runs of abipkgdiff on %d pairs of package directories with %s DSOs, each against the --no-parallel run of the same build: "
                     "1..16 worker threads x H2 perturbation seeds on `hooks` (%d runs) and `tsan` (%d runs); non-trivial = the comparison tasks "
                     "completed in an order different from the scheduling order, counted once per (package pair, build, completion order)"
                     % (len(pkgs), "1-40" if c.thorough else "1, 2, 3, 5, 8, 13, 24, 40", c.cov["runs"]["hooks"], c.cov["runs"]["tsan"]))
    for e in [e for e in pars if e["nTasks"] >= 5 and e["doneOrder"] != sorted(e["doneOrder"])][:2] + [e for e in pars if e["variant"] == "tsan"][:1]:
        c.sample(e, limit=3)
    c.assumptions += ["'the same report' = the same bytes on standard output; the exit status is compared as a number",
                      "ThreadSanitizer reports are observations of the `tsan` build; a report counts when the innermost non-runtime frame of one of "
                      "the racing accesses is inside the tool (libabigail is linked statically); reports entirely inside elfutils/libxml2 are "
                      "recorded under coverage.tsan_reports.foreign and not judged",
                      "harness/nproc_preload.c only changes what sysconf(_SC_NPROCESSORS_ONLN) returns",
                      "H1 sequence numbers are taken inside the critical section of the state change they describe (C32)",
                      "model bounds: <= 4 tasks x <= 3 workers; larger packages and worker counts are covered by trace validation only"]
    c.finish()


def replay(path):
    cs = json.load(open(os.path.join(path, "case.json")))
    vf.build(cs["variant"])
    wd = os.path.join(vf.WORK, "C31-replay")
    shutil.rmtree(wd, ignore_errors=True)
    os.makedirs(wd)
    c = type("R", (), {"workdir": wd})()
    built = pk.build_all(os.path.join(wd, "bins"), [POOL[k] for k in cs["bins"]])
    d = lay(wd, 0, cs, built)
    seq = pk.run_pkgdiff(cs["variant"], d[0], d[1], os.path.join(wd, "seq"), seq=True, extra=cs.get("opts", ()), timeout=600)
    ev, h1, sm = par_run(wd, 0, d, cs["variant"], cs["workers"], cs["seed"], seq, pk.nproc_shim(c), cs.get("opts", ()))
    print(json.dumps(ev))
    r1 = vf.tlc_validate("PkgDiffTrace.tla", "PkgDiffTrace.cfg", [ev])
    r2 = vf.tlc_validate("WorkerQueueAbsTrace.tla", "WorkerQueueAbsTrace.cfg", h1)
    shutil.rmtree(wd, ignore_errors=True)
    ok = r1["accepted"] and r2["accepted"]
    print("accepted" if ok else "rejected: %s" % ([(i, v) for (i, e, v) in r1["bad"] + r2["bad"]],))
    return 0 if ok else 1
