"""C06 -- ABI-neutral source edits are never reported."""
import os
import vf, campaign


def main():
    c = vf.Check("C06", "exploration")
    vf.build("hooks")
    c.model("Abi.tla", "AbiSmall.cfg" if c.thorough else "AbiSmallQuick.cfg")
    abidiff = vf.tool("hooks", "abidiff")
    cases = campaign.programs(c, 1500 if c.thorough else 100) + campaign.programs(c, 700 if c.thorough else 50, name="gencxx", Lang='"cxx"')
    comps = ["gcc", "clang", "gcc-dwarf4", "clang-dwarf5"] if c.thorough else ["gcc", "clang"]

    def styles(idx):
        r = c.rng.__class__(c.seed * 7919 + idx)
        s1 = {"seed": r.randrange(1000), "param_prefix": "p", "body": 0, "shift": 0, "statics": 0, "unused": 0, "tus": r.choice([1, 1, 2])}
        s2 = {"seed": r.randrange(1000), "param_prefix": r.choice(["arg", "x", "p"]), "body": r.randrange(3), "shift": r.randrange(4),
              "statics": r.randrange(3), "unused": r.randrange(3), "tus": r.choice([1, 2, 3])}
        return s1, s2

    def one(job):
        idx, case, comp = job
        s1, s2 = styles(idx)
        a, e1, d = campaign.build_one(c, idx, case, comp, style=s1, sub=comp + "/a")
        b, e2, d2 = campaign.build_one(c, idx, case, comp, style=s2, sub=comp + "/b")
        if not a or not b:
            return None
        r = vf.run([abidiff, "--no-default-suppression", a, b], env=vf.henv(d))
        return {"e": "Neutral", "case": idx, "comp": comp, "s1": s1, "s2": s2, "exit": r.exit, "outlen": len(r.out), "ret": campaign.retof(r), "out": r.out[:400]}

    res = vf.pmap(one, [(i, cs, comp) for i, cs in enumerate(cases) for comp in comps])

    # hand-written neutral pairs (constructs Abi.tla does not generate: anonymous members re-ordered / moved between units, typedef-named aggregates)
    sdir = os.path.join(vf.VERIF, "render", "neutral_samples")
    samples = sorted(d for d in os.listdir(sdir) if os.path.isdir(os.path.join(sdir, d)))

    def one_sample(job):
        k, name, comp = job
        cc, flags = campaign.COMPILERS[comp]
        libs = []
        for side in ("a", "b"):
            d = os.path.join(c.workdir, "p%d" % (100000 + k), comp, side)
            files = {fn: open(os.path.join(sdir, name, side, fn)).read() for fn in sorted(os.listdir(os.path.join(sdir, name, side))) if fn.endswith(".c")}
            path, err = campaign.compile_prog(d, files, cc, tuple(flags), "dso", "lib.so")
            if not path:
                return None
            libs.append(path)
        evs = []
        for x, y, direction in ((libs[0], libs[1], "a-b"), (libs[1], libs[0], "b-a")):
            r = vf.run([abidiff, "--no-default-suppression", x, y], env=vf.henv(os.path.dirname(libs[0])))
            evs.append({"e": "Neutral", "case": 100000 + k, "comp": comp, "s1": {"sample": name, "tus": 1, "statics": 0, "unused": 0}, "s2": {"direction": direction, "tus": 1, "statics": 0, "unused": 0},
                        "exit": r.exit, "outlen": len(r.out), "ret": campaign.retof(r), "out": r.out[:400]})
        return evs
    sres = vf.pmap(one_sample, [(k, name, comp) for k, name in enumerate(samples) for comp in comps])
    events = [r for r in res if r] + [e for evs in sres if evs for e in evs]
    c.cov["hand_written_neutral_pairs"] = len(samples)
    c.discard("does-not-compile", len(res) - len(events))
    c.cov["evaluations"] = len(events)
    c.cov["distinct_nontrivial"] = len({e["case"] for e in events if (e["s1"]["tus"] != e["s2"]["tus"] or e["s2"]["statics"] or e["s2"]["unused"]) and e["case"] < 100000 and campaign.nontrivial_program(cases[e["case"]])})
    c.cov["rule"] = ("TLC-generated programs rendered twice with different neutral choices (definition order, parameter names, bodies, line shifts, static helpers, unused types, "
                     "distribution of definitions over 1-3 translation units), compilers %s; non-trivial = the two renderings differ in TU split, statics or unused types and the program has >= 2 composite kinds" % comps)
    for e in events[:3]:
        c.sample(e)
    case_of = lambda ev: campaign.case_files(os.path.join(c.workdir, "p%d" % ev["case"]))
    vf.pmap(lambda i: c.validate("AbiTrace.tla", "AbiTrace.cfg", events[i:i + 3000], case_of=case_of), range(0, len(events), 3000), jobs=4)
    c.finish()


def replay(path):
    return vf.replay_event("AbiTrace.tla", "AbiTrace.cfg", path)
