"""C43 -- the debug-info format does not change the verdict: same sources, same compiler and code-generation flags, different DWARF configuration."""
import os
import vf, campaign

CONFIGS = [("-gdwarf-4",), ("-gdwarf-5",), ("-gdwarf-4", "-gno-column-info"), ("-gdwarf-5", "-gno-column-info"), ("-gdwarf-4", "-fdebug-types-section"),
           ("-gdwarf-5", "-fdebug-types-section"), ("-gdwarf-5", "-gsplit-dwarf") if False else ("-gdwarf-5", "-gstrict-dwarf")]


def main():
    c = vf.Check("C43", "exploration")
    vf.build("hooks")
    c.model("Abi.tla", "AbiSmall.cfg" if c.thorough else "AbiSmallQuick.cfg")
    abidiff = vf.tool("hooks", "abidiff")
    cases = campaign.programs(c, 1000 if c.thorough else 100)
    comps = ["gcc", "clang"]

    def one(job):
        idx, case, comp = job
        cc = comp
        paths = []
        style = {"tus": 1 + idx % 2, "seed": idx}
        for k, cfg in enumerate(CONFIGS):
            import cprog
            d = os.path.join(c.workdir, "p%d" % idx, "%s-%d" % (comp, k))
            files = cprog.render(case["types"], case["fns"], case["vars"], "c", style)
            p, err = campaign.compile_prog(d, files, cc, ("-g",) + tuple(cfg), "dso", "lib.so")
            paths.append(p)
        evs = []
        for k in range(1, len(paths)):
            if not paths[0] or not paths[k]:
                continue
            r = vf.run([abidiff, "--no-default-suppression", paths[0], paths[k]], env=vf.henv(os.path.dirname(paths[0])))
            evs.append({"e": "DebugFormat", "case": idx, "comp": comp, "cfg0": " ".join(CONFIGS[0]), "cfg1": " ".join(CONFIGS[k]), "typeUnits": "-fdebug-types-section" in CONFIGS[k], "exit": r.exit, "outlen": len(r.out),
                        "ret": campaign.retof(r), "out": r.out[:400]})
        return evs

    events = [e for evs in vf.pmap(one, [(i, cs, comp) for i, cs in enumerate(cases) for comp in comps]) for e in evs]
    c.cov["evaluations"] = len(events)
    c.cov["distinct_nontrivial"] = len({(e["case"], e["comp"], e["cfg1"]) for e in events if campaign.nontrivial_program(cases[e["case"]])})
    c.cov["rule"] = ("TLC-generated programs compiled by gcc and clang under 7 DWARF configurations (version 4/5, with/without column info, type units, strict DWARF); "
                     "every configuration compared with the first by abidiff; non-trivial = program with >= 2 composite kinds")
    for e in events[:3]:
        c.sample(e)
    case_of = lambda ev: campaign.case_files(os.path.join(c.workdir, "p%d" % ev["case"]))
    vf.pmap(lambda i: c.validate("AbiTrace.tla", "AbiTrace.cfg", events[i:i + 3000], case_of=case_of), range(0, len(events), 3000), jobs=4)
    c.finish()


def replay(path):
    return vf.replay_event("AbiTrace.tla", "AbiTrace.cfg", path)
