"""C02 -- ABIXML serialization preserves the ABI: abidiff B B.abi is empty/0 and abidw --abidiff B exits 0, for every lossless option set."""
import os, itertools
import vf, campaign

LOSSLESS = ["--no-show-locs", "--no-parameter-names", "--no-write-default-sizes", "--type-id-style hash", "--no-corpus-path",
            "--annotate", "--load-all-types"]


def optsets(c):
    allsets = [list(s) for k in range(len(LOSSLESS) + 1) for s in itertools.combinations(LOSSLESS, k)]
    if c.thorough:
        return allsets
    picked = [[], list(LOSSLESS)] + [[o] for o in LOSSLESS]
    picked += c.rng.sample(allsets, 5)
    return picked


def main():
    c = vf.Check("C02", "exploration")
    vf.build("hooks")
    c.model("Abi.tla", "AbiSmall.cfg" if c.thorough else "AbiSmallQuick.cfg")
    abidiff, abidw = vf.tool("hooks", "abidiff"), vf.tool("hooks", "abidw")
    cases = campaign.programs(c, 160 if c.thorough else 30) + campaign.programs(c, 80 if c.thorough else 15, name="gencxx", Lang='"cxx"')
    comps = ["gcc", "clang", "gcc-dwarf4", "clang-dwarf5"] if c.thorough else ["gcc", "clang"]
    sets = optsets(c)

    def one(job):
        idx, case, comp = job
        path, err, d = campaign.build_one(c, idx, case, comp, sub=comp)
        if not path:
            return None
        env = vf.henv(d)
        evs = []
        # thorough: all 128 option sets for every eighth program, 24 sampled sets for the others
        for k, o in enumerate((sets if idx % 8 == 0 else c.rng.sample(sets, 16) + [[], list(LOSSLESS)]) if c.thorough else c.rng.sample(sets, 6) + [[], list(LOSSLESS)]):
            fl = [x for s in o for x in s.split()]
            abi = "%s.%d.abi" % (path, k)
            rw = vf.run([abidw] + fl + ["--out-file", abi, path], env=env)
            rd = vf.run([abidiff, "--no-default-suppression", path, abi], env=env)
            rs = vf.run([abidw, "--abidiff"] + fl + ["--noout", path], env=env)
            evs.append({"e": "XmlEquiv", "case": idx, "comp": comp, "opts": " ".join(o), "dwexit": rw.exit, "diffexit": rd.exit,
                        "outlen": len(rd.out), "selfcheck": rs.exit, "ret": campaign.retof(rw, rd, rs), "out": (rd.out + rs.out + rs.err)[:300]})
        return evs

    res = vf.pmap(one, [(i, cs, comp) for i, cs in enumerate(cases) for comp in comps])
    events = []
    for r in res:
        if r is None:
            c.discard("does-not-compile")
        else:
            events += r
    c.cov["evaluations"] = len(events)
    c.cov["programs"] = len(cases)
    c.cov["distinct_nontrivial"] = len({(e["case"], e["comp"], e["opts"]) for e in events if e["opts"] and campaign.nontrivial_program(cases[e["case"]])})
    c.cov["rule"] = ("TLC-generated programs (Abi.tla) x %s x subsets of the 7 lossless abidw options (%s); per triple: abidw, abidiff B B.abi, abidw --abidiff; "
                     "non-trivial = distinct (program with >= 2 composite type kinds, compiler, non-empty option set)" % (comps, "all 128 (every eighth program) or 18 per program" if c.thorough else "8 per program"))
    for e in events[:3]:
        c.sample(e)
    case_of = lambda ev: campaign.case_files(os.path.join(c.workdir, "p%d" % ev["case"]))
    vf.pmap(lambda i: c.validate("AbiTrace.tla", "AbiTrace.cfg", events[i:i + 3000], case_of=case_of), range(0, len(events), 3000), jobs=4)
    c.finish()


def replay(path):
    return vf.replay_event("AbiTrace.tla", "AbiTrace.cfg", path)
