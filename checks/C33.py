"""C33 -- reading any ABIXML input is memory-safe and never aborts.

Model: spec/Reader.tla -- ABIXML loading as a state machine over an abstract document (elements with kind / id /
references / attribute classes), the document mutations as actions, the reader's id resolution (id -> element map,
forward references built on demand, "already registered" checks) and its outcome.  Reader.cfg: the corrected reader,
LoadTotal (every document reachable by <= 2 mutations ends in Loaded or Error, never an abort; bounded number of
steps, no deadlock) is checked exhaustively.  ReaderFaithful.cfg: the reader as transcribed (the sites whose function
text is still the transcribed one abort): TLC enumerates which (mutation class -> outcome) pairs exist; they are
recorded in the coverage next to the pairs the campaign observed.

Exploration: documents = abidw output (several option sets) of TLC-generated programs, the same wrapped in a corpus
group, and samples of tests/data; render/xmlmut.py applies every mutation class (the concrete side of the model's
actions) at several positions; `abilint D'` (ASan+UBSan build and the unsanitized build, which crashes where ASan's
zeroed red zones mask an out-of-bounds read), `abidiff D' D` and `abidiff D D'` (ASan+UBSan build) run under a
CPU-time limit; every run is one event {"e":"Load",...} that TLC judges against ReaderTrace.tla (LoadVerdict).  A
rejected event carries the class key mutation|tool|kind|function -- what a known-finding predicate (KF_C33) matches."""
import glob, hashlib, json, os, re, sys, threading
import vf, campaign, abixml
from checks import _elfhash as eh
from checks import _reader as rd
sys.path.insert(0, os.path.join(vf.VERIF, "render"))
import xmlmut

# normalised-text hashes of the functions whose abort sites spec/Reader.tla transcribes (site -> (file, function, hash))
TRANSCRIBED = {
    "handle_version_attribute": ("handle_version_attribute", "1e143dcbc8e99ded"),
    "build_or_get_type_decl": ("read_context::build_or_get_type_decl", "603174be54a30d17"),
    "build_type_decl": ("build_type_decl", "bb1fbfeb8bd9426b"),
    "build_pointer_type_def": ("build_pointer_type_def", "8951ec1783d2ba6e"),
    "build_typedef_decl": ("build_typedef_decl", "73e27c0cf194e6c3"),
    "build_array_type_def": ("build_array_type_def", "34919f8ced575f26"),
    "build_class_decl": ("build_class_decl", "b6ebd8866a2a5567"),
    "read_access": ("read_access", "494b581d9e2d0b7f"),
}
ABIDW_OPTS = [[], ["--load-all-types"], ["--annotate"], ["--type-id-style", "hash"], ["--no-show-locs", "--no-write-default-sizes"],
              ["--load-all-types", "--no-elf-needed", "--no-parameter-names"]]


def fn_text(path, name):
    """text of the DEFINITION of a function (forward declarations start the same way)"""
    s = open(path, encoding="utf-8", errors="replace").read()
    for m in re.finditer(r"^%s\(" % re.escape(name), s, re.M):
        a, b = s.find(";", m.end()), s.find("{", m.end())
        if b >= 0 and (a < 0 or b < a):
            e = s.find("\n}\n", m.start())
            return s[m.start():e + 3] if e >= 0 else ""
    return ""


def fingerprints():
    """site -> 'transcribed' | 'changed' (+ the hash found, for maintenance)"""
    st, found = {}, {}
    for site, (fn, h) in TRANSCRIBED.items():
        t = fn_text(os.path.join(vf.REPO, "src/abg-reader.cc"), fn)
        hh = hashlib.sha256(eh._norm(t).encode()).hexdigest()[:16] if t else "missing"
        found[site] = hh
        st[site] = "transcribed" if hh == h else "changed"
    return st, found


def sample_documents(c, want):
    """small ABIXML samples of the tree's test data, round-robin over the directories"""
    by = {}
    for p in sorted(glob.glob(os.path.join(vf.REPO, "tests/data/**/*.abi"), recursive=True)):
        try:
            n = os.path.getsize(p)
        except OSError:
            continue
        if 1500 <= n <= 40000 and "test-read-ctf" not in p:
            by.setdefault(os.path.dirname(p), []).append(p)
    dirs = sorted(by)
    for d in dirs:
        c.rng.shuffle(by[d])
    out, k = [], 0
    while len(out) < want and any(by.values()):
        d = dirs[k % len(dirs)]
        if by[d]:
            out.append(by[d].pop())
        k += 1
    return out


def main():
    c = vf.Check("C33", "exploration")
    vf.build("asan", "hooks")
    W = c.workdir
    fp, fph = fingerprints()
    fixed = sorted(s for s, v in fp.items() if v == "changed")
    mres, merr = {}, []

    def models():
        try:
            mres["corrected"] = vf.tlc_check("Reader.tla", "Reader.cfg", workers=4, timeout=1400, heap="4g")
            txt = open(os.path.join(vf.SPEC, "ReaderFaithful.cfg")).read()
            txt = txt.replace("FixedSites = {}", "FixedSites = {%s}" % ", ".join('"%s"' % s for s in fixed))
            p = os.path.join(W, "ReaderImpl.cfg")
            open(p, "w").write(txt)
            mres["impl"] = vf.tlc_check("Reader.tla", p, workers=2, timeout=900, heap="2g")
        except SystemExit as ex:
            merr.append(ex)
    th = threading.Thread(target=models)
    th.start()

    lint_a, lint_h, diff_a = vf.tool("asan", "abilint"), vf.tool("hooks", "abilint"), vf.tool("asan", "abidiff")
    abidw = vf.tool("hooks", "abidw")
    scratch = os.path.join(W, "scratch")
    limit = 60 if c.thorough else 30          # CPU seconds; a run on these documents takes well under 1 s of CPU

    # ---- documents
    docs = []                                  # dict(name, desc, path, data)
    dd = os.path.join(W, "docs")
    os.makedirs(dd, exist_ok=True)
    cases = campaign.programs(c, 10 if c.thorough else 4)
    comps = ["gcc", "clang", "gcc-dwarf4", "clang-dwarf5"]
    for i, cs in enumerate(cases):
        comp = comps[i % len(comps)]
        path, err, d = campaign.build_one(c, i, cs, comp, style={"tus": 1 + i % 3, "seed": i})
        if not path:
            c.discard("program does not compile")
            continue
        opts = ABIDW_OPTS[(i + c.seed) % len(ABIDW_OPTS)]
        abi = os.path.join(dd, "p%d.abi" % i)
        r = vf.run([abidw, "--no-corpus-path"] + opts + ["--out-file", abi, path], env=vf.henv(d))
        if r.exit != 0 or not os.path.exists(abi):
            c.discard("abidw failed on the generated program")
            continue
        docs.append({"name": "p%d" % i, "desc": "abidw %s of generated program %d (%s, %d TU)" % (" ".join(opts), i, comp, 1 + i % 3), "path": abi})
    if docs:
        g = os.path.join(dd, "group.abi")
        with open(g, "wb") as f:
            f.write(b"<abi-corpus-group version='2.1' architecture='elf-amd-x86_64'>\n" + open(docs[0]["path"], "rb").read() + b"</abi-corpus-group>\n")
        docs.append({"name": "group", "desc": "corpus group around " + docs[0]["name"], "path": g})
    for k, p in enumerate(sample_documents(c, 12 if c.thorough else 4)):
        q = os.path.join(dd, "s%d.abi" % k)
        open(q, "wb").write(open(p, "rb").read())
        docs.append({"name": "s%d" % k, "desc": "tests/data sample " + os.path.relpath(p, vf.REPO), "path": q})
    for d in docs:
        d["data"] = open(d["path"], "rb").read()

    # ---- baseline: the tools must be clean on the unmutated document, else nothing can be attributed to a mutation
    def base(d):
        rs = [rd.run([lint_a, d["path"]], scratch, 120), rd.run([lint_h, d["path"]], scratch, 120), rd.run([diff_a, d["path"], d["path"]], scratch, 120)]
        return [rd.classify(r)["kind"] for r in rs]
    usable = []
    for d, ks in zip(docs, vf.pmap(base, docs)):
        if any(k != "none" for k in ks):
            c.discard("tool not clean on the unmutated document (%s)" % "/".join(ks))
        elif not abixml.well_formed(d["data"]):
            c.discard("unmutated document is not well-formed for expat")
        else:
            usable.append(d)
    docs = usable
    if not docs:
        vf.infra("no usable document")

    # ---- mutations -> jobs
    per_doc = 300 if c.thorough else 90
    jobs, nclasses = [], set()
    md = os.path.join(W, "mut")
    os.makedirs(md, exist_ok=True)
    for d in docs:
        for k, (cls, detail, elem, data) in enumerate(xmlmut.mutations(d["data"], c.rng, per_doc, per=3 if c.thorough else 2)):
            p = os.path.join(md, "%s_%04d.abi" % (d["name"], k))
            with open(p, "wb") as f:
                f.write(data)
            wf = abixml.well_formed(data)
            nclasses.add(cls)
            plan = [("abilint", "asan", [lint_a, p]), ("abilint", "hooks", [lint_h, p])]
            both = [("abidiff", "asan", [diff_a, p, d["path"]]), ("abidiff", "asan", [diff_a, d["path"], p])]
            plan += both if c.thorough else [both[(k + c.seed) % 2]]
            for tool, build, cmd in plan:
                jobs.append({"doc": d, "cls": cls, "detail": detail, "elem": elem, "path": p, "wf": wf, "tool": tool, "build": build, "cmd": cmd})
    res = vf.pmap(lambda j: rd.run(j["cmd"], scratch, limit), jobs)
    cl = [rd.classify(r) for r in res]
    # frames of crashes of the unsanitized build: re-run under gdb
    need = [i for i, x in enumerate(cl) if x["needs_stack"]]
    for i, x in zip(need, vf.pmap(lambda i: rd.gdb_site(jobs[i]["cmd"], scratch, limit, cl[i]), need, jobs=8)):
        cl[i] = x
    # a CPU-time limit is deterministic; it is nevertheless confirmed once per (class, tool) with twice the limit
    seen, again = set(), []
    for i, x in enumerate(cl):
        if x["kind"] == "timeout" and (jobs[i]["cls"], jobs[i]["tool"]) not in seen:
            seen.add((jobs[i]["cls"], jobs[i]["tool"]))
            again.append(i)
    for i, r2 in zip(again, vf.pmap(lambda i: rd.run(jobs[i]["cmd"], scratch, 2 * limit), again)):
        x2 = rd.classify(r2)
        if x2["kind"] != "timeout":
            res[i], cl[i] = r2, x2
            c.discard("time-out not confirmed by the re-run")

    def event(j, r, x):
        return {"e": "Load", "tool": j["tool"], "build": j["build"], "mutation": j["cls"], "action": xmlmut.action_of(j["cls"]), "wf": j["wf"],
                "ret": x["ret"], "kind": x["kind"], "fn": x["fn"], "site": rd.site_name(x["fn"]), "exit": r.exit, "foreign": bool(x["foreign"]),
                "doc": j["doc"]["name"], "elem": j["elem"], "detail": j["detail"][:160], "file": os.path.basename(j["path"])}
    events = [event(j, r, x) for j, r, x in zip(jobs, res, cl)]
    c.cov["evaluations"] = len(events)

    # ---- model results
    th.join()
    if merr:
        raise merr[0]
    eh.record(c, mres["corrected"], must_hold=True)
    eh.record(c, mres["impl"], must_hold=True)
    pairs = {}
    for rec in mres["impl"]["printed"]:
        if isinstance(rec, dict) and "m" in rec and len(rec["m"]) == 1:
            pairs.setdefault(rec["m"][0], set()).add(rec["k"] + (":" + rec["fn"] if rec["fn"] else ""))
    c.cov["model_mutation_outcomes"] = {k: sorted(v) for k, v in sorted(pairs.items())}
    c.cov["model_abort_sites"] = sorted({o.split(":", 1)[1] for v in pairs.values() for o in v if o.startswith("Abort:")})
    c.cov["source_fingerprints"] = fp
    c.cov["source_fingerprint_hashes"] = fph

    # ---- TLC judges every run
    bad, kf = [], []
    chunks = list(range(0, len(events), 4000))
    for off, r in zip(chunks, vf.pmap(lambda o: vf.tlc_validate("ReaderTrace.tla", "ReaderTrace.cfg", events[o:o + 4000], heap="2g"), chunks, jobs=4)):
        c.cov["traces_validated_against_impl"] += min(4000, len(events) - off)
        bad += [(off + i, v) for (i, ev, v) in r["bad"]]
        kf += [(off + i, kid) for (i, ev, kid) in r["kf"]]
    listed = {k["id"]: k for k in c.known if k.get("status") == "known"}
    groups = {}
    for (i, kid) in kf:
        if kid in listed:
            c.kf_seen[kid] = c.kf_seen.get(kid, 0) + 1
        else:
            groups.setdefault("unlisted-known-finding:" + kid, []).append(i)
    for (i, v) in bad:
        groups.setdefault(v, []).append(i)
    # one violation per class key; class keys that show a new site (kind|function) first
    order, seen_sites, later = [], set(), []
    for v in sorted(groups):
        ev = events[groups[v][0] - 1]
        sk = "%s|%s" % (ev["kind"], ev["fn"])
        (later if sk in seen_sites else order).append(v)
        seen_sites.add(sk)
    sites = {}
    for v in order + later:
        idx = groups[v]
        i = idx[0]
        j, ev, rr = jobs[i - 1], events[i - 1], res[i - 1]
        rel = [os.path.basename(a) if a.startswith(W) else a for a in j["cmd"]]
        line = " ".join("'%s'" % a for a in rel).replace(os.path.basename(j["path"]), "mutated.abi").replace(os.path.basename(j["doc"]["path"]), "good.abi")
        pl = {"mutated.abi": open(j["path"], "rb").read(), "good.abi": j["doc"]["data"], "stderr.txt": rr.err[-6000:],
              "repro.sh": "#!/bin/sh\n# %s\n# document: %s; mutation: %s (%s); %d runs of this class key in the campaign\n# build: %s (bin/build %s)\ncd \"$(dirname \"$0\")\"\n%s\n"
                          % (v, j["doc"]["desc"], j["cls"], j["detail"], len(idx), j["build"], j["build"], line)}
        c.violation("%s (%s build) on a mutated ABIXML document: %s in %s [class key %s; %d runs]"
                    % (ev["tool"], ev["build"], ev["kind"], ev["fn"] or "?", v[4:] if v.startswith("bad:") else v, len(idx)), ev, payload=pl)
        sites.setdefault("%s|%s" % (ev["kind"], ev["fn"]), set()).add(ev["mutation"])
    c.cov["finding_sites"] = {k: sorted(v) for k, v in sorted(sites.items())}
    c.cov["violation_class_keys"] = sorted(groups)

    # ---- coverage
    c.cov["distinct_nontrivial"] = len({(e["doc"], e["file"]) for e in events})
    c.cov["mutation_classes"] = len(nclasses)
    c.cov["mutation_actions"] = sorted({xmlmut.action_of(k) for k in nclasses})
    c.cov["foreign"] = sum(1 for e in events if e["foreign"])
    byk, obs = {}, {}
    for e in events:
        byk[e["kind"]] = byk.get(e["kind"], 0) + 1
        if e["kind"] != "none":
            obs.setdefault(e["action"], set()).add(e["site"])
    c.cov["runs_by_termination"] = byk
    c.cov["observed_action_sites"] = {k: sorted(v) for k, v in sorted(obs.items())}
    c.cov["ill_formed_for_expat"] = sum(1 for e in events if not e["wf"])
    c.cov["documents"] = [d["desc"] for d in docs]
    c.cov["cpu_time_limit_s"] = limit
    c.cov["rule"] = ("model: every document reachable from 2 base documents (5 elements) by <= 2 mutations; campaign: %d mutation classes (render/xmlmut.py, "
                     "%d per document: a fifth byte-level, the others round-robin over the actions and their classes) of %d documents x {abilint on the ASan+UBSan and the unsanitized build, abidiff in %s}; "
                     "non-trivial = distinct mutated documents" % (len(nclasses), per_doc, len(docs), "both positions" if c.thorough else "one position (rotating)"))
    for e in [e for e in events if e["kind"] != "none"][:3] + events[:2]:
        c.sample(e)
    c.assumptions += ["ASan/UBSan observe invalid memory accesses and undefined behaviour; the unsanitized build is run as well because ASan's red zones can "
                      "mask an out-of-bounds read of a std::string (handle_version_attribute)",
                      "the frame classifier (checks/_reader.py) decides foreign (libxml2) by the module of the innermost frame that is neither runtime nor an "
                      "inlined standard-library template; frames of the unsanitized build come from gdb",
                      "a mutation class, not an offset, identifies a finding; a time-out is a CPU-time limit (prlimit) confirmed by a re-run with twice the limit"]
    c.finish()


def replay(path):
    return vf.replay_event("ReaderTrace.tla", "ReaderTrace.cfg", path)
