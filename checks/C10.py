"""C10 -- report summaries agree with the listed entries; --stat prints the same summary."""
import os, re
import vf, campaign, report, difftree


def summary_lines(txt):
    return [l for l in txt.splitlines() if "summary:" in l]


def main():
    c = vf.Check("C10", "exploration")
    vf.build("hooks")
    c.model("Abi.tla", "AbiSmall.cfg" if c.thorough else "AbiSmallQuick.cfg")
    abidiff = vf.tool("hooks", "abidiff")
    cases = campaign.gen_pairs(c, 3000 if c.thorough else 180, MutCats='{"breaking", "harmless", "unlisted"}', MinMuts=1, MaxMuts=3, MaxIfaces=5)
    cases += campaign.gen_pairs(c, 1500 if c.thorough else 80, name="gencxx", Lang='"cxx"', MutCats='{"breaking", "harmless", "unlisted"}', MinMuts=1, MaxMuts=3, MaxIfaces=5)
    optsets = [[], ["--harmless"], ["--redundant"], ["--no-harmful", "--harmless"], ["--no-show-locs"]]

    def one(job):
        idx, case = job
        a, e1, da = campaign.build_one(c, idx, case, "gcc", which=1, sub="a")
        b, e2, db = campaign.build_one(c, idx, case, "gcc", which=2, sub="b")
        if not a or not b:
            return [], []
        env = vf.henv(da)
        # also strip debug info of the second binary for some cases: symbol sections come into play
        evs = []
        trees = []
        for o in optsets:
            r = vf.run([abidiff, "--no-default-suppression"] + o + [a, b], env=env)
            s = vf.run([abidiff, "--no-default-suppression", "--stat"] + o + [a, b], env=env)
            rep = report.parse(r.out)
            # hook H3: the diff forest behind this report, for DiffTreeTrace (same options + --dump-diff-tree)
            te = difftree.tree_event(abidiff, a, b, o, env, idx, base=r)
            if te is not None:
                trees.append(te)
            evs.append({"e": "Summary", "case": idx, "opts": " ".join(o), "summary": rep["summary"], "entries": rep["entries"], "sections": rep["sections"],
                        "statSame": summary_lines(r.out) == summary_lines(s.out), "exit": r.exit, "statExit": s.exit, "ret": campaign.retof(r, s),
                        "out": r.out[:500]})
        return evs, trees

    res = vf.pmap(one, list(enumerate(cases)))
    events = [e for evs, _t in res for e in evs]
    tree_events = []
    for _e, ts in res:
        for st, x in ts:
            if st == "ok":
                tree_events.append(x)
            else:
                c.discard(x)
    c.cov["evaluations"] = len(events)
    c.cov["distinct_nontrivial"] = len({(e["case"], e["opts"]) for e in events if sum(e["entries"].values()) >= 2})
    c.cov["rule"] = ("TLC-generated program pairs with 1-3 mutations x 5 option sets: per section the (net) number in the summary line, the number in the section header and the "
                     "number of [D]/[A]/[C] entries must coincide; `--stat` must print the same summary lines and exit status; non-trivial = reports listing >= 2 entries")
    for e in events[:3]:
        c.sample(e)
    case_of = lambda ev: campaign.case_files(os.path.join(c.workdir, "p%d" % ev["case"]))
    vf.pmap(lambda i: c.validate("AbiTrace.tla", "AbiTrace.cfg", events[i:i + 3000], case_of=case_of), range(0, len(events), 3000), jobs=4)
    # the forests behind the reports, validated against DiffTree's derivations (propagation, filtering, statistics, verdict bits)
    c.model("DiffTree.tla", "DiffTree.cfg")
    vf.pmap(lambda i: c.validate("DiffTreeTrace.tla", "DiffTreeTrace.cfg", tree_events[i:i + 400], case_of=case_of), range(0, len(tree_events), 400), jobs=6)
    c.cov["diff_forests_validated"] = len(tree_events)
    c.cov["diff_forests_with_redundant_nodes"] = sum(1 for t in tree_events if any(n["red"] for n in t["nodes"]))
    c.cov["diff_forests_with_filtered_interfaces"] = sum(1 for t in tree_events if any(n["filtered"] and n["parent"] == 0 for n in t["nodes"]))
    c.cov["evaluations"] += len(tree_events)
    c.finish()


def replay(path):
    return vf.replay_event("AbiTrace.tla", "AbiTrace.cfg", path)
