"""C14 -- outputs are deterministic: abidw, abidiff and abipkgdiff give byte-identical output and the same exit status on the same
inputs and options, whatever the address-space layout, allocator behaviour, working directory and temporary-directory name.

Model: History.tla (outputs are a function of the run key).  Each (tool, inputs, options) is run 4-5 times under perturbed
environments; the history is validated by TLC against HistoryTrace (a run with a known key must reproduce the recorded output)."""
import os, shutil
import vf, campaign

PERTURB = [  # (label, prefix command, extra env, cwd choice)
    ("base", [], {}, 0),
    ("no-aslr", ["setarch", "x86_64", "-R"], {}, 0),
    ("perturb85", [], {"MALLOC_PERTURB_": "85", "MALLOC_ARENA_MAX": "1"}, 1),
    ("perturb170", ["setarch", "x86_64", "-R"], {"MALLOC_PERTURB_": "170", "MALLOC_TOP_PAD_": "65536"}, 2),
    ("tmpdir", [], {"MALLOC_MMAP_THRESHOLD_": "4096"}, 3),
]


def main():
    c = vf.Check("C14", "exploration")
    vf.build("hooks")
    c.model("History.tla", "History.cfg")
    c.model("Abi.tla", "AbiSmallQuick.cfg")
    abidw, abidiff, abipkgdiff = vf.tool("hooks", "abidw"), vf.tool("hooks", "abidiff"), vf.tool("hooks", "abipkgdiff")
    cases = campaign.gen_pairs(c, 600 if c.thorough else 60, MutCats='{"breaking", "harmless", "unlisted"}', MinMuts=1, MaxMuts=3, MaxIfaces=5, MaxTypes=10)
    setarch_ok = vf.run(["setarch", "x86_64", "-R", "true"]).exit == 0

    def one(job):
        idx, case = job
        a, e1, da = campaign.build_one(c, idx, case, "gcc", which=1, style={"tus": 2, "seed": idx}, sub="a")
        b, e2, db = campaign.build_one(c, idx, case, "gcc", which=2, style={"tus": 2, "seed": idx}, sub="b")
        if not a or not b:
            return []
        base = os.path.join(c.workdir, "p%d" % idx)
        # two package directories for abipkgdiff
        for n, lib in (("pk1", a), ("pk2", b)):
            os.makedirs(os.path.join(base, n, "usr", "lib"), exist_ok=True)
            shutil.copy(lib, os.path.join(base, n, "usr", "lib", "libx.so"))
        runs = [("abidw", [abidw, a]), ("abidw-hash", [abidw, "--type-id-style", "hash", "--annotate", b]),
                ("abidiff", [abidiff, "--no-default-suppression", a, b]), ("abidiff-leaf", [abidiff, "--no-default-suppression", "--leaf-changes-only", "--impacted-interfaces", a, b]),
                ("abidiff-harmless", [abidiff, "--no-default-suppression", "--harmless", "--redundant", a, b]),
                ("abipkgdiff", [abipkgdiff, "--no-default-suppression", os.path.join(base, "pk1"), os.path.join(base, "pk2")])]
        evs = [{"e": "Reset"}]
        for name, cmd in runs:
            for label, prefix, xenv, cwdn in PERTURB:
                if prefix and not setarch_ok:
                    prefix = []
                tmp = os.path.join(base, "tmp-%s-%s" % (name, label))
                os.makedirs(tmp, exist_ok=True)
                env = vf.henv(tmp, xenv)
                cwd = [base, tmp, c.workdir, "/"][cwdn]
                r = vf.run(prefix + cmd, env=env, cwd=cwd, timeout=120)
                evs.append({"e": "Run", "key": "%d/%s" % (idx, name), "out": vf.sha(r.out) + ":" + vf.sha(r.err.replace(tmp, "TMP")) + ":%d" % r.exit, "env": label, "ret": campaign.retof(r), "case": idx})
                shutil.rmtree(tmp, ignore_errors=True)
        return evs

    per_case = vf.pmap(one, list(enumerate(cases)))
    events = [e for evs in per_case for e in evs]
    runs = [e for e in events if e["e"] == "Run"]
    # chunks of whole histories (a history never straddles two validation runs)
    chunks, cur = [], []
    for evs in per_case:
        cur += evs
        if len(cur) > 1800:
            chunks.append(cur)
            cur = []
    if cur:
        chunks.append(cur)
    c.cov["evaluations"] = len(runs)
    c.cov["distinct_nontrivial"] = len({e["key"] for e in runs})
    c.cov["rule"] = ("TLC-generated program pairs (2 TUs, up to 10 types): abidw (sequence and hash ids, annotated), abidiff (default, leaf, harmless+redundant) and abipkgdiff on "
                     "directory packages, each run under %d environments (ASLR on/off via setarch -R: %s, MALLOC_PERTURB_/arena/threshold settings, different cwd and temp dirs); "
                     "non-trivial = distinct (pair, tool configuration) keys, each observed %d times" % (len(PERTURB), "available" if setarch_ok else "NOT available", len(PERTURB)))
    for e in runs[:3]:
        c.sample(e)
    case_of = lambda ev: campaign.case_files(os.path.join(c.workdir, "p%d" % ev["case"])) if "case" in ev else {}
    vf.pmap(lambda ch: c.validate("HistoryTrace.tla", "HistoryTrace.cfg", ch, case_of=case_of), chunks, jobs=4)
    c.finish()


def replay(path):
    return vf.replay_event("HistoryTrace.tla", "HistoryTrace.cfg", path)
