"""C13 -- leaf-change report mode gives the same verdict as the default mode."""
import os, re
import vf, campaign, report, difftree

_NAME = re.compile(r"\b((?:fn|var)\d+)\b")


def main():
    c = vf.Check("C13", "exploration")
    vf.build("hooks")
    c.model("Abi.tla", "AbiSmall.cfg" if c.thorough else "AbiSmallQuick.cfg")
    abidiff = vf.tool("hooks", "abidiff")
    cases = campaign.gen_pairs(c, 3000 if c.thorough else 220, MutCats='{"breaking", "harmless", "unlisted"}', MinMuts=1, MaxMuts=3)
    cases += campaign.gen_pairs(c, 1500 if c.thorough else 100, name="gencxx", Lang='"cxx"', MutCats='{"breaking", "harmless", "unlisted"}', MinMuts=1, MaxMuts=3)
    comps = ["gcc", "clang"] if c.thorough else ["gcc"]

    def one(job):
        idx, case, comp = job
        a, e1, da = campaign.build_one(c, idx, case, comp, which=1, sub=comp + "/a")
        b, e2, db = campaign.build_one(c, idx, case, comp, which=2, sub=comp + "/b")
        if not a or not b:
            return [], []
        env = vf.henv(da)
        evs, trees = [], []
        # Reading: the property compares `--leaf-changes-only` with the default mode, no other option (with --harmless on both sides the two
        # modes do disagree on harmless-only changes; that is outside the statement)
        for extra in ([],):
            r0 = vf.run([abidiff, "--no-default-suppression"] + extra + [a, b], env=env)
            r1 = vf.run([abidiff, "--no-default-suppression", "--leaf-changes-only", "--impacted-interfaces"] + extra + [a, b], env=env)
            rep = report.parse(r0.out)
            changed = sorted(set(n for s in ("changed_fns", "changed_vars") for n in rep["names"].get(s, []) if n.startswith(("fn", "var"))))
            evs.append({"e": "Leaf", "case": idx, "comp": comp, "extra": " ".join(extra), "kinds": [m["kind"] for m in case["muts"]], "inUnion": case["expect"]["inUnion"],
                        "exitDefault": r0.exit, "exitLeaf": r1.exit, "changedDefault": changed, "mentionedLeaf": sorted(set(_NAME.findall(r1.out))),
                        "ret": campaign.retof(r0, r1), "leafout": r1.out[:600], "defout": r0.out[:400]})
            # hook H3: the forest behind the leaf report (DiffTreeTrace!LeafVerdict: leaf interface counts, leaf change bit) and behind the default one
            for o in (["--leaf-changes-only"], []):
                te = difftree.tree_event(abidiff, a, b, o + extra, env, idx, base=(r0 if not o else None), extra={"comp": comp})
                if te is not None:
                    trees.append(te)
        return evs, trees

    res = vf.pmap(one, [(i, cs, comp) for i, cs in enumerate(cases) for comp in comps])
    events = [e for evs, _t in res for e in evs]
    trees = []
    for _e, ts in res:
        for st, x in ts:
            if st == "ok":
                trees.append(x)
            else:
                c.discard(x)
    c.cov["evaluations"] = len(events)
    c.cov["distinct_nontrivial"] = len({e["case"] for e in events if e["changedDefault"]})
    c.cov["rule"] = ("TLC-generated program pairs with 1-3 mutations; default report vs --leaf-changes-only --impacted-interfaces; "
                     "non-trivial = pairs whose default report lists a changed interface")
    for e in events[:3]:
        c.sample(e)
    case_of = lambda ev: campaign.case_files(os.path.join(c.workdir, "p%d" % ev["case"]))
    vf.pmap(lambda i: c.validate("AbiTrace.tla", "AbiTrace.cfg", events[i:i + 3000], case_of=case_of), range(0, len(events), 3000), jobs=4)
    c.model("DiffTree.tla", "DiffTreeLatticeLeaf.cfg")
    vf.pmap(lambda i: c.validate("DiffTreeTrace.tla", "DiffTreeTrace.cfg", trees[i:i + 400], case_of=case_of), range(0, len(trees), 400), jobs=6)
    c.cov["diff_forests_validated"] = len(trees)
    c.cov["leaf_mode_forests"] = sum(1 for t in trees if t["leaf"])
    c.cov["evaluations"] += len(trees)
    c.finish()


def replay(path):
    return vf.replay_event("AbiTrace.tla", "AbiTrace.cfg", path)
