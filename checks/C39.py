"""C39 -- INI configurations survive write/read round trips (and, for C25, ini::read_config is total).

Model: spec/Ini.tla is a transcription of the lexer/parser and of the writer of src/abg-ini.cc over token strings, with
the istream state bits and the put-back buffer, and explicit outcomes NullDeref / Abort / Hang.  CONSTANT Fixes selects
the pinned code ({}) or the code with the proposed repairs (AllFixes = the specification).  TLC checks, for every text
of each explored space (prefix . w, |w| <= n):
  Ini.tla      / Fixes = AllFixes : ParseTotal, ReadWriteRead, NeverRejects (Ini.cfg)
  IniTrace.tla / both             : Combined = the same three + PinnedRestricted (what the pinned tree does satisfy:
                                    never hangs, aborts only on texts with a backslash, round trip of configurations
                                    that need no escape), per explored space
  IniTrace.tla / configurations   : PrintParse on the documented configurations (both transcriptions)
  Ini.tla      / Fixes = {}       : the unrestricted properties -- expected violated while /repo is unrepaired; recorded
Conformance: harness/ini.cc runs read_config / write_config / read_config on exactly the texts TLC enumerated (alphabet
and prefix are taken from TLC's own output, the counts are compared with TLC's distinct states), on longer texts
composed from syntax fragments, and on the documented configurations TLC printed, built through the public API.  Every
call sequence is one event validated by TLC against IniTrace.tla."""
import json, os, time
import vf

# (name, alphabet, prefix, maxlen): definitions of Ini.tla
SPACES = {
    "quick":    [("text", "Alpha9", "PrefixNone", 4), ("value", "Alpha12", "PrefixValue", 3), ("tuple", "Alpha8", "PrefixTuple", 4)],
    "thorough": [("text", "Alpha12", "PrefixNone", 5), ("value", "Alpha14", "PrefixValue", 4), ("value12", "Alpha12", "PrefixValue", 5),
                 ("tuple", "Alpha8", "PrefixTuple", 6)],
}
NRANDOM = {"quick": 2000, "thorough": 40000}
CONFIGS = {"quick": ("ValAlpha2", 2), "thorough": ("ValAlpha", 2)}

# syntax fragments the longer texts are composed of (documented syntax, escapes, comments, continuation lines, junk)
FRAGMENTS = [["[", "s", "]", "\n"], ["[", "t", " ", "u", "]"], ["s", "]"], ["x", " ", "=", " "], ["y", "="], ["n", "a", "m", "e", " ", "=", " "],
             ["x"], ["a"], ["a", " ", "b"], ["a", ",", "b"], ["a", ",", " ", "b", ",", "c"], ["{", "a", ",", "b", "}"], ["{", "{", "a", ",", "b", "}", ",", "{", "c", "}", "}"],
             ["{", "}"], ["{"], ["}"], [","], ["="], ["["], ["]"], [" "], ["\n"], ["\n", " ", " "], ["\t"],
             ["\\", ";"], ["\\", "\\"], ["\\", ","], ["\\", "{"], ["\\", "}"], ["\\", "["], ["\\", "]"], ["\\", "="], ["\\", "#"], ["\\", "a"], ["\\", "t"], ["\\", "x"],
             ["\\", "\n"], ["\\"], [";", " ", "c", "\n"], ["#", "c", "\n"], [";"], ["h", "t", "t", "p", ":", "/", "/", "h", "?", "a", "=", "b"], ["^", "f", ".", "*", "$"]]

NOTE = ["-noGenerateSpecTE"]   # a violated model must not leave *_TTrace_* files in spec/
DEFAULTS = {"Parse": ',"ok":false,"cfg":[]', "RoundTrip": ',"ok1":false,"cfg1":[],"printed":"","ptoks":[],"ok2":false,"cfg2":[]',
            "PrintParse": ',"printed":"","ptoks":[],"ok2":false,"cfg2":[]'}


def _cfg(c, name, module_spec, invariants, alpha, prefix, maxlen, fixes="AllFixes", valalpha="ValAlpha", strlen=1, constraint=None):
    p = os.path.join(c.workdir, name + ".cfg")
    with open(p, "w") as f:
        f.write("CONSTANTS Alphabet <- %s\n MaxLen = %d\n Prefix <- %s\n Fixes %s\n ValAlphabet <- %s\n StrLen = %d\nSPECIFICATION %s\nINVARIANTS %s\n%sCHECK_DEADLOCK FALSE\n"
                % (alpha, maxlen, prefix, "= {}" if fixes == "{}" else "<- " + fixes, valalpha, strlen, module_spec, " ".join(invariants),
                   ("CONSTRAINT %s\n" % constraint) if constraint else ""))
    return p


def _space_of(r):
    for rec in r["printed"]:
        if isinstance(rec, dict) and "alphabet" in rec:
            return rec
    vf.infra("TLC did not print the explored space")


def _read_events(path, r, what):
    """The harness completes the events its workers did not finish; only if the harness itself died is the last line cut."""
    evs, tail = [], ""
    for ln in open(path, errors="replace"):
        if ln.endswith("}\n"):
            try:
                evs.append(json.loads(ln))
            except ValueError:
                vf.infra("harness ini (%s) wrote an unparsable line: %r" % (what, ln[:200]))
        else:
            tail = ln
    if tail.strip():
        try:
            kind = json.loads(tail + ',"x":0}')["e"]
            evs.append(json.loads(tail + DEFAULTS[kind] + ',"ret":"harness-sig%d-exit%d%s"}' % (r.sig, r.exit, "-timeout" if r.timeout else "")))
        except Exception:
            vf.infra("harness ini (%s) failed: exit=%d sig=%d %s" % (what, r.exit, r.sig, r.err[-300:]))
    elif r.exit != 0 or r.sig:
        vf.infra("harness ini (%s) failed: exit=%d sig=%d %s" % (what, r.exit, r.sig, r.err[-300:]))
    return evs


def _run_shards(c, h, tag, args_of_shard, timeout):
    shards = vf.JOBS
    env = vf.henv(c.workdir)
    for k in ("ASAN_OPTIONS", "UBSAN_OPTIONS"):      # only the termination is recorded; symbolizing every report costs about 1 s
        env[k] += ":symbolize=0"

    def shard(i):
        out = os.path.join(c.workdir, "%s_%d.ndjson" % (tag, i))
        r = vf.run([h, out] + args_of_shard(i, shards), env=env, timeout=timeout)
        evs = _read_events(out, r, tag)
        os.remove(out)
        return evs
    return vf.pmap(shard, range(shards))


def _random_texts(c, n):
    texts = []
    for _ in range(n):
        t = []
        # most texts start as a section so that the interesting part is reached
        if c.rng.random() < 0.8:
            t += c.rng.choice([["[", "s", "]", "\n"], ["s", "]"]])
        for _ in range(c.rng.randint(2, 9)):
            t += c.rng.choice(FRAGMENTS)
        texts.append(t)
    return texts


def ini_spaces(c, tier=None):
    """The explored spaces of the tier as TLC describes them: [(name, alphabet tokens, prefix tokens, maxlen)].  One tiny TLC run each."""
    res = []
    for (name, alpha, prefix, maxlen) in SPACES[tier or c.tier]:
        r = vf.tlc_check("IniTrace.tla", _cfg(c, "space_" + name, "RSpec", ["Combined"], alpha, prefix, 0), workers=1, extra=NOTE)
        sp = _space_of(r)
        res.append((name, sp["alphabet"], sp["prefix"], maxlen))
    return res


ROUND = 100000   # texts per conformance round (bounds the memory of the driver and the length of one trace)


def _rounds(c, variant, spaces, nrandom):
    """Run the harness of the build variant on the explored spaces, then on the composed longer texts; yields
    (space name, events per shard) round by round, at most ROUND texts each."""
    h = vf.build_harness(variant, "ini")
    tmo = 6000 if c.thorough else 1200
    for (name, alphabet, prefix, maxlen) in spaces:
        total = sum(len(alphabet) ** k for k in range(maxlen + 1))
        rounds = (total + ROUND - 1) // ROUND
        nshards = vf.JOBS * rounds
        for rd in range(rounds):
            yield name, _run_shards(c, h, "enum_%s_%s" % (variant, name),
                                    lambda i, n: ["enum", json.dumps(alphabet), json.dumps(prefix), str(maxlen), str(rd * vf.JOBS + i), str(nshards)], tmo)
    texts = _random_texts(c, nrandom)
    for at in range(0, len(texts), ROUND):
        cases = os.path.join(c.workdir, "texts_%s.ndjson" % variant)
        with open(cases, "w") as f:
            for t in texts[at:at + ROUND]:
                f.write(json.dumps(t) + "\n")
        yield "composed", _run_shards(c, h, "texts_" + variant, lambda i, n: ["texts", cases, str(i), str(n)], tmo)


def ini_total_events(c, variant, spaces=None, nrandom=None):
    """Run the enumeration of the explored text spaces (plus the composed longer texts) on the harness of the given build
    variant ("hooks", "asan") and return the recorded events, a list per shard (memory grows with the tier: about 2 events
    per text).  Each text gives a Parse and a RoundTrip event whose "ret" is "ok" iff read_config / write_config /
    read_config returned; "ret" is "sig<N>", "exit<N>" (sanitizer exit codes of vf.henv) or "timeout" otherwise.
    Used by C39 (hooks) and meant for C25 (asan): validate the lists with IniTrace.tla / IniTrace.cfg."""
    vf.build(variant)
    per_shard = [[] for _ in range(vf.JOBS)]
    for _, got in _rounds(c, variant, spaces if spaces is not None else ini_spaces(c), NRANDOM[c.tier] if nrandom is None else nrandom):
        for i, evs in enumerate(got):
            per_shard[i] += evs
    return per_shard


def _case_of(ev):
    if "text" in ev:
        return {"case.ini": "".join(ev["text"]).encode("latin-1", "replace"), "text.json": ev["text"],
                "README": "abinilint case.ini   (or: bin/check C39 --replay <this directory>)\n"}
    return {"config.json": ev.get("cfg", [])}


def _validate(c, per_shard, bad):
    """Check.validate's bookkeeping for one round, except that rejected events are collected in `bad` and reported at
    the end by _report."""
    t0 = time.time()
    results = vf.pmap(lambda evs: vf.tlc_validate("IniTrace.tla", "IniTrace.cfg", evs, timeout=6000 if c.thorough else 1500) if evs else None, per_shard)
    listed = {k["id"]: k for k in c.known if k.get("status") == "known"}
    for evs, r in zip(per_shard, results):
        if r is None:
            continue
        c.cov["traces_validated_against_impl"] += len(evs)
        for (i, ev, kid) in r["kf"]:
            if kid in listed:
                c.kf_seen[kid] = c.kf_seen.get(kid, 0) + 1
            else:
                bad.append(("finding %s which is not listed as known" % kid, ev))
        for (i, ev, v) in r["bad"]:
            bad.append((v, ev))
    c.cov["stages_s"]["validate"] = round(c.cov["stages_s"].get("validate", 0) + time.time() - t0, 1)


def _report(c, bad):
    """One representative per verdict first (the one with the shortest input), so that the replay directories -- only the
    first 25 violations get one -- cover every kind found."""
    size = lambda ev: len(ev["text"]) if ev and "text" in ev else len(json.dumps(ev))
    bad.sort(key=lambda b: (size(b[1]), json.dumps(b[1], sort_keys=True)))
    kinds, first, rest = {}, [], []
    for (v, ev) in bad:
        kinds[v] = kinds.get(v, 0) + 1
        (first if kinds[v] == 1 else rest).append((v, ev))
    for (v, ev) in first + rest:
        c.violation("trace IniTrace.tla rejects the event (%s)" % v, ev, _case_of)
    c.cov["verdicts_rejected"] = kinds
    for v in sorted(kinds):
        print("# %6d x %s" % (kinds[v], v))


def main():
    c = vf.Check("C39", "model_checking")
    vf.build("hooks")
    h = vf.build_harness("hooks", "ini")

    c.cov["stages_s"] = {}
    t0 = time.time()
    # ---- the model: the specification alone; then specification and pinned transcription side by side per explored space
    c.model("Ini.tla", os.path.join(vf.SPEC, "Ini.cfg"), extra=NOTE)
    spaces, sizes = [], {}
    for (name, alpha, prefix, maxlen) in SPACES[c.tier]:
        r = c.model("IniTrace.tla", _cfg(c, "IniRepairs_" + name, "RSpec", ["Combined"], alpha, prefix, maxlen), extra=NOTE)
        sp = _space_of(r)
        spaces.append((name, sp["alphabet"], sp["prefix"], maxlen))
        sizes[name] = r["distinct"]
    va, sl = CONFIGS[c.tier]
    rc = c.model("IniTrace.tla", _cfg(c, "IniConfigs", "CSpec", ["PrintParse", "PrintParsePinned"], "Alpha12", "PrefixNone", 0,
                                      valalpha=va, strlen=sl, constraint="EmitConf"), extra=NOTE)
    configs = [x for x in rc["printed"] if isinstance(x, list)]
    if len(configs) != rc["distinct"]:
        vf.infra("TLC printed %d configurations for %d states" % (len(configs), rc["distinct"]))
    # the transcription of the pinned tree against the unrestricted properties (a counterexample is expected while /repo is unrepaired)
    rp = c.model("Ini.tla", os.path.join(vf.SPEC, "IniPinned.cfg"), must_hold=False, extra=NOTE)
    c.cov["pinned_transcription_satisfies_properties"] = rp["ok"]

    c.cov["stages_s"]["model"] = round(time.time() - t0, 1)
    # ---- conformance, round by round: run, bind the explored space, let TLC judge, keep what was rejected
    bad, seen, nontrivial, nev, samples = [], {}, 0, 0, []
    for name, per_shard in _rounds(c, "hooks", spaces, NRANDOM[c.tier]):
        for evs in per_shard:
            for e in evs:
                if e["e"] == "Parse":
                    seen[name] = seen.get(name, 0) + 1
                elif e["cfg1"]:
                    nontrivial += 1
                    if len(samples) < 2 and e["cfg1"] == e["cfg2"] and len(e["text"]) > 6:
                        samples.append(e)
            nev += len(evs)
        _validate(c, per_shard, bad)
    cases = os.path.join(c.workdir, "configs.ndjson")
    with open(cases, "w") as f:
        for x in configs:
            f.write(json.dumps(x) + "\n")
    per_shard = _run_shards(c, h, "configs", lambda i, n: ["configs", cases, str(i), str(n)], 1200)
    npp = sum(len(evs) for evs in per_shard)
    samples += [e for evs in per_shard for e in evs[-1:]][:1]
    _validate(c, per_shard, bad)
    # binding of the explored spaces: the harness must have run exactly as many texts as the model has states (the texts
    # are distinct by construction of the enumeration), and every configuration TLC printed
    for name, n in sizes.items():
        if seen.get(name, 0) != n:
            vf.infra("harness enumerated %d texts of space %s, the model has %d" % (seen.get(name, 0), name, n))
    if npp != len(configs):
        vf.infra("harness ran %d configurations, the model has %d" % (npp, len(configs)))
    c.cov["evaluations"] = nev + npp
    c.cov["distinct_nontrivial"] = nontrivial + npp
    _report(c, bad)
    c.cov["stages_s"]["harness_and_driver"] = round(time.time() - t0 - c.cov["stages_s"]["model"] - c.cov["stages_s"].get("validate", 0), 1)
    c.cov["rule"] = ("every text prefix.w: " + "; ".join("%s = %s . (<= %d tokens over %d) = %d texts" % (n, "".join(p) or "''", m, len(a), sizes[n]) for (n, a, p, m) in spaces)
                     + " (enumerated by the harness, = the model's states), each read, and read-written-read; %d longer texts composed from syntax fragments; "
                       "%d documented configurations printed by TLC, built through the API, written and read; non-trivial = the first read yields at least one section, "
                       "or a configuration case" % (NRANDOM[c.tier], len(configs)))
    c.cov["exhaustive"] = True
    for e in samples:
        c.sample(e)
    c.assumptions += ["TLC evaluates the transcription and compares it with every recorded result",
                      "harness/ini.cc records texts, configurations (through the public getters) and termination faithfully",
                      "libstdc++'s istream sets eofbit/failbit as transcribed in Ini.tla (InPeek/InGet)"]
    c.finish()


def replay(path):
    """Re-run the recorded case on the current tree and let TLC judge the fresh events."""
    ev = json.load(open(os.path.join(path, "event.json")))["event"]
    vf.build("hooks")
    h = vf.build_harness("hooks", "ini")
    os.makedirs(os.path.join(vf.WORK, "C39-replay"), exist_ok=True)
    cases, out = os.path.join(vf.WORK, "C39-replay", "case.ndjson"), os.path.join(vf.WORK, "C39-replay", "out.ndjson")
    with open(cases, "w") as f:
        f.write(json.dumps(ev["text"] if "text" in ev else ev["cfg"]) + "\n")
    r = vf.run([h, out, "texts" if "text" in ev else "configs", cases, "0", "1"], env=vf.henv(os.path.join(vf.WORK, "C39-replay")), timeout=120)
    evs = _read_events(out, r, "replay")
    res = vf.tlc_validate("IniTrace.tla", "IniTrace.cfg", evs)
    for e in evs:
        print(json.dumps(e)[:1500])
    print("accepted" if res["accepted"] else "rejected: %s" % ([(i, v) for (i, _, v) in res["bad"]] or res["kf"],))
    return 0 if res["accepted"] else 1
