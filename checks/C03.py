"""C03 -- re-serializing ABIXML is a byte-exact fixpoint: abilint D reproduces D, abilint --diff D exits 0."""
import os, re
import vf, campaign

# Reading (DESIGN.md section 6, C03): abilint has no switch for --annotate, --type-id-style hash or --no-write-default-sizes, so it cannot
# reproduce documents written with them (nor --load-all-types: abilint does not track non-reachable types); the fixpoint is demanded for abidw's default rendering and the options that only *omit* information.
DOCOPTS = [[], ["--no-show-locs"], ["--no-corpus-path", "--no-parameter-names"], ["--no-comp-dir-path", "--no-elf-needed"],
           ["--short-locs"], ["--no-architecture"]]


_OPEN = re.compile(rb"^\s*<(class-decl|union-decl)\b([^>]*?)(/?)>\s*$")
_CLOSE = re.compile(rb"^\s*</(class-decl|union-decl)>\s*$")


def strip_declonly_memfns(doc):
    """(document without the <member-function> and <data-member> elements of declaration-only classes / unions, number of lines removed) -- a fact used only to
    classify a failing case (known finding C03-member-function-of-declaration-only-class)"""
    out, stack, removed, skipping = [], [], 0, False
    for ln in doc.splitlines():
        if skipping:
            removed += 1
            if ln.strip() == b"</" + skipping + b">":
                skipping = False
            continue
        m = _OPEN.match(ln)
        if m and not m.group(3):
            stack.append(b"is-declaration-only='yes'" in m.group(2))
        elif _CLOSE.match(ln) and stack:
            stack.pop()
        elif ln.strip().startswith((b"<member-function", b"<data-member")) and stack and stack[-1]:
            # (skips to the matching end tag: neither element nests an element of its own kind)
            skipping = ln.strip().split(None, 1)[0].lstrip(b"<").rstrip(b">") if not ln.strip().endswith(b"/>") else False
            removed += 1
            continue
        out.append(ln)
    # a class left without children is written as an empty element
    res = []
    for ln in out:
        if res and _CLOSE.match(ln):
            m = _OPEN.match(res[-1])
            if m and not m.group(3) and b"is-declaration-only='yes'" in m.group(2):
                res[-1] = res[-1].rstrip()[:-1] + b"/>"
                continue
        res.append(ln)
    return b"\n".join(res), removed


def main():
    c = vf.Check("C03", "exploration")
    vf.build("hooks")
    c.model("Abi.tla", "AbiSmall.cfg" if c.thorough else "AbiSmallQuick.cfg")
    abilint, abidw = vf.tool("hooks", "abilint"), vf.tool("hooks", "abidw")
    cases = campaign.programs(c, 500 if c.thorough else 50) + campaign.programs(c, 200 if c.thorough else 20, name="gencxx", Lang='"cxx"')
    cases += campaign.sample_programs()          # idioms outside Abi.tla's vocabulary (naming typedefs, anonymous members, bit-fields, C++ samples ...)
    comps = ["gcc", "clang", "gcc-dwarf4"] if c.thorough else ["gcc", "clang"]
    styles = [None, {"tus": 3, "seed": 5, "statics": 1}]

    def one(job):
        idx, case, comp, sn = job
        path, err, d = campaign.build_one(c, idx, case, comp, style=styles[sn], sub="%s-%d" % (comp, sn))
        if not path:
            return None
        env = vf.henv(d)
        evs = []
        for k, o in enumerate(DOCOPTS):
            abi = "%s.%d.abi" % (path, k)
            rw = vf.run([abidw] + o + ["--out-file", abi, path], env=env)
            if rw.exit != 0 or not os.path.exists(abi):
                continue
            doc = open(abi, "rb").read()
            # abilint's writer has no --annotate / --no-show-locs ... switches: the fixpoint is claimed for what abilint can reproduce,
            # i.e. documents in abidw's default rendering (options that change the rendering are replayed through abidw-independent checks)
            rl = vf.run([abilint, abi], env=env, binary=True)
            rd = vf.run([abilint, "--diff", abi], env=env)
            # observations used only to *classify* a failing case (known finding C03-void-type-position): second round, ids masked
            abi2 = abi + ".2"
            open(abi2, "wb").write(rl.out)
            rl2 = vf.run([abilint, abi2], env=env, binary=True)
            mask = lambda b: sorted(re.sub(rb"type-id-\d+", b"type-id-N", ln) for ln in b.splitlines())
            stripped, nstripped = strip_declonly_memfns(doc)
            evs.append({"e": "Fixpoint", "case": idx, "comp": comp, "style": sn, "opts": " ".join(o), "declOnlyMemFnLines": nstripped,
                        "sameLinesModuloIdsAndDeclOnlyMemFns": nstripped > 0 and mask(stripped) == mask(rl.out), "h1": vf.sha(doc), "h2": vf.sha(rl.out),
                        "h3": vf.sha(rl2.out), "hasVoid": b"<type-decl name='void'" in doc, "sameLinesModuloIds": mask(doc) == mask(rl.out),
                        "len1": len(doc), "len2": len(rl.out), "lintexit": rl.exit, "diffexit": rd.exit, "ret": campaign.retof(rl, rd),
                        "diffout": rd.out[:300]})
        return evs

    res = vf.pmap(one, [(i, cs, comp, sn) for i, cs in enumerate(cases) for comp in comps for sn in range(len(styles))])
    events = []
    for r in res:
        if r is None:
            c.discard("does-not-compile")
        else:
            events += r
    c.cov["evaluations"] = len(events)
    c.cov["distinct_nontrivial"] = len({e["h1"] for e in events if e["len1"] > 1500})
    c.cov["rule"] = "abidw documents of TLC-generated C and C++ programs and of the hand-written samples of render/c_samples, render/cxx_samples (x compilers x 1-TU/3-TU renderings x 7 abidw option sets), abilint D vs D byte-wise and abilint --diff D; non-trivial = distinct documents larger than 1500 bytes"
    for e in events[:3]:
        c.sample(e)
    case_of = lambda ev: campaign.case_files(os.path.join(c.workdir, "p%d" % ev["case"]))
    vf.pmap(lambda i: c.validate("AbiTrace.tla", "AbiTrace.cfg", events[i:i + 3000], case_of=case_of), range(0, len(events), 3000), jobs=4)
    c.finish()


def replay(path):
    return vf.replay_event("AbiTrace.tla", "AbiTrace.cfg", path)
