"""C26 -- public-header filtering hides only private types.

Model: spec/Suppr.tla mode "private": the transcription of the artificial private-type suppression (handle_fts_entry /
handle_file_entry / gen_suppr_spec_from_headers in src/abg-tools-utils.cc + suppression_matches_type_location) against
PrivateTypeRule ("private iff not defined in one of the public headers; a class only declared there is private") for types
defined in include/pub.h, include/sub/api.h, include/cxx.hh, src/priv.h, src/lib.c or nowhere, with the public headers given as a
directory (walked) or as --header-file paths.  Two named deviations of the source (OnlyThreeHeaderSuffixes,
HeaderFileKeptVerbatim; switch FaithfulHeaders chosen by source fingerprint) are run as the faithful configuration, expected to fail.

Conformance: program pairs from spec/SupprCase.tla with 1-2 *type* mutations; the model also places every named type in
include/pub.h, src/priv.h or src/lib.c (render/hdrprog.py; every struct is forward-declared in the public header, so a private
struct is "only declared" there) and derives
  publicChanged  = interfaces (present in both versions, not mutated themselves) that reach a mutated type defined in the public
                   header through public types only;
  privateChanged = interfaces whose every changed (by-value-affected) type is private; variables whose own type changes layout
                   are left out (their symbol size changes).
abidiff --redundant is run with --headers-dir1/2 (mode "dir"), with --header-file1/2 <path of pub.h> (mode "file"), and with the
public header named pub.hh next to an unrelated include/version.h (mode "hh"), each with and without --drop-private-types.
Guard: what the run without header options reports of publicChanged is still reported (and the change bit is set), privateChanged
is disjoint from the reported interfaces.

Readings: --redundant is used so that redundancy folding does not hide a public change behind another interface; pairs whose
mutated type lies in a union are discarded (known finding C05-same-size-change-in-union); interfaces that reach a public type
containing a changed private type by value have no expectation (the public type's own layout changes).
"""
import os, threading
import vf, campaign, report
from checks import _suppr as S

MODES = ("dir", "file", "hh")


def main():
    c = vf.Check("C26", "exploration")
    vf.build("hooks")
    fp = S.fingerprints()
    c.cov["source_fingerprints"] = fp["detail"]
    err = []

    def bg():
        try:
            S.run_models(c, ["private"], fp)
        except SystemExit as ex:
            err.append(ex)
    th = threading.Thread(target=bg)
    th.start()

    tool = vf.tool("hooks", "abidiff")
    interesting = lambda cs: (cs["c26"]["mustReportFns"] or cs["c26"]["mustReportVars"] or cs["c26"]["mustFilterFns"] or cs["c26"]["mustFilterVars"]) \
        and not cs["expect"]["inUnion"]
    cases = S.gen_cases(c, 900 if c.thorough else 110, constraints=("TypeMutsOnly",), MutCats='{"breaking"}', MinMuts=1, MaxMuts=2, MaxIfaces=4, keep=interesting)
    S.tick(c, "generated")
    comps = ["gcc", "clang"] if c.thorough else ["gcc"]

    def one(job):
        idx, case, comp, mode = job
        cc, flags = campaign.COMPILERS[comp]
        place = case["c26"]["place"]
        pubname = "pub.hh" if mode == "hh" else "pub.h"
        # every second pair: the private header's NAME ends with the public header's name (src/mypub.h beside include/pub.h) -- a different file all the same
        privname = ("my" + pubname) if idx % 2 else "priv.h"
        roots, libs, pubpaths = [], [], []
        for which, sfx in ((1, ""), (2, "2")):
            root = os.path.join(c.workdir, "p%d" % idx, "%s-%s" % (comp, mode), "ab"[which - 1])
            try:
                files, pubpath = S.hdrprog.render(case["types" + sfx], case["fns" + sfx], case["vars" + sfx], place, case.get("lang", "c"), pubname=pubname, privname=privname)
            except RuntimeError as ex:
                return [("discard", "placement-not-renderable")]
            if mode == "hh":
                files["include/version.h"] = "#define VERIF_VERSION %d\n" % which
            lib, errtxt = S.hdrprog.build(root, files, cc, flags)
            if not lib:
                return [("discard", "does-not-compile")]
            roots.append(root), libs.append(lib), pubpaths.append(os.path.join(root, pubpath))
        env = vf.henv(roots[0])
        if mode == "file":
            hdr = ["--header-file1", pubpaths[0], "--header-file2", pubpaths[1]]
        else:
            hdr = ["--headers-dir1", os.path.join(roots[0], "include"), "--headers-dir2", os.path.join(roots[1], "include")]
        k26 = case["c26"]
        pub = ["fn%d" % i for i in k26["mustReportFns"]] + ["var%d" % i for i in k26["mustReportVars"]]
        priv = ["fn%d" % i for i in k26["mustFilterFns"]] + ["var%d" % i for i in k26["mustFilterVars"]]
        r0 = S.abidiff(tool, libs[0], libs[1], ["--redundant"], env=env)
        all_changed = S.project(r0.out)
        evs = []
        for drop in (False, True):
            r = S.abidiff(tool, libs[0], libs[1], ["--redundant"] + hdr + (["--drop-private-types"] if drop else []), env=env)
            p = S.project(r.out)
            reported = sorted(set(n for sn in S.SECS for n in p[sn]))
            evs.append(("ok", {"e": "Private", "case": idx, "comp": comp, "mode": mode, "dropPrivate": drop, "publicChanged": pub, "privateChanged": priv,
                               "reported": reported, "reportedWithoutHeaders": sorted(set(n for sn in S.SECS for n in all_changed[sn])), "exit": r.exit,
                               "exitWithoutHeaders": r0.exit, "pubMutated": k26["pubMutated"], "privMutated": k26["privMutated"], "place": place,
                               "kinds": [m["kind"] for m in case["muts"]], "ret": campaign.retof(r0, r), "out": r.out[:300]}))
        return evs

    todo = []
    for i, cs in enumerate(cases):
        for comp in comps:
            for mode in (MODES if c.thorough else ("dir", MODES[1 + i % 2])):
                todo.append((i, cs, comp, mode))
    res = [x for xs in vf.pmap(one, todo) for x in xs]
    events = []
    for kind, x in res:
        if kind == "discard":
            c.discard(x)
        else:
            events.append(x)
    S.tick(c, "replayed")
    th.join()
    if err:
        raise err[0]
    case_of = lambda ev: campaign.case_files(os.path.join(c.workdir, "p%d" % ev["case"], "%s-%s" % (ev["comp"], ev["mode"])))
    S.validate(c, events, case_of)
    S.tick(c, "validated")
    live = [e for e in events if not e.get("_skipped")]
    c.cov["evaluations"] = len(live)
    c.cov["distinct_nontrivial"] = len({(e["case"], e["comp"], e["mode"]) for e in live if set(e["publicChanged"]) & set(e["reportedWithoutHeaders"])})
    rej = {}
    for e in live:
        if "_verdict" in e:
            k = "%s mode=%s drop=%s kinds=%s" % (e["_verdict"], e["mode"], e["dropPrivate"], "+".join(sorted(set(e["kinds"]))))
            rej[k] = rej.get(k, 0) + 1
    c.cov["rejected_by_class"] = rej
    c.cov["by_mode"] = {m: sum(1 for e in live if e["mode"] == m) for m in MODES}
    c.cov["with_public_change"] = sum(1 for e in live if e["publicChanged"])
    c.cov["with_private_change"] = sum(1 for e in live if e["privateChanged"])
    c.cov["rule"] = ("TLC-generated program pairs with 1-2 type mutations whose named types the model places in include/pub.h, src/priv.h (every second pair: src/mypub.h, a name that ends with the public header's) or src/lib.c, compiled by %s; "
                     "abidiff --redundant with the public headers given as directory / header file / directory holding a .hh header, with and without --drop-private-types; "
                     "non-trivial = (pair, mode) with a public change that must survive the filtering" % comps)
    for e in [e for e in live if e["publicChanged"]][:2] + [e for e in live if e["privateChanged"]][:2]:
        c.sample({k: e[k] for k in ("mode", "dropPrivate", "publicChanged", "privateChanged", "reported", "exit", "place")})
    c.assumptions += ["Readings: see the module docstring of checks/C26.py"]
    c.finish()


replay = S.replay
