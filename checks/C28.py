"""C28 -- kernel binaries expose exactly their ksymtab-exported interface.

Model: spec/Symtab.tla, kernel slice (spec/SymtabKernel.cfg).  One TLC run checks the code as the property wants it
(Ideal), the code as it is (Faithful: the kernel-mode half of the property holds, everything else fails only where a named
deviation applies) and prints the minimal tables on which "--no-linux-kernel-mode exposes all public symbols" fails when
symtab::load_ ignores the reader option (Witness).
Conformance: TLC-generated kernel tables (symbols x bindings x addresses x `__ksymtab_<sym>` / `__crc_<sym>` markers) and
random larger ones are rendered to assembler with a `__ksymtab_strings` section (vmlinux-like) or `.modinfo` +
`.gnu.linkonce.this_module` (module-like), built as relocatable objects (like .ko) and static executables (like vmlinux);
C programs with EXPORT_SYMBOL-style markers and debug info add the declaration level.  Every binary is observed twice
(default and --no-linux-kernel-mode) by abidw and through the public API; readelf supplies sections and symbol rows; TLC
judges against SymtabTrace.tla (symbols) and CorpusTrace.tla (declarations)."""
import json, os
import vf, symobs, symcamp
from render import symasm


def is_kernel_rendered(t):
    names = {(s["name"], s["type"]) for s in t["sections"]}
    return ("__ksymtab_strings", "PROGBITS") in names or ((".modinfo", "PROGBITS") in names and (".gnu.linkonce.this_module", "PROGBITS") in names)


def main():
    c = vf.Check("C28", "exploration")
    vf.build("hooks")
    h = vf.build_harness("hooks", "corpus_proj")
    T = c.thorough
    r = c.model("Symtab.tla", "SymtabKernelThorough.cfg" if T else "SymtabKernel.cfg")
    wit = [w for w in r["printed"] if isinstance(w, dict) and w.get("witness") == "kernel-mode-ignored"]
    if not wit:
        vf.infra("no witness for deviation kernel-mode-ignored: the model no longer mirrors the code")
    c.cov["model_deviations"] = {"kernel-mode-ignored": {"minimal_witnesses": len(wit), "first": {"rows": wit[0]["rows"], "ctx": wit[0]["ctx"]}}}

    g = vf.tlc_generate("Symtab.tla", "SymtabGenKernel3.cfg" if T else "SymtabGenKernel2.cfg")
    tables = [x["rows"] for x in g["cases"]]
    c.cov["generated"] = {"kernel_tables": len(tables)}
    # a table without any marker row says little: keep all tables with a marker, sample the rest
    withm = [t for t in tables if any(r_["name"].startswith("__ksymtab_") for r_ in t)]
    rest = [t for t in tables if not any(r_["name"].startswith("__ksymtab_") for r_ in t)]
    c.rng.shuffle(withm)
    c.rng.shuffle(rest)
    tables = withm[:3000 if T else 160] + rest[:200 if T else 20]
    jobs = []
    for i, t in enumerate(tables):
        jobs.append(("asm", "kt%05d" % i, t, "module" if i % 5 == 4 else "strings", ("rel", "exec") + (("dso-bfd",) if T and i % 10 == 0 else ())))
    for i in range(40 if T else 6):
        rows, marked = symasm.add_markers(c.rng, symasm.random_table(c.rng, c.rng.randrange(8, 60)))
        jobs.append(("asm", "kr%03d" % i, rows, "strings" if i % 3 else "module", ("rel", "exec", "dso-bfd")))
    for i in range(24 if T else 4):
        jobs.append(("c", "kc%03d" % i, None, "strings", ("rel", "exec")))

    def run_job(job):
        how, stem, rows, flavour, kinds = job
        wd = os.path.join(c.workdir, "b", stem[:2], stem)
        sevs, pevs, disc = [], [], []
        if how == "asm":
            res, errs = symasm.build(symasm.asm_table(rows, kernel=flavour), wd, stem, kinds)
            srcs = [os.path.join(wd, stem + ".s")]
        else:
            exports = []
            prog = symasm.c_program(c.rng_for(stem), nfn=5, nvar=4, kernel_exports=exports)
            res, errs = symasm.build_c(prog, wd, stem, kinds=kinds)
            srcs = [os.path.join(wd, stem + ".g.c"), os.path.join(wd, stem + ".n.c")]
        if not res:
            disc.append("not renderable")
        for kind, path in res:
            try:
                t = symcamp.elf_facts(path)
            except symobs.Unusable as ex:
                disc.append("independent reader: " + str(ex).split(":")[0][:60])
                continue
            if not is_kernel_rendered(t):
                disc.append("kernel sections not rendered")
                continue
            for mode in ("kernel", "nokernel"):
                ev = symcamp.symtab_event(path, kind, mode=mode, e="Kernel", api=False, facts=t, scratch=wd)
                ev["sources"] = srcs
                sevs.append(ev)
                if how == "c" or stem.endswith("0"):
                    pv = symcamp.partition_event(path, kind, h, mode=mode, facts=t, scratch=wd)
                    pv["sources"] = srcs
                    pevs.append(pv)
        return sevs, pevs, disc

    # per-job random streams so that parallel execution order does not change what is generated
    import random
    c.rng_for = lambda stem: random.Random("%d/%s" % (c.seed, stem))
    results = vf.pmap(run_job, jobs)
    sev, pev = [], []
    for a, b, disc in results:
        sev += a
        pev += b
        for d in disc:
            c.discard(d)
    c.cov["evaluations"] = len(sev) + len(pev)
    symcamp.judge(c, [("SymtabTrace.tla", "SymtabTrace.cfg", sev, 400), ("CorpusTrace.tla", "CorpusTrace.cfg", pev, 300)])

    nontrivial = set()
    modes = {}
    for ev in sev:
        modes[ev["mode"] + "/" + ev["kind"]] = modes.get(ev["mode"] + "/" + ev["kind"], 0) + 1
        rows = ev["symtab"] if ev["symtab"] else ev["dynsym"]
        if any(r_["name"].startswith("__ksymtab_") for r_ in rows) and ev["ret"] == "ok":
            nontrivial.add(vf.sha(json.dumps([ev["mode"], ev["kind"], sorted(symobs.row_id(x) for x in ev["abidw"]), sorted(r_["name"] for r_ in rows)])))
    c.cov["distinct_nontrivial"] = len(nontrivial)
    c.cov["by_mode_and_kind"] = modes
    c.cov["rule"] = ("one evaluation = one (binary, mode) pair: a binary whose section headers make it a Linux kernel binary, observed with and without "
                     "--no-linux-kernel-mode; Kernel events (abidw's symbols vs the marked/all public symbols readelf shows) and Partition events "
                     "(declarations and unreferenced symbols through the API); non-trivial = the relevant table holds at least one __ksymtab_ marker, "
                     "counted once per distinct (mode, kind, recorded ids, table names)")
    for ev in sev[:2] + pev[:1]:
        c.sample({k: ev[k] for k in ("e", "kind", "mode", "etype", "ret") if k in ev} | ({"abidw": [symobs.row_id(x) for x in ev["abidw"]]} if "abidw" in ev else {"fn": ev["fn"]}))
    c.assumptions += ["readelf reads section headers and symbol tables correctly",
                      "kernel binary = a PROGBITS section __ksymtab_strings, or .modinfo + .gnu.linkonce.this_module; exported = a symbol named __ksymtab_<name> in the relevant table",
                      "at most one __ksymtab_<name> / __crc_<name> symbol per name, and those prefixes are reserved for markers (the kernel build guarantees both)"]
    c.finish()


def replay(path):
    ev = json.load(open(os.path.join(path, "event.json")))["event"]
    spec = "CorpusTrace" if ev.get("e") == "Partition" else "SymtabTrace"
    return vf.replay_event(spec + ".tla", spec + ".cfg", path)
