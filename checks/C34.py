"""C34 -- reading any ELF input is memory-safe and never aborts in libabigail.

Model: spec/ElfHash.tla, SpecCorrupt: for EVERY content of a .hash / .gnu.hash section (explored on demand: every
value 0..4 for every word a walk reads, sections of 0..13 words, symbol tables of 2 and 5 rows) TLC runs the transcribed
walks and the corrected walks: the corrected walks stay in bounds and terminate on every content (FixedLookupInBounds),
the transcribed ones do so on well-formed tables (LookupInBoundsOnWF) and fault only on ill-formed ones
(LookupInBoundsOrDev); the strict LookupInBounds is run per fault kind and the reachable kinds are recorded.

Conformance / exploration: render/elfpatch.py enumerates targeted corruptions (classes documented there, mapped to the
model's corrupt space) of shared objects produced by render/elfsyms.py and of a C library with DWARF; abisym, abidw and
abidiff of the ASan+UBSan build are run on every corrupted file; every run is one event
{"e":"Run",tool,corruption,ret,kind,fn,san,assert,foreign} that TLC judges against ElfHashTrace.tla (RunVerdict): normal
termination with any status, no signal, no ABG_ASSERT, no sanitizer report unless its innermost non-runtime frame is
foreign (libelf/libdw/libxml2), no time-out.  A rejected event carries the class key
corruption|tool|kind|function, which is what a known-finding predicate (KF_C34) matches on."""
import json, os, re, statistics, sys, threading
import vf
from checks import _elfhash as eh
import elfsyms, elfpatch

FAULTS = ["NoSysVOOB", "NoSysVAssert", "NoSysVLoop", "NoGnuOOB", "NoGnuAssert", "NoGnuDivZero", "NoGnuBadShift"]

C_SRC = r"""
typedef unsigned long size_type;
enum color { RED, GREEN = 5, BLUE };
struct point { int x; int y; };
struct node { struct node *next; struct point p; enum color c : 4; unsigned flag : 1; char name[12]; };
union value { int i; double d; struct point *pp; };
typedef int (*callback)(struct node *, void *);
struct ops { callback cb; size_type n; const char *label; union value v; };
int global_counter = 3;
const struct point origin = { 0, 0 };
struct ops default_ops;
static int helper(struct node *n) { return n ? n->p.x : 0; }
int walk(struct node *head, callback cb, void *arg) { int s = 0; while (head) { s += cb ? cb(head, arg) : helper(head); head = head->next; } return s; }
size_type measure(const struct ops *o, enum color c) { return o->n + (size_type) c; }
union value make_value(int i) { union value v; v.i = i; return v; }
void set_origin(struct point *p) { *p = origin; global_counter++; }
"""


CPU_SIG = 24          # SIGXCPU: the run used up its CPU-time limit (a load-independent time-out)


def _assert_fn(err):
    """function containing the failed assertion (glibc: `prog: file:line: signature: Assertion `..' failed.`)"""
    m = re.search(r"^[^:\n]+: [^:\n]+:\d+: (.*?): Assertion `", err, re.M)
    return eh.short_fn(m.group(1)) if m else ""


def _kind(r):
    if r.timeout or r.sig == CPU_SIG:
        return "timeout"
    m = re.search(r"ERROR: AddressSanitizer: ([\w-]+)", r.err)
    if m:
        return "asan:" + m.group(1)
    m = re.search(r"runtime error: ([^\n]*)", r.err)
    if m:
        t = re.sub(r"0x[0-9a-f]+|-?\d+", "N", m.group(1))
        t = re.sub(r" (for|of|to) type .*$| in type .*$|, which .*$", "", t)
        return "ubsan:" + t[:48].strip().replace(" ", "-").replace("'", "")
    if "Assertion `" in r.err and r.sig == 6:
        return "assert"
    m = re.search(r"terminate called after throwing an instance of '([^']*)'", r.err)
    if m:
        return "uncaught:" + m.group(1)
    if r.sig:
        return "SIG%d" % r.sig
    return "none"


def main():
    c = vf.Check("C34", "exploration")
    vf.build("asan")
    fp = eh.fingerprints()
    tools = {t: vf.tool("asan", t) for t in ("abisym", "abidw", "abidiff")}
    mres, merr = [], []

    def models():
        try:
            subst = [("CorruptLens = {0, 3, 6, 9, 13}", "CorruptLens = {0, 1, 2, 3, 4, 5, 6, 7, 8, 9, 10, 11, 12, 13}"),
                     ("CorruptSyms = {2, 5}", "CorruptSyms = {0, 2, 5}")] if c.thorough else []
            cfg = eh.make_cfg(c, "ElfHashCorrupt.cfg", "ElfHashCorrupt.cfg", fp, subst=subst)
            mres.append(("corrupt", True, vf.tlc_check("ElfHash.tla", cfg, workers=4, timeout=1400, heap="4g")))
            if not (fp["FixedSysV"] and fp["FixedGnu"]):
                def one(inv):
                    cfg = eh.make_cfg(c, "ElfHashCorrupt.cfg", "ElfHashCorrupt_%s.cfg" % inv, fp, invariants=[inv])
                    return inv, vf.tlc_check("ElfHash.tla", cfg, workers=1, timeout=600, heap="1g")
                for inv, r in vf.pmap(one, FAULTS, jobs=4):
                    mres.append((inv, None, r))
            else:
                cfg = eh.make_cfg(c, "ElfHashCorrupt.cfg", "ElfHashCorruptStrict.cfg", fp, invariants=["LookupInBounds"], subst=subst)
                mres.append(("strict", True, vf.tlc_check("ElfHash.tla", cfg, workers=4, timeout=1400, heap="4g")))
        except SystemExit as ex:
            merr.append(ex)
    th = threading.Thread(target=models)
    th.start()

    # ---- base binaries
    W = c.workdir
    lib = elfsyms.make_lib(c.rng, 40, versions=True)
    src, script, _ = elfsyms.render(lib)
    open(os.path.join(W, "gen.s"), "w").write(src)
    open(os.path.join(W, "gen.map"), "w").write(script)
    open(os.path.join(W, "d.c"), "w").write(C_SRC)
    plan = [("A", "bfd", "sysv"), ("B", "lld", "gnu"), ("C", "gold", "both")]
    if c.thorough:
        plan += [("E", "bfd", "both"), ("F", "lld", "sysv"), ("G", "gold", "gnu")]
    bases = []
    for tag, ld, st in plan:
        out = os.path.join(W, "base%s.so" % tag)
        ok, msg = elfsyms.link(os.path.join(W, "gen.s"), os.path.join(W, "gen.map"), out, ld, st)
        if not ok:
            c.discard("base library could not be linked (%s)" % ld)
            continue
        names, order = elfsyms.truth(out)
        if names is None:
            c.discard("base library without ground truth")
            continue
        present = sorted(n for n, d in names.items() if d["present"] and not d["ambiguous"])
        multi = [n for n in present if len(names[n]["versions"]) > 1]
        ab = elfsyms.absent_queries(c.rng, out, names, lib, want=16)
        hard = [n for n, cl in ab if cl in ("gnu-bucket+bloom", "sysv-bucket")] or [n for n, cl in ab]
        bases.append({"tag": tag, "path": out, "desc": "%s --hash-style=%s" % (ld, st), "kind": "syms",
                      "names": [(multi or present)[0], hard[0], present[len(present) // 2]], "src": ["gen.s", "gen.map"]})
    dvariants = [("D", ["gcc", "-g"])] + ([("H", ["gcc", "-g", "-gdwarf-4"]), ("I", ["clang", "-g"])] if c.thorough else [])
    for tag, cc in dvariants:
        out = os.path.join(W, "base%s.so" % tag)
        r = vf.run(cc + ["-O0", "-fPIC", "-shared", "-nostdlib", "-o", out, os.path.join(W, "d.c")], env=dict(os.environ), timeout=120)
        if r.exit != 0 or not os.path.exists(out):
            c.discard("C base library could not be compiled (%s)" % cc[0])
            continue
        bases.append({"tag": tag, "path": out, "desc": " ".join(cc) + " (DWARF)", "kind": "dwarf", "names": ["walk", "no_such_symbol", "origin"], "src": ["d.c"]})
    if not bases:
        vf.infra("no base binary could be produced")

    def cmd(tool, path, base, name=None):
        if tool == "abisym":
            return [tools[tool], path, name]
        if tool == "abidw":
            return [tools[tool], path]
        return [tools[tool], path, base]

    # ---- baseline: the tools must be clean on the uncorrupted files (otherwise nothing can be attributed to a corruption)
    # time-outs are CPU-time limits (prlimit --cpu, SIGXCPU): independent of the load of the machine; the wall-clock
    # limit of vf.run is only a backstop for a run that sleeps
    def runit(job, cpu):
        sc = os.path.join(W, "scratch")
        os.makedirs(sc, exist_ok=True)
        return vf.run(["prlimit", "--cpu=%d:%d" % (cpu, cpu + 5), "--"] + job["cmd"], env=vf.henv(sc), timeout=max(600, 40 * cpu))
    basejobs = []
    for b in bases:
        for t in ("abisym", "abidw", "abidiff"):
            basejobs.append({"base": b, "tool": t, "cmd": cmd(t, b["path"], b["path"], b["names"][0])})
    bres = vf.pmap(lambda j: runit(j, 120), basejobs)
    usable = set()
    for j, r in zip(basejobs, bres):
        if _kind(r) != "none":
            c.discard("tool not clean on the uncorrupted base (%s on %s: %s)" % (j["tool"], j["base"]["desc"], _kind(r)))
        else:
            usable.add((j["base"]["tag"], j["tool"]))
    limit = 60 if c.thorough else 30        # CPU seconds; an ASan run on these inputs takes about 1 s of CPU (>= 25x / 50x)

    # ---- corruptions -> jobs
    TABLE = ("hash", "gnu")
    jobs = []
    nclasses = set()
    for b in bases:
        data = open(b["path"], "rb").read()
        cs = elfpatch.corruptions(data, c.rng, thorough=c.thorough)
        for ci, (cls, detail, patched) in enumerate(cs):
            fam = elfpatch.group(cls)
            table = fam in TABLE and ".sh_" not in cls
            if b["kind"] == "dwarf":
                if not (fam.startswith("debug") or fam in ("symtab", "strtab", "truncated", "ehdr", "garbage") or cls.startswith(("flip.any", "flip.symtab", "flip.strtab", "flip.shdrs"))):
                    continue
                which = ["abidw", "abidiff"]
            elif b["tag"] in ("C", "E") and not (fam in TABLE):
                continue                    # the combined-layout bases are for the hash sections only
            elif table:
                which = ["abisym"]
            else:
                which = ["abisym", "abidw", "abidiff"]
            if not c.thorough and len(which) > 1:
                which = [which[(ci + c.seed) % len(which)]]            # quick: one reader per class, rotating
            path = os.path.join(W, "c_%s_%04d.so" % (b["tag"], ci))
            wrote = False
            for t in which:
                if (b["tag"], t) not in usable:
                    continue
                names = b["names"][:2] if t == "abisym" and table else b["names"][:1]
                if c.thorough and t == "abisym" and table:
                    names = b["names"]
                for nm in names if t == "abisym" else [None]:
                    if not wrote:
                        with open(path, "wb") as f:
                            f.write(patched)
                        wrote = True
                    jobs.append({"base": b, "tool": t, "cls": cls, "detail": detail, "path": path, "cmd": cmd(t, path, b["path"], nm)})
                    nclasses.add(cls)

    res = vf.pmap(lambda j: runit(j, limit), jobs)

    def event(j, r):
        k = _kind(r)
        fn, foreign = eh.classify_stack(r.err) if k.startswith(("asan", "ubsan")) else ("", False)
        if k == "assert":
            fn = _assert_fn(r.err)
        ev = {"e": "Run", "tool": j["tool"], "corruption": j["cls"], "section": j["cls"].split(".")[0], "detail_is_st_info": ".st_info." in j["cls"], "ret": "timeout" if k == "timeout" else ("signal" if r.sig else "exit"),
              "kind": k, "fn": fn, "san": r.san, "top": r.top, "assert": _assert_fn(r.err) if k == "assert" else "", "foreign": bool(foreign), "status": r.exit,
              "base": j["base"]["tag"], "detail": j["detail"]}
        return ev
    events = [event(j, r) for j, r in zip(jobs, res)]
    # a CPU-time limit is deterministic; it is nevertheless confirmed once per class key with twice the limit
    seen, again = set(), []
    for i, ev in enumerate(events):
        if ev["kind"] == "timeout" and (ev["corruption"], ev["tool"]) not in seen:
            seen.add((ev["corruption"], ev["tool"]))
            again.append(i)
    for i, r2 in zip(again, vf.pmap(lambda i: runit(jobs[i], 2 * limit), again)):
        if _kind(r2) != "timeout":
            res[i] = r2
            events[i] = event(jobs[i], r2)
            c.discard("time-out not confirmed by the re-run")
    c.cov["evaluations"] = len(events)

    # ---- model results
    th.join()
    if merr:
        raise merr[0]
    reach = {}
    for name, must, r in mres:
        if must is None:
            c.cov["states"] += r["distinct"]
            c.cov["transitions"] += r["generated"]
            reach[name[2:]] = (not r["ok"]) and dict(eh.last_state(r["out"], ["cq", "ht"]))
        else:
            eh.record(c, r, must_hold=must)
    c.cov["model_faults_reachable_by_transcribed_walks"] = reach
    c.cov["implementation_operators"] = {k: ("corrected" if fp[k] else "transcribed") for k in ("FixedSysV", "FixedGnu")}
    c.cov["source_fingerprints"] = fp["detail"]

    # ---- TLC judges every run
    r = vf.tlc_validate("ElfHashTrace.tla", "ElfHashTrace.cfg", events, heap="2g")
    c.cov["traces_validated_against_impl"] += len(events)
    listed = {k["id"]: k for k in c.known if k.get("status") == "known"}
    groups = {}
    for (i, ev, kid) in r["kf"]:
        if kid in listed:
            c.kf_seen[kid] = c.kf_seen.get(kid, 0) + 1
        else:
            groups.setdefault("unlisted-known-finding:" + kid, []).append(i)
    for (i, ev, v) in r["bad"]:
        groups.setdefault(v, []).append(i)
    sites = {}
    for v, idx in sorted(groups.items(), key=lambda x: x[0]):
        i = idx[0]
        j, ev, rr = jobs[i - 1], events[i - 1], res[i - 1]
        rel = [os.path.basename(a) if a.startswith(W) else a for a in j["cmd"]]
        pl = {"corrupted.so": open(j["path"], "rb").read(), "base.so": open(j["base"]["path"], "rb").read(),
              "stderr.txt": rr.err[-6000:],
              "repro.sh": "#!/bin/sh\n# %s\n# base: %s; corruption: %s (%s); %d runs of this class key in the campaign\n%s\n"
                          % (v, j["base"]["desc"], j["cls"], j["detail"], len(idx),
                             " ".join("'%s'" % a for a in rel).replace(os.path.basename(j["path"]), "corrupted.so").replace(os.path.basename(j["base"]["path"]), "base.so"))}
        for s in j["base"]["src"]:
            pl[s] = open(os.path.join(W, s)).read()
        c.violation("%s on a corrupted ELF file: %s %s in %s [class key %s; %d runs]"
                    % (ev["tool"], ev["kind"], ("(" + ev["san"] + ")") if ev["san"] else "", ev["fn"] or "?", v[4:] if v.startswith("bad:") else v, len(idx)),
                    ev, payload=pl)
        sk = "%s|%s|%s" % (ev["tool"], ev["kind"], ev["fn"])
        sites.setdefault(sk, []).append(ev["corruption"])
    c.cov["finding_sites"] = {k: sorted(set(v)) for k, v in sites.items()}
    c.cov["violation_class_keys"] = sorted(groups)

    # ---- coverage
    c.cov["distinct_nontrivial"] = len({(e["base"], e["corruption"], e["tool"]) for e in events})
    c.cov["corruption_classes"] = len(nclasses)
    c.cov["foreign"] = sum(1 for e in events if e["foreign"])
    byk = {}
    for e in events:
        byk[e["kind"]] = byk.get(e["kind"], 0) + 1
    c.cov["runs_by_termination"] = byk
    c.cov["bases"] = [b["desc"] for b in bases]
    c.cov["cpu_time_limit_s"] = limit
    c.cov["rule"] = ("model: every content of a hash section the walks can read (on demand, values 0..4); campaign: %d corruption classes "
                     "(render/elfpatch.py) of %d base binaries x the readers that parse the corrupted structure (quick: one reader per class, "
                     "rotating with the seed), ASan+UBSan build; non-trivial = distinct (base, class, tool)" % (len(nclasses), len(bases)))
    for e in [e for e in events if e["kind"] != "none"][:3] + events[:2]:
        c.sample(e)
    c.assumptions += ["ASan/UBSan observe invalid memory accesses and undefined behaviour; the frame classifier (checks/_elfhash.classify_stack) "
                      "decides foreign (libelf/libdw/libxml2) by the module of the innermost non-runtime frame",
                      "a corruption class, not an offset, identifies a finding; a time-out is a CPU-time limit (prlimit) confirmed by a re-run with twice the limit"]
    c.finish()


def replay(path):
    return vf.replay_event("ElfHashTrace.tla", "ElfHashTrace.cfg", path)
