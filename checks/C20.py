"""C20 -- type canonicalization agrees with structural equality; the library's own debug checks never fire.

Model:   spec/Canon.tla     the canonicalization algorithm of src/abg-ir.cc as a state machine (comparison stack, cycle
                            detection, canonical-type propagation, non-confirmed set, confirm / cancel, the two passes of
                            equals(class_decl)) over ALL type graphs within the bounds and ALL canonicalization orders.
         Canon.cfg, CanonPtr.cfg (thorough: CanonThorough*.cfg)   the algorithm with the three repairs the model led to (cycle =
                            the *pair* is on the stack; the class_decl pass only takes back a canonical type received in this
                            very comparison; nothing tentative survives the outermost comparison): CanonIffBisim holds.
         CanonAsCoded.cfg   the algorithm as coded: TLC refutes CanonIffBisim; the counterexample (graph + order) is replayed on
                            the real library through the IR constructors (harness/canonapi.cc) and must be rejected there too.
         CanonStale5.cfg    (thorough) cycle test repaired, class_decl pass guarded but the flag still sticky, outermost return as
                            coded: refuted with 5 nodes (stale non-confirmed entries cost a type its canonical type).
         CanonMutant.cfg    vacuity guard: PropagateDespiteCycle (no dependency tracking, nothing cancelled) must be refuted.
         CanonMutantP2.cfg  algorithm mutant Pass2ClearsDeps (4 nodes): refuted; like every refuted mutant its counterexample (graph + order) is
                            replayed on the real library, which must NOT go wrong on it.
Replay:  (a) harness/irdump.cc dumps the loaded type graph of every campaign binary (TLC-generated programs of Abi.tla in
             1-3 translation units, hand-written multi-TU sources of render/canon_samples, every graph of Canon.tla rendered
             as ABIXML, the same graphs built with the IR constructors and canonicalized in a model-chosen order by
             harness/canonapi.cc); TLC recomputes structural equality on the dump and checks canon(a) = canon(b) <=> Bisim(a, b)
             (spec/CanonTrace.tla).
         (b) hook H5 (when /repo carries it): the canonicalization events of the same loading are validated as steps of
             Canon's algorithm; every top-level Compare result is checked against structural equality.
         (c) a `dbgcanon` build (-DWITH_DEBUG_TYPE_CANONICALIZATION -DWITH_DEBUG_SELF_COMPARISON) runs `abidw --debug-tc` and
             `abidw --debug-abidiff` on every campaign binary: an abort or an "error:" line is a rejected event."""
import json, os, re, shutil, subprocess
import vf, campaign

MAXT = 60
SAMPLES = os.path.join(vf.VERIF, "render", "canon_samples")
H5_EVENTS = ("CanonBegin", "Compare", "Propagate", "Track", "Confirm", "Cancel", "CanonAlias", "CanonEnd")


# ------------------------------------------------------------------------------------------------ builds
def build_dbgcanon():
    """bin/build has no such variant: same recipe (checksum copy + our own make rules), the two debug macros, abidw only."""
    B = os.path.join(vf.BUILD, "dbgcanon")
    for d in ("src", "include", "tools", "obj", "bin"):
        os.makedirs(os.path.join(B, d), exist_ok=True)
    R = vf.REPO
    for args in (["--include=*.cc", "--include=*.h", "--exclude=*", R + "/src/", B + "/src/"],
                 ["--include=*.h", "--exclude=*", R + "/include/", B + "/include/"],
                 ["--include=*.cc", "--include=*.h", "--exclude=*", R + "/tools/", B + "/tools/"]):
        subprocess.run(["rsync", "-rc", "--delete"] + args, check=True)
    subprocess.run(["rsync", "-c", R + "/config.h", B + "/config.h"], check=True)
    abidw = open(os.path.join(B, "tools", "abidw.cc"), errors="replace").read()
    for macro, opt in (("WITH_DEBUG_TYPE_CANONICALIZATION", "--debug-tc"), ("WITH_DEBUG_SELF_COMPARISON", "--debug-abidiff")):
        if not re.search(r"#ifdef %s\s*\n\s*else if \(!strcmp\(argv\[i\], \"%s\"\)" % (macro, opt), abidw):
            vf.infra("tools/abidw.cc no longer offers %s under %s" % (opt, macro))
    mk = """CXX=g++
CXXFLAGS=-std=c++11 -Wno-error -w -fvisibility=hidden -O0 -DWITH_DEBUG_TYPE_CANONICALIZATION -DWITH_DEBUG_SELF_COMPARISON -DHAVE_CONFIG_H -DABIGAIL_ROOT_SYSTEM_LIBDIR=\\"/usr/local/lib\\" -I/usr/include/libxml2 -I. -Iinclude -Isrc
LIBS=-lxml2 -lelf -ldw -lpthread
SRCS=$(filter-out src/abg-ctf-reader.cc src/abg-viz-%.cc,$(wildcard src/*.cc))
OBJS=$(patsubst src/%.cc,obj/%.o,$(SRCS))
all: bin/abidw
obj/%.o: src/%.cc $(wildcard src/*.h) $(wildcard include/*.h) config.h
\t$(CXX) $(CXXFLAGS) -c $< -o $@
obj/libabigail.a: $(OBJS)
\trm -f $@.tmp; ar rcs $@.tmp $(OBJS) && mv -f $@.tmp $@
obj/tool-%.o: tools/%.cc $(wildcard include/*.h) config.h
\t$(CXX) $(CXXFLAGS) -c $< -o $@
bin/%: obj/tool-%.o obj/libabigail.a
\t$(CXX) -o $@.tmp $< obj/libabigail.a $(LIBS) && mv -f $@.tmp $@
.SECONDARY:
"""
    with open(os.path.join(B, "Makefile"), "w") as f:
        f.write(mk)
    r = subprocess.run(["flock", os.path.join(B, ".lock"), "make", "-s", "-j%d" % vf.JOBS, "all"], cwd=B,
                       stdout=subprocess.PIPE, stderr=subprocess.STDOUT, text=True)
    if r.returncode != 0:
        import sys
        sys.stderr.write(r.stdout[-4000:])
        vf.infra("dbgcanon build failed")
    return os.path.join(B, "bin", "abidw")


def has_h5():
    src = os.path.join(vf.bdir("hooks"), "src", "abg-ir.cc")
    t = open(src, encoding="utf-8", errors="replace").read()
    return "abg_verif_canon_number" in t and "ABG_VERIF_CANON_TRACE" in t


# ------------------------------------------------------------------------------------------------ models
def models(c):
    """The repaired algorithm must satisfy CanonIffBisim; the algorithm as coded and the mutant must be refuted by TLC."""
    hold = ["Canon.cfg", "CanonPtr.cfg"] + (["CanonThorough.cfg", "CanonThoroughPtr.cfg", "CanonThorough5.cfg"] if c.thorough else [])
    refute = [("CanonAsCoded.cfg", "as coded (set-based cycle detection, sticky propagated flag, partial confirm/cancel at the outermost return)"),
              ("CanonMutant.cfg", "mutant PropagateDespiteCycle"),
              ("CanonMutantP2.cfg", "mutant Pass2ClearsDeps (the class_decl pass also clears the depends-on-recursive-type marks of the right operand)")] + \
             ([("CanonStale5.cfg", "cycle test repaired, class_decl pass guarded, flag still sticky, outermost return as coded (stale non-confirmed entries)")] if c.thorough else [])
    w = max(2, vf.JOBS // 4)
    rs = vf.pmap(lambda cfg: vf.tlc_check("Canon.tla", cfg, timeout=1400, workers=w, heap="6g"), hold + [x[0] for x in refute], jobs=4)
    for cfg, r in zip(hold, rs):
        c.cov["states"] += r["distinct"]
        c.cov["transitions"] += r["generated"]
        c.cov["models"].append({"spec": "Canon.tla", "cfg": cfg, "distinct": r["distinct"], "generated": r["generated"], "depth": r["depth"],
                                "holds": r["ok"], "wall_s": round(r["wall"], 1)})
        if not r["ok"]:
            import sys
            sys.stderr.write(r["out"][-4000:])
            vf.infra("model Canon.tla/%s violates its property (rc=%d): the repaired algorithm must satisfy CanonIffBisim" % (cfg, r["rc"]))
    for (cfg, what), r in zip(refute, rs[len(hold):]):
        m = re.search(r"Invariant (\w+) is violated", r["out"])
        c.cov["models"].append({"spec": "Canon.tla", "cfg": cfg, "what": what, "distinct": r["distinct"], "generated": r["generated"],
                                "depth": r["depth"], "holds": r["ok"], "expected": "refuted", "refuted_invariant": m.group(1) if m else "",
                                "wall_s": round(r["wall"], 1)})
        if r["ok"]:
            vf.infra("TLC does not refute CanonIffBisim for %s: the invariant is vacuous or the model changed" % what)
        if cfg == "CanonAsCoded.cfg":
            c.as_coded_counterexample = counterexample(r["out"])
        elif cfg.startswith("CanonMutant"):
            # the behaviour that tells the mutated algorithm from the right one: replayed on the real library below, where it must be accepted
            cx = counterexample(r["out"])
            if cx:
                c.mutant_counterexamples = getattr(c, "mutant_counterexamples", []) + [(cfg, cx)]


# ------------------------------------------------------------------------------------------------ projection of one loading
def closure(types, roots):
    by = {t["n"]: t for t in types}
    seen, todo = set(), list(roots)
    while todo:
        n = todo.pop()
        if n in seen or n not in by:
            continue
        seen.add(n)
        t = by[n]
        todo += t["kids"] + [t["def"], t["canon"]]
    seen.discard(0)
    return seen


def dump_event(case, types, keep, roots):
    """Renumber the kept types 1..k (positions) and project them for TLC."""
    order = [t for t in types if t["n"] in keep]
    pos = {t["n"]: i + 1 for i, t in enumerate(order)}
    ts = [{"k": t["k"], "sig": t["sig"], "kids": [pos[k] for k in t["kids"]], "canon": pos.get(t["canon"], 0),
           "decl": t["decl"], "def": pos.get(t["def"], 0), "skip": t["skip"]} for t in order]
    return {"e": "Dump", "case": case, "types": ts, "roots": sorted(pos[n] for n in roots if n in pos)}, pos


def executions(case, d, h5):
    """One irdump output (+ the H5 lines of the same process) -> list of executions (each a list of events)."""
    types = d["types"]
    roots = closure(types, [f["t"] for f in d["fns"]] + [v["t"] for v in d["vars"]])
    allk = {t["n"] for t in types}
    if len(types) <= MAXT:
        ev, pos = dump_event(case, types, allk, roots)
        evs = [{"e": "Reset"}, ev]
        if h5 is not None:
            for e in h5:
                e = dict(e)
                e["tp"], e["cp"] = pos.get(e.get("t", 0), 0), pos.get(e.get("c", 0), 0)
                evs.append(e)
            evs.append({"e": "Final", "canon": [[t["n"], t["canon"]] for t in types]})
        return [evs], 0
    # too big for one bisimulation: one dump per exported interface (its closure), hook events left out
    out, dropped = [], 0
    for k, it in enumerate(d["fns"] + d["vars"]):
        keep = closure(types, [it["t"]])
        if len(keep) > MAXT:
            dropped += 1
            continue
        ev, _ = dump_event("%s/%s" % (case, it["name"]), types, keep, keep)
        out.append([{"e": "Reset"}, ev])
    return out, dropped


def load(c, irdump, path, case, h5on):
    d = os.path.dirname(path)
    tr = os.path.join(d, os.path.basename(path) + ".h5.ndjson")
    if os.path.exists(tr):
        os.remove(tr)
    r = vf.run([irdump, path], env=vf.henv(d, {"ABG_VERIF_CANON_TRACE": tr} if h5on else None), timeout=120)
    if campaign.retof(r) != "ok" or not r.out.startswith("{"):
        return None, "irdump:" + campaign.retof(r)
    try:
        dump = json.loads(r.out.splitlines()[0])
    except ValueError:
        return None, "irdump-output"
    if not dump.get("ok"):
        return None, "not-loaded"
    h5 = None
    if h5on and dump.get("hooknumbers"):
        h5 = []
        if os.path.exists(tr):
            for ln in open(tr, errors="replace"):
                try:
                    e = json.loads(ln)
                except ValueError:
                    continue
                if e.get("e") in H5_EVENTS:
                    h5.append(e)
    return (dump, h5), ""


def debug_runs(abidw, path, case):
    """abidw --debug-tc / --debug-abidiff of the dbgcanon build; the error-stream lines are only sorted into the kinds the
    library prints (src/abg-ir.cc, src/abg-reader.cc), TLC decides what they mean."""
    evs = []
    d = os.path.dirname(path)
    for mode, opts in (("tc", ["--debug-tc", "--noout"]), ("abidiff", ["--debug-abidiff", "--abidiff"])):
        r = vf.run([abidw] + opts + [path], env=vf.henv(d), timeout=120)
        lines = r.err.splitlines()
        errs = [ln for ln in lines if ln.startswith("error:")]
        fn = [ln for ln in errs if re.match(r"error: wrong canonical type for 'function type ", ln)]
        tid = [ln for ln in errs if re.match(r"error: no type with type-id: '[^']*' could be read back from the typeid file", ln)]
        tc = [ln for ln in lines if "structural & canonical equality different" in ln]
        other = [ln for ln in errs if ln not in fn and ln not in tid]
        # classification help for known finding C20-debug-abidiff-void-type-id: are all the type-ids complained about the id of the `void` type-decl?
        only_void = False
        if tid:
            doc = vf.run([abidw, path], env=vf.henv(d), timeout=120).out
            void_ids = set(re.findall(r"<type-decl name='void' id='([^']*)'", doc))
            only_void = bool(void_ids) and all(re.search(r"type-id: '([^']*)'", ln).group(1) in void_ids for ln in tid)
        evs.append({"e": "DebugRun", "case": case, "mode": mode, "exit": r.exit if not r.sig else 0, "sig": r.sig, "typeIdsAreVoid": only_void,
                    "errFnType": len(fn), "errTypeId": len(tid), "errOther": len(other), "tcDiffers": len(tc),
                    "ret": campaign.retof(r), "first": ((tc + other + tid + fn + [r.err[-200:]])[0])[:200]})
    return evs


# ------------------------------------------------------------------------------------------------ ABIXML rendering of Canon's graphs
def graph_abixml(g, order):
    """A graph of Canon.tla (list of nodes k, n, d, kids) as an ABIXML corpus; `order` = document order of the definitions.
    struct members are pointers to the kid (a pointer type per use: no sharing the algorithm could exploit)."""
    out = ["<abi-corpus version='2.1' path='canon-graph'>", "  <abi-instr address-size='64' path='g.c' language='LANG_C99'>",
           "    <type-decl name='int' size-in-bits='32' id='int'/>"]
    for i in order:
        nd = g[i - 1]
        if nd["k"] == "struct":
            name = "AB"[nd["n"] - 1]
            if nd["d"]:
                out.append("    <class-decl name='%s' is-struct='yes' visibility='default' is-declaration-only='yes' id='t%d'/>" % (name, i))
                continue
            out.append("    <class-decl name='%s' size-in-bits='%d' is-struct='yes' visibility='default' id='t%d'>" % (name, 64 * len(nd["kids"]) + 32, i))
            for j, k in enumerate(nd["kids"]):
                out.append("      <data-member access='public' layout-offset-in-bits='%d'><var-decl name='m%d' type-id='p%d_%d' visibility='default'/></data-member>" % (64 * j, j, i, j))
            out.append("      <data-member access='public' layout-offset-in-bits='%d'><var-decl name='tail' type-id='int' visibility='default'/></data-member>" % (64 * len(nd["kids"])))
            out.append("    </class-decl>")
            for j, k in enumerate(nd["kids"]):
                out.append("    <pointer-type-def type-id='t%d' size-in-bits='64' id='p%d_%d'/>" % (k, i, j))
        elif nd["k"] == "ptr":
            out.append("    <pointer-type-def type-id='t%d' size-in-bits='64' id='t%d'/>" % (nd["kids"][0], i))
        else:
            out.append("    <typedef-decl name='T%d' type-id='t%d' id='t%d'/>" % (nd["n"], nd["kids"][0], i))
    out += ["  </abi-instr>", "</abi-corpus>", ""]
    return "\n".join(out)


def model_graphs(c, n):
    """Graphs of Canon.tla (TLC as generator: CanonGen.cfg prints every complete graph of its bounds)."""
    g = vf.tlc_generate("Canon.tla", os.path.join(vf.SPEC, "CanonGen.cfg"), workers=4, timeout=900)
    graphs = g["cases"]
    c.rng.shuffle(graphs)
    return graphs[:n], len(graphs)


# ------------------------------------------------------------------------------------------------ model behaviours on the real API
def api_run(canonapi, g, order, case, h5on, scratch):
    """harness/canonapi.cc: build graph g (struct nodes of Canon.tla) with the IR constructors, canonicalize in `order`."""
    spec = ";".join(("ab" if nd["d"] else "AB")[nd["n"] - 1] + ":" + ",".join(str(k) for k in nd["kids"]) for nd in g)
    tr = os.path.join(scratch, case + ".h5.ndjson")
    if os.path.exists(tr):
        os.remove(tr)
    r = vf.run([canonapi, spec, ",".join(str(i) for i in order)], env=vf.henv(scratch, {"ABG_VERIF_CANON_TRACE": tr} if h5on else None), timeout=60)
    if campaign.retof(r) != "ok" or not r.out.startswith("{"):
        return None, "canonapi:" + campaign.retof(r)
    res = json.loads(r.out.splitlines()[0])
    num = res["numbers"]
    types = [{"n": num[i], "k": "struct", "name": "AB"[nd["n"] - 1],
              "sig": "struct %s%s %d" % ("decl " if nd["d"] else "", "AB"[nd["n"] - 1], len(nd["kids"])),
              "kids": [num[k - 1] for k in nd["kids"]], "canon": num[res["canon"][i] - 1] if res["canon"][i] > 0 else 0,
              "decl": nd["d"], "def": 0, "skip": ""} for i, nd in enumerate(g)]
    h5 = None
    if h5on and os.path.exists(tr):
        h5 = [e for e in (json.loads(ln) for ln in open(tr) if ln.strip()) if e.get("e") in H5_EVENTS]
        os.remove(tr)
    d = {"types": types, "fns": [{"name": "n%d" % i, "t": num[i - 1]} for i in order], "vars": []}
    return (d, h5, spec), ""


def counterexample(out):
    """(graph, order) of the behaviour TLC printed when it refuted an invariant of Canon.tla."""
    m = re.findall(r"/\\ g = (<<.*?>>)\n/\\ \w+ =", out, re.S)
    if not m:
        return None
    txt = m[-1]
    g = []
    for nd in re.findall(r"\[k \|-> \"(\w+)\", n \|-> (\d+), d \|-> (\w+), kids \|-> <<([\d, ]*)>>\]", txt):
        g.append({"k": nd[0], "n": int(nd[1]), "d": nd[2] == "TRUE", "kids": [int(x) for x in nd[3].replace(" ", "").split(",") if x]})
    order = [int(x) for x in re.findall(r"^State \d+: <BeginCanon\((\d+)\)", out, re.M)]
    order += [i for i in range(1, len(g) + 1) if i not in order]          # TLC stops at the first quiescent state that violates: finish the run
    return (g, order) if g and all(nd["k"] == "struct" for nd in g) else None


# ------------------------------------------------------------------------------------------------ main
def main():
    import time
    c = vf.Check("C20", "model_checking")
    phase, t_last = {}, [time.time()]

    def mark(name):
        phase[name] = round(time.time() - t_last[0], 1)
        t_last[0] = time.time()
    vf.build("hooks")
    h5on = has_h5()
    irdump = vf.build_harness("hooks", "irdump")
    abidw_dbg = build_dbgcanon()
    mark("build")
    models(c)
    mark("models")

    # ---- binaries: generated programs x compilers x translation-unit splits, hand-written samples x compilers
    comps = ["gcc", "clang", "gcc-dwarf4", "clang-dwarf5"] if c.thorough else ["gcc", "clang"]
    progs = [p for p in campaign.programs(c, 900 if c.thorough else 56, MaxTypes=9, MaxMembers=3, MaxIfaces=5) if campaign.nontrivial_program(p)]
    jobs = []
    for i, p in enumerate(progs):
        for comp in comps:
            jobs.append(("prog", i, comp, {"seed": c.rng.randrange(1 << 20), "tus": 1 + (i + len(comp)) % 3}))
    samples = sorted(d for d in os.listdir(SAMPLES) if os.path.isdir(os.path.join(SAMPLES, d)))
    for s in samples:
        for comp in comps:
            jobs.append(("sample", s, comp, None))

    def binary(job):
        kind, what, comp, style = job
        if kind == "prog":
            path, err, d = campaign.build_one(c, what, progs[what], comp, style=style, sub=comp)
            return path, "p%d-%s-tus%d" % (what, comp, style["tus"])
        d = os.path.join(c.workdir, "s_" + what, comp)
        files = {fn: open(os.path.join(SAMPLES, what, fn)).read() for fn in sorted(os.listdir(os.path.join(SAMPLES, what))) if fn.endswith((".c", ".h"))}
        cc, flags = campaign.COMPILERS[comp]
        path, err = campaign.compile_prog(d, files, cc, flags)
        return path, "%s-%s" % (what, comp)

    def one(job):
        path, case = binary(job)
        if not path:
            return ("discard", "does-not-compile", case)
        ld, why = load(c, irdump, path, case, h5on)
        if ld is None:
            return ("bad", why, case, path)
        execs, dropped = executions(case, ld[0], ld[1])
        return ("ok", execs, dropped, debug_runs(abidw_dbg, path, case), case, path, len(ld[0]["types"]), len(ld[1] or []))

    res = vf.pmap(one, jobs, jobs=max(2, vf.JOBS // 2))
    mark("campaign")

    # ---- every graph of the model, rendered as ABIXML (the replay of the design-level counterexamples)
    graphs, ngraphs = model_graphs(c, 3000 if c.thorough else 300)
    gdir = os.path.join(c.workdir, "graphs")
    os.makedirs(gdir, exist_ok=True)

    def one_graph(ig):
        i, g = ig
        order = list(range(1, len(g) + 1))
        c_rng = __import__("random").Random(c.seed * 7919 + i)
        c_rng.shuffle(order)
        p = os.path.join(gdir, "g%d.abi" % i)
        with open(p, "w") as f:
            f.write(graph_abixml(g, order))
        case = "graph%d" % i
        ld, why = load(c, irdump, p, case, h5on)
        if ld is None:
            return ("discard", "abixml-graph-" + why, case)
        execs, dropped = executions(case, ld[0], ld[1])
        return ("ok", execs, dropped, [], case, p, len(ld[0]["types"]), len(ld[1] or []))

    res += vf.pmap(one_graph, list(enumerate(graphs)), jobs=max(2, vf.JOBS // 2))
    mark("graphs")

    # ---- the same graphs through the IR constructors, canonicalize() called in an order of the model's choosing; and the
    #      behaviour with which TLC refuted the algorithm as coded: the real library must go wrong on it too
    canonapi = vf.build_harness("hooks", "canonapi")
    api_graphs = [g for g in graphs if all(nd["k"] == "struct" for nd in g)]

    def one_api(ig):
        i, g, order, case = ig
        ld, why = api_run(canonapi, g, order, case, h5on, gdir)
        if ld is None:
            return ("discard", "api-graph-" + why, case)
        execs, dropped = executions(case, ld[0], ld[1])
        return ("ok", execs, dropped, [], case, {"graph": ld[2], "order": order}, len(ld[0]["types"]), len(ld[1] or []))
    api_jobs = []
    for i, g in enumerate(api_graphs * (4 if c.thorough else 2)):
        order = list(range(1, len(g) + 1))
        __import__("random").Random(c.seed * 104729 + i).shuffle(order)
        api_jobs.append((i, g, order, "api%d" % i))
    res += vf.pmap(one_api, api_jobs, jobs=max(2, vf.JOBS // 2))
    cex = getattr(c, "as_coded_counterexample", None)
    c.cov["as_coded_counterexample"] = {"graph": cex[0], "order": cex[1]} if cex else None
    if cex:
        r = one_api((0, cex[0], cex[1], "tlc-counterexample-as-coded"))
        if r[0] == "ok":
            v = vf.tlc_validate("CanonTrace.tla", "CanonTrace.cfg", [dict(e, case="tlc-counterexample-as-coded") for e in r[1][0][:2]])
            # rejected: the library has the defect the model has as coded (reported below with the other events);
            # accepted: the library no longer behaves as CanonAsCoded.cfg describes it in this respect (repaired)
            c.cov["as_coded_counterexample"]["rejected_on_the_real_library"] = not v["accepted"]
            res.append(r)
    # the (graph, order) behaviours with which TLC refuted the *mutants* of the algorithm: the real library is run on each of them and judged like every
    # other loading (canon = canon <=> Bisim on the dump, H5 events as steps of Canon) -- a library that implements the mutant is rejected here
    c.cov["mutant_counterexamples_replayed"] = []
    for cfg, (mg, morder) in getattr(c, "mutant_counterexamples", []):
        r = one_api((0, mg, morder, "tlc-counterexample-" + cfg.replace(".cfg", "")))
        c.cov["mutant_counterexamples_replayed"].append({"cfg": cfg, "graph": mg, "order": morder, "ran": r[0] == "ok"})
        res.append(r)
    mark("api")

    execs, dbg, paths = [], [], {}
    nt, nh5, recursive = 0, 0, 0
    for r in res:
        if r[0] == "discard":
            c.discard(r[1])
        elif r[0] == "bad":                     # a crash of the reader is C33-C35's business, not C20's
            c.discard("harness-could-not-load:" + r[1])
        else:
            execs += r[1]
            if r[2]:
                c.discard("interface-closure-exceeds-%d-types" % MAXT, r[2])
            dbg += r[3]
            paths[r[4]] = r[5]
            nt += r[6]
            nh5 += r[7]
    for ex in execs:
        ts = ex[1]["types"]
        if any(t["skip"] for t in ts):
            c.discard("types-whose-equality-the-projection-cannot-decide", sum(1 for t in ts if t["skip"]))
    c.cov["evaluations"] = len(execs) + len(dbg)
    c.cov["dumps"] = len(execs)
    c.cov["dumped_types"] = nt
    c.cov["h5_events"] = nh5
    c.cov["h5_present"] = h5on
    c.cov["debug_runs"] = len(dbg)
    c.cov["model_graphs_rendered"] = {"of": ngraphs, "rendered": len(graphs)}

    def interesting(ex):      # a dump with two same-signature structs (same-named types) -- where canonicalization has something to decide
        sigs = [t["sig"].split(" {")[0] for t in ex[1]["types"] if t["k"] in ("struct", "union") and not t["decl"]]
        return len(sigs) != len(set(sigs))
    c.cov["distinct_nontrivial"] = sum(1 for ex in execs if interesting(ex))
    c.cov["rule"] = ("type graphs loaded from %d TLC-generated programs x %s x 1-3 translation units, %d hand-written multi-TU samples x compilers, and %d of the %d "
                     "type graphs of Canon.tla's generator bounds rendered as ABIXML, and %d (graph, canonicalization order) behaviours of the model replayed through the IR "
                     "constructors and canonicalize() (harness/canonapi.cc); one evaluation = one dump (<= %d types) judged by TLC, or one run of the "
                     "library's own debug check; non-trivial = the dump holds at least two same-named struct/union definitions"
                     % (len(progs), comps, len(samples), len(graphs), ngraphs, len(api_jobs), MAXT))
    for ex in execs[:1]:
        c.sample({"case": ex[1]["case"], "types": ex[1]["types"][:6], "h5": [e for e in ex[2:8]]}, limit=2)
    for e in dbg[:2]:
        c.sample(e, limit=4)

    def case_of(ev):
        case = str(ev.get("case", "")).split("/")[0]
        p = paths.get(case)
        pl = {"event.case": case}
        if isinstance(p, dict):
            pl["api.json"] = p
        elif p and p.endswith(".abi"):
            pl["graph.abi"] = open(p).read()
        elif p:
            pl.update(campaign.case_files(os.path.dirname(p)))
        return pl

    # case attribution for stateful events: give every event of an execution the execution's case
    for ex in execs:
        for e in ex:
            e.setdefault("case", ex[1]["case"])
    shards = [[] for _ in range(min(8, max(1, sum(len(x) for x in execs) // 4000 + 1)))]
    for k, ex in enumerate(sorted(execs, key=lambda x: -len(x))):
        shards[k % len(shards)] += ex
    shards = [s for s in shards if s]
    vf.pmap(lambda evs: c.validate("CanonTrace.tla", "CanonTrace.cfg", evs, case_of=case_of, traces=sum(1 for e in evs if e["e"] == "Reset")), shards, jobs=8)
    if dbg:
        c.validate("CanonTrace.tla", "CanonTrace.cfg", dbg, case_of=case_of)
    good = [ex for ex in execs if str(ex[1]["case"]).startswith("recursive_identical") and len(ex) > 10]
    if good:
        selftest(c, good[0])
    elif h5on:
        vf.infra("no execution suitable for the trace-specification self-test")
    mark("validation")
    classes = {}
    for what, d in c.violations:                       # what TLC rejected, by verdict (positions / modes stripped)
        m = re.search(r"\((bad:[a-z=A-Z-]+|no-step)", what)
        k = m.group(1) if m else what[:60]
        classes[k] = classes.get(k, 0) + 1
    c.cov["rejections_by_verdict"] = classes
    c.cov["phase_s"] = phase
    c.assumptions += [
        "structural equality = greatest bisimulation over the local attributes the equals() overloads of src/abg-ir.cc compare (irdump.cc documents them per kind); "
        "C only: types whose equality the projection cannot decide (C++ classes with bases/virtual functions, enums with duplicate values, method types, "
        "anonymous scopes) and everything that reaches them are left out, counted under discarded",
        "Reading of 'within one analysis': all types loaded into one environment by one reader run; every pair of types carrying a canonical type is judged, "
        "not only same-named ones",
        "a type reachable from an exported interface that is not declaration-only/void/variadic must carry a canonical type (the library asserts the same in get_exemplar_type)",
        "model bounds: see coverage.models; larger graphs are covered by the dumps only",
    ]
    c.finish()


def selftest(c, good):
    """Converse binding: corrupt one recorded fact of an accepted execution at a time; TLC must reject every variant."""
    variants = []

    def variant(name, f):
        evs = json.loads(json.dumps(good))
        try:
            evs = f(evs) or evs
        except (IndexError, StopIteration, KeyError):
            return
        variants.append((name, evs))

    def merge_structs(v):       # two structurally different structs given one canonical type
        ts = v[1]["types"]
        st = [i for i, t in enumerate(ts) if t["k"] == "struct" and not t["decl"] and t["canon"] == i + 1]
        a, b = next((a, b) for a in st for b in st if a < b and ts[a]["sig"] != ts[b]["sig"])
        ts[b]["canon"] = a + 1

    def split_pointers(v):      # two equal types given different canonical types
        ts = v[1]["types"]
        i = next(i for i, t in enumerate(ts) if t["canon"] not in (0, i + 1))
        ts[i]["canon"] = i + 1
    idx = lambda v, name, k=0: [i for i, e in enumerate(v) if e["e"] == name][k]

    def flip_compare(v):
        i = next(i for i, e in enumerate(v) if e["e"] == "Compare" and e["tp"] and e["cp"])
        v[i]["r"] = not v[i]["r"]

    def drop_end(v):
        del v[idx(v, "CanonEnd", 3)]

    def propagate_onto_canonical(v):
        i = idx(v, "CanonEnd", 2)
        v.insert(i + 1, {"e": "Propagate", "t": v[i]["t"], "c": v[i]["c"], "k": v[i]["c"], "tp": 0, "cp": 0})

    def lose_canonical(v):
        ts = v[1]["types"]
        i = next(i for i in v[1]["roots"] if ts[i - 1]["k"] == "struct" and not ts[i - 1]["decl"])
        ts[i - 1]["canon"] = 0
    variant("two different structs share a canonical type", merge_structs)
    variant("an equal type gets its own canonical type", split_pointers)
    variant("a Compare result flipped", flip_compare)
    variant("a CanonEnd dropped", drop_end)
    variant("Propagate onto a type that has a canonical type", propagate_onto_canonical)
    variant("a reachable struct without canonical type", lose_canonical)
    evs, bounds = [], []
    for name, v in variants:
        bounds.append((len(evs) + 1, len(evs) + len(v), name))
        evs += v
    r = vf.tlc_validate("CanonTrace.tla", "CanonTrace.cfg", evs)
    rejected = set(name for (i, e, v) in r["bad"] for (lo, hi, name) in bounds if lo <= i <= hi)
    missed = [name for (lo, hi, name) in bounds if name not in rejected]
    c.cov["trace_spec_selftest"] = {"corrupted_variants": len(variants), "rejected": len(rejected)}
    if missed or len(variants) < 4:
        vf.infra("CanonTrace accepts corrupted executions: %s (variants built: %d)" % (missed, len(variants)))


def replay(path):
    ev = json.load(open(os.path.join(path, "event.json")))["event"]
    if ev and ev.get("e") == "DebugRun":
        return vf.replay_event("CanonTrace.tla", "CanonTrace.cfg", path)
    vf.build("hooks")
    irdump = vf.build_harness("hooks", "irdump")
    srcs = sorted(fn for fn in os.listdir(path) if fn.endswith(".c"))
    work = os.path.join(vf.WORK, "C20-replay")
    shutil.rmtree(work, ignore_errors=True)
    os.makedirs(work)
    if os.path.exists(os.path.join(path, "api.json")):
        a = json.load(open(os.path.join(path, "api.json")))
        canonapi = vf.build_harness("hooks", "canonapi")
        g = [{"n": 1 + "ABab".index(x.split(":")[0]) % 2, "d": x[0] in "ab", "kids": [int(k) for k in x.split(":")[1].split(",") if k]} for x in a["graph"].split(";")]
        ld, why = api_run(canonapi, g, a["order"], "replay", has_h5(), work)
        if ld is None:
            print("rejected: " + why)
            return 1
        execs, _ = executions("replay", ld[0], ld[1])
        r = vf.tlc_validate("CanonTrace.tla", "CanonTrace.cfg", [e for ex in execs for e in ex])
        print(a)
        print("accepted" if r["accepted"] else "rejected: %s" % ([(i, v) for (i, e, v) in r["bad"]],))
        return 0 if r["accepted"] else 1
    if os.path.exists(os.path.join(path, "graph.abi")):
        target = os.path.join(work, "graph.abi")
        shutil.copy(os.path.join(path, "graph.abi"), target)
    elif srcs:
        for fn in os.listdir(path):
            if fn.endswith((".c", ".h")):
                shutil.copy(os.path.join(path, fn), os.path.join(work, fn.split("_", 1)[-1] if fn.startswith(("gcc_", "clang_")) else fn))
        comp = "clang" if "clang" in str(ev.get("case", "")) else "gcc"
        cs = sorted(fn for fn in os.listdir(work) if fn.endswith(".c"))
        subprocess.run([comp, "-g", "-w", "-O0", "-fPIC", "-shared", "-o", "lib.so"] + cs, cwd=work, check=True)
        target = os.path.join(work, "lib.so")
    else:
        r = vf.tlc_validate("CanonTrace.tla", "CanonTrace.cfg", [ev])
        print("accepted" if r["accepted"] else "rejected: %s" % (r["bad"] or r["kf"],))
        return 0 if r["accepted"] else 1
    c = type("R", (), {"workdir": work})()
    ld, why = load(c, irdump, target, "replay", has_h5())
    if ld is None:
        print("rejected: " + why)
        return 1
    execs, _ = executions("replay", ld[0], ld[1])
    evs = [e for ex in execs for e in ex]
    r = vf.tlc_validate("CanonTrace.tla", "CanonTrace.cfg", evs)
    print("accepted" if r["accepted"] else "rejected: %s" % ([(i, v) for (i, e, v) in r["bad"]],))
    return 0 if r["accepted"] else 1
