"""Static "shape" of the worker-queue protocol (C32): for schedule_task, do_bring_workers_down and
worker::wait_to_execute_a_task of the *current* src/abg-workers.cc, the ordered list of pthread_* calls and of the
statements that touch the shared queue state, each with the loop / branch context it sits in (so that a cond_wait
in a `while` differs from one in an `if`).  This module only extracts and normalizes; spec/WorkerQueueShape.tla
(TLC) compares the result with WorkerQueue!Skeleton, the statement list the fine-grained model implements.

  python3 checks/wq_shape.py [path/to/abg-workers.cc]      prints the events as ndjson
"""
import json, os, re, sys

FUNCTIONS = ("schedule_task", "do_bring_workers_down", "wait_to_execute_a_task")


class ShapeError(Exception):
    pass


def _strip(src):
    """Remove the verification hooks (add-only blocks guarded by LIBABIGAIL_VERIF), comments, strings, other cpp lines."""
    out, skip = [], 0
    for ln in src.split("\n"):
        s = ln.strip()
        if skip:
            if re.match(r"#\s*if", s):
                skip += 1
            elif re.match(r"#\s*endif", s):
                skip -= 1
            out.append("")
            continue
        if re.match(r"#\s*ifdef\s+LIBABIGAIL_VERIF\b", s):
            skip = 1
            out.append("")
            continue
        out.append("" if s.startswith("#") else ln)
    if skip:
        raise ShapeError("unbalanced LIBABIGAIL_VERIF guard")
    t = "\n".join(out)
    t = re.sub(r"/\*.*?\*/", " ", t, flags=re.S)
    t = re.sub(r"//[^\n]*", " ", t)
    t = re.sub(r'"(\\.|[^"\\])*"', '""', t)
    return t


def _match(t, i, o, c):
    """t[i] == o; index of the matching c."""
    d = 0
    for k in range(i, len(t)):
        if t[k] == o:
            d += 1
        elif t[k] == c:
            d -= 1
            if d == 0:
                return k
    raise ShapeError("unbalanced %s%s" % (o, c))


def _body(t, name):
    """Text of the body of the definition of function <name> that contains the protocol (calls pthread_*)."""
    found = []
    for m in re.finditer(r"\b%s\s*\(" % re.escape(name), t):
        close = _match(t, m.end() - 1, "(", ")")
        k = close + 1
        while k < len(t) and t[k].isspace():
            k += 1
        if k < len(t) and t[k] == "{":
            e = _match(t, k, "{", "}")
            body = t[k + 1:e]
            if "pthread_" in body:
                found.append(body)
    if len(found) != 1:
        raise ShapeError("%d definitions of %s calling pthread_* (expected 1)" % (len(found), name))
    return found[0]


def _norm(s):
    s = re.sub(r"\s+", "", s)
    s = s.replace("p->", "").replace("this->", "")
    return s


def _norm_arg(s):
    s = _norm(s)
    s = re.sub(r"(?<![&])&(?!&)", "", s)        # address-of
    return s


_SIMPLE = [
    (re.compile(r"\b(tasks_todo|tasks_done)\s*\.\s*(\w+)\s*\("), lambda m: ("stmt", "%s.%s" % (m.group(1), m.group(2)))),
    (re.compile(r"\bworkers\s*\.\s*clear\s*\("), lambda m: ("stmt", "workers.clear")),
    (re.compile(r"(?:->|\.)\s*perform\s*\("), lambda m: ("stmt", "perform")),
    (re.compile(r"\bnotify\s*\("), lambda m: ("stmt", "notify")),
    (re.compile(r"\bbring_workers_down\s*=(?!=)\s*([^;]+)"), lambda m: ("stmt", "bring_workers_down=" + _norm(m.group(1)))),
    (re.compile(r"\b(\w+)\s*=(?!=)\s*([^;=]*\bbring_workers_down\b[^;]*)"),
     lambda m: ("stmt", "%s=%s" % (m.group(1), _norm(m.group(2))))),
    (re.compile(r"\b(break|continue|return|goto)\b"), lambda m: ("stmt", m.group(1))),
]
_PTHREAD = re.compile(r"\b(pthread_\w+)\s*\(")


def _items_of_simple(stmt):
    """(position, op, arg) of every protocol-relevant thing in one simple statement, in textual order."""
    res = []
    for m in _PTHREAD.finditer(stmt):
        close = _match(stmt, m.end() - 1, "(", ")")
        args = [a for a in _split_args(stmt[m.end():close])]
        name = m.group(1)
        if name == "pthread_join":
            args = [re.sub(r"^\w+(->|\.)", "", _norm_arg(args[0]))]
        elif name == "pthread_create":
            args = []
        res.append((m.start(), name, ",".join(_norm_arg(a) for a in args)))
    for rx, mk in _SIMPLE:
        for m in rx.finditer(stmt):
            op, arg = mk(m)
            res.append((m.start(), op, arg))
    # (a declaration such as `bool drop_out = false;` or `task_sptr t;` yields nothing: not protocol-relevant)
    res.sort()
    seen, out = set(), []
    for pos, op, arg in res:
        if (pos, op) in seen:
            continue
        seen.add((pos, op))
        out.append((op, arg))
    return out


def _split_args(s):
    args, d, cur = [], 0, ""
    for ch in s:
        if ch in "([{":
            d += 1
        elif ch in ")]}":
            d -= 1
        if ch == "," and d == 0:
            args.append(cur)
            cur = ""
        else:
            cur += ch
    if cur.strip():
        args.append(cur)
    return args


def _parse(t, i, ctx, out):
    """Parse one statement of t starting at i; append items to out; return the index after it."""
    n = len(t)
    while i < n and t[i].isspace():
        i += 1
    if i >= n:
        return i
    if t[i] == "{":
        e = _match(t, i, "{", "}")
        k = i + 1
        while True:
            while k < e and t[k].isspace():
                k += 1
            if k >= e:
                break
            k = _parse(t[:e], k, ctx, out)
        return e + 1
    m = re.match(r"(while|if|for|switch)\s*\(", t[i:])
    if m:
        kw = m.group(1)
        op = i + m.end() - 1
        cl = _match(t, op, "(", ")")
        cond = _norm(t[op + 1:cl])
        for pm in _PTHREAD.finditer(t[op + 1:cl]):
            raise ShapeError("pthread call inside a condition: " + t[op + 1:cl])
        label = "for" if kw == "for" else "%s(%s)" % (kw, cond)
        k = _parse(t, cl + 1, ctx + [label], out)
        if kw == "if":
            j = k
            while j < n and t[j].isspace():
                j += 1
            if t[j:j + 4] == "else" and not (t[j + 4:j + 5].isalnum() or t[j + 4:j + 5] == "_"):
                k = _parse(t, j + 4, ctx + ["else(%s)" % cond], out)
        return k
    m = re.match(r"do\b", t[i:])
    if m:
        k = _parse(t, i + 2, ctx + ["do"], out)
        e = t.index(";", k)
        return e + 1
    e = i
    d = 0
    while e < n:
        if t[e] in "([{":
            d += 1
        elif t[e] in ")]}":
            d -= 1
        elif t[e] == ";" and d == 0:
            break
        e += 1
    stmt = t[i:e]
    for op, arg in _items_of_simple(stmt):
        out.append({"op": op, "arg": arg, "ctx": list(ctx)})
    return e + 1


def extract(path):
    """-> list of events: one {"e":"Shape",fn,i,op,arg,ctx} per item, {"e":"ShapeFn",fn,n} per function, {"e":"ShapeEnd"}."""
    t = _strip(open(path, encoding="utf-8", errors="replace").read())
    evs = []
    for fn in FUNCTIONS:
        body = _body(t, fn)
        items = []
        _parse("{" + body + "}", 0, [], items)
        for k, it in enumerate(items):
            evs.append({"e": "Shape", "fn": fn, "i": k + 1, "op": it["op"], "arg": it["arg"], "ctx": it["ctx"]})
        evs.append({"e": "ShapeFn", "fn": fn, "i": len(items), "op": "", "arg": "", "ctx": []})
    evs.append({"e": "ShapeEnd", "fn": "", "i": len(FUNCTIONS), "op": "", "arg": "", "ctx": []})
    return evs


if __name__ == "__main__":
    p = sys.argv[1] if len(sys.argv) > 1 else os.path.join(os.environ.get("VERIF_REPO", "/repo"), "src", "abg-workers.cc")
    for ev in extract(p):
        print(json.dumps(ev))
