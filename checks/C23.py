"""C23 -- function and variable suppressions hide exactly what they name.

Model: spec/Suppr.tla mode "ifaces".  TLC exhausts every set of 1..3 changed interfaces (out of 5: changed / deleted /
added functions and variables, some versioned, one name a prefix of another) x every [suppress_function] /
[suppress_variable] section over name / name_regexp / name_not_regexp / symbol_name / symbol_version / change_kind and checks,
on the transcription of function_suppression::suppresses_function / variable_suppression::suppresses_variable:
HidesExactlyOne (a section that names exactly one interface of the set hides exactly that one, or nothing when change_kind
excludes its kind of change) and FrameUnmatched.  While the transcribed source is in place the faithful configuration
(NullRegexIsSkipped) is run too, expected to fail.

Conformance: program pairs from spec/SupprCase.tla with 2-3 mutations and >= 3 added / removed / changed interfaces, compared
in both directions (B with A turns removals into additions), with and without one version node per symbol (symbol_version);
sections drawn by TLC (spec/SupprGen.tla) in strata (name, name_regexp, symbol_name, symbol_version -- each with and without
change_kind --, name_not_regexp, everything) and renamed onto the pair so that the abstract fn1 / var4 is a changed interface.
One event = baseline report vs report with the section, both with --redundant (strict reading) or both without (weak reading).
TLC computes from the model which interfaces satisfy the section (Sat) and which it may hide (H = those whose kind of change
change_kind covers); sections satisfied by several interfaces are discarded.

Readings (weakest reasonable):
  * with --redundant:  after = before minus H in every section, the hidden one is counted as filtered out (+1), every other
    number is unchanged;
  * without --redundant libabigail folds repeated sub-type changes: hiding fn1 can make fn2 (so far filtered as redundant)
    appear.  Demanded: before minus H is still reported, H is not, nothing outside the model's change set appears, and per
    section reported + filtered is conserved;
  * exit status: no error bits, no bit gained; the change bit stays while an entry is reported, the incompatible bit while a
    removal is reported;
  * `name` shadows the patterns of a [suppress_variable] section (documented in the API), not of a [suppress_function];
  * only sections that give a name, pattern, symbol name or symbol version are subjects; [suppress_variable] sections that a data
    member of the program satisfies are discarded (libabigail treats data members as variables: such a section also hides type
    changes, and with them functions);
  * the textual details of other entries may change (sub-type details move to the next entry): only sets and numbers count.
"""
import os, threading
import vf, campaign, difftree
from checks import _suppr as S

MALFORMED = ["(", "a[", "*a", "a{"]
# name, fields, odds, generated, used per target
STRATA = [("name", (1, 6), 1, 40, 2), ("name_regexp", (2, 6), 1, 60, 3), ("symbol_name", (4, 6), 1, 40, 2), ("symbol_version", (5, 6), 1, 40, 2),
          ("patterns", (2, 3), 1, 40, 2), ("all", tuple(range(1, 9)), 3, 150, 4)]


def nchanged(case):
    ex = case["expect"]
    return sum(len(ex[k]) for k in ("removedFns", "removedVars", "addedFns", "changedFns", "changedVars"))


def mapping(case, ifaces, target, rng, versioned):
    mx = S.max_id(case)
    fns = [i for i in ifaces if i["kind"] == "fn" and i is not target]
    vs = [i for i in ifaces if i["kind"] == "var" and i is not target]
    rng.shuffle(fns)
    rng.shuffle(vs)
    absent = iter(range(mx + 11, mx + 40))
    m, role = {}, {}
    slots_f, slots_v = ["fn1", "fn12", "fn3"], ["var4", "var1"]
    if target["kind"] == "fn":
        role["fn1"] = target
        slots_f = slots_f[1:]
    else:
        role["var4"] = target
        slots_v = slots_v[1:]
    for s in slots_f:
        role[s] = fns.pop() if fns else None
    for s in slots_v:
        role[s] = vs.pop() if vs else None
    for s, i in role.items():
        m[s] = i["name"] if i else ("fn%d" if s.startswith("fn") else "var%d") % next(absent)
    m["fn9"] = "fn%d" % next(absent)
    m["zz"] = "zz%d" % next(absent)
    for v, s in (("V1", "fn1"), ("V12", "fn12"), ("V4", "var4")):
        m[v] = (role[s]["ver"] if role.get(s) else "") if versioned else "W" + v
        if m[v] == "":
            m[v] = "W" + v
    m["V9"] = "V%d" % next(absent)
    return m


def main():
    c = vf.Check("C23", "model_checking")
    vf.build("hooks")
    fp = S.fingerprints()
    c.cov["source_fingerprints"] = fp["detail"]
    err = []

    def bg():
        try:
            S.run_models(c, ["ifaces"], fp)
        except SystemExit as ex:
            err.append(ex)
    th = threading.Thread(target=bg)
    th.start()

    tool = vf.tool("hooks", "abidiff")
    jobs = [("cases", lambda: S.gen_cases(c, 150 if c.thorough else 36, MaxIfaces=5, MinMuts=2, MaxMuts=3, MutCats='{"breaking", "unlisted"}',
                                           keep=lambda cs: nchanged(cs) >= 3))]
    for name, fields, odds, ngen, nuse in STRATA:
        jobs.append((name, (lambda name=name, fields=fields, odds=odds, ngen=ngen:
                            S.gen_sections(c, ngen, ["function", "variable"], fields=fields, odds=odds, name="sec-" + name))))
    got = dict(vf.pmap(lambda j: (j[0], j[1]()), jobs, jobs=7))
    cases = got.pop("cases")
    strata = got
    S.tick(c, "generated")
    bad = sorted(S.invalid_patterns(c, MALFORMED))
    comps = ["gcc", "clang"] if c.thorough else ["gcc"]

    def one(job):
        idx, case, comp, direction, versioned = job
        sub = "%s-%s%s" % (comp, direction, "-m" if versioned == "mixed" else "-v" if versioned else "")
        w1, w2 = (1, 2) if direction == "ab" else (2, 1)
        a, e1, da = S.build(c, idx, case, comp, which=w1, sub=sub + "/a", versioned=versioned)
        b, e2, db = S.build(c, idx, case, comp, which=w2, sub=sub + "/b", versioned=versioned)
        if not a or not b:
            return [("discard", "does-not-compile")]
        env = vf.henv(da)
        ifaces = S.iface_records(case, direction, versioned)
        members = S.member_names(case)
        changed = [i for i in ifaces if i["ck"] != "same"]
        rng = c.rng.__class__(c.seed * 104729 + idx * 4 + (2 if versioned else 0) + (1 if direction == "ba" else 0))
        rng.shuffle(changed)
        base = {True: S.abidiff(tool, a, b, ["--redundant"], env=env), False: S.abidiff(tool, a, b, env=env)}
        proj = {k: S.project(r.out) for k, r in base.items()}
        evs, k = [], 0
        for target in changed[:4 if c.thorough else 3]:
            for name, fields, odds, ngen, nuse in STRATA:
                if name == "symbol_version" and not versioned:
                    continue
                pool = [s for s in strata[name] if s["kind"] == ("function" if target["kind"] == "fn" else "variable") or name == "all"]
                for sec in (pool if len(pool) <= nuse else rng.sample(pool, nuse)):
                    s = S.instantiate(sec, mapping(case, ifaces, target, rng, versioned))
                    for key in ("name_regexp", "name_not_regexp", "file_name_regexp", "soname_regexp"):
                        if s[key]["k"] == "invalid":
                            s[key] = dict(s[key], bad=bad[(k + idx) % len(bad)])
                    k += 1
                    f = S.write_suppr(os.path.join(da, "s%d.suppr" % k), s)
                    for redundant in ((True, False) if k % 3 == 0 else (True,)):
                        r0 = base[redundant]
                        r1 = S.abidiff(tool, a, b, ["--redundant"] if redundant else [], suppr=f, env=env)
                        after = S.project(r1.out)
                        if not redundant and (r1.out != r0.out or k % 4 == 0):      # hook H3: the forest after the suppression pass (DiffTreeTrace)
                            te = difftree.tree_event(tool, a, b, [], env, idx, suppr=f, base=r1, extra={"sub": sub, "k": k, "supprFile": f})
                            if te is not None:
                                evs.append(("tree",) + te)
                        gone = sorted(set(n for sn in S.SECS for n in proj[redundant][sn]) - set(n for sn in S.SECS for n in after[sn]))
                        evs.append(("ok", {"e": "HideOne", "case": idx, "sub": sub, "k": k, "stratum": name, "section": s, "target": target["name"],
                                           "ifaces": changed, "members": members, "env": {"paths": [a, b], "sonames": ["", ""]}, "redundant": redundant,
                                           "before": proj[redundant], "after": after, "gone": gone, "exit0": r0.exit, "exit1": r1.exit,
                                           "ret": campaign.retof(r0, r1)}))
        return evs

    todo = []
    for i, cs in enumerate(cases):
        for comp in comps:
            for direction in ("ab", "ba"):
                for versioned in ((False, True, "mixed") if c.thorough else ((False, True, "mixed")[(i + (direction == "ba")) % 3],)):
                    todo.append((i, cs, comp, direction, versioned))
    res = [x for xs in vf.pmap(one, todo) for x in xs]
    events, trees = [], []
    for kind, x, *more in res:
        if kind == "discard" or (kind == "tree" and x == "discard"):
            c.discard(more[0] if more else x)
        elif kind == "tree":
            trees.append(more[0])
        else:
            events.append(x)
    S.tick(c, "replayed")
    th.join()
    S.tick(c, "models-done")
    if err:
        raise err[0]
    case_of = lambda ev: dict(campaign.case_files(os.path.join(c.workdir, "p%d" % ev["case"], ev["sub"])), **{"section.suppr": S.supprfile.render(ev["section"])})
    S.validate(c, events, case_of)
    tree_case = lambda ev: dict(campaign.case_files(os.path.join(c.workdir, "p%d" % ev["case"], ev["sub"])), **{"section.suppr": open(ev["supprFile"]).read()})
    vf.pmap(lambda i: c.validate("DiffTreeTrace.tla", "DiffTreeTrace.cfg", trees[i:i + 400], case_of=tree_case), range(0, len(trees), 400), jobs=6)
    c.cov["diff_forests_validated"] = len(trees)
    c.cov["diff_forests_with_suppressed_nodes"] = sum(1 for t in trees if any(n["sup"] for n in t["nodes"]))
    S.tick(c, "validated")
    live = [e for e in events if not e.get("_skipped")]
    c.cov["evaluations"] = len(live)
    c.cov["distinct_nontrivial"] = len({(e["case"], e["sub"], e["k"], e["redundant"]) for e in live if len(e["gone"]) == 1 or e["section"]["change_kind"]})
    c.cov["hid_exactly_one"] = sum(1 for e in live if len(e["gone"]) == 1)
    c.cov["hid_nothing"] = sum(1 for e in live if not e["gone"])
    c.cov["by_stratum"] = {n: sum(1 for e in live if e["stratum"] == n) for n, *_ in STRATA}
    c.cov["by_kind_of_change"] = {ck: sum(1 for e in live if len(e["gone"]) == 1 and [i for i in e["ifaces"] if i["name"] == e["gone"][0]][0]["ck"] == ck)
                                  for ck in ("deleted", "added", "changed")}
    c.cov["rule"] = ("TLC-generated program pairs (2-3 mutations, >= 3 added / removed / changed interfaces) compared in both directions, with and without symbol versions, "
                     "compiled by %s; x [suppress_function] / [suppress_variable] sections drawn by TLC in 6 strata and renamed so that the abstract fn1 / var4 is a changed "
                     "interface; one event = baseline vs suppressed abidiff run under the same redundancy option; TLC derives from the model which interfaces the section may "
                     "hide; non-trivial = events where exactly one interface disappeared or the section carries a change_kind" % comps)
    for e in [e for e in live if len(e["gone"]) == 1][:2] + [e for e in live if e["section"]["change_kind"] and not e["gone"]][:2]:
        c.sample({k: e[k] for k in ("section", "gone", "redundant", "exit0", "exit1", "stratum")})
    c.assumptions += ["Readings: see the module docstring of checks/C23.py"]
    c.finish()


replay = S.replay
