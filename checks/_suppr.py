"""Shared by checks/C22.py, C23.py, C24.py, C26.py (and the application part of C25): the suppression campaigns.

  spec/Suppr.tla      suppression sections as typed records, transcription of the matching code, the properties
  spec/SupprGen.tla   generator of sections over Suppr.tla's abstract names (TLC -simulate)
  spec/SupprCase.tla  generator of program pairs (= Abi.tla) plus the model facts the judgement needs
  spec/SupprTrace.tla one guard per event type; TLC also re-establishes every case's precondition
  render/supprfile.py section record -> INI text;  render/hdrprog.py program -> public / private headers + .c

Python here generates nothing of its own: cases and sections are TLC's, `instantiate` only renames the abstract names of a
section to names of the generated program, the tools are run, their reports are projected (lib/report.py), TLC judges.
"""
import hashlib, json, os, re, subprocess, sys
import vf, campaign, report
sys.path.insert(0, os.path.join(vf.VERIF, "render"))
import cprog, supprfile, hdrprog

TRACE = ("SupprTrace.tla", "SupprTrace.cfg")

# ------------------------------------------------------------------------------------------------ source fingerprints
# normalised-text hashes of the functions transcribed in spec/Suppr.tla.  While a function still is the transcribed text the
# faithful operator (switch TRUE) stands for it; once it is changed (repaired) the corrected operator does.
TRANSCRIBED = {
    "regex": [("src/abg-regex.cc", "compile", "933bbbabafa55bbd"),
              ("src/abg-suppression.cc", "suppression_matches_type_name", "2c951071d04c76cd"),
              ("src/abg-suppression-priv.h", "#getters", "d7451d67527d9194")],
    "headers": [("src/abg-tools-utils.cc", "handle_fts_entry", "236928ccc6ad89e5"),
                ("src/abg-tools-utils.cc", "gen_suppr_spec_from_headers", "004fdb5d3739cc20")],
}


def _fn_text(path, name):
    s = open(path, encoding="utf-8", errors="replace").read()
    if name == "#getters":     # every line of the private header that compiles a pattern
        return "\n".join(l.strip() for l in s.splitlines() if "compile" in l)
    m = re.search(r"^%s\(" % re.escape(name), s, re.M)
    if not m:
        return ""
    e = s.find("\n}\n", m.start())
    return s[m.start():e + 3] if e >= 0 else ""


def _norm(t):
    return re.sub(r"\s+", " ", re.sub(r"//[^\n]*", "", t)).strip()


def _hash(rel, name):
    return hashlib.sha256(_norm(_fn_text(os.path.join(vf.REPO, rel), name)).encode()).hexdigest()[:16]


def fingerprints():
    """-> {"FaithfulRegex": bool, "FaithfulHeaders": bool, "detail": {...}}: TRUE while the transcribed source is in place"""
    detail, res = {}, {}
    for key, const in (("regex", "FaithfulRegex"), ("headers", "FaithfulHeaders")):
        same = True
        for rel, fn, h in TRANSCRIBED[key]:
            st = "transcribed" if _hash(rel, fn) == h else "changed"
            detail["%s:%s" % (rel, fn)] = st
            same = same and st == "transcribed"
        res[const] = same
    res["detail"] = detail
    return res


def tick(c, label):
    """wall-clock marks of the phases of a check (evidence: coverage.timing_s)"""
    import time
    t = c.cov.setdefault("timing_s", {})
    t[label] = round(time.time() - c.t0, 1)


def make_cfg(c, base, name, consts=None, invariants=None, subst=()):
    txt = open(os.path.join(vf.SPEC, base)).read()
    for k, v in (consts or {}).items():
        txt, n = re.subn(r"^(\s*%s\s*=\s*).*$" % re.escape(k), lambda m: m.group(1) + v, txt, flags=re.M)
        if not n:
            vf.infra("configuration %s has no constant %s" % (base, k))
    for a, b in subst:
        if a not in txt:
            vf.infra("configuration %s has no '%s'" % (base, a))
        txt = txt.replace(a, b)
    if invariants is not None:
        txt = re.sub(r"^INVARIANTS? .*$", "INVARIANTS " + " ".join(invariants), txt, flags=re.M)
    p = os.path.join(c.workdir, name)
    with open(p, "w") as f:
        f.write(txt)
    return p


def _record(c, r, must_hold):
    c.cov["states"] += r["distinct"]
    c.cov["transitions"] += r["generated"]
    c.cov["models"].append({"spec": r["spec"], "cfg": os.path.basename(r["cfg"]), "distinct": r["distinct"], "generated": r["generated"],
                            "depth": r["depth"], "holds": r["ok"], "expected_to_hold": must_hold, "wall_s": round(r["wall"], 1)})
    if must_hold and not r["ok"]:
        sys.stderr.write(r["out"][-4000:])
        vf.infra("model %s/%s violates its property (rc=%d); the model must be corrected or the deviation listed" % (r["spec"], r["cfg"], r["rc"]))


def _last_state(out, keys):
    res = {}
    for k in keys:
        m = re.findall(r"^/\\ %s = (.*(?:\n  .*)*)" % re.escape(k), out, re.M)
        if m:
            res[k] = re.sub(r"\s+", " ", m[-1])[:600]
    m = re.search(r"Invariant (\w+) is violated", out)
    if m:
        res["invariant"] = m.group(1)
    return res


def run_models(c, modes, fp):
    """Model-check spec/Suppr.tla in the given modes.  The corrected operators must satisfy the properties.  While the
    transcribed source is in place the faithful configuration is run as well: it is expected to be violated exactly by the
    named deviation and its counterexample goes to the evidence (coverage.model_deviations)."""
    quick = not c.thorough
    base = {"ranges": "SupprRanges.cfg", "names": "SupprNames.cfg", "ifaces": "SupprIfaces.cfg", "private": "SupprPrivate.cfg"}
    faithful_const = {"ranges": None, "names": "FaithfulRegex", "ifaces": "FaithfulRegex", "private": "FaithfulHeaders"}
    jobs = []
    for m in modes:
        consts = {"Tier": '"quick"' if quick else '"thorough"', "MaxMem": "3" if quick else "4", "FaithfulRegex": "FALSE", "FaithfulHeaders": "FALSE"}
        jobs.append((m, "corrected", make_cfg(c, base[m], "Suppr_%s.cfg" % m, consts), True))
        fc = faithful_const[m]
        if fc and fp[fc]:
            consts = dict(consts)
            consts[fc] = "TRUE"
            jobs.append((m, "faithful", make_cfg(c, base[m], "Suppr_%s_faithful.cfg" % m, consts), False))

    if c.thorough:      # vacuity guards: the transcription does hide because of a range / does hide exactly the named interface
        for m, cfgname in (("ranges", "SupprVacuityRanges.cfg"), ("ifaces", "SupprVacuityIfaces.cfg")):
            if m in modes:
                jobs.append((m, "vacuity", make_cfg(c, cfgname, cfgname), False))

    def run(job):
        m, flavour, cfg, must = job
        return job, vf.tlc_check("Suppr.tla", cfg, workers=4, timeout=1400, heap="4g")
    for (m, flavour, cfg, must), r in vf.pmap(run, jobs, jobs=4):
        _record(c, r, must)
        if flavour == "vacuity" and r["ok"]:
            vf.infra("vacuity guard of mode %s holds: the transcription never hides anything" % m)
        if flavour == "faithful":
            dev = {"mode": m, "constant": faithful_const[m], "holds": r["ok"]}
            dev.update(_last_state(r["out"], ["sec", "chg", "obs", "ifs"]))
            c.cov.setdefault("model_deviations", []).append(dev)
            if r["ok"]:
                vf.infra("the faithful configuration of mode %s satisfies the property: the transcription no longer shows the deviation "
                         "although the source fingerprint says it is in place" % m)


# ------------------------------------------------------------------------------------------------ generation (TLC)
def _dedup(cases):
    seen, out = set(), []
    for cs in cases:
        k = json.dumps(cs, sort_keys=True)
        if k not in seen:
            seen.add(k)
            out.append(cs)
    return out


def gen_cases(c, n, name="gen", constraints=(), rounds_max=8, keep=None, **kw):
    """n (approximately) program pairs from TLC's simulation of SupprCase.tla (= Abi.tla plus model facts)"""
    d = dict(MaxTypes=8, MaxMembers=4, MaxIfaces=4, MutCats='{"breaking"}', MinMuts=1, MaxMuts=1, Lang='"c"',
             BaseIds="{1,2,3,4,5,6,7,8,9,10}", FixedBudget="FALSE")
    d.update(kw)
    cfg = os.path.join(c.workdir, name + ".cfg")
    with open(cfg, "w") as f:
        f.write("CONSTANTS\n" + "".join("  %s = %s\n" % kv for kv in d.items()))
        f.write("SPECIFICATION Spec\nCONSTRAINT EmitS\n" + "".join("CONSTRAINT %s\n" % x for x in constraints) + "CHECK_DEADLOCK FALSE\n")
    per = max(8, n * 4 if (constraints or keep) else n // 3 + 1)     # a constrained walk often ends before a case is complete
    cases, rounds = [], 0
    while len(cases) < n and rounds < rounds_max:
        g = vf.tlc_generate("SupprCase.tla", cfg, simulate=per, depth=80, seed=c.seed * 131 + rounds * 7 + int(c.pid[1:]), workers=4)
        new = _dedup(g["cases"])
        if keep:
            new = [x for x in new if keep(x)]
        cases = _dedup(cases + new)
        rounds += 1
        if rounds >= 2 and len(cases) < n // 4:
            per *= 3
    return cases[:n]


def gen_sections(c, n, kinds, fields=range(1, 11), odds=3, name="sections"):
    """sections drawn by TLC from the component sets of Suppr.tla (abstract names); `fields` / `odds` select a stratum:
    which properties (SupprGen.tla step numbers: 1 name, 2 name_regexp, 3 name_not_regexp, 4 type_kind | symbol_name,
    5 accessed_through | symbol_version, 6 source_location_not_in | change_kind, 7 file_name_regexp, 8 soname_regexp,
    9 / 10 insertion ranges) may be given, each with probability 1 / odds"""
    cfg = make_cfg(c, "SupprGen.cfg", name + ".cfg", {"Kinds": "{%s}" % ", ".join('"%s"' % k for k in kinds),
                                                      "Fields": "{%s}" % ", ".join(str(f) for f in fields), "UseOdds": str(odds)})
    out, rounds = [], 0
    while len(out) < n and rounds < 4:
        g = vf.tlc_generate("SupprGen.tla", cfg, simulate=max(n, 20) * 2, depth=40, seed=c.seed * 977 + rounds * 13 + int(c.pid[1:]), workers=2)
        before = len(out)
        out = _dedup(out + g["cases"])
        rounds += 1
        if len(out) == before:       # a small stratum is exhausted
            break
    return out[:n]


# ------------------------------------------------------------------------------------------------ abstract -> concrete names
def instantiate(sec, m):
    """rename the abstract names of a section (whole strings only: names, pattern pieces, members, symbols, versions)"""
    r = lambda x: m.get(x, x)
    s = dict(sec)
    for k in ("name", "symbol_name", "symbol_version"):
        s[k] = r(s[k])
    for k in ("name_regexp", "name_not_regexp", "file_name_regexp", "soname_regexp"):
        x = dict(s[k])
        x["alts"] = [[r(p) for p in alt] for alt in x["alts"]]
        s[k] = x
    s["ranges"] = [{"form": g["form"], "b": dict(g["b"], m=r(g["b"]["m"])), "e": dict(g["e"], m=r(g["e"]["m"]))} for g in s["ranges"]]
    s["source_location_not_in"] = [r(x) for x in s["source_location_not_in"]]
    return s


def max_id(case):
    ids = [0]
    for sfx in ("", "2"):
        ids += [t["id"] for t in case["types" + sfx] if t["k"] in ("struct", "union", "enum", "typedef")]
        ids += [f["id"] for f in case["fns" + sfx]] + [v["id"] for v in case["vars" + sfx]]
    return max(ids)


def type_name(t):
    return {"struct": "S%d", "union": "U%d", "enum": "E%d", "typedef": "T%d"}[t["k"]] % t["id"]


BASE_NAMES = [None, "char", "short int", "int", "long int", "unsigned char", "short unsigned int", "unsigned int", "long unsigned int", "float", "double"]


def iface_records(case, direction="ab", versioned=False):
    """every interface of the two programs as Suppr!Iface records; `ck` is the model's verdict for the comparison direction"""
    ex = case["expect"]
    old, new = ("", "2") if direction == "ab" else ("2", "")
    removed = set(ex["removedFns"]) | set(ex["removedVars"])
    added = set(ex["addedFns"])
    if direction == "ba":
        removed, added = added, removed
    changed = set(ex["changedFns"]) | set(ex["changedVars"])
    res, seen = [], set()
    for sfx in (old, new):
        for kind, key, pfx in (("fn", "fns", "fn"), ("var", "vars", "var")):
            for it in case[key + sfx]:
                i = it["id"]
                if i in seen:
                    continue
                seen.add(i)
                ck = "deleted" if i in removed else "added" if i in added else "changed" if i in changed else "same"
                nm = "%s%d" % (pfx, i)
                res.append({"name": nm, "kind": kind, "ck": ck, "sym": nm, "ver": ("V%d" % i) if has_version(i, versioned) else ""})
    return res


def type_records(case, file="types.h", base="types.h", via_ptr=None, all_via_ptr=False):
    """every named type of the two programs and one record per kind of unnamed type, as Suppr!TypeChange records
    (all_via_ptr: assume a pointer leads to every type -- makes more sections satisfiable, never fewer)"""
    res, seen = [], set()
    for sfx in ("", "2"):
        for t in case["types" + sfx]:
            k = t["k"]
            if k in ("struct", "union", "enum", "typedef"):
                nm, f, b = type_name(t), file, base
            elif k == "base":
                nm, f, b = BASE_NAMES[t["id"]], "", ""
            else:
                nm, f, b = "", "", ""
            key = (nm, k)
            if key in seen:
                continue
            seen.add(key)
            res.append(tchange(nm, k, f, b, all_via_ptr or bool(via_ptr and nm in via_ptr)))
    res.append(tchange("", "fntype", "", "", False))
    return res


def member_names(case):
    """names of the data members of both programs as libabigail may name them (qualified and plain)"""
    res = set()
    for sfx in ("", "2"):
        for t in case["types" + sfx]:
            if t["k"] in ("struct", "union"):
                for m in t["m"]:
                    res.add("m%d" % m["n"])
                    res.add("%s::m%d" % (type_name(t), m["n"]))
    return sorted(res)


def tchange(name, kind, file, base, via_ptr, old=None, new=None, size_old=0, size_new=0):
    return {"name": name, "kind": kind, "file": file, "base": base, "viaPtr": via_ptr, "old": old or [], "new": new or [],
            "sizeOld": size_old, "sizeNew": size_new}


# ------------------------------------------------------------------------------------------------ building and probing
def has_version(i, versioned):
    """versioned: False (no version script), True (one version node per exported symbol) or "mixed" (only the interfaces with an odd
    number get a version: versioned and unversioned symbols side by side, as in a library that started versioning late)"""
    return bool(versioned) and (versioned != "mixed" or i % 2 == 1)


def version_script(case, sfx, versioned=True):
    lines = []
    for f in case["fns" + sfx]:
        if has_version(f["id"], versioned):
            lines.append("V%d { global: fn%d; };" % (f["id"], f["id"]))
    for v in case["vars" + sfx]:
        if has_version(v["id"], versioned):
            lines.append("V%d { global: var%d; };" % (v["id"], v["id"]))
    return "\n".join(lines) + "\n"


def build(c, idx, case, comp="gcc", which=1, sub="a", versioned=False, style=None):
    """campaign.build_one, optionally with one version node per exported symbol (V<id>)"""
    if not versioned:
        return campaign.build_one(c, idx, case, comp, which=which, sub=sub, style=style)
    cc, flags = campaign.COMPILERS[comp]
    sfx = "" if which == 1 else "2"
    d = os.path.join(c.workdir, "p%d" % idx, sub)
    files = cprog.render(case["types" + sfx], case["fns" + sfx], case["vars" + sfx], case.get("lang", "c"), style)
    files["vers.map.h"] = version_script(case, sfx, versioned)          # ".h": campaign.compile_prog does not pass it as a source
    path, err = campaign.compile_prog(d, files, cc, tuple(flags) + ("-Wl,--version-script=vers.map.h",), "dso", "lib.so")
    return path, err, d


def layout_probe_source(types, lang="c"):
    """prints {"S<id>": {"size": bits, "members": [{"n": "m1", "off": bits, "size": bits}, ...]}} for every struct / union"""
    P = cprog.Prog(types, [], [], lang)
    import random
    out = ["#include <stdio.h>", "#include <stddef.h>", "#include <string.h>"] + P.type_defs(random.Random(0))
    out.append("static int first_bit(const unsigned char* p, size_t n) { size_t i; for (i = 0; i < n * 8; ++i) if (p[i / 8] & (1u << (i % 8))) return (int) i; return -1; }")
    out.append("static int count_bits(const unsigned char* p, size_t n) { size_t i; int c = 0; for (i = 0; i < n * 8; ++i) if (p[i / 8] & (1u << (i % 8))) ++c; return c; }")
    out.append("int main(void) {")
    out.append('  printf("{");')
    first = True
    for i in range(1, len(P.types)):
        ty = P.types[i]
        if ty["k"] not in ("struct", "union"):
            continue
        nm = P.tname(i)
        out.append('  printf("%s\\"%s\\":{\\"size\\":%%lu,\\"members\\":[", (unsigned long) sizeof(%s) * 8);' % ("" if first else ",", nm.split()[-1], nm))
        first = False
        for j, m in enumerate(ty["m"]):
            sep = "" if j == 0 else ","
            if m["bw"]:
                out.append("  { %s x; memset(&x, 0, sizeof x); x.m%d = ~0; " % (nm, m["n"]) +
                           'printf("%s{\\"n\\":\\"m%d\\",\\"off\\":%%d,\\"size\\":%%d}", first_bit((unsigned char*) &x, sizeof x), count_bits((unsigned char*) &x, sizeof x)); }' % (sep, m["n"]))
            else:
                out.append('  printf("%s{\\"n\\":\\"m%d\\",\\"off\\":%%lu,\\"size\\":%%lu}", (unsigned long) offsetof(%s, m%d) * 8, (unsigned long) sizeof(((%s*) 0)->m%d) * 8);'
                           % (sep, m["n"], nm, m["n"], nm, m["n"]))
        out.append('  printf("]}");')
    out.append('  printf("}\\n");')
    out.append("  return 0;")
    out.append("}")
    return "\n".join(out) + "\n"


def probe_layout(d, types, cc="gcc"):
    """compile and run the probe in directory d: what the compiler lays out (independent of libabigail); None on failure"""
    os.makedirs(d, exist_ok=True)
    with open(os.path.join(d, "probe.c"), "w") as f:
        f.write(layout_probe_source(types))
    r = subprocess.run([cc, "-w", "-O0", "-o", "probe", "probe.c"], cwd=d, stdout=subprocess.PIPE, stderr=subprocess.PIPE, text=True)
    if r.returncode != 0:
        return None
    r = subprocess.run([os.path.join(d, "probe")], stdout=subprocess.PIPE, stderr=subprocess.PIPE, text=True, timeout=20)
    try:
        return json.loads(r.stdout)
    except Exception:
        return None


_REGEX_PROBE = r"""
#include <regex.h>
#include <stdio.h>
int main(int argc, char** argv) { int i; for (i = 1; i < argc; ++i) { regex_t r; int e = regcomp(&r, argv[i], REG_EXTENDED); printf("%d\n", e != 0); if (!e) regfree(&r); } return 0; }
"""


def invalid_patterns(c, patterns):
    """the subset of `patterns` regcomp(REG_EXTENDED) rejects on this machine (independent of libabigail)"""
    d = os.path.join(c.workdir, "regex-probe")
    os.makedirs(d, exist_ok=True)
    with open(os.path.join(d, "rp.c"), "w") as f:
        f.write(_REGEX_PROBE)
    r = subprocess.run(["gcc", "-w", "-o", "rp", "rp.c"], cwd=d, stdout=subprocess.PIPE, stderr=subprocess.PIPE, text=True)
    if r.returncode != 0:
        vf.infra("regex probe does not compile")
    r = subprocess.run([os.path.join(d, "rp")] + list(patterns), stdout=subprocess.PIPE, text=True)
    return {p for p, ln in zip(patterns, r.stdout.split()) if ln == "1"}


def patterns_of(sec):
    return [sec[k]["bad"] for k in ("name_regexp", "name_not_regexp", "file_name_regexp", "soname_regexp") if sec[k]["k"] == "invalid"]


# ------------------------------------------------------------------------------------------------ running and projecting
def write_suppr(path, sections):
    with open(path, "w") as f:
        f.write(supprfile.render(sections))
    return path


def abidiff(tool, a, b, opts=(), suppr=None, env=None, timeout=60):
    cmd = [tool, "--no-default-suppression"] + list(opts)
    if suppr:
        cmd += ["--suppressions", suppr]
    return vf.run(cmd + [a, b], env=env, timeout=timeout)


SECS = ("removed_fns", "added_fns", "changed_fns", "removed_vars", "added_vars", "changed_vars")


def project(out):
    rep = report.parse(out)
    p = {s: sorted(set(n for n in rep["names"].get(s, []) if n.startswith(("fn", "var")))) for s in SECS}
    p["summary"] = {k: rep["summary"][k] for k in ("fns", "vars") if k in rep["summary"]}
    p["other"] = {k: v for k, v in rep["entries"].items() if k not in SECS and v}
    return p


# ------------------------------------------------------------------------------------------------ validation with discards
def validate(c, events, case_of=None, chunk=2500):
    """c.validate, plus: verdicts "skip:<reason>" are discards (a precondition TLC could not establish from the baseline)"""
    if not events:
        return
    listed = {k["id"]: k for k in c.known if k.get("status") == "known"}
    results = vf.pmap(lambda i: (i, vf.tlc_validate(TRACE[0], TRACE[1], events[i:i + chunk])), range(0, len(events), chunk), jobs=4)
    for i0, r in results:
        evs = events[i0:i0 + chunk]
        skipped = 0
        for (i, ev, v) in r["bad"]:
            if v.startswith("skip:"):
                c.discard(v[5:])
                skipped += 1
                if ev is not None:
                    ev["_skipped"] = True
            else:
                vd = c.cov.setdefault("rejected_by_verdict", {})
                vd[v] = vd.get(v, 0) + 1
                if ev is not None:
                    ev["_verdict"] = v
                    if os.environ.get("VERIF_KEEP_REJECTED"):        # debugging aid: every rejected event, not only the first 25
                        with open(os.environ["VERIF_KEEP_REJECTED"], "a") as f:
                            f.write(json.dumps(ev) + "\n")
                c.violation("trace %s rejected at event %d (%s)" % (TRACE[0], i0 + i, v), ev, case_of)
        for (i, ev, kid) in r["kf"]:
            if kid in listed:
                c.kf_seen[kid] = c.kf_seen.get(kid, 0) + 1
            else:
                c.violation("event %d matches finding %s which is not listed as known" % (i0 + i, kid), ev, case_of)
        if r["consumed"] < len(evs) and not [b for b in r["bad"] if not b[2].startswith("skip:")]:
            vf.infra("trace validation stopped at event %d of %d" % (r["consumed"], len(evs)))
        c.cov["traces_validated_against_impl"] += len(evs) - skipped


def replay(path):
    return vf.replay_event(TRACE[0], TRACE[1], path)


# ------------------------------------------------------------------------------------------------ C25, application part
# Odd suppression files applied to real binaries through abidiff / abidw / abicompat.  The binaries carry what the matching code
# branches on: C functions and a variable whose symbols have aliases (__attribute__((alias)), one of them weak), a struct that
# grows, a pointer parameter whose pointed-to type changes kind (struct S* -> int*), an empty struct, an enum whose enumerator
# value changes, a removed and an added function.
APP_V1 = r"""
struct S { int a; char b; };
struct Empty { };
enum En { En_a = 0, En_b = 1 };
typedef struct S T;
int fn_main(struct S *p) { return p ? 1 : 0; }
int fn_alias1(struct S *p) __attribute__((alias("fn_main")));
int fn_alias2(struct S *p) __attribute__((weak, alias("fn_main")));
int var_main = 1;
extern int var_alias __attribute__((alias("var_main")));
void fn_ptr(struct S *p) { }
void fn_empty(struct Empty *p, T *q) { }
enum En fn_enum(enum En e) { return e; }
int fn_removed(int a) { return a; }
struct S var_s;
"""
APP_V2 = r"""
struct S { int a; char b; char c; long d; };
struct Empty { int x; };
enum En { En_a = 0, En_b = 7 };
typedef struct S T;
int fn_main(struct S *p) { return p ? 1 : 0; }
int fn_alias1(struct S *p) __attribute__((alias("fn_main")));
int fn_alias2(struct S *p) __attribute__((weak, alias("fn_main")));
long var_main = 1;
extern long var_alias __attribute__((alias("var_main")));
void fn_ptr(int *p) { }
void fn_empty(struct Empty *p, T *q) { }
enum En fn_enum(enum En e) { return e; }
int fn_added(int a) { return a; }
struct S var_s;
"""
APP_MAIN = r"""
struct S; extern int fn_main(struct S *p); extern int fn_alias1(struct S *p); extern int var_alias;
int main(void) { return fn_main(0) + fn_alias1(0) + var_alias; }
"""
_SECTION_PROPS = {
    "suppress_type": ["label", "file_name_regexp", "file_name_not_regexp", "soname_regexp", "soname_not_regexp", "name", "name_regexp", "name_not_regexp",
                      "type_kind", "source_location_not_in", "source_location_not_regexp", "accessed_through", "drop", "changed_enumerators",
                      "has_data_member_inserted_at", "has_data_member_inserted_between", "has_data_members_inserted_between"],
    "suppress_function": ["label", "file_name_regexp", "file_name_not_regexp", "soname_regexp", "soname_not_regexp", "name", "name_regexp", "name_not_regexp",
                          "parameter", "return_type_name", "return_type_regexp", "symbol_name", "symbol_name_regexp", "symbol_name_not_regexp", "symbol_version",
                          "symbol_version_regexp", "change_kind", "allow_other_aliases", "drop"],
    "suppress_variable": ["label", "file_name_regexp", "file_name_not_regexp", "soname_regexp", "soname_not_regexp", "name", "name_regexp", "name_not_regexp",
                          "symbol_name", "symbol_name_regexp", "symbol_name_not_regexp", "symbol_version", "symbol_version_regexp", "type_name", "type_name_regexp",
                          "change_kind", "drop"],
    "suppress_file": ["label", "file_name_regexp", "file_name_not_regexp", "soname_regexp", "soname_not_regexp"],
}
_ANCHOR = {"suppress_type": "name = S", "suppress_function": "name_regexp = fn_", "suppress_variable": "name_regexp = var_", "suppress_file": "file_name_regexp = nonexistent"}
_BAD_PATTERNS = ["(", "a\\[", "*a", "a\\{"]


def odd_suppression_files():
    """(group, text) pairs: the grammar of odd-but-plausible suppression files of DESIGN.md section 6, C25"""
    out = []
    for sec, props in _SECTION_PROPS.items():
        for p in props:
            # valueless properties, with and without a sufficient property next to them
            out.append(("valueless", "[%s]\n  %s =\n" % (sec, p)))
            out.append(("valueless", "[%s]\n  %s\n  %s =\n" % (sec, _ANCHOR[sec], p)))
            out.append(("valueless", "[%s]\n  %s\n  %s\n" % (sec, _ANCHOR[sec], p)))
            # lists / tuples where strings are expected
            out.append(("list-for-string", "[%s]\n  %s\n  %s = a, b\n" % (sec, _ANCHOR[sec], p)))
            out.append(("list-for-string", "[%s]\n  %s = S, fn_main, var_main\n" % (sec, p)))
            out.append(("tuple-for-string", "[%s]\n  %s\n  %s = {a, b}\n" % (sec, _ANCHOR[sec], p)))
            out.append(("tuple-for-string", "[%s]\n  %s = {{a, b}, {c}}\n" % (sec, p)))
            if p.endswith("regexp"):
                for bad in _BAD_PATTERNS:
                    out.append(("invalid-regexp", "[%s]\n  %s = %s\n" % (sec, p, bad)))
                out.append(("invalid-regexp", "[%s]\n  %s\n  %s = (\n" % (sec, _ANCHOR[sec], p)))
    # name_not_regexp & co. on aliased symbols
    for sec, props in (("suppress_function", ("name_not_regexp", "symbol_name_not_regexp")), ("suppress_variable", ("name_not_regexp", "symbol_name_not_regexp"))):
        for p in props:
            for v in ("^zz", "alias1", "^fn_main$", "^var_", ".*"):
                out.append(("not-regexp-on-aliases", "[%s]\n  %s = %s\n" % (sec, p, v)))
                out.append(("not-regexp-on-aliases", "[%s]\n  %s = %s\n  allow_other_aliases = yes\n" % (sec, p, v)))
                out.append(("not-regexp-on-aliases", "[%s]\n  %s = %s\n  change_kind = all\n  name_regexp = fn_\n" % (sec, p, v)))
    # huge numbers
    for v in ("99999999999999999999", "4294967296", "2147483648", "-1", "18446744073709551615", "0x10", "1e9"):
        out.append(("huge-number", "[suppress_type]\n  name = S\n  has_data_member_inserted_at = %s\n" % v))
        out.append(("huge-number", "[suppress_type]\n  name = S\n  has_data_member_inserted_between = {%s, %s}\n" % (v, v)))
        out.append(("huge-number", "[suppress_type]\n  name = S\n  has_data_member_inserted_between = {0, %s}\n" % v))
        out.append(("huge-number", "[suppress_type]\n  name = S\n  has_data_members_inserted_between = {{%s, end}, {0, %s}}\n" % (v, v)))
        out.append(("huge-number", "[suppress_function]\n  name = fn_main\n  parameter = '%s int\n" % v))
    # has_data_member_inserted_* with garbage
    garbage = ["garbage", "{foo, bar}", "{offset_of(), end}", "{offset_of(a, b), end}", "{offset_after(nonexistent), end}", "{offset_of(a), offset_after(zz)}",
               "{end, 0}", "{}", "{{1, 2}, {3}}", "{1, 2, 3}", "{1}", "offset_of", "offset_of(", "foo(bar)", "offset_of(a", "{offset_of(a}, end}", "end, end",
               "{{offset_of(b), end}}", "{offset_after(b), offset_of(b)}", "{foo(bar), baz(qux)}", "{ , }", "{,}", "{end}"]
    for g in garbage:
        for p in ("has_data_member_inserted_at", "has_data_member_inserted_between", "has_data_members_inserted_between"):
            out.append(("range-garbage", "[suppress_type]\n  name = S\n  %s = %s\n" % (p, g)))
            out.append(("range-garbage", "[suppress_type]\n  name_regexp = .*\n  %s = %s\n" % (p, g)))
    for t in ("Empty", "T", "En"):
        for r in ("end", "0", "offset_of(x)", "offset_after(a)"):
            out.append(("range-on-odd-type", "[suppress_type]\n  name = %s\n  has_data_member_inserted_at = %s\n" % (t, r)))
            out.append(("range-on-odd-type", "[suppress_type]\n  name = %s\n  has_data_member_inserted_between = {%s, end}\n" % (t, r)))
    # everything else the matching code branches on
    misc = ["[suppress_type]\n  name = S\n  accessed_through = %s\n" % v for v in ("pointer", "reference", "reference-or-pointer", "direct", "bogus")]
    misc += ["[suppress_type]\n  name_regexp = .*\n  accessed_through = %s\n" % v for v in ("pointer", "reference", "reference-or-pointer")]
    misc += ["[suppress_type]\n  type_kind = %s\n" % v for v in ("class", "struct", "union", "enum", "array", "typedef", "builtin", "bogus")]
    misc += ["[suppress_type]\n  type_kind = enum\n  changed_enumerators = %s\n" % v for v in ("En_b", "En_a, En_b", "zz", "{En_b}")]
    misc += ["[suppress_type]\n  source_location_not_regexp = %s\n" % v for v in ("(", ".*", "zz")]
    misc += ["[suppress_type]\n  source_location_not_in = %s\n" % v for v in ("v1.c", "v1.c, v2.c", "{v1.c}", "zz")]
    misc += ["[suppress_type]\n  name = S\n  drop = %s\n" % v for v in ("yes", "true", "no", "bogus")]
    misc += ["[suppress_function]\n  parameter = %s\n" % v for v in ("'0 S*", "'0 /(/", "'0 /S.*/", "0 int", "'", "'x int", "'0", "'0 /", "'1 /^int$/", "garbage")]
    misc += ["[suppress_function]\n  return_type_name = int\n", "[suppress_function]\n  return_type_regexp = (\n", "[suppress_function]\n  return_type_regexp = .*\n"]
    misc += ["[suppress_function]\n  name = fn_main\n", "[suppress_function]\n  name = fn_alias1\n  allow_other_aliases = no\n", "[suppress_function]\n  symbol_name = fn_alias2\n",
             "[suppress_function]\n  symbol_name_regexp = alias\n", "[suppress_function]\n  name_regexp = alias\n", "[suppress_function]\n  label = only\n",
             "[suppress_function]\n  symbol_version = V1\n", "[suppress_function]\n  symbol_version_regexp = (\n", "[suppress_function]\n  name_regexp = fn_\n  drop = yes\n"]
    misc += ["[suppress_function]\n  name_regexp = fn_\n  change_kind = %s\n" % v for v in ("added-function", "deleted-function", "function-subtype-change", "all", "bogus", "a, b")]
    misc += ["[suppress_variable]\n  name = var_main\n", "[suppress_variable]\n  symbol_name = var_alias\n", "[suppress_variable]\n  type_name = int\n",
             "[suppress_variable]\n  type_name_regexp = (\n", "[suppress_variable]\n  name_regexp = var_\n  drop = yes\n", "[suppress_variable]\n  label = only\n"]
    misc += ["[suppress_variable]\n  name_regexp = var_\n  change_kind = %s\n" % v for v in ("added-variable", "deleted-variable", "variable-subtype-change", "all", "bogus")]
    misc += ["[suppress_file]\n  file_name_regexp = v1\n", "[suppress_file]\n  file_name_not_regexp = v1\n", "[suppress_file]\n  soname_regexp = .*\n", "[suppress_file]\n  soname_not_regexp = zz\n",
             "[suppress_file]\n  label = only\n", "[bogus_section]\n  name = S\n", "[suppress_type]\n", "", "[", "[suppress_type", "name = S\n"]
    out += [("misc", t) for t in misc]
    return out


def _crash_kind(r):
    if r.timeout:
        return "timeout"
    m = re.search(r"ERROR: AddressSanitizer: ([\w-]+)", r.err)
    if m:
        return "asan:" + m.group(1)
    m = re.search(r"runtime error: ([^\n]*)", r.err)
    if m:
        t = re.sub(r"0x[0-9a-f]+|-?\d+", "N", m.group(1))
        return "ubsan:" + re.sub(r" (for|of|to) type .*$| in type .*$|, which .*$", "", t)[:48].strip().replace(" ", "-").replace("'", "")
    if "Assertion `" in r.err and r.sig == 6:
        return "assert"
    m = re.search(r"terminate called after throwing an instance of '([^']*)'", r.err)
    if m:
        return "uncaught:" + m.group(1)
    if r.sig:
        return "SIG%d" % r.sig
    return "none"


def _crash_fn(r):
    from checks import _elfhash as eh
    m = re.search(r"^[^:\n]+: [^:\n]+:\d+: (.*?): Assertion `", r.err, re.M)
    if m:
        return eh.short_fn(m.group(1))
    fn, foreign = eh.classify_stack(r.err)
    return ("foreign:" + fn) if foreign else fn


def suppr_application_events(c, variant="asan", limit="auto", timeout=120):
    """Apply the odd suppression files to binaries with aliased symbols through abidiff / abidw / abicompat of the given build
    variant.  Returns events {"e": "SupprRun", "tool", "group", "text", "exit", "ret", "kind", "fn"}: `ret` is campaign.retof's
    termination class ("ok" = normal exit), `kind` the crash class (none / SIG<n> / assert / asan:<x> / ubsan:<x> / uncaught:<x> /
    timeout), `fn` the innermost non-runtime function of the sanitizer stack or the function of the failed assertion
    ("foreign:..." when it lies in libelf / libdw / libxml2)."""
    d = os.path.join(c.workdir, "suppr-app")
    os.makedirs(d, exist_ok=True)
    for nm, src in (("v1.c", APP_V1), ("v2.c", APP_V2), ("app.c", APP_MAIN)):
        with open(os.path.join(d, nm), "w") as f:
            f.write(src)
    for cmd in (["gcc", "-g", "-w", "-O0", "-fPIC", "-shared", "-o", "libv1.so", "v1.c"], ["gcc", "-g", "-w", "-O0", "-fPIC", "-shared", "-o", "libv2.so", "v2.c"],
                ["gcc", "-g", "-w", "-O0", "-o", "app", "app.c", "-L.", "-l:libv1.so"]):
        r = subprocess.run(cmd, cwd=d, stdout=subprocess.PIPE, stderr=subprocess.PIPE, text=True)
        if r.returncode != 0:
            vf.infra("suppression application binaries do not build: " + r.stderr[-300:])
    v1, v2, app = (os.path.join(d, x) for x in ("libv1.so", "libv2.so", "app"))
    tools = {t: vf.tool(variant, t) for t in ("abidiff", "abidw", "abicompat")}
    env = vf.henv(d)
    files = odd_suppression_files()
    if limit == "auto":
        limit = None if c.thorough else 240
    if limit and limit < len(files):
        # every group stays represented: the files are taken round-robin over the groups, in a seeded order
        rng = c.rng.__class__(c.seed)
        groups = {}
        for g, t in files:
            groups.setdefault(g, []).append((g, t))
        for g in groups:
            rng.shuffle(groups[g])
        files = []
        while len(files) < limit and any(groups.values()):
            for g in list(groups):
                if groups[g] and len(files) < limit:
                    files.append(groups[g].pop())

    def one(job):
        k, (group, text) = job
        f = os.path.join(d, "odd%d.suppr" % k)
        with open(f, "w") as fh:
            fh.write(text)
        runs = [("abidiff", [tools["abidiff"], "--no-default-suppression", "--suppressions", f, v1, v2]),
                ("abidiff-rev", [tools["abidiff"], "--no-default-suppression", "--redundant", "--harmless", "--suppressions", f, v2, v1]),
                ("abidw", [tools["abidw"], "--no-default-suppression", "--suppressions", f, v1]),
                ("abicompat", [tools["abicompat"], "--no-default-suppression", "--suppressions", f, app, v1, v2])]
        evs = []
        for tool, cmd in runs:
            r = vf.run(cmd, env=env, timeout=timeout)
            ret = campaign.retof(r)
            evs.append({"e": "SupprRun", "tool": tool, "variant": variant, "group": group, "k": k, "text": text, "exit": r.exit, "ret": ret,
                        "kind": _crash_kind(r) if ret != "ok" else "none", "fn": _crash_fn(r) if ret != "ok" else "", "err": r.err[-600:] if ret != "ok" else ""})
        return evs
    return [e for evs in vf.pmap(one, list(enumerate(files))) for e in evs]
