"""C17 -- every exported symbol is accounted for exactly once.

Model: spec/Corpus.tla: symbol table with alias chains (first symbol at an address = main symbol), DIEs read in every order
(update_main_symbol, lookup by address, public test, set_symbol, MaybeAdd with id de-duplication), then the alias walk of
get_unreferenced_*_symbols.  One TLC run checks the partition for the code as the property wants it (Ideal, <= 4 symbols
x <= 3 DIEs), for the code as it is (Faithful: holds wherever no named deviation applies) and prints small witnesses for
each deviation in isolation.
Conformance: random C programs (render/symasm.c_program) with one TU compiled with -g and one without: external / weak /
static definitions, default / hidden / protected visibility, alias declarations (also weak, hidden, of static
definitions), groups of functions with identical bodies; built with gcc (-O0, -O2) and clang as relocatable object,
shared objects (ld.bfd, ld.lld, ld.lld --icf=all, gold --icf=all -- gold keeps the DIEs of folded functions valid --), functions of size 0
(`__builtin_unreachable()` bodies: several DIEs on one address without any folding), static executables (also with --icf=all) and PIE.  readelf gives the
public defined symbols and their addresses, readelf --debug-dump=info the functions/variables debug info defines; the
corpus is projected through the public API (harness/corpus_proj); TLC judges every binary against CorpusTrace.tla."""
import json, os, random
import vf, symobs, symcamp
from render import symasm

CONFIGS = [("gcc", "-O0", "-gdwarf-4"), ("gcc", "-O2", "-gdwarf-5"), ("clang", "-O0", "-gdwarf-4"), ("gcc", "-O1", "-gdwarf-2")]


def main():
    c = vf.Check("C17", "exploration")
    vf.build("hooks")
    h = vf.build_harness("hooks", "corpus_proj")
    T = c.thorough
    r = c.model("Corpus.tla", "CorpusThorough.cfg" if T else "Corpus.cfg")
    wit = {}
    for w in r["printed"]:
        if isinstance(w, dict) and "witness" in w:
            wit.setdefault(w["witness"], []).append(w)
    for dev in ("walk-stops-at-main", "lookup-precedes-main-hint"):
        if not wit.get(dev):
            vf.infra("no witness for deviation %s: the model no longer mirrors the code" % dev)
    c.cov["model_deviations"] = {d: {"small_witnesses": len(v), "first": v[0]} for d, v in wit.items()}

    jobs = []
    for i in range(120 if T else 10):
        cfgs = CONFIGS if T else [CONFIGS[0], CONFIGS[1 + i % 3]]
        for j, cfg in enumerate(cfgs):
            jobs.append(("p%03d" % i, "c%d" % CONFIGS.index(cfg), cfg))

    def run_job(job):
        pstem, cstem, (cc, opt, dwarf) = job
        stem = pstem + cstem
        rng = random.Random("%d/%s" % (c.seed, pstem))          # the same program for every configuration
        prog = symasm.c_program(rng, nfn=rng.randrange(3, 9), nvar=rng.randrange(2, 7), traps=True)
        wd = os.path.join(c.workdir, "b", pstem, cstem)
        res, errs = symasm.build_c(prog, wd, stem, cc=cc, opt=opt, dwarf=dwarf, fcommon=(rng.random() < 0.3))
        evs, disc = [], []
        if not res:
            disc.append("program does not compile with %s %s" % (cc, opt))
        for kind, path in res:
            try:
                ev = symcamp.partition_event(path, kind, h, scratch=wd)
            except symobs.Unusable as ex:
                disc.append("independent reader: " + str(ex).split(":")[0][:60])
                continue
            ev["kind"] = "%s/%s%s" % (kind, cc, opt)
            ev["sources"] = [os.path.join(wd, stem + ".g.c"), os.path.join(wd, stem + ".n.c")]
            evs.append(ev)
        return evs, disc

    results = vf.pmap(run_job, jobs)
    events = []
    for evs, disc in results:
        events += evs
        for d in disc:
            c.discard(d)
    # the hand-written test data of the symtab reader (aliases, no debug info, kernel modules) ride along
    for root, _, files in os.walk(os.path.join(vf.REPO, "tests", "data", "test-symtab")):
        for f in sorted(files):
            if f.endswith((".so", ".ko")):
                try:
                    ev = symcamp.partition_event(os.path.join(root, f), "repo-test-data", h, scratch=c.workdir)
                    events.append(ev)
                except symobs.Unusable as ex:
                    c.discard("independent reader: " + str(ex).split(":")[0][:60])
    c.cov["evaluations"] = len(events)
    symcamp.judge(c, [("CorpusTrace.tla", "CorpusTrace.cfg", events, 250)])

    nontrivial, kinds = set(), {}
    for ev in events:
        kinds[ev["kind"]] = kinds.get(ev["kind"], 0) + 1
        for k in ("fn", "var"):
            if ev["ret"] == "ok" and ev[k]["decls"] and ev[k]["unref"]:
                nontrivial.add(vf.sha(json.dumps([ev["kind"], k, ev[k]["public"], ev[k]["unref"], ev[k]["decls"]])))
    c.cov["distinct_nontrivial"] = len(nontrivial)
    c.cov["by_kind"] = kinds
    c.cov["rule"] = ("one evaluation = one binary (kind x compiler x optimisation) of a random two-TU C program; non-trivial = for functions or for "
                     "variables the corpus has both declarations attached to symbols and symbols not referenced by debug info, counted once per "
                     "distinct (kind, public ids, unreferenced ids, declarations)")
    for ev in events[:2]:
        c.sample({k: ev[k] for k in ("kind", "etype", "ret", "fn", "var")})
    c.assumptions += ["readelf reads symbol tables and DWARF (DW_TAG_subprogram with DW_AT_low_pc, DW_TAG_variable with DW_OP_addr) correctly",
                      "'attached to a declaration' = in the same-address closure of the symbol of some function/variable of the corpus",
                      "'has debug info' = a CU-level DIE defines an entity of that name at that address (not checked for relocatable files)",
                      "public defined symbols = Symtab!Expected of the relevant table (C18's reading)"]
    c.finish()


def replay(path):
    return vf.replay_event("CorpusTrace.tla", "CorpusTrace.cfg", path)
