"""C16 -- recorded function and variable signatures match the source.

The model program (Abi.tla) IS the source declaration; abidw's document is projected with expat onto the model's record shape
(lib/abigraph.py) and TLC decides, with Abi!Bisim, whether every exported function / variable recorded in the ABI is structurally
equal to the model's: return type, parameter count, parameter types with their typedefs and cv-qualifiers, variadic-ness,
variable types (AbiObsTrace!VSignature)."""
import os
import vf, campaign, abixml, abigraph


def main():
    c = vf.Check("C16", "exploration")
    vf.build("hooks")
    c.model("Abi.tla", "AbiSmall.cfg" if c.thorough else "AbiSmallQuick.cfg")
    abidw = vf.tool("hooks", "abidw")
    cases = campaign.programs(c, 2500 if c.thorough else 250, MaxTypes=10, MaxIfaces=5)
    comps = ["gcc", "clang", "gcc-dwarf4", "clang-dwarf5"] if c.thorough else ["gcc", "clang"]

    def one(job):
        idx, case, comp = job
        style = {"tus": 1 + idx % 3, "seed": idx}
        path, err, d = campaign.build_one(c, idx, case, comp, style=style, sub=comp)
        if not path:
            return ("discard", "does-not-compile")
        r = vf.run([abidw, "--no-show-locs", path], env=vf.henv(d), binary=True)
        pr = abixml.project(r.out)
        ev = {"e": "Signature", "case": idx, "comp": comp, "types": abigraph.strip_model(case["types"]), "fns": case["fns"], "vars": case["vars"],
              "otypes": [], "ofns": [], "ovars": [], "ret": campaign.retof(r) if (r.exit == 0 and pr["wf"]) else "abidw-exit%d" % r.exit}
        if ev["ret"] == "ok":
            try:
                g = abigraph.project(pr)
            except abigraph.Unsupported as ex:
                return ("discard", "projection-unsupported:" + str(ex).split()[0])
            ev.update({"otypes": g["types"], "ofns": g["fns"], "ovars": g["vars"]})
        return ("ok", ev)

    events = []
    for r in vf.pmap(one, [(i, cs, comp) for i, cs in enumerate(cases) for comp in comps]):
        if r[0] == "discard":
            c.discard(r[1])
        else:
            events.append(r[1])
    c.cov["evaluations"] = len(events)
    c.cov["distinct_nontrivial"] = len({e["case"] for e in events if len(e["otypes"]) >= 4 and e["fns"]})
    c.cov["rule"] = ("TLC-generated C programs (<= 10 types, <= 5 interfaces; typedef chains, const, pointers incl. to arrays and functions, arrays, by-value aggregates, "
                     "function pointers as parameters/returns) compiled by %s in 1-3 TUs; abidw's record projected with expat and compared with the model by Abi!Bisim; "
                     "non-trivial = programs with a function whose recorded type graph has >= 4 nodes" % comps)
    for e in events[:2]:
        c.sample({k: e[k] for k in ("case", "comp", "fns", "ofns")})
    case_of = lambda ev: campaign.case_files(os.path.join(c.workdir, "p%d" % ev["case"]))
    vf.pmap(lambda i: c.validate("AbiObsTrace.tla", "AbiObsTrace.cfg", events[i:i + 400], case_of=case_of), range(0, len(events), 400), jobs=6)
    c.assumptions += ["the renderer writes the model program as C faithfully (cross-checked: a projection failure or mismatch is examined as either a renderer or a libabigail fault)"]
    c.finish()


def replay(path):
    return vf.replay_event("AbiObsTrace.tla", "AbiObsTrace.cfg", path)
