"""C18 -- recorded symbol tables match the ELF symbol table.

Model: spec/Symtab.tla.  `Load` transcribes symtab::load_, `Expected` states the property.  TLC checks, exhaustively over
slices of the attribute space and in one run, (a) the code as the property wants it (dev = {}) against the property, (b) the
code as it is (dev = AllDev) against "the property holds wherever no *named* deviation applies", and (c) under each single
deviation the minimal tables on which the property fails (witnesses: the deviations are real in the model).
Conformance: TLC generates symbol tables (every renderable single row; every table of <= 2/3 rows over addresses x kinds x
publicness; versioned tables), c.rng adds larger random ones; render/symasm.py renders them to assembler and builds
relocatable objects, shared objects (ld.bfd, ld.lld), stripped variants, static and dynamic executables.  readelf is the
independent reader; abidw's <elf-*-symbols> and the public API (harness/corpus_proj) are libabigail's views; TLC judges
every binary against SymtabTrace.tla."""
import json, os
import vf, symobs, symcamp
from render import symasm


def models(c):
    """One TLC run (spec/Symtab.cfg): Ideal (dev = {}) and Faithful (dev = AllDev) are invariants; Witness prints the
    minimal tables on which the property fails under each single deviation -- each named deviation must have one."""
    r = c.model("Symtab.tla", "SymtabThorough.cfg" if c.thorough else "Symtab.cfg")
    wit = {}
    for w in r["printed"]:
        if isinstance(w, dict) and "witness" in w:
            wit.setdefault(w["witness"], []).append({"rows": w["rows"], "ctx": w["ctx"]})
    for dev in ("unwritten-main-hides-aliases", "tls-offset-shares-address-map"):
        if not wit.get(dev):
            vf.infra("no witness for deviation %s: the model no longer mirrors the code" % dev)
    c.cov["model_deviations"] = {d: {"minimal_witnesses": len(v), "first": v[0]} for d, v in wit.items()}


def tls_collision_case(c, wd):
    """Replay of the model's counterexample for "tls-offset-shares-address-map": a TLS symbol whose st_value (an offset
    into the TLS template) equals the address of a function.  Two passes: link once to learn the function's address."""
    base = [{"name": "fn_at", "type": "FUNC", "bind": "GLOBAL", "vis": "DEFAULT", "shndx": "1", "value": 0, "size": 4, "version": "", "isDefault": False},
            {"name": "tls_at", "type": "TLS", "bind": "GLOBAL", "vis": "DEFAULT", "shndx": "1", "value": 0, "size": 4, "version": "", "isDefault": False, "tlsoff": 0}]
    res, _ = symasm.build(symasm.asm_table(base), wd, "tls0", kinds=("dso-bfd",))
    out = []
    for kind, path in res:
        t = symobs.readelf_tables(path)
        addr = [r["value"] for r in t["dynsym"] if r["name"] == "fn_at"]
        if addr and int(addr[0], 16) < (1 << 20):
            base[1]["tlsoff"] = int(addr[0], 16)
            res2, _ = symasm.build(symasm.asm_table(base), wd, "tls1", kinds=("dso-bfd", "dso-strip", "pie"))
            out += [(k, p, os.path.join(wd, "tls1.s")) for k, p in res2]
    return out


def main():
    c = vf.Check("C18", "exploration")
    vf.build("hooks")
    h = vf.build_harness("hooks", "corpus_proj")
    models(c)
    T = c.thorough

    # ---- cases from the specification
    def gen(cfgname):
        g = vf.tlc_generate("Symtab.tla", cfgname)
        return [x["rows"] for x in g["cases"]]

    single = [t[0] for t in gen("SymtabGenRow.cfg")]
    alias = gen("SymtabGenAlias3.cfg" if T else "SymtabGenAlias2.cfg")
    vers = gen("SymtabGenVersion.cfg")
    c.cov["generated"] = {"single_rows": len(single), "alias_tables": len(alias), "version_tables": len(vers)}
    # the generated spaces are sampled with c.rng where they exceed the tier's budget (single-row tables always all)
    small = [t for t in alias if len(t) == 1]
    big = [t for t in alias if len(t) > 1]
    c.rng.shuffle(big)
    alias = small + big[:1800 if T else 110]
    c.rng.shuffle(vers)
    vers = vers[:600 if T else 40]
    jobs = []     # (stem, rows, kinds)
    c.rng.shuffle(single)
    for i in range(0, len(single), 96):
        jobs.append(("row%03d" % (i // 96), symasm.pack_rows(single[i:i + 96]), symasm.KINDS))
    for i, t in enumerate(alias):
        jobs.append(("al%05d" % i, t, ("rel", "dso-bfd", "exec") + (("dso-lld", "exec-dyn-lld") if T else ())))
    napi = {"al": 3, "ve": 2}           # the API view is taken for every n-th small table (always for the big ones)
    for i, t in enumerate(vers):
        jobs.append(("ve%05d" % i, t, ("dso-bfd", "dso-lld", "exec-dyn-bfd", "exec-dyn-lld", "rel")))
    for i in range(40 if T else 6):
        jobs.append(("rnd%03d" % i, symasm.random_table(c.rng, c.rng.randrange(10, 120), versions=(i % 2 == 0)), symasm.KINDS))

    def run_job(job):
        stem, rows, kinds = job
        wd = os.path.join(c.workdir, "b", stem[:3], stem)
        res, errs = symasm.build(symasm.asm_table(rows), wd, stem, kinds)
        evs, disc = [], []
        if not res:
            disc.append("not renderable (assembler)")
        api = T or int(stem[-5:].lstrip("abcdefghijklmnopqrstuvwxyz") or 0) % napi.get(stem[:2], 1) == 0
        for kind, path in res:
            try:
                ev = symcamp.symtab_event(path, kind, harness=h, api=api, scratch=wd)
                ev["sources"] = [os.path.join(wd, stem + ".s")]
                evs.append(ev)
            except symobs.Unusable as ex:
                disc.append("independent reader: " + str(ex).split(":")[0][:60])
        for k in kinds:
            if k not in [x for x, _ in res] and res:
                disc.append("variant refused by the toolchain: " + k)
        return evs, disc

    results = vf.pmap(run_job, jobs)
    events = []
    for evs, disc in results:
        events += evs
        for d in disc:
            c.discard(d)
    wd = os.path.join(c.workdir, "b", "tls")
    for kind, path, src in tls_collision_case(c, wd):
        try:
            ev = symcamp.symtab_event(path, kind, harness=h, scratch=wd)
            ev["sources"] = [src]
            events.append(ev)
        except symobs.Unusable as ex:
            c.discard("independent reader: " + str(ex)[:60])
    c.cov["evaluations"] = len(events)

    # ---- TLC judges
    symcamp.judge(c, [("SymtabTrace.tla", "SymtabTrace.cfg", events, 400)])

    nontrivial = set()
    kinds = {}
    for ev in events:
        kinds[ev["kind"]] = kinds.get(ev["kind"], 0) + 1
        n = len(ev["symtab"]) + len(ev["dynsym"])
        if ev["ret"] == "ok" and ev["abidw"] and len(ev["abidw"]) < n - 1:
            nontrivial.add(vf.sha(json.dumps([ev["kind"], ev["abidw"], ev["classes"]], sort_keys=True)))
    c.cov["distinct_nontrivial"] = len(nontrivial)
    c.cov["by_kind"] = kinds
    c.cov["rule"] = ("one evaluation = one binary (relocatable / shared object by ld.bfd and ld.lld / stripped / static and dynamic executable / PIE) "
                     "rendered from a TLC-generated or random symbol table, read by readelf and by abidw + the public API, judged by TLC against "
                     "Symtab!Expected; non-trivial = abidw recorded at least one symbol and the table holds rows that must be filtered out, "
                     "counted once per distinct (kind, recorded symbols, recorded alias classes)")
    for ev in events[:2] + events[-1:]:
        c.sample({k: ev[k] for k in ("kind", "etype", "hasSymtab", "hasDynsym", "abidw", "classes", "ret")})
    c.assumptions += ["readelf (binutils) reads symbol tables, .gnu.version and section headers correctly",
                      "relevant table: ET_REL/ET_EXEC .symtab if present else .dynsym; otherwise .dynsym if present else .symtab (Appendix A)",
                      "reading of the statement: STB_GNU_UNIQUE counts as global; an OBJECT symbol in SHN_ABS (version definition symbols) is not a data symbol; "
                      "STT_COMMON-typed and STT_NOTYPE symbols are outside 'function and data symbols'; the value of a TLS symbol is an offset, not an address; "
                      ".symtab entries carry no version (their names are literal)",
                      "abidw does not write sizes of function symbols: those are compared through the API view",
                      "libdwfl's section layout of relocatable files keeps distinct (section, offset) pairs at distinct addresses"]
    c.finish()


def replay(path):
    return vf.replay_event("SymtabTrace.tla", "SymtabTrace.cfg", path)
