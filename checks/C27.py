"""C27 -- whitelists and keep/drop patterns select exactly the named interfaces.

Models: spec/Regex.tla (transcription of regex::escape / generate_from_strings, a POSIX ERE interpreter for the fragment the generated
patterns live in, property GenFromStringsIsMembership over every vector of strings of the space) and spec/Select.tla (declarative
selection by whitelist and by keep/drop patterns, transcription of the code path of abidiff with the oddities of the pinned code,
properties WhitelistExact / KeepDropExact; PinnedDifferences prints what the pinned code path gets wrong).
Campaign A: harness/regexh.cc calls generate_from_strings / compile / match on exactly the space of the model (count cross-checked
with TLC's distinct states) plus random longer vectors; TLC judges every call (RegexTrace.tla).
Program campaign: TLC-generated programs (Abi.tla) whose symbols are renamed (objcopy --redefine-sym) to strings TLC enumerates over the
regex specials, and a partner binary in which every interface differs; `abidw --kmi-whitelist`, `abidiff --kmi-whitelist` and
`abidiff --keep* / --drop*` are run and the interface sets they consider are judged by TLC (SelectTrace.tla)."""
import copy, json, os, re, subprocess
import vf, campaign, abixml, report
import cprog

ALL_TOKENS = ["a", "b", ".", "*", "+", "?", "(", ")", "[", "]", "{", "}", "|", "^", "$", "\\"]
SMALL_TOKENS = ["a", ".", "+", "(", "|", "$", "\\"]
# the bytes a KMI whitelist file can express literally: a property name of the INI reader cannot contain [ ] { } = , ; # or white space,
# and the backslash is the INI escape character (its handling belongs to C25 / C39)
NAME_TOKENS = ["a", "b", ".", "*", "+", "?", "(", ")", "|", "^", "$"]
#            name        Tokens override   token list    MaxLen MaxSet
QUICK = [("all-1",   "AllTokens",   ALL_TOKENS,   2, 1),
         ("small-2", "SmallTokens", SMALL_TOKENS, 2, 2),
         ("all-l1",  "AllTokens",   ALL_TOKENS,   1, 2)]
THOROUGH = [("all-2",   "AllTokens",   ALL_TOKENS,   2, 2),
            ("small-3", "SmallTokens", SMALL_TOKENS, 3, 1),
            ("tiny-23", "TinyTokens", ["a", ".", "|", "\\"], 2, 3)]


def regex_cfg(path, tokens, maxlen, maxset, extra=""):
    with open(path, "w") as f:
        f.write("CONSTANTS Tokens <- %s\n MaxLen = %d\n MaxSet = %d\n EscSpecials <- PinnedSpecials\nSPECIFICATION Spec\n%sCHECK_DEADLOCK FALSE\n"
                % (tokens, maxlen, maxset, extra))
    return path


# ------------------------------------------------------------------------------------------------ campaign A
def campaign_a(c, h):
    shards = 8

    def family(fam):
        (name, tokname, toks, maxlen, maxset) = fam
        cfg = regex_cfg(os.path.join(c.workdir, "Regex-%s.cfg" % name), tokname, maxlen, maxset,
                        "INVARIANTS GenFromStringsIsMembership InterpreterSane ForgottenCharacters\n")
        m = c.model("Regex.tla", cfg, workers=6)
        nrand = (4000 if c.thorough else 400) // shards

        def shard(i, name=name, toks=toks, maxlen=maxlen, maxset=maxset):
            out = os.path.join(c.workdir, "r-%s-%d.ndjson" % (name, i))
            r = vf.run([h, out, ",".join(toks), str(maxlen), str(maxset), str(i), str(shards), str(nrand), str(c.seed)], timeout=1200)
            lines = open(out).read().split("\n")
            evs = [json.loads(l) for l in lines if l.endswith("}")]
            tail = lines[-1] if lines and not lines[-1].endswith("}") else ""
            if r.exit != 0 or r.sig or r.timeout or tail.strip():
                # the call did not return: keep what was recorded of it (the property implies an answer)
                m_ = re.match(r'\{"e":"(GenSet|Gen)","set":(\[.*?\]),"(?:tokens|x)"', tail)
                if not m_:
                    vf.infra("harness regexh failed on family %s: exit=%d sig=%d %s" % (name, r.exit, r.sig, r.err[-300:]))
                evs.append({"e": m_.group(1), "set": json.loads(m_.group(2)), "tokens": toks, "maxlen": maxlen, "x": [], "pat": [], "compiled": False,
                            "matched": [], "match": False, "ret": "sig%d-exit%d%s" % (r.sig, r.exit, "-timeout" if r.timeout else "")})
                return evs, {"sets": 0}
            return evs, json.loads(r.out.strip().splitlines()[-1])

        res = vf.pmap(shard, range(shards), jobs=shards)
        evs = [e for (es, _) in res for e in es]
        nsets = sum(1 for e in evs if e["e"] == "GenSet")
        # binding of the explored spaces: the harness must have visited exactly the model's vectors
        if nsets != m["distinct"]:
            vf.infra("family %s: harness visited %d vectors, the model has %d states" % (name, nsets, m["distinct"]))
        for e in evs:
            e["fam"] = name
        return evs, {"family": name, "tokens": toks, "max_len": maxlen, "max_vector": maxset, "vectors": nsets, "random_calls": len(evs) - nsets,
                     "strings_per_vector": res[0][1].get("space", 0)}

    # the families' models are checked concurrently with the Select model (vf limits the number of TLC JVMs machine-wide)
    fams = THOROUGH if c.thorough else QUICK
    res = vf.pmap(lambda f: c.model("Select.tla", "Select.cfg", workers=6) if f == "select" else family(f), ["select"] + fams, jobs=4)
    events = [e for (es, _) in res[1:] for e in es]
    return events, [row for (_, row) in res[1:]], res[0]


# ------------------------------------------------------------------------------------------------ program campaign
def tok_name(n):
    """fn12 -> ["fn","1","2"]"""
    m = re.match(r"^(fn|var)(\d+)$", n)
    return [m.group(1)] + list(m.group(2))


def all_changed(case):
    """partner program in which every interface differs: every function gets one more int parameter, every variable becomes an
    array of 7 of its former type (a different size whatever the type was)."""
    t2 = copy.deepcopy(case["types"])
    ints = [i + 1 for i, t in enumerate(t2) if t["k"] == "base" and t["id"] == 3]
    if not ints:
        t2.append({"k": "base", "id": 3, "t": 0, "d": 0, "m": [], "e": []})
        ints = [len(t2)]
    f2 = copy.deepcopy(case["fns"])
    for f in f2:
        f["p"] = list(f["p"]) + [{"t": ints[0], "c": False}]
    v2 = copy.deepcopy(case["vars"])
    for v in v2:
        t2.append({"k": "array", "id": 0, "t": v["t"], "d": 7, "m": [], "e": []})
        v["t"] = len(t2)
    return t2, f2, v2


def build_renamed(d, types, fns, vars_, rename):
    os.makedirs(d, exist_ok=True)
    files = cprog.render(types, fns, vars_, "c", {"tus": 1})
    for fn, content in files.items():
        open(os.path.join(d, fn), "w").write(content)
    run = lambda cmd: subprocess.run(cmd, cwd=d, stdout=subprocess.PIPE, stderr=subprocess.PIPE)
    if run(["gcc", "-g", "-w", "-O0", "-fPIC", "-c", "tu0.c", "-o", "tu0.o"]).returncode != 0:
        return None, "does-not-compile"
    args = []
    for old, new in rename.items():
        args += ["--redefine-sym", "%s=%s" % (old, new)]
    if run(["objcopy"] + args + ["tu0.o", "r.o"]).returncode != 0:
        return None, "objcopy-refuses-name"
    if run(["gcc", "-shared", "-o", "lib.so", "r.o"]).returncode != 0:
        return None, "does-not-link"
    return os.path.join(d, "lib.so"), ""


def defined_dynsyms(path):
    """the defined global function / object symbols, from binutils (independent of libabigail)"""
    r = subprocess.run(["nm", "-D", "--defined-only", "--format=posix", path], stdout=subprocess.PIPE, stderr=subprocess.PIPE, text=True)
    out = []
    for ln in r.stdout.splitlines():
        m = re.match(r"^(.*) ([A-Za-z]) [0-9a-f]+(?: [0-9a-f]+)?$", ln)
        if m and m.group(2) in "TBDRGSCV":
            out.append(m.group(1))
    return sorted(out)


def reported(rep):
    out = []
    for sec in ("changed_fns", "changed_vars", "removed_fns", "removed_vars", "added_fns", "added_vars"):
        out += [n for n in rep["names"].get(sec, [])]
    return sorted(set(out))


def program_campaign(c, names_pool):
    abidw, abidiff = vf.tool("hooks", "abidw"), vf.tool("hooks", "abidiff")
    ncases = 60 if c.thorough else 10
    cases = campaign.programs(c, ncases, MaxIfaces=5)
    plain = [n for n in names_pool if set(n) <= {"a", "b"}]
    exotic = [n for n in names_pool if not set(n) <= {"a", "b"}]
    rng = c.rng
    jobs = []
    for idx, case in enumerate(cases):
        ifs = ["fn%d" % f["id"] for f in case["fns"]] + ["var%d" % v["id"] for v in case["vars"]]
        # half of the symbols get names made of ordinary characters only (what an unescaped special would wrongly match), half exotic ones
        chosen = []
        for k, _ in enumerate(ifs):
            pool = plain if k % 2 == 0 else exotic
            n = rng.choice(pool)
            while n in chosen:
                n = rng.choice(names_pool)
            chosen.append(n)
        rename = dict(zip(ifs, chosen))
        wls = []
        for w in range(6 if c.thorough else 3):
            listed = [n for n in chosen if rng.random() < 0.5]
            if not listed and w != 1:
                listed = [rng.choice(chosen)]            # at most one whitelist per program may select nothing
            listed += [n for n in rng.sample(exotic, 3) + rng.sample(plain, 1) if n not in chosen and n not in listed]   # absent names
            rng.shuffle(listed)
            wls.append(listed)
        if idx == 0:
            wls.append([])                       # a whitelist that lists nothing (Reading: see SelectTrace!VWhitelist)
        kds = []
        ids = sorted({str(f["id"]) for f in case["fns"]} | {str(v["id"]) for v in case["vars"]})
        lits = [["fn"], ["var"]] + [[p] + list(i) for p in ("fn", "var") for i in ids] + [[ch] for ch in "0123456789"] + [list(i) for i in ids]
        for k in range(10 if c.thorough else 6):
            opts = []
            for _ in range(1 + (k % 2)):
                lit = rng.choice(lits)
                opts.append({"opt": rng.choice(["keep", "drop", "keep-fn", "drop-fn", "keep-var", "drop-var"]),
                             "pat": {"bol": rng.random() < 0.5, "lit": lit, "eol": rng.random() < 0.5}})
            kds.append(opts)
        jobs.append((idx, case, rename, wls, kds))

    def one(job):
        idx, case, rename, wls, kds = job
        d = os.path.join(c.workdir, "w%d" % idx)
        a, why = build_renamed(os.path.join(d, "a"), case["types"], case["fns"], case["vars"], rename)
        if not a:
            return [("discard", why)]
        t2, f2, v2 = all_changed(case)
        b, why = build_renamed(os.path.join(d, "b"), t2, f2, v2, rename)
        if not b:
            return [("discard", why)]
        exported = defined_dynsyms(a)
        if sorted(exported) != sorted(rename.values()) or defined_dynsyms(b) != exported:
            return [("discard", "exported-symbols-are-not-the-renamed-interfaces")]
        env = vf.henv(d)
        # precondition, established with no selection option at all: every interface is listed as changed
        r0 = vf.run([abidiff, "--no-default-suppression", a, b], env=env)
        if campaign.retof(r0) != "ok" or sorted(reported(report.parse(r0.out))) != sorted(rename.keys()):
            return [("discard", "partner-does-not-differ-in-every-interface")]
        out = []
        for w, listed in enumerate(wls):
            wl = os.path.join(d, "wl%d" % w)
            open(wl, "w").write("[abi_whitelist]\n" + "".join("  %s\n" % n for n in listed))
            opt = "--kmi-whitelist" if w % 2 == 0 else "-w"
            rw = vf.run([abidw, opt, wl, a], env=env, binary=True)
            pr = abixml.project(rw.out)
            out.append(("ok", {"e": "Whitelist", "tool": "abidw", "case": idx, "exported": exported, "listed": listed,
                               "seenSyms": sorted(s["name"] for s in pr["fsyms"] + pr["vsyms"]),
                               "seenDecls": sorted(x["attrs"].get("elf-symbol-id", "") for x in pr["fns"]) + sorted(v.get("elf-symbol-id", "") for v in pr["vars"]),
                               "exit": rw.exit if pr["wf"] or rw.exit else 1, "ret": campaign.retof(rw)}))
            rd = vf.run([abidiff, "--no-default-suppression", opt, wl, a, b], env=env)
            out.append(("ok", {"e": "WhitelistDiff", "case": idx, "exported": exported, "listed": listed,
                               "compared": sorted(rename.get(n, n) for n in reported(report.parse(rd.out))), "exit": rd.exit, "ret": campaign.retof(rd)}))
        ifaces = [{"kind": "fn" if n.startswith("fn") else "var", "name": tok_name(n)} for n in sorted(rename)]
        for opts in kds:
            args = []
            for o in opts:
                p = o["pat"]
                args += ["--" + o["opt"], ("^" if p["bol"] else "") + "".join(p["lit"]) + ("$" if p["eol"] else "")]
            rk = vf.run([abidiff, "--no-default-suppression"] + args + [a, b], env=env)
            out.append(("ok", {"e": "KeepDrop", "case": idx, "ifaces": ifaces, "opts": opts, "args": args,
                               "compared": [tok_name(n) for n in reported(report.parse(rk.out)) if re.match(r"^(fn|var)\d+$", n)],
                               "exit": rk.exit, "ret": campaign.retof(rk)}))
        return out

    events = []
    for res in vf.pmap(one, jobs, jobs=8):
        for r in res:
            if r[0] == "discard":
                c.discard(r[1])
            else:
                events.append(r[1])
    return events, cases


def main():
    c = vf.Check("C27", "model_checking")
    vf.build("hooks")
    h = vf.build_harness("hooks", "regexh")
    ev_a, rows, sel = campaign_a(c, h)
    predicted = [d for d in sel["printed"] if isinstance(d, dict) and "what" in d]
    # the exotic symbol names: every string TLC enumerates over the bytes a whitelist file can express (length 1..3)
    gcfg = os.path.join(c.workdir, "RegexGen.cfg")
    open(gcfg, "w").write("CONSTANTS Tokens <- NameTokens\n MaxLen = %d\n MaxSet = 1\n EscSpecials <- PinnedSpecials\nSPECIFICATION Spec\nCONSTRAINT EmitString\nCHECK_DEADLOCK FALSE\n"
                          % (3 if c.thorough else 2))
    pool = sorted({"".join(x["s"]) for x in vf.tlc_generate("Regex.tla", gcfg, workers=4)["cases"] if x.get("s")})
    pool = [n for n in pool if n not in (".",)]          # "." alone is the location counter of linker scripts, not a symbol name
    ev_p, cases = program_campaign(c, pool)

    def case_of(ev):
        if "case" in ev and ev.get("e") in ("Whitelist", "WhitelistDiff", "KeepDrop"):
            pl = campaign.case_files(os.path.join(c.workdir, "w%d" % ev["case"]))
            pl["case.json"] = {"event": ev, "how": "a/ and b/ hold the two programs; symbols renamed with objcopy --redefine-sym as in the event; "
                               "whitelist = [abi_whitelist] section listing ev.listed; KeepDrop: abidiff --no-default-suppression <args> a/lib.so b/lib.so"}
            return pl
        return {"case.json": {"set": ["".join(s) for s in ev.get("set", [])], "x": "".join(ev.get("x", [])),
                              "call": "match(compile(generate_from_strings(set)), x)"}}

    # validation: campaign A in chunks, program campaign in one run
    vsh = 8 if c.thorough else 4
    n = max(1, (len(ev_a) + vsh - 1) // vsh)
    strip = lambda e: {k: v for k, v in e.items() if k != "fam"}
    chunks = [ev_a[i:i + n] for i in range(0, len(ev_a), n)]
    res_a = vf.pmap(lambda ch: c.validate("RegexTrace.tla", "RegexTrace.cfg", [strip(e) for e in ch], case_of=case_of), chunks, jobs=vsh)
    res_p = c.validate("SelectTrace.tla", "SelectTrace.cfg", ev_p, case_of=case_of) if ev_p else None

    follows = {}
    for r in res_a + ([res_p] if res_p else []):
        for rec in vf._printed(r["out"]):
            if isinstance(rec, dict) and "follows" in rec:
                follows[rec["follows"]] = follows.get(rec["follows"], 0) + 1
    verdicts = {}
    for r in res_a + ([res_p] if res_p else []):
        for (i, ev, v) in r["bad"]:
            row = verdicts.setdefault("%s %s" % (ev["e"], v), {"count": 0, "first": ev.get("args") or ev.get("listed") or ev.get("set")})
            row["count"] += 1
    for k in sorted(verdicts):
        print("# TLC rejected %d events: %s   first: %s" % (verdicts[k]["count"], k, json.dumps(verdicts[k]["first"])[:200]))
    c.cov["evaluations"] = len(ev_a) + len(ev_p)
    nt_a = {json.dumps([e["set"], e.get("x")]) for e in ev_a
            if any(t in ALL_TOKENS[2:] for s in e["set"] for t in s) and (e.get("matched") or e.get("match"))}
    nt_p = {json.dumps([e["case"], e.get("listed"), e.get("args")]) for e in ev_p
            if (e["e"] == "KeepDrop" and 0 < len(e["compared"]) < len(e["ifaces"])) or
               (e["e"] != "KeepDrop" and 0 < len(set(e["exported"]) & set(e["listed"])) < len(e["exported"]))}
    c.cov["distinct_nontrivial"] = len(nt_a) + len(nt_p)
    c.cov["rule"] = ("campaign A: per family every vector of <= MaxSet strings of <= MaxLen tokens (enumerated, = the model's states), each matched against "
                     "every string of the space, plus random vectors of up to 6 strings of up to 8 tokens; non-trivial = a vector containing a regex special for "
                     "which some string matched.  Program campaign: %d TLC-generated programs, symbols renamed to TLC-enumerated strings over %s, x whitelists "
                     "(random subsets + absent names) for abidw and abidiff, x keep/drop option lists; non-trivial = the selection is a proper non-empty subset"
                     % (len(cases), "".join(NAME_TOKENS)))
    c.cov["exhaustive"] = True
    c.cov["families"] = rows
    c.cov["program_events"] = {k: sum(1 for e in ev_p if e["e"] == k) for k in ("Whitelist", "WhitelistDiff", "KeepDrop")}
    c.cov["rejected_by_verdict"] = verdicts
    c.cov["empty_selection_error_exits"] = sum(1 for e in ev_p if e["e"] != "KeepDrop" and e["exit"] == 1 and not (set(e["exported"]) & set(e["listed"])))
    c.cov["model_predicted_differences_of_pinned_code"] = len(predicted)
    c.cov["implementation_follows_transcription"] = dict(follows, both=len(ev_a) + sum(1 for e in ev_p if e["e"] == "KeepDrop") - sum(follows.values()))
    for e in ev_a[:1] + [e for e in ev_a if e["e"] == "Gen"][:1] + [e for e in ev_p if e["e"] == "Whitelist"][:1] + [e for e in ev_p if e["e"] == "KeepDrop"][:2]:
        c.sample(strip(e))
    c.assumptions += ["strings are sequences of one-byte tokens; the ERE interpreter of Regex.tla covers literals, escaped specials, . ^ $ groups, alternation and * + ?; "
                      "bracket and interval expressions and constructs POSIX leaves undefined are 'undefined' in the model and a generated pattern must not contain them",
                      "an empty alternative (a vector containing the empty string) matches the empty string, as glibc implements it (POSIX leaves it undefined)",
                      "program campaign: symbol names are restricted to bytes a whitelist file can express literally (an INI property name cannot contain [ ] { } = , ; # or blanks, "
                      "and the backslash is the INI escape character: C25 / C39); "
                      "the full special set is covered by campaign A",
                      "Reading: when a whitelist selects nothing from a binary the DWARF reader reports 'no symbols' and abidw / abidiff exit with the error status; "
                      "accepted here (nothing was considered; the status is C08's subject) and counted under coverage.empty_selection_error_exits",
                      "Reading: a whitelist that lists no name may be taken as 'no whitelist' (everything kept) or as selecting nothing",
                      "Reading: keep/drop patterns are POSIX EREs *searched* in the declaration name (regexec), as the manual's <regex> says; patterns are ^?literal$? with "
                      "token-aligned literals so that Select!PMatch is the byte-level search",
                      "the defined dynamic symbols of a binary are what binutils nm -D --defined-only lists; the partner binary differs in every interface (checked with a plain abidiff first)",
                      "harness/regexh.cc records arguments and results faithfully"]
    c.finish()


def replay(path):
    ev = json.load(open(os.path.join(path, "event.json")))["event"]
    if ev.get("e") in ("GenSet", "Gen"):
        return vf.replay_event("RegexTrace.tla", "RegexTrace.cfg", path)
    return vf.replay_event("SelectTrace.tla", "SelectTrace.cfg", path)
