"""Shared by checks/C37.py and checks/C34.py: binding of spec/ElfHash.tla to the source it transcribes, and the
model runs (TLC decides; this module only prepares configurations and reads TLC's own verdicts).

The transcribed operators of ElfHash.tla (SelectSection, LookupSysV, LookupGnu) claim to be the code of four functions.
`fingerprints()` hashes the normalised text of those functions in the tree under test: if a function still is the text
that was transcribed, the faithful operator stands for it and exactly its named deviations are tolerated; if it was
changed (repaired), the corrected operator stands for it and the strict property is checked."""
import hashlib, os, re, sys
import vf

sys.path.insert(0, os.path.join(vf.VERIF, "render"))

# normalised-text hashes of the functions as transcribed in spec/ElfHash.tla
TRANSCRIBED = {
    "find_hash_table_section_index": ("src/abg-elf-helpers.cc", "5428d7c98799883d"),
    "lookup_symbol_from_sysv_hash_tab": ("src/abg-dwarf-reader.cc", "b139ce8904bd3503"),
    "setup_gnu_ht": ("src/abg-dwarf-reader.cc", "7e35244637b83745"),
    "lookup_symbol_from_gnu_hash_tab": ("src/abg-dwarf-reader.cc", "ad1dddb39c5ab1a6"),
}


def _fn_text(path, name):
    s = open(path, encoding="utf-8", errors="replace").read()
    m = re.search(r"^%s\(" % re.escape(name), s, re.M)
    if not m:
        return ""
    e = s.find("\n}\n", m.start())
    return s[m.start():e + 3] if e >= 0 else ""


def _norm(t):
    return re.sub(r"\s+", " ", re.sub(r"//[^\n]*", "", t)).strip()


def fingerprints():
    """-> dict(FixedSelect, FixedSysV, FixedGnu: bool, detail: {function: 'transcribed'|'changed'})"""
    st = {}
    for fn, (rel, h) in TRANSCRIBED.items():
        t = _fn_text(os.path.join(vf.REPO, rel), fn)
        st[fn] = "transcribed" if hashlib.sha256(_norm(t).encode()).hexdigest()[:16] == h else "changed"
    return {"FixedSelect": st["find_hash_table_section_index"] == "changed",
            "FixedSysV": st["lookup_symbol_from_sysv_hash_tab"] == "changed",
            "FixedGnu": st["setup_gnu_ht"] == "changed" or st["lookup_symbol_from_gnu_hash_tab"] == "changed",
            "detail": st}


def make_cfg(c, base, name, fp, invariants=None, subst=()):
    """derive a run-time configuration from spec/<base>: Fixed* constants from the fingerprints, optional invariant list
    and textual substitutions of constants (tiers)"""
    txt = open(os.path.join(vf.SPEC, base)).read()
    for k in ("FixedSelect", "FixedSysV", "FixedGnu"):
        txt = re.sub(r"%s = (TRUE|FALSE)" % k, "%s = %s" % (k, "TRUE" if fp[k] else "FALSE"), txt)
    for a, b in subst:
        if a not in txt:
            vf.infra("configuration %s has no '%s'" % (base, a))
        txt = txt.replace(a, b)
    if invariants is not None:
        txt = re.sub(r"^INVARIANTS? .*$", "INVARIANTS " + " ".join(invariants), txt, flags=re.M)
    p = os.path.join(c.workdir, name)
    with open(p, "w") as f:
        f.write(txt)
    return p


def last_state(out, keys):
    """the last value TLC printed for each of the given variables (the violating state of a counterexample)"""
    res = {}
    for k in keys:
        m = re.findall(r"^/\\ %s = (.*)$" % re.escape(k), out, re.M)
        if m:
            res[k] = m[-1][:400]
    return res


def record(c, r, must_hold=True):
    """c.model's bookkeeping for a result obtained with vf.tlc_check (models are run in parallel threads)"""
    c.cov["states"] += r["distinct"]
    c.cov["transitions"] += r["generated"]
    c.cov["models"].append({"spec": r["spec"], "cfg": os.path.basename(r["cfg"]), "distinct": r["distinct"], "generated": r["generated"],
                            "depth": r["depth"], "holds": r["ok"], "wall_s": round(r["wall"], 1)})
    if must_hold and not r["ok"]:
        sys.stderr.write(r["out"][-4000:])
        vf.infra("model %s/%s violates its property (rc=%d); the model must be corrected or the deviation listed" % (r["spec"], r["cfg"], r["rc"]))


def frames(err):
    """sanitizer stack frames of a stderr text: [(function, location)]"""
    res = []
    for m in re.finditer(r"^\s*#\d+ 0x[0-9a-f]+ (?:in (.+?) )?(\(?[^\s()]+(?:\+0x[0-9a-f]+)?\)?)\s*$", err, re.M):
        res.append((m.group(1) or "", m.group(2)))
    return res


_RUNTIME = ("__asan", "__interceptor", "__sanitizer", "__ubsan", "__lsan", "operator new", "operator delete", "malloc", "calloc", "realloc", "free",
            "__GI_", "raise", "abort", "__assert", "_start", "__libc", "memcpy", "memmove", "memset", "strlen", "memcmp", "strcmp", "strncmp",
            "strchr", "__mem", "__str", "__pthread", "gsignal", "__sigaction", "__restore_rt")
_RUNTIME_LOC = ("libasan", "libubsan", "libc.so", "libc-", "libstdc++", "libgcc", "ld-linux", "/sanitizer_common/", "/asan/", "/ubsan/")
_FOREIGN_LOC = ("libelf", "libdw", "libxml2", "libz.", "liblzma", "libbz2", "libzstd")


def classify_stack(err):
    """(innermost non-runtime function, foreign?) of the first sanitizer stack in err; ('', False) without a stack"""
    for fn, loc in frames(err):
        if fn.startswith(_RUNTIME) or any(x in loc for x in _RUNTIME_LOC) or not fn:
            continue
        foreign = any(x in loc for x in _FOREIGN_LOC)
        return short_fn(fn), foreign
    return "", False


def short_fn(fn):
    """a stable function name: no argument list, no template arguments, no return type"""
    fn = fn.strip()
    depth, cut = 0, len(fn)
    for i, ch in enumerate(fn):
        if ch in "<":
            depth += 1
        elif ch == ">":
            depth -= 1
        elif ch == "(" and depth == 0:
            cut = i
            break
    fn = fn[:cut]
    fn = re.sub(r"<.*>", "", fn)
    return fn.split()[-1] if fn.split() else fn
