"""C04 -- emitted ABIXML is well-formed and self-contained.

Model: Writer.tla (EscapeSound over all strings <= 4 tokens of Sigma, for every input-controlled attribute).
Campaign: TLC-generated programs whose symbol names, SONAME, DT_NEEDED entry, source directory and source file names are the
strings TLC enumerates over Sigma = {a < > & ' " e-acute}; abidw's output is parsed with expat (independent of libxml2)."""
import os, subprocess
import vf, campaign, abixml


def main():
    c = vf.Check("C04", "exploration")
    vf.build("hooks")
    c.model("Writer.tla", "Writer.cfg")
    c.model("Abi.tla", "AbiSmallQuick.cfg")
    abidw = vf.tool("hooks", "abidw")
    gcfg = os.path.join(c.workdir, "WriterGen.cfg")
    open(gcfg, "w").write("CONSTANT MaxLen = %d\nSPECIFICATION Spec\nCONSTRAINT EmitString\nCHECK_DEADLOCK FALSE\n" % (3 if c.thorough else 2))
    strings = ["".join(x["s"]) for x in vf.tlc_generate("Writer.tla", gcfg)["cases"] if x["s"]]
    cases = campaign.programs(c, 60 if c.thorough else 12, MaxIfaces=4)
    jobs = []
    n = 0
    for s in strings:
        for where in ("fnsym", "varsym", "soname", "needed", "dir", "file"):
            jobs.append((n, cases[n % len(cases)], where, s))
            n += 1
    # plain programs, 1-3 TUs: type ids referenced / defined, symbol ids
    for i, cs in enumerate(campaign.programs(c, 400 if c.thorough else 60)):
        jobs.append((n, cs, "plain", ""))
        n += 1

    def one(job):
        idx, case, where, s = job
        d = os.path.join(c.workdir, "q%d" % idx)
        if where == "dir":
            d = os.path.join(d, "d" + s)
        os.makedirs(d, exist_ok=True)
        style = {"tus": 1 + idx % 3, "seed": idx}
        import cprog
        files = cprog.render(case["types"], case["fns"], case["vars"], "c", style)
        if where == "file":
            files = {("t" + s + k if k.endswith(".c") else k): v for k, v in files.items()}
        for fn, content in files.items():
            open(os.path.join(d, fn), "w").write(content)
        srcs = sorted(f for f in files if f.endswith(".c"))
        objs = []
        for sfile in srcs:
            o = sfile[:-2] + ".o"
            r = subprocess.run(["gcc", "-g", "-w", "-fPIC", "-c", sfile, "-o", o], cwd=d, stdout=subprocess.PIPE, stderr=subprocess.PIPE)
            if r.returncode != 0:
                return ("discard", "does-not-compile")
            objs.append(o)
        link = ["gcc", "-shared", "-o", "lib.so"]
        if where in ("fnsym", "varsym"):
            syms = ["fn%d" % f["id"] for f in case["fns"]] if where == "fnsym" else ["var%d" % v["id"] for v in case["vars"]]
            if not syms:
                return ("discard", "no-interface-of-that-kind")
            merged = "all.o"
            r = subprocess.run(["ld", "-r", "-o", merged] + objs, cwd=d, stdout=subprocess.PIPE, stderr=subprocess.PIPE)
            r = subprocess.run(["objcopy", "--redefine-sym", "%s=v_%s_z" % (syms[0], s), merged], cwd=d, stdout=subprocess.PIPE, stderr=subprocess.PIPE)
            if r.returncode != 0:
                return ("discard", "objcopy-refuses-name")
            objs = [merged]
        if where == "soname":
            link += ["-Wl,-soname,lib" + s + ".so"]
        if where == "needed":
            open(os.path.join(d, "dep.c"), "w").write("int dep_fn(void) { return 0; }\n")
            r = subprocess.run(["gcc", "-shared", "-fPIC", "-o", "libdep.so", "dep.c", "-Wl,-soname,libdep" + s + ".so"], cwd=d, stdout=subprocess.PIPE, stderr=subprocess.PIPE)
            link += ["-Wl,--no-as-needed", "./libdep.so"]
        r = subprocess.run(link + objs, cwd=d, stdout=subprocess.PIPE, stderr=subprocess.PIPE)
        if r.returncode != 0:
            return ("discard", "does-not-link")
        evs = []
        for o in ([], ["--annotate"]):
            rw = vf.run([abidw] + o + [os.path.join(d, "lib.so")], env=vf.henv(d), binary=True)
            pr = abixml.project(rw.out)
            undefined = sorted(r_ for r_ in pr["refs"] if r_ not in pr["defs"])
            # a <subrange> is written again, with its id, in every array dimension that uses it: the same type once more, not a second type with that id
            dup = sorted(i for i, k in pr["defs"].items() if k > 1 and pr["types"].get(i, {}).get("kind") != "subrange")
            symund = sorted(pr["symrefs"] - pr["symdefs"])
            evs.append({"e": "WellFormed", "case": idx, "where": where, "s": s, "opts": " ".join(o), "wf": pr["wf"] and rw.exit == 0 and len(rw.out) > 0,
                        "err": pr["err"], "undefined": undefined[:5], "duplicated": dup[:5], "symundefined": symund[:5] if pr["wf"] else [],
                        "ndefs": len(pr["defs"]), "nrefs": len(pr["refs"]), "ret": campaign.retof(rw), "dwexit": rw.exit})
        # the escaped text must read back as the same text: B against the document abidw wrote for it (Writer!Unescape(Emit(s)) = s)
        if where != "plain":
            abi = os.path.join(d, "lib.abi")
            rw = vf.run([abidw, "--out-file", abi, os.path.join(d, "lib.so")], env=vf.henv(d))
            rd = vf.run([vf.tool("hooks", "abidiff"), "--no-default-suppression", os.path.join(d, "lib.so"), abi], env=vf.henv(d))
            evs.append({"e": "XmlEquiv", "case": idx, "where": where, "s": s, "opts": "", "dwexit": rw.exit, "diffexit": rd.exit, "outlen": len(rd.out),
                        "selfcheck": 0, "ret": campaign.retof(rw, rd), "out": (rd.out + rd.err)[:300]})
        return ("ok", evs)

    events = []
    for r in vf.pmap(one, jobs):
        if r[0] == "discard":
            c.discard(r[1])
        else:
            events += r[1]
    c.cov["evaluations"] = len(events)
    c.cov["distinct_nontrivial"] = len({(e["where"], e["s"]) for e in events if e["s"]}) + len({e["case"] for e in events if e["where"] == "plain" and e.get("nrefs", 0) > 4})
    c.cov["rule"] = ("all %d non-empty strings TLC enumerates over Sigma (length <= %d) placed in 6 input-controlled positions (function / variable symbol name via objcopy, SONAME, "
                     "DT_NEEDED, source directory, source file name) of TLC-generated programs, plus plain 1-3 TU programs; abidw with and without --annotate; output projected with "
                     "expat: well-formed, referenced type ids defined exactly once, referenced symbol ids listed; non-trivial = distinct (position, string) + plain programs with > 4 type references"
                     % (len(strings), 3 if c.thorough else 2))
    for e in events[:3]:
        c.sample(e)
    case_of = lambda ev: campaign.case_files(os.path.join(c.workdir, "q%d" % ev["case"]))
    vf.pmap(lambda i: c.validate("AbiTrace.tla", "AbiTrace.cfg", events[i:i + 3000], case_of=case_of), range(0, len(events), 3000), jobs=4)
    c.assumptions += ["expat decides well-formedness"]
    c.finish()


def replay(path):
    return vf.replay_event("AbiTrace.tla", "AbiTrace.cfg", path)
