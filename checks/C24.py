"""C24 -- type suppressions never hide changes that violate their constraints.

Model: spec/Suppr.tla.  TLC exhausts (mode "ranges") every struct of <= 3 (quick) / 4 (thorough) char/int members x one
catalogue mutation (member insert / remove / swap / retype) x [suppress_type] sections with one or two insertion ranges over
the boundaries {0, 32, 64, end, offset_of(m), offset_after(m)} and (mode "names") every changed type of a small universe x
sections over name / name_regexp / name_not_regexp / type_kind / accessed_through / source_location_not_in /
file_name_regexp / soname_regexp, and checks  HiddenCode (the transcription of type_suppression::suppresses_diff)  =>
MayHide (every given constraint satisfied; no removal, no shrink, every inserted member inside some range; an invalid
pattern matches no name).  While the transcribed source is in place the faithful configuration (NullRegexIsSkipped) is run
too, expected to fail; its counterexample is recorded.

Conformance: program pairs from spec/SupprCase.tla with exactly one mutation of a struct reachable from an exported
interface, compiled by gcc (and clang); the layouts (member offsets and sizes, old and new) are measured with a probe program
compiled by the same compiler, not taken from libabigail; sections are drawn by TLC (spec/SupprGen.tla) in strata
(pattern alone -- including the malformed `(`, `a[`, `*a`, `a{`, verified to be rejected by regcomp --, name + ranges,
patterns + kind, name + kind + access path + location, everything) and renamed onto the program (S1 = the mutated struct,
T3 = a typedef of it, m1..m4 = its members, m9 = the inserted member).  One event per (pair, section): baseline report vs
report with the section.  Guard (safety direction only):  hidden => Suppr!MayHide(section, c) for some changed type c of
the model (the mutated struct, every named type containing or referring to it, the exchanged member types), or an unnamed
pointer / array / function type node that the section cannot be shown not to match.

Readings (weakest reasonable; documented in spec/Suppr.tla):
  * "hidden" = the report or the exit status with the section differs from the baseline in any way;
  * `has_data_member_inserted_at = X` means [X, infinity) (upstream's test11-add-data-member-2 expects that), `= end` means
    after the last old member; offset_after(m) may be read as the manual says or as the code does (next member's offset);
  * a change without any insertion is not forbidden to be hidden by an insertion-range section (the statement lists removal,
    shrinking, insertion outside all ranges);
  * insertion ranges constrain struct changes only; `name` shadows the patterns of a [suppress_type] section;
  * offset_after(last member) is offset + size of the member's *type* in the code (a bit-field's storage unit), offset + width
    by the manual: the declarative range accepts both.
"""
import os, threading
import vf, campaign, difftree
from checks import _suppr as S

MALFORMED = ["(", "a[", "*a", "a{"]     # a pattern cannot *start* with an INI delimiter: `x = \\[` is not read as the string "[" (INI layer, C25/C39)
STRATA = [("pattern", (2,), 1, 8, 8), ("name+ranges", (1, 9, 10), 2, 120, 9), ("patterns+kind", (2, 3, 4), 2, 60, 4),
          ("name+kind+path+loc", (1, 4, 5, 6), 2, 60, 4), ("all", tuple(range(1, 11)), 3, 120, 5)]     # name, fields, odds, generated, used per pair


def cprog_base_bits(types, member):
    t = types[member["t"] - 1]
    return S.cprog.BASES[t["id"]][1] * 8 if t["k"] == "base" else 32


def mapping(case, lay_old, lay_new, sname):
    mx = S.max_id(case)
    m = {"S1": sname, "S9": "S%d" % (mx + 7), "S12": "S%d" % (mx + 9)}
    tds = [n["name"] for n in case["c24"]["named"] if n["kind"] == "typedef"]
    m["T3"] = sorted(tds)[0] if tds else "T%d" % (mx + 8)
    old = [x["n"] for x in lay_old["members"]]
    new = [x["n"] for x in lay_new["members"]]
    for k in range(1, 5):
        m["m%d" % k] = old[k - 1] if k <= len(old) else "m7%d" % k
    ins = [n for n in new if n not in old]
    m["m9"] = ins[0] if ins else "m99"
    return m


def boundary_sections(sname, old, new):
    """deterministic [suppress_type] sections whose insertion ranges sit ON the boundaries of this very pair (measured layout): `end`, the
    offsets of / after the last old members, and the inserted member's own offset -1 / +0 / +1 -- the places where `>` and `>=` differ"""
    F = S.supprfile
    at = lambda b: F.section("type", name=sname, ranges=[F.range_at(b)])
    btw = lambda b, e: F.section("type", name=sname, ranges=[F.range_between(b, e)])
    oldn = [m["n"] for m in old["members"]]
    secs = [at(F.END), btw(F.END, F.END)]
    for m in old["members"][-2:]:
        secs += [at(F.bnd("offset_of", m=m["n"])), at(F.bnd("offset_after", m=m["n"])), btw(F.bnd("offset_after", m=m["n"]), F.END),
                 btw(F.bnd("int", v=0), F.bnd("offset_of", m=m["n"]))]
    for x in [m for m in new["members"] if m["n"] not in oldn][:1]:
        o = x["off"]
        secs += [at(F.bnd("int", v=o)), at(F.bnd("int", v=o + 1)), btw(F.bnd("int", v=0), F.bnd("int", v=o)), btw(F.bnd("int", v=o), F.bnd("int", v=o))]
        if o > 0:
            secs += [btw(F.bnd("int", v=0), F.bnd("int", v=o - 1))]
    return secs


def main():
    c = vf.Check("C24", "model_checking")
    vf.build("hooks")
    fp = S.fingerprints()
    c.cov["source_fingerprints"] = fp["detail"]
    err = []

    def bg():
        try:
            S.run_models(c, ["ranges", "names"], fp)
        except SystemExit as ex:
            err.append(ex)
    th = threading.Thread(target=bg)
    th.start()

    tool = vf.tool("hooks", "abidiff")
    # the generators run side by side (one JVM each)
    jobs = [("cases", lambda: S.gen_cases(c, 600 if c.thorough else 70, constraints=("StructMutsOnly",), MutCats='{"breaking"}', MinMuts=1, MaxMuts=1, MaxIfaces=4))]
    for name, fields, odds, ngen, nuse in STRATA:
        jobs.append((name, (lambda name=name, fields=fields, odds=odds, ngen=ngen:
                            S.gen_sections(c, ngen * (3 if c.thorough else 1), ["type"], fields=fields, odds=odds, name="sec-" + name.replace("+", "-")))))
    got = dict(vf.pmap(lambda j: (j[0], j[1]()), jobs, jobs=6))
    cases = got.pop("cases")
    strata = got
    S.tick(c, "generated")
    bad = sorted(S.invalid_patterns(c, MALFORMED))
    if not bad:
        vf.infra("regcomp accepts every malformed pattern")
    comps = ["gcc", "clang"] if c.thorough else ["gcc"]

    def one(job):
        idx, case, comp = job
        if not case["expect"]["abiChanged"] or len(case["muts"]) != 1:
            return [("discard", "mutation-not-effective-in-model")]
        mut = case["muts"][0]
        sname = S.type_name(case["types2"][mut["ty"] - 1])
        a, e1, da = S.build(c, idx, case, comp, which=1, sub=comp + "/a")
        b, e2, db = S.build(c, idx, case, comp, which=2, sub=comp + "/b")
        if not a or not b:
            return [("discard", "does-not-compile")]
        cc = "clang" if comp.startswith("clang") else "gcc"
        lo, ln = S.probe_layout(os.path.join(da, "probe"), case["types"], cc), S.probe_layout(os.path.join(db, "probe"), case["types2"], cc)
        if not lo or not ln or sname not in lo or sname not in ln:
            return [("discard", "layout-probe-failed")]
        old, new = lo[sname], ln[sname]
        # size = the bits a member occupies (measured); tsize = the size of its declared type (differs for a bit-field: the model
        # gives bit-fields a base type, whose size the compiler's sizeof cannot be asked for through the member)
        for lay, sfx in ((old, ""), (new, "2")):
            ty = case["types" + sfx][mut["ty"] - 1]
            for mem, mm in zip(lay["members"], ty["m"]):
                mem["tsize"] = cprog_base_bits(case["types" + sfx], mm) if mm["bw"] else mem["size"]
        # a member dropped and another one put at the same offset is reported by libabigail as one *changed* member
        # (class_or_union_diff folds them): not a plain removal / insertion -- cannot happen with a single mutation
        types = []
        for n in case["c24"]["named"]:
            defined = n["kind"] in ("struct", "union", "enum", "typedef")
            t = S.tchange(n["name"], n["kind"], "types.h" if defined else "", "types.h" if defined else "", n["viaPtr"])
            if n["name"] == sname:
                t.update(old=old["members"], new=new["members"], sizeOld=old["size"], sizeNew=new["size"])
            types.append(t)
        change = {"types": types, "derived": sorted(case["c24"]["derived"]), "mutation": mut["kind"], "struct": sname}
        env = vf.henv(da)
        r0 = S.abidiff(tool, a, b, env=env)
        m = mapping(case, old, new, sname)
        rng = c.rng.__class__(c.seed * 7907 + idx)
        picks = []
        for name, fields, odds, ngen, nuse in STRATA:
            pool = strata[name]
            picks += [(name, s) for s in (pool if len(pool) <= nuse else rng.sample(pool, nuse))]
        if mut["kind"] in ("member-insert", "member-remove"):
            picks += [("boundary", sec) for sec in boundary_sections(sname, old, new)]
        evs = []
        for k, (stratum, sec) in enumerate(picks):
            s = sec if stratum == "boundary" else S.instantiate(sec, m)
            for key in ("name_regexp", "name_not_regexp", "file_name_regexp", "soname_regexp"):
                if s[key]["k"] == "invalid":
                    s[key] = dict(s[key], bad=bad[(k + idx) % len(bad)])
            f = S.write_suppr(os.path.join(da, "s%d.suppr" % k), s)
            r1 = S.abidiff(tool, a, b, suppr=f, env=env)
            same = r1.out == r0.out and r1.exit == r0.exit
            if not same or k % 5 == 0:          # hook H3: the forest after the suppression pass, for DiffTreeTrace (cause of every SUPPRESSED mark)
                te = difftree.tree_event(tool, a, b, [], env, idx, suppr=f, base=r1, extra={"comp": comp, "k": k, "supprFile": f})
                if te is not None:
                    evs.append(("tree",) + te)
            evs.append(("ok", {"e": "TypeSuppr", "case": idx, "comp": comp, "k": k, "stratum": stratum, "section": s, "change": change,
                               "env": {"paths": [a, b], "sonames": ["", ""]}, "hidden": not same, "same": same, "exit0": r0.exit, "exit1": r1.exit,
                               "ret": campaign.retof(r0, r1), "out0": r0.out[:300], "out1": r1.out[:300]}))
        return evs

    res = [x for xs in vf.pmap(one, [(i, cs, comp) for i, cs in enumerate(cases) for comp in comps]) for x in xs]
    events, trees = [], []
    for kind, x, *more in res:
        if kind == "discard" or (kind == "tree" and x == "discard"):
            c.discard(more[0] if more else x)
        elif kind == "tree":
            trees.append(more[0])
        else:
            events.append(x)
    S.tick(c, "replayed")
    th.join()
    S.tick(c, "models-done")
    if err:
        raise err[0]
    case_of = lambda ev: dict(campaign.case_files(os.path.join(c.workdir, "p%d" % ev["case"], ev["comp"])),
                              **{"section.suppr": S.supprfile.render(ev["section"])})
    S.validate(c, events, case_of)
    tree_case = lambda ev: dict(campaign.case_files(os.path.join(c.workdir, "p%d" % ev["case"], ev["comp"])), **{"section.suppr": open(ev["supprFile"]).read()})
    vf.pmap(lambda i: c.validate("DiffTreeTrace.tla", "DiffTreeTrace.cfg", trees[i:i + 400], case_of=tree_case), range(0, len(trees), 400), jobs=6)
    c.cov["diff_forests_validated"] = len(trees)
    c.cov["diff_forests_with_suppressed_nodes"] = sum(1 for t in trees if any(n["sup"] for n in t["nodes"]))
    S.tick(c, "validated")
    live = [e for e in events if not e.get("_skipped")]
    c.cov["evaluations"] = len(live)
    c.cov["distinct_nontrivial"] = len({(e["case"], e["comp"], e["k"]) for e in live if e["hidden"] or e["section"]["ranges"] or e["section"]["name_regexp"]["k"] == "invalid"})
    c.cov["hidden"] = sum(1 for e in live if e["hidden"])
    c.cov["by_stratum"] = {n: {"events": sum(1 for e in live if e["stratum"] == n), "hidden": sum(1 for e in live if e["stratum"] == n and e["hidden"])} for n in [x[0] for x in STRATA] + ["boundary"]}
    c.cov["by_mutation"] = {k: sum(1 for e in live if e["change"]["mutation"] == k) for k in sorted({e["change"]["mutation"] for e in live})}
    c.cov["malformed_patterns"] = bad
    c.cov["rule"] = ("TLC-generated program pairs with exactly one mutation (member insert / remove / swap / retype) of a struct reachable from an exported interface, "
                     "compiled by %s, layouts measured by a probe program; x [suppress_type] sections drawn by TLC from the component sets of Suppr.tla in 5 strata and renamed "
                     "onto the pair, plus for insertions / removals a deterministic stratum of ranges ON the pair's own boundaries (end, offset_of / offset_after of the last members, the "
                     "inserted member's offset -1 / +0 / +1); one event = baseline vs suppressed abidiff run; guard hidden => MayHide for some changed type of the model; non-trivial = events where "
                     "something was hidden, or the section carries insertion ranges or a malformed pattern" % comps)
    for e in [e for e in live if e["hidden"]][:2] + [e for e in live if e["section"]["ranges"]][:2]:
        c.sample({k: e[k] for k in ("section", "hidden", "exit0", "exit1", "stratum")} | {"struct": e["change"]["struct"], "mutation": e["change"]["mutation"]})
    c.assumptions += ["Readings: see the module docstring of checks/C24.py and the header of spec/Suppr.tla",
                      "layout facts come from a probe program compiled with the same compiler (x86-64), not from libabigail"]
    c.finish()


replay = S.replay
suppr_application_events = S.suppr_application_events      # C25 (application part): imported by checks/C25.py
