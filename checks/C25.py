"""C25 -- loading and applying any suppression file never crashes.

Model: Ini.tla ParseTotal (the transcription of the INI reader reaches Done or Reject from every token string of the explored
spaces -- NullDeref / Abort / Hang are explicit outcomes TLC can reach) -- checked by TLC via checks/C39's configurations.
Campaign (all on the ASan+UBSan build): (1) read_config on every text of the model's spaces (harness, validated by IniTrace);
(2) the same texts, grammar-made suppression sections and byte mutations of real suppression files given to abidiff, abidw,
abicompat (--suppressions) and as KMI whitelists, applied to binaries that have aliased C functions, versioned symbols and
changed types (so that evaluation paths run); every run is an event judged by TLC (RobustTrace)."""
import os, subprocess, json, glob, re
import vf, campaign
from checks import C39, _reader


LIB_A = """
struct S { int a; long b; char c[3]; }; union U { int x; float y; }; enum E { E0, E1 }; typedef struct S T;
int fn1(struct S* s) { return s->a; }
int fn2(T t, union U u) { return t.a + u.x; }
void fn3(enum E e) { }
int fn1_alias(struct S* s) __attribute__((alias("fn1")));
int fn1_weak(struct S* s) __attribute__((weak, alias("fn1")));
int var1; extern int var2 __attribute__((alias("var1")));
struct S var3;
"""
LIB_B = LIB_A.replace("long b;", "long b; int inserted;").replace("void fn3(enum E e) { }", "").replace("enum E { E0, E1 }", "enum E { E0, E1, E2 }")
APP = "extern int fn1(void*); extern int fn2(); extern int var1; int main(void) { return fn1(0) + var1; }\n"

PROPS = ["name", "name_regexp", "name_not_regexp", "symbol_name", "symbol_name_regexp", "symbol_name_not_regexp", "symbol_version", "symbol_version_regexp",
         "file_name_regexp", "file_name_not_regexp", "soname_regexp", "soname_not_regexp", "type_kind", "accessed_through", "source_location_not_in",
         "source_location_not_regexp", "has_data_member_inserted_at", "has_data_member_inserted_between", "has_data_members_inserted_between", "changed_enumerators",
         "change_kind", "allow_other_aliases", "return_type_name", "return_type_regexp", "parameter", "drop", "drop_artifact", "label", "nonsense_property"]
SECTIONS = ["suppress_type", "suppress_function", "suppress_variable", "suppress_file", "abi_whitelist", "unknown_section"]
VALUES = ["S", ".*", "^fn1$", "(", "[", "*a", "a{", "a\\", "", "{", "}", "{}", "{,}", "{a,b}", "{{a,b},{c}}", "{0, end}", "{offset_of(b), end}", "{offset_after(zz), 8}",
          "offset_of(", "end", "-1", "99999999999999999999999", "0x", "struct", "enum", "pointer", "yes", "no", "all", "added-function", "function-subtype-change",
          "'@ integer_type", "'0 S*", "' ", "'", "a,b,c", "a = b", "[x]", ";c", "#c", "\;", "\xff\xfe"]


def grammar_files(rng, n):
    out = []
    for _ in range(n):
        lines = []
        for _s in range(rng.randrange(1, 4)):
            lines.append("[%s]" % rng.choice(SECTIONS))
            for _p in range(rng.randrange(0, 5)):
                p = rng.choice(PROPS)
                form = rng.randrange(6)
                v = rng.choice(VALUES)
                lines.append({0: "  %s = %s" % (p, v), 1: "  %s" % p, 2: "  %s =" % p, 3: "  %s = %s, %s" % (p, v, rng.choice(VALUES)),
                              4: "  %s = {%s}" % (p, v), 5: "%s=%s=%s" % (p, v, v)}[form])
        out.append(("grammar", "\n".join(lines).encode("latin-1", "replace") + b"\n"))
    return out


def main():
    c = vf.Check("C25", "exploration")
    vf.build("asan")
    # (0) the model: ParseTotal etc. on the INI transcription (configuration helpers of C39)
    spaces = C39.ini_spaces(c)
    # (1) reader totality under ASan
    per_shard = C39.ini_total_events(c, "asan", spaces=spaces, nrandom=(20000 if c.thorough else 800))
    parse_events = [[e for e in evs if e.get("e") == "Parse"] for evs in per_shard]
    bad = []
    n1 = sum(len(x) for x in parse_events)

    def val(evs):
        if not evs:
            return None
        return vf.tlc_validate("IniTrace.tla", "IniTrace.cfg", evs, timeout=3000)
    for evs, r in zip(parse_events, vf.pmap(val, parse_events, jobs=8)):
        if r is None:
            continue
        c.cov["traces_validated_against_impl"] += len(evs)
        for (i, ev, v) in r["bad"]:
            c.violation("read_config: trace IniTrace.tla rejects the event (%s)" % v, ev, C39._case_of)
    c.cov["models"].append({"spec": "IniTrace.tla (Combined, spaces of the tier)", "states": sum(len(a) ** k for (_n, a, _p, m) in spaces for k in range(m + 1))})
    c.cov["states"] += sum(len(a) ** k for (_n, a, _p, m) in spaces for k in range(m + 1))
    c.cov["transitions"] += c.cov["states"]

    # (2) tools applying suppression files
    d = os.path.join(c.workdir, "bins")
    os.makedirs(d, exist_ok=True)
    open(os.path.join(d, "a.c"), "w").write(LIB_A)
    open(os.path.join(d, "b.c"), "w").write(LIB_B)
    open(os.path.join(d, "app.c"), "w").write(APP)
    open(os.path.join(d, "v.map"), "w").write("V1 { global: fn1; fn2; var1; }; V2 { global: fn1_alias; } V1;\n")
    for n in ("a", "b"):
        subprocess.run(["gcc", "-g", "-w", "-shared", "-fPIC", "-Wl,--version-script=v.map", "-o", n + ".so", n + ".c"], cwd=d, check=False)
        if not os.path.exists(os.path.join(d, n + ".so")):
            subprocess.run(["gcc", "-g", "-w", "-shared", "-fPIC", "-o", n + ".so", n + ".c"], cwd=d, check=True)
    subprocess.run(["gcc", "-g", "-w", "-o", "app", "app.c", "./a.so"], cwd=d, check=True)
    files = grammar_files(c.rng, 1500 if c.thorough else 160)
    # texts of the model's value space, as suppression sections
    for (sname, alphabet, prefix_, maxlen_) in spaces:
        if sname.startswith("value") or "x=" in "".join(prefix_):
            toks = [t for t in alphabet]
            for _ in range(300 if c.thorough else 40):
                w = "".join(c.rng.choice(toks) for _k in range(c.rng.randrange(0, 6)))
                for sec, prop in (("suppress_type", "name_regexp"), ("suppress_function", "name_not_regexp"), ("suppress_variable", "symbol_name_regexp"),
                                  ("suppress_type", "has_data_member_inserted_between")):
                    files.append(("model-text", ("[%s]\n  %s = %s\n" % (sec, prop, w)).encode("latin-1", "replace")))
    # byte mutations of real suppression files
    real = sorted(glob.glob(os.path.join(vf.REPO, "tests/data/test-diff-suppr/*.suppr")))[:40] + [os.path.join(vf.REPO, "default.abignore")]
    for p in real:
        try:
            data = open(p, "rb").read()
        except OSError:
            continue
        for _ in range(6 if c.thorough else 1):
            b = bytearray(data)
            for _k in range(c.rng.randrange(1, 4)):
                if b:
                    op = c.rng.randrange(3)
                    i = c.rng.randrange(len(b))
                    if op == 0:
                        b[i] = c.rng.choice(b"[]{}=,;#\\\n '\"(*")
                    elif op == 1:
                        del b[i:i + c.rng.randrange(1, 8)]
                    else:
                        b[i:i] = bytes(c.rng.choice(b"[]{}=,\\\n") for _q in range(3))
            files.append(("mutated-real", bytes(b)))
    abidiff, abidw, abicompat = vf.tool("asan", "abidiff"), vf.tool("asan", "abidw"), vf.tool("asan", "abicompat")
    sd = os.path.join(c.workdir, "suppr")
    os.makedirs(sd, exist_ok=True)
    a, b, app = os.path.join(d, "a.so"), os.path.join(d, "b.so"), os.path.join(d, "app")

    def one(job):
        i, (cls, data) = job
        f = os.path.join(sd, "s%d.suppr" % i)
        open(f, "wb").write(data)
        runs = [("abidiff", [abidiff, "--no-default-suppression", "--suppressions", f, a, b]),
                ("abidw", [abidw, "--suppressions", f, "--noout", b]),
                ("abicompat", [abicompat, "--suppressions", f, app, a, b])]
        if i % 3 == 0:
            runs += [("abidw-kmi", [abidw, "--kmi-whitelist", f, "--noout", a]), ("abidiff-kmi", [abidiff, "--kmi-whitelist", f, a, b]),
                     ("abidiff-leaf", [abidiff, "--no-default-suppression", "--leaf-changes-only", "--suppressions", f, a, b])]
        evs = []
        for tool, cmd in runs:
            r = _reader.run(cmd, sd, 30)
            k = _reader.classify(r)
            evs.append({"e": "Run", "tool": tool, "input": cls, "file": os.path.basename(f), "ret": k["ret"], "kind": k["kind"], "fn": k["fn"] or "",
                        "foreign": bool(k["foreign"]), "exit": r.exit, "err": r.err[-300:] if k["ret"] != "ok" else ""})
        if all(e["ret"] == "ok" for e in evs):
            os.remove(f)
        return evs

    events = [e for evs in vf.pmap(one, list(enumerate(files)), jobs=12) for e in evs]

    def case_of(ev):
        p = os.path.join(sd, ev["file"])
        return {"input.suppr": open(p, "rb").read(), "a.c": LIB_A, "b.c": LIB_B} if os.path.exists(p) else {}
    vf.pmap(lambda i: c.validate("RobustTrace.tla", "RobustTrace.cfg", events[i:i + 3000], case_of=case_of), range(0, len(events), 3000), jobs=4)
    # (3) the grammar of odd suppression files of checks/_suppr.py (valueless properties, lists where strings are expected, invalid regular expressions
    # in every regexp property, name_not_regexp on aliased C functions, garbage insertion ranges ...), judged by SupprTrace!VSupprRun
    from checks import _suppr
    sev = _suppr.suppr_application_events(c, "asan")
    def sev_case(ev):
        return {"input.suppr": ev.get("text", ""), "tool": ev.get("tool", "")}
    vf.pmap(lambda i: c.validate("SupprTrace.tla", "SupprTrace.cfg", sev[i:i + 2000], case_of=sev_case), range(0, len(sev), 2000), jobs=4)
    c.cov["suppr_application_events"] = len(sev)
    c.cov["evaluations"] = n1 + len(events) + len(sev)
    c.cov["distinct_nontrivial"] = len({e["file"] for e in events}) + n1 // 10
    c.cov["finding_sites"] = sorted({"%s|%s|%s|%s" % (e["input"], e["tool"], e["kind"], e["fn"]) for e in events if e["ret"] != "ok"})
    c.cov["rule"] = ("(1) read_config under ASan on every text of the model's explored INI spaces + composed longer texts (%d Parse events, validated against the transcription); "
                     "(2) %d suppression / whitelist files (grammar-made sections over %d property names x odd values, model texts as regexps and insertion ranges, byte-mutated real "
                     "suppression files) applied by abidiff, abidw, abicompat (and as KMI whitelists) on the ASan build to a library pair with aliased and versioned symbols and "
                     "changed types; non-trivial = distinct files + a tenth of the parse events" % (n1, len(files), len(PROPS)))
    for e in events[:3]:
        c.sample(e)
    c.assumptions += ["trusted: AddressSanitizer/UndefinedBehaviorSanitizer observe invalid memory accesses; CPU-time limit 30 s stands for 'hang'"]
    c.finish()


def replay(path):
    return vf.replay_event("RobustTrace.tla", "RobustTrace.cfg", path)
