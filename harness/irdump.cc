// irdump <binary-or-abixml>
//
// Projection of the type graph of a loaded ABI corpus through the public API (property C20).  The corpus is loaded the way
// tools/abidw.cc does (dwarf_reader::create_read_context + read_corpus_from_elf), or, for a name ending in .abi / .xml, with
// xml_reader::read_corpus_from_native_xml_file.  Prints ONE JSON line:
//
//   {"ok":true, "types":[T...], "fns":[{"name":..,"t":#}...], "vars":[{"name":..,"t":#}...]}
//
// T = {"n":#, "k":kind, "name":.., "sig":"...", "kids":[#...], "canon":#, "decl":bool, "def":#, "skip":""|reason}
//   n      small integer identifying the type object (the number hook H5 uses for the same object when the library carries the
//          hook: abg_verif_canon_number(); otherwise numbers are assigned here on first sight)
//   k      base struct union enum typedef ptr ref qual array fn void variadic other
//   sig    every *local* attribute the equals() overload of that kind looks at (src/abg-ir.cc), as text:
//            base     name, size, alignment                                 (equals(type_decl): decl_base + type_base)
//            struct / union   name (all anonymous ones share one name: get_decl_name_for_comparison), size, alignment, and per
//                     non-static data member its name, offset, laid-out flag, access (var_decl / dm_context_rel equality);
//                     static members, member functions and member types are not compared by equals(class_or_union);
//                     a declaration-only class: just "decl" + name (C: it equals only a decl-only class of the same name)
//            enum     name, size, alignment, sorted enumerators             typedef  name
//            ptr      (nothing)            ref   lvalue / rvalue            qual     cv bits
//            array    the bounds and names of the sub-ranges                fn       size, alignment, parameter count, variadic
//   kids   the sub-types equals() recurses into, in its order (member types; pointed-to; underlying; element; return + parameters)
//   canon  number of the canonical type object (0: none)
//   decl / def   declaration-only class, and the number of its definition (0: unresolved); equality looks through a resolved one
//   skip   non-empty: a type whose equality this projection cannot decide soundly (C++ class with bases / virtual functions,
//          enum with duplicate values, method types, anonymous scope components); TLC leaves pairs with such a type out
//
// The harness only records.  Structural equality (the greatest bisimulation over sig + kids) and the comparison with the
// canonical numbers are computed by TLC (spec/CanonTrace.tla).
#include <cstdio>
#include <cstring>
#include <string>
#include <vector>
#include <map>
#include <set>
#include <algorithm>
#include <iostream>
#include <sstream>
#include "abg-dwarf-reader.h"
#include "abg-reader.h"
#include "abg-corpus.h"
#include "abg-ir.h"

using namespace abigail;
using namespace abigail::ir;
using std::string;
using std::vector;

extern "C" int abg_verif_canon_number(const void*) __attribute__((weak));   // defined by hook H5 (src/abg-ir.cc) when present

static string
esc(const string& s)
{
  string r;
  for (size_t i = 0; i < s.size(); ++i)
    {
      unsigned char c = s[i];
      if (c == '"' || c == '\\')
	{r += '\\'; r += c;}
      else if (c < 0x20)
	{char b[8]; snprintf(b, sizeof(b), "\\u%04x", c); r += b;}
      else
	r += c;
    }
  return r;
}
static string q(const string& s) {return "\"" + esc(s) + "\"";}

struct rec
{
  int n;
  string k, name, sig, skip;
  vector<const type_base*> kids;
  const type_base* canon;
  bool decl;
  const type_base* def;
};

static std::map<const type_base*, int> numbers;
static vector<const type_base*> order;      // discovery order
static std::map<const type_base*, rec> recs;
static int next_number = 0;

static int
number_of(const type_base* t)
{
  if (!t)
    return 0;
  std::map<const type_base*, int>::iterator i = numbers.find(t);
  if (i != numbers.end())
    return i->second;
  int n = abg_verif_canon_number ? abg_verif_canon_number(t) : ++next_number;
  numbers[t] = n;
  return n;
}

static string
num(unsigned long long v)
{std::ostringstream o; o << v; return o.str();}

static void visit(const type_base* t);

static const type_base*
kid(rec& r, const type_base_sptr& t)
{
  r.kids.push_back(t.get());
  return t.get();
}

static string
decl_name(const decl_base* d, rec& r)
{
  if (d->get_is_anonymous())
    return "<anonymous>";
  // (the global scope itself is "anonymous": only a named or anonymous *inner* scope matters)
  string n = d->get_qualified_name(/*internal=*/true);
  if ((d->get_scope() && !is_global_scope(d->get_scope()) && d->get_has_anonymous_parent())
      || n.find("__anonymous_") != string::npos)
    r.skip = "anonymous-scope";
  return n;
}

static void
visit(const type_base* t)
{
  if (!t || recs.count(t))
    return;
  rec& r = recs[t];
  order.push_back(t);
  r.n = number_of(t);
  r.canon = t->get_naked_canonical_type();
  r.decl = false;
  r.def = 0;
  const environment* env = t->get_environment();
  string sz = num(t->get_size_in_bits()) + "/" + num(t->get_alignment_in_bits());

  if (env->is_void_type(t))
    {r.k = "void"; r.sig = "void";}
  else if (env->is_variadic_parameter_type(t))
    {r.k = "variadic"; r.sig = "...";}
  else if (const class_or_union* c = is_class_or_union_type(t))
    {
      r.k = is_union_type(t) ? "union" : "struct";
      r.name = decl_name(c, r);
      if (c->get_is_declaration_only())
	{
	  r.decl = true;
	  r.sig = "decl " + r.name;
	  if (const decl_base* d = c->get_naked_definition_of_declaration())
	    r.def = is_type(d);
	}
      else
	{
	  r.sig = r.name + " " + sz;
	  const class_or_union::data_members& dms = c->get_non_static_data_members();
	  for (class_or_union::data_members::const_iterator i = dms.begin(); i != dms.end(); ++i)
	    {
	      const var_decl_sptr& m = *i;
	      r.sig += " {" + (m->get_is_anonymous() ? string("<anonymous>") : string(m->get_name())) + "@"
		+ (get_data_member_is_laid_out(m) ? num(get_data_member_offset(m)) : string("-"))
		+ ":" + num(get_member_access_specifier(m)) + "}";
	      kid(r, m->get_type());
	    }
	  if (!c->get_member_function_templates().empty() || !c->get_member_class_templates().empty())
	    r.skip = "templates";
	  if (const class_decl* cl = is_class_type(t))
	    if (!cl->get_base_specifiers().empty() || !cl->get_virtual_mem_fns().empty())
	      r.skip = "c++-class";
	}
    }
  else if (const enum_type_decl* e = is_enum_type(t))
    {
      r.k = "enum";
      r.name = decl_name(e, r);
      vector<string> es;
      std::set<long long> vals;
      for (enum_type_decl::enumerators::const_iterator i = e->get_enumerators().begin(); i != e->get_enumerators().end(); ++i)
	{
	  std::ostringstream o;
	  o << i->get_name() << "=" << (long long) i->get_value();
	  es.push_back(o.str());
	  if (!vals.insert(i->get_value()).second)
	    r.skip = "enum-duplicate-values";
	}
      std::sort(es.begin(), es.end());
      r.sig = r.name + " " + sz;
      for (size_t i = 0; i < es.size(); ++i)
	r.sig += " " + es[i];
      kid(r, e->get_underlying_type());
    }
  else if (const typedef_decl* td = is_typedef(t))
    {
      r.k = "typedef";
      r.name = decl_name(td, r);
      r.sig = r.name;
      kid(r, td->get_underlying_type());
    }
  else if (const pointer_type_def* p = is_pointer_type(t))
    {
      r.k = "ptr";
      kid(r, p->get_pointed_to_type());
    }
  else if (const reference_type_def* rf = is_reference_type(t))
    {
      r.k = "ref";
      r.sig = rf->is_lvalue() ? "lvalue" : "rvalue";
      kid(r, rf->get_pointed_to_type());
    }
  else if (const qualified_type_def* qt = is_qualified_type(t))
    {
      r.k = "qual";
      r.sig = num(qt->get_cv_quals());
      kid(r, qt->get_underlying_type());
    }
  else if (const array_type_def* a = is_array_type(t))
    {
      r.k = "array";
      const vector<array_type_def::subrange_sptr>& subs = a->get_subranges();
      for (size_t i = 0; i < subs.size(); ++i)
	{
	  std::ostringstream o;
	  o << "[" << subs[i]->get_lower_bound() << ".." << subs[i]->get_upper_bound() << " " << string(subs[i]->get_name()) << "]";
	  r.sig += o.str();
	}
      kid(r, a->get_element_type());
    }
  else if (const function_type* f = is_function_type(t))
    {
      r.k = "fn";
      if (is_method_type(t))
	r.skip = "method-type";
      r.sig = sz + " (" + num(f->get_parameters().size()) + ")";
      kid(r, f->get_return_type());
      for (function_type::parameters::const_iterator i = f->get_parameters().begin(); i != f->get_parameters().end(); ++i)
	{
	  r.sig += (*i)->get_variadic_marker() ? " ..." : (" #" + num((*i)->get_index()));
	  if ((*i)->get_type())
	    kid(r, (*i)->get_type());
	}
    }
  else if (const type_decl* b = is_type_decl(t))
    {
      r.k = "base";
      r.name = decl_name(b, r);
      r.sig = r.name + " " + sz;
    }
  else
    {
      r.k = "other";
      r.skip = "unknown-kind";
    }

  // visit after filling the record (recs[] references stay valid in std::map)
  vector<const type_base*> ks = r.kids;
  const type_base* def = r.def;
  const type_base* canon = r.canon;
  for (size_t i = 0; i < ks.size(); ++i)
    visit(ks[i]);
  visit(def);
  visit(canon);
}

static void
visit_map(const istring_type_base_wptrs_map_type& m)
{
  // deterministic order: by name, then position
  vector<string> names;
  for (istring_type_base_wptrs_map_type::const_iterator i = m.begin(); i != m.end(); ++i)
    names.push_back(i->first);
  std::sort(names.begin(), names.end());
  for (size_t k = 0; k < names.size(); ++k)
    for (istring_type_base_wptrs_map_type::const_iterator i = m.begin(); i != m.end(); ++i)
      if (string(i->first) == names[k])
	for (size_t j = 0; j < i->second.size(); ++j)
	  if (type_base_sptr t = i->second[j].lock())
	    visit(t.get());
}

int
main(int argc, char* argv[])
{
  if (argc < 2)
    {
      fprintf(stderr, "usage: irdump <binary|file.abi>\n");
      return 2;
    }
  string path = argv[1];
  ir::environment_sptr env(new ir::environment);
  corpus_sptr corp;
  bool xml = path.size() > 4 && (path.substr(path.size() - 4) == ".abi" || path.substr(path.size() - 4) == ".xml");
  if (xml)
    corp = xml_reader::read_corpus_from_native_xml_file(path, env.get());
  else
    {
      vector<char**> di_roots;
      dwarf_reader::read_context_sptr c =
	dwarf_reader::create_read_context(path, di_roots, env.get(), /*load_all_types=*/argc > 2 && !strcmp(argv[2], "--load-all-types"),
					  /*linux_kernel_mode=*/false);
      elf_reader::status st = elf_reader::STATUS_UNKNOWN;
      corp = dwarf_reader::read_corpus_from_elf(*c, st);
    }
  if (!corp)
    {
      std::cout << "{\"ok\":false}" << std::endl;
      return 0;
    }

  std::ostringstream fns, vars;
  bool first = true;
  for (corpus::functions::const_iterator i = corp->get_functions().begin(); i != corp->get_functions().end(); ++i)
    {
      const function_type_sptr ft = (*i)->get_type();
      visit(ft.get());
      fns << (first ? "" : ",") << "{\"name\":" << q((*i)->get_name()) << ",\"t\":" << number_of(ft.get()) << "}";
      first = false;
    }
  first = true;
  for (corpus::variables::const_iterator i = corp->get_variables().begin(); i != corp->get_variables().end(); ++i)
    {
      const type_base_sptr vt = (*i)->get_type();
      visit(vt.get());
      vars << (first ? "" : ",") << "{\"name\":" << q((*i)->get_name()) << ",\"t\":" << number_of(vt.get()) << "}";
      first = false;
    }
  // every type of every translation unit (also those no exported interface reaches)
  const translation_units& tus = corp->get_translation_units();
  for (translation_units::const_iterator tu = tus.begin(); tu != tus.end(); ++tu)
    {
      const type_maps& m = (*tu)->get_types();
      visit_map(m.basic_types());
      visit_map(m.class_types());
      visit_map(m.union_types());
      visit_map(m.enum_types());
      visit_map(m.typedef_types());
      visit_map(m.qualified_types());
      visit_map(m.pointer_types());
      visit_map(m.reference_types());
      visit_map(m.array_types());
      visit_map(m.function_types());
    }

  std::ostringstream o;
  o << "{\"ok\":true,\"hooknumbers\":" << (abg_verif_canon_number ? "true" : "false") << ",\"types\":[";
  for (size_t i = 0; i < order.size(); ++i)
    {
      const rec& r = recs[order[i]];
      o << (i ? "," : "") << "{\"n\":" << r.n << ",\"k\":" << q(r.k) << ",\"name\":" << q(r.name) << ",\"sig\":" << q(r.k + " " + r.sig)
	<< ",\"kids\":[";
      for (size_t j = 0; j < r.kids.size(); ++j)
	o << (j ? "," : "") << number_of(r.kids[j]);
      o << "],\"canon\":" << number_of(r.canon) << ",\"decl\":" << (r.decl ? "true" : "false") << ",\"def\":" << number_of(r.def)
	<< ",\"skip\":" << q(r.skip) << "}";
    }
  o << "],\"fns\":[" << fns.str() << "],\"vars\":[" << vars.str() << "]}";
  std::cout << o.str() << std::endl;
  return 0;
}
