// Conformance harness for C39 / C25 (INI part): drives abigail::ini::read_config / write_config and records what they
// did, one ndjson event per call sequence.  It only records; TLC (spec/IniTrace.tla) judges.
//
//   ini <out> enum <alphabet-json> <prefix-json> <maxlen> <shard> <nshards>
//        every text  prefix . w,  w over the alphabet, |w| <= maxlen, in the order Ini.tla grows them (by length, then
//        lexicographic in alphabet order); text number n is handled by shard n % nshards
//   ini <out> texts <file> <shard> <nshards>      one JSON array of tokens per line
//   ini <out> configs <file> <shard> <nshards>    one JSON configuration (the shape of Ini.tla's values) per line
//
// Events (texts are token lists, strings inside configurations are lists of one-character tokens so that TLC can look
// inside them; bytes that are not printable ASCII, \n or \t are written <hh>):
//   {"e":"Parse","text":T,"ok":b,"cfg":C,"ret":R}
//   {"e":"RoundTrip","text":T,"ok1":b,"cfg1":C,"printed":"...","ptoks":T',"ok2":b,"cfg2":C,"ret":R}
//   {"e":"PrintParse","cfg":C,"printed":"...","ptoks":T',"ok2":b,"cfg2":C,"ret":R}
// R is "ok" when the calls returned.  The calls run in a forked worker that records the beginning of the event, flushes,
// calls the library, and then records the rest.  A signal raised inside the calls (SIGSEGV, SIGABRT of a failed
// assertion, SIGBUS, SIGFPE, the 10 s SIGALRM) is caught and the worker jumps back out of the calls, completes the
// truncated event with ret = "sig<N>" / "timeout" and default fields, and goes on (a process death per crash costs ~0.1 s,
// and the pinned tree crashes on a third of the texts); after 500 such recoveries the worker is replaced by a fresh one.
// When the worker dies nevertheless (sanitizer exit, a signal outside the calls) the parent completes the truncated
// event with ret = "sig<N>" / "exit<N>" and forks a new worker that resumes after the culprit.
#include <cstdio>
#include <cstdlib>
#include <cstring>
#include <string>
#include <vector>
#include <sstream>
#include <fstream>
#include <unistd.h>
#include <signal.h>
#include <setjmp.h>
#include <sys/wait.h>
#include <sys/mman.h>
#include <sys/resource.h>
#include "abg-ini.h"
using namespace abigail::ini;
using std::string;
using std::vector;

// ---------------------------------------------------------------------------------------------- a minimal JSON reader
struct jv { char t; string s; vector<jv> a; vector<std::pair<string, jv> > o;
  const jv& operator[](const char* k) const { for (size_t i = 0; i < o.size(); ++i) if (o[i].first == k) return o[i].second; static jv nil; return nil; } };
static void jws(const char*& p) { while (*p == ' ' || *p == '\n' || *p == '\t' || *p == '\r') ++p; }
static bool jparse(const char*& p, jv& v)
{
  jws(p);
  if (*p == '"')
    {
      v.t = 's'; ++p;
      while (*p && *p != '"')
	{
	  if (*p == '\\')
	    {
	      ++p;
	      switch (*p)
		{
		case 'n': v.s += '\n'; break; case 't': v.s += '\t'; break; case 'r': v.s += '\r'; break;
		case 'b': v.s += '\b'; break; case 'f': v.s += '\f'; break;
		case 'u': { unsigned c = strtoul(string(p + 1, 4).c_str(), 0, 16); p += 4;
		    if (c < 0x80) v.s += (char) c; else if (c < 0x800) { v.s += (char) (0xc0 | (c >> 6)); v.s += (char) (0x80 | (c & 0x3f)); }
		    else { v.s += (char) (0xe0 | (c >> 12)); v.s += (char) (0x80 | ((c >> 6) & 0x3f)); v.s += (char) (0x80 | (c & 0x3f)); } break; }
		default: v.s += *p;
		}
	      ++p;
	    }
	  else v.s += *p++;
	}
      if (*p != '"') return false;
      ++p; return true;
    }
  if (*p == '[')
    {
      v.t = 'a'; ++p; jws(p);
      if (*p == ']') { ++p; return true; }
      for (;;) { jv e; if (!jparse(p, e)) return false; v.a.push_back(e); jws(p); if (*p == ',') { ++p; continue; } if (*p == ']') { ++p; return true; } return false; }
    }
  if (*p == '{')
    {
      v.t = 'o'; ++p; jws(p);
      if (*p == '}') { ++p; return true; }
      for (;;) { jv k, e; if (!jparse(p, k) || k.t != 's') return false; jws(p); if (*p != ':') return false; ++p;
	if (!jparse(p, e)) return false; v.o.push_back(std::make_pair(k.s, e)); jws(p); if (*p == ',') { ++p; continue; } if (*p == '}') { ++p; return true; } return false; }
    }
  // true / false / numbers: not needed by the cases, kept as raw text
  v.t = 'r'; while (*p && *p != ',' && *p != ']' && *p != '}' && *p != ' ' && *p != '\n') v.s += *p++;
  return !v.s.empty();
}
static vector<string> tokens_of(const jv& v) { vector<string> r; for (size_t i = 0; i < v.a.size(); ++i) r.push_back(v.a[i].s); return r; }
static string cat(const vector<string>& t) { string r; for (size_t i = 0; i < t.size(); ++i) r += t[i]; return r; }
static string untoken(const jv& v)   // a token list of the model back to bytes ("<hh>" -> the byte)
{
  string r;
  for (size_t i = 0; i < v.a.size(); ++i)
    { const string& s = v.a[i].s; if (s.size() == 4 && s[0] == '<' && s[3] == '>') r += (char) strtoul(s.substr(1, 2).c_str(), 0, 16); else r += s; }
  return r;
}

// ---------------------------------------------------------------------------------------------- projection to JSON
static void jtok(string& o, unsigned char c)
{
  char b[8];
  if (c == '\n') o += "\"\\n\""; else if (c == '\t') o += "\"\\t\""; else if (c == '"') o += "\"\\\"\""; else if (c == '\\') o += "\"\\\\\"";
  else if (c >= 0x20 && c < 0x7f) { o += '"'; o += (char) c; o += '"'; }
  else { snprintf(b, sizeof b, "\"<%02x>\"", c); o += b; }
}
static void jtoks(string& o, const string& s) { o += '['; for (size_t i = 0; i < s.size(); ++i) { if (i) o += ','; jtok(o, s[i]); } o += ']'; }
static void jstr(string& o, const string& s)   // a JSON string, for human eyes only
{
  char b[8]; o += '"';
  for (size_t i = 0; i < s.size(); ++i)
    { unsigned char c = s[i]; if (c == '\n') o += "\\n"; else if (c == '\t') o += "\\t"; else if (c == '"') o += "\\\""; else if (c == '\\') o += "\\\\";
      else if (c >= 0x20 && c < 0x7f) o += (char) c; else { snprintf(b, sizeof b, "<%02x>", c); o += b; } }
  o += '"';
}
static void jtext(string& o, const vector<string>& t) { o += '['; for (size_t i = 0; i < t.size(); ++i) { if (i) o += ','; jstr(o, t[i]); } o += ']'; }

static void jvalue(string& o, const property_value_sptr& v)
{
  if (string_property_value_sptr s = is_string_property_value(v))
    { o += "{\"k\":\"str\",\"s\":"; jtoks(o, s->as_string()); o += ",\"strs\":[],\"items\":[]}"; }
  else if (list_property_value_sptr l = is_list_property_value(v))
    {
      o += "{\"k\":\"list\",\"s\":[],\"strs\":[";
      for (size_t i = 0; i < l->get_content().size(); ++i) { if (i) o += ','; jtoks(o, l->get_content()[i]); }
      o += "],\"items\":[]}";
    }
  else if (tuple_property_value_sptr t = is_tuple_property_value(v))
    {
      o += "{\"k\":\"tuple\",\"s\":[],\"strs\":[],\"items\":[";
      for (size_t i = 0; i < t->get_value_items().size(); ++i) { if (i) o += ','; jvalue(o, t->get_value_items()[i]); }
      o += "]}";
    }
  else o += "{\"k\":\"nil\",\"s\":[],\"strs\":[],\"items\":[]}";
}
static void jconfig(string& o, const config_sptr& c)
{
  o += '[';
  if (c)
    for (size_t i = 0; i < c->get_sections().size(); ++i)
      {
	const config::section& s = *c->get_sections()[i];
	if (i) o += ',';
	o += "{\"name\":"; jtoks(o, s.get_name()); o += ",\"props\":[";
	for (size_t j = 0; j < s.get_properties().size(); ++j)
	  {
	    const property_sptr& p = s.get_properties()[j];
	    if (j) o += ',';
	    o += "{\"name\":"; jtoks(o, p->get_name()); o += ",\"v\":";
	    if (simple_property_sptr sp = is_simple_property(p))
	      { if (sp->has_empty_value()) o += "{\"k\":\"str\",\"s\":[],\"strs\":[],\"items\":[]}"; else jvalue(o, sp->get_value()); }
	    else if (list_property_sptr lp = is_list_property(p)) jvalue(o, lp->get_value());
	    else if (tuple_property_sptr tp = is_tuple_property(p)) jvalue(o, tp->get_value());
	    else o += "{\"k\":\"nil\",\"s\":[],\"strs\":[],\"items\":[]}";
	    o += '}';
	  }
	o += "]}";
      }
  o += ']';
}

// ---------------------------------------------------------------------------------------------- building a configuration through the public API
// list_property_value declares no destructor, so client code cannot own one it created (its priv is incomplete here);
// a list value is therefore obtained from the reader and given its content with set_content.
static list_property_value_sptr make_list(const vector<string>& content)
{
  std::istringstream in("[t]\n x = a,b\n");
  config_sptr c = read_config(in);
  list_property_sptr lp = is_list_property(c->get_sections()[0]->get_properties()[0]);
  lp->get_value()->set_content(content);
  return lp->get_value();
}
static property_value_sptr build_value(const jv& v)
{
  const string& k = v["k"].s;
  if (k == "str") return property_value_sptr(new string_property_value(untoken(v["s"])));
  if (k == "list") { vector<string> c; for (size_t i = 0; i < v["strs"].a.size(); ++i) c.push_back(untoken(v["strs"].a[i])); return make_list(c); }
  vector<property_value_sptr> items;
  for (size_t i = 0; i < v["items"].a.size(); ++i) items.push_back(build_value(v["items"].a[i]));
  return property_value_sptr(new tuple_property_value(items));
}
static config_sptr build_config(const jv& c)
{
  config::sections_type secs;
  for (size_t i = 0; i < c.a.size(); ++i)
    {
      config::properties_type props;
      const jv& ps = c.a[i]["props"];
      for (size_t j = 0; j < ps.a.size(); ++j)
	{
	  string name = untoken(ps.a[j]["name"]);
	  const jv& v = ps.a[j]["v"];
	  property_value_sptr pv = build_value(v);
	  if (v["k"].s == "str")
	    {
	      if (v["s"].a.empty()) props.push_back(property_sptr(new simple_property(name)));
	      else props.push_back(property_sptr(new simple_property(name, is_string_property_value(pv))));
	    }
	  else if (v["k"].s == "list") props.push_back(property_sptr(new list_property(name, is_list_property_value(pv))));
	  else props.push_back(property_sptr(new tuple_property(name, is_tuple_property_value(pv))));
	}
      secs.push_back(config::section_sptr(new config::section(untoken(c.a[i]["name"]), props)));
    }
  config_sptr r(new config);
  r->set_sections(secs);
  return r;
}

// ---------------------------------------------------------------------------------------------- the recorded calls
struct progress { volatile long next; volatile int phase; };   // shared with the parent: case being run, event of that case
static progress* pg;
static FILE* out;

static void ev_parse(const vector<string>& text)
{
  string o = "{\"e\":\"Parse\",\"text\":"; jtext(o, text);
  fputs(o.c_str(), out); fflush(out);
  std::istringstream in(cat(text));
  config_sptr c = read_config(in);
  o = ",\"ok\":"; o += c ? "true" : "false"; o += ",\"cfg\":"; jconfig(o, c); o += ",\"ret\":\"ok\"}\n";
  fputs(o.c_str(), out); fflush(out);
}
static void second_half(string& o, const config_sptr& c1)   // write, read again
{
  std::ostringstream os;
  if (c1) write_config(*c1, os);
  string printed = os.str();
  std::istringstream in2(printed);
  config_sptr c2 = read_config(in2);
  o += ",\"printed\":"; jstr(o, printed); o += ",\"ptoks\":"; jtoks(o, printed);
  o += ",\"ok2\":"; o += c2 ? "true" : "false"; o += ",\"cfg2\":"; jconfig(o, c2); o += ",\"ret\":\"ok\"}\n";
}
static void ev_roundtrip(const vector<string>& text)
{
  string o = "{\"e\":\"RoundTrip\",\"text\":"; jtext(o, text);
  fputs(o.c_str(), out); fflush(out);
  std::istringstream in(cat(text));
  config_sptr c1 = read_config(in);
  o = ",\"ok1\":"; o += c1 ? "true" : "false"; o += ",\"cfg1\":"; jconfig(o, c1);
  second_half(o, c1);
  fputs(o.c_str(), out); fflush(out);
}
static void ev_printparse(const string& line)
{
  const char* p = line.c_str(); jv c;
  if (!jparse(p, c) || c.t != 'a') { fprintf(stderr, "ini: bad configuration case: %s\n", line.c_str()); _exit(2); }
  config_sptr c1 = build_config(c);
  string o = "{\"e\":\"PrintParse\",\"cfg\":"; jconfig(o, c1);    // what the API gives back for the configuration just built
  fputs(o.c_str(), out); fflush(out);
  o.clear();
  second_half(o, c1);
  fputs(o.c_str(), out); fflush(out);
}
// default fields of an event the worker did not finish (phase: 0 Parse, 1 RoundTrip, 2 PrintParse)
static const char* rest_of(int phase)
{
  return phase == 0 ? ",\"ok\":false,\"cfg\":[]" : phase == 1 ? ",\"ok1\":false,\"cfg1\":[],\"printed\":\"\",\"ptoks\":[],\"ok2\":false,\"cfg2\":[]"
    : ",\"printed\":\"\",\"ptoks\":[],\"ok2\":false,\"cfg2\":[]";
}

static vector<vector<string> > texts;   // mode texts
static vector<string> lines;            // mode configs
static bool configs_mode, enum_mode;
static vector<string> alpha, prefix;    // mode enum: case i of this shard is word number shard + i * nshards
static long e_shard, e_nshards, e_total; static int e_maxlen;
static long ncases() { return configs_mode ? (long) lines.size() : enum_mode ? (e_total - e_shard + e_nshards - 1) / e_nshards : (long) texts.size(); }
static vector<string> text_of(long i)
{
  if (!enum_mode) return texts[i];
  long g = e_shard + i * e_nshards, lvl = 1; int len = 0;       // words by length, then lexicographic in alphabet order (Ini!Grow, breadth first)
  while (g >= lvl) { g -= lvl; lvl *= (long) alpha.size(); ++len; }
  vector<string> t = prefix; t.resize(prefix.size() + len);
  for (int k = len - 1; k >= 0; --k) { t[prefix.size() + k] = alpha[g % alpha.size()]; g /= alpha.size(); }
  return t;
}

static sigjmp_buf recover;
static volatile sig_atomic_t in_calls;
static void on_signal(int sig)
{
  if (in_calls) siglongjmp(recover, sig);
  if (sig == SIGALRM) return;            // a late alarm, the calls have returned
  signal(sig, SIG_DFL); raise(sig);      // not ours: die, the parent records it
}

static void worker(const char* path, long from)
{
  out = fopen(path, "a");
  struct sigaction sa; memset(&sa, 0, sizeof sa); sa.sa_handler = on_signal; sigemptyset(&sa.sa_mask); sa.sa_flags = SA_NODEFER;
  int sigs[] = {SIGSEGV, SIGABRT, SIGBUS, SIGFPE, SIGILL, SIGALRM};
  for (size_t k = 0; k < sizeof sigs / sizeof *sigs; ++k) sigaction(sigs[k], &sa, 0);
  long n = ncases(); int recoveries = 0;
  for (long i = from; i < n; ++i)
    {
      if (recoveries >= 500) { pg->next = i; fclose(out); _exit(4); }      // a fresh worker takes over at case i
      pg->next = i;
      int sig = sigsetjmp(recover, 1);
      if (sig == 0)
	{
	  vector<string> t; if (!configs_mode) t = text_of(i);
	  alarm(20); in_calls = 1;
	  if (configs_mode) { pg->phase = 2; ev_printparse(lines[i]); }
	  else { pg->phase = 0; ev_parse(t); pg->phase = 1; ev_roundtrip(t); }
	  in_calls = 0; alarm(0);
	}
      else
	{
	  // the calls of event pg->phase of case i did not return: complete the line, skip the rest of the case
	  in_calls = 0; alarm(0); ++recoveries;
	  if (sig == SIGALRM) fprintf(out, "%s,\"ret\":\"timeout\"}\n", rest_of(pg->phase));
	  else fprintf(out, "%s,\"ret\":\"sig%d\"}\n", rest_of(pg->phase), sig);
	  fflush(out);
	}
    }
  pg->next = n;
  fclose(out);
  _exit(0);
}

int main(int argc, char** argv)
{
  if (argc < 6) { fprintf(stderr, "usage: ini <out> enum <alphabet-json> <prefix-json> <maxlen> <shard> <nshards> | ini <out> texts|configs <file> <shard> <nshards>\n"); return 2; }
  const char* path = argv[1];
  string mode = argv[2];
  if (mode == "enum")
    {
      if (argc < 8) return 2;
      jv a, pre; const char* p = argv[3]; if (!jparse(p, a)) return 2; p = argv[4]; if (!jparse(p, pre)) return 2;
      alpha = tokens_of(a); prefix = tokens_of(pre); enum_mode = true;
      e_maxlen = atoi(argv[5]); e_shard = atoi(argv[6]); e_nshards = atoi(argv[7]);
      long lvl = 1; e_total = 0;
      for (int len = 0; len <= e_maxlen; ++len) { e_total += lvl; lvl *= (long) alpha.size(); }
    }
  else if (mode == "texts" || mode == "configs")
    {
      configs_mode = mode == "configs";
      int shard = atoi(argv[4]), nshards = atoi(argv[5]);
      std::ifstream f(argv[3]); string ln; long n = 0;
      if (!f.good()) { fprintf(stderr, "ini: cannot read %s\n", argv[3]); return 2; }
      while (std::getline(f, ln))
	{
	  if (ln.empty()) continue;
	  if ((int) (n++ % nshards) != shard) continue;
	  if (configs_mode) lines.push_back(ln);
	  else { jv t; const char* p = ln.c_str(); if (!jparse(p, t) || t.t != 'a') { fprintf(stderr, "ini: bad text case: %s\n", ln.c_str()); return 2; } texts.push_back(tokens_of(t)); }
	}
    }
  else return 2;

  fclose(fopen(path, "w"));
  struct rlimit nocore = {0, 0}; setrlimit(RLIMIT_CORE, &nocore);
  pg = (progress*) mmap(0, sizeof(progress), PROT_READ | PROT_WRITE, MAP_SHARED | MAP_ANONYMOUS, -1, 0);
  long total = ncases(), from = 0; bool died_between_events = false;
  while (from < total)
    {
      pg->next = from; pg->phase = configs_mode ? 2 : 0;
      pid_t pid = fork();
      if (pid < 0) { perror("fork"); return 3; }
      if (pid == 0) worker(path, from);
      int st = 0;
      if (waitpid(pid, &st, 0) < 0) { perror("waitpid"); return 3; }
      if (WIFEXITED(st) && WEXITSTATUS(st) == 0 && pg->next >= total) break;
      if (WIFEXITED(st) && WEXITSTATUS(st) == 2) return 2;
      if (WIFEXITED(st) && WEXITSTATUS(st) == 4) { from = pg->next; continue; }
      // the worker died.  Inside the calls of case pg->next, event pg->phase, if the file ends with a truncated line:
      // complete it and go on after the culprit.  Otherwise it died between two events: run that case again (once).
      FILE* f = fopen(path, "r+");
      bool truncated = false;
      if (fseek(f, -1, SEEK_END) == 0) truncated = fgetc(f) != '\n';
      if (!truncated)
	{
	  fclose(f);
	  if (pg->next == from && died_between_events) { fprintf(stderr, "ini: the worker dies outside the recorded calls at case %ld\n", from); return 3; }
	  died_between_events = true; from = pg->next;
	  continue;
	}
      died_between_events = false;
      char ret[32];
      if (WIFSIGNALED(st)) { if (WTERMSIG(st) == SIGALRM) snprintf(ret, sizeof ret, "timeout"); else snprintf(ret, sizeof ret, "sig%d", WTERMSIG(st)); }
      else snprintf(ret, sizeof ret, "exit%d", WEXITSTATUS(st));
      fseek(f, 0, SEEK_END);
      fprintf(f, "%s,\"ret\":\"%s\"}\n", rest_of(pg->phase), ret);
      fclose(f);
      from = pg->next + 1;
    }
  return 0;
}
