// canonapi <graph> <order>
//
// Replays one behaviour of spec/Canon.tla on the real library through the public IR API (property C20): the type graph is
// built with the constructors of abigail::ir (no reader involved) and canonicalize() is called on its nodes in exactly the
// order the model chose.
//   <graph>  nodes separated by ';', node i (1-based) = <name>:<kid>,<kid>...   name = A | B (struct), a = decl-only A, b = decl-only B
//            e.g.  "A:2;A:4;A:2;B:1;B:3"   (Canon.tla: [k "struct", n, d, kids])
//            A member is a data member whose *type is the kid struct itself* -- the model's direct edge: compared by
//            var_decl / class_decl operator== with no pointer in between, hence without the identical-object shortcut of
//            shared-pointer comparison.  (Such a graph cannot come from C source; the IR and the algorithm do not care.)
//   <order>  node numbers separated by ',': the order of the canonicalize() calls.
// Prints one JSON line {"ok":true,"canon":[c1,...,cN]}: ci = number of the node that is node i's canonical type, 0 = none,
// -1 = an object that is none of the nodes.  With hook H5 in the library and ABG_VERIF_CANON_TRACE set, the events of the
// run are recorded as usual; "numbers" gives the hook's number of every node.
#include <cstdio>
#include <cstdlib>
#include <cstring>
#include <string>
#include <vector>
#include <iostream>
#include <sstream>
#include "abg-ir.h"

using namespace abigail;
using namespace abigail::ir;
using std::string;
using std::vector;

extern "C" int abg_verif_canon_number(const void*) __attribute__((weak));

static vector<string>
split(const string& s, char sep)
{
  vector<string> out;
  string cur;
  for (size_t i = 0; i < s.size(); ++i)
    if (s[i] == sep)
      {out.push_back(cur); cur.clear();}
    else
      cur += s[i];
  out.push_back(cur);
  return out;
}

int
main(int argc, char* argv[])
{
  if (argc < 3)
    {
      fprintf(stderr, "usage: canonapi <graph> <order>\n");
      return 2;
    }
  vector<string> nodes = split(argv[1], ';');
  size_t n = nodes.size();
  environment_sptr env(new environment);
  translation_unit_sptr tu(new translation_unit(env.get(), "g.c", 64));
  tu->set_language(translation_unit::LANG_C99);
  vector<class_decl_sptr> cls(n);
  vector<vector<int> > kids(n);
  for (size_t i = 0; i < n; ++i)
    {
      vector<string> parts = split(nodes[i], ':');
      string name = parts[0];
      bool decl_only = name == "a" || name == "b";
      if (parts.size() > 1 && !parts[1].empty())
	{
	  vector<string> ks = split(parts[1], ',');
	  for (size_t j = 0; j < ks.size(); ++j)
	    kids[i].push_back(atoi(ks[j].c_str()));
	}
      string cname = (name == "A" || name == "a") ? "A" : "B";
      if (decl_only)
	cls[i].reset(new class_decl(env.get(), cname, /*is_struct=*/true, /*is_declaration_only=*/true));
      else
	cls[i].reset(new class_decl(env.get(), cname, 64 * kids[i].size() + 32, 32, /*is_struct=*/true, location(),
				    decl_base::VISIBILITY_DEFAULT));
      add_decl_to_scope(cls[i], tu->get_global_scope());
    }
  for (size_t i = 0; i < n; ++i)
    for (size_t j = 0; j < kids[i].size(); ++j)
      {
	std::ostringstream m;
	m << "m" << j;
	var_decl_sptr v(new var_decl(m.str(), cls[kids[i][j] - 1], location(), ""));
	cls[i]->add_data_member(v, public_access, /*is_laid_out=*/true, /*is_static=*/false, 64 * j);
      }
  vector<string> order = split(argv[2], ',');
  for (size_t k = 0; k < order.size(); ++k)
    {
      int i = atoi(order[k].c_str());
      if (i >= 1 && (size_t) i <= n)
	canonicalize(cls[i - 1]);
    }
  std::ostringstream o;
  o << "{\"ok\":true,\"canon\":[";
  for (size_t i = 0; i < n; ++i)
    {
      const type_base* c = cls[i]->get_naked_canonical_type();
      int ci = c ? -1 : 0;
      for (size_t j = 0; c && j < n; ++j)
	if (static_cast<const type_base*>(cls[j].get()) == c)
	  ci = j + 1;
      o << (i ? "," : "") << ci;
    }
  o << "],\"numbers\":[";
  for (size_t i = 0; i < n; ++i)
    o << (i ? "," : "") << (abg_verif_canon_number ? abg_verif_canon_number(static_cast<const type_base*>(cls[i].get())) : (int) i + 1);
  o << "]}";
  std::cout << o.str() << std::endl;
  return 0;
}
