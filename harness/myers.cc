// Conformance harness for C38: runs diff_utils::compute_diff on every pair of sequences of the space
// Myers.tla enumerates (all pairs up to <maxlen> over <alpha> letters, both equality predicates), plus
// <nrand> random longer pairs, and records each call as one ndjson event.
#include <cstdio>
#include <cstdlib>
#include <vector>
#include <string>
#include "abg-diff-utils.h"
using namespace abigail::diff_utils;
using std::vector;

struct eq_id { bool operator()(int a, int b) const { return a == b; } };
struct eq_mod2 { bool operator()(int a, int b) const { return (a % 2) == (b % 2); } };

static void emit_seq(FILE* f, const vector<int>& v)
{ fputc('[', f); for (size_t i = 0; i < v.size(); ++i) fprintf(f, "%s%d", i ? "," : "", v[i]); fputc(']', f); }

template <typename EQ>
static void one(FILE* f, const char* mode, const vector<int>& a, const vector<int>& b)
{
  vector<point> lcs; edit_script ses; int ses_len = -1;
  fprintf(f, "{\"e\":\"Diff\",\"mode\":\"%s\",\"a\":", mode); emit_seq(f, a);
  fputs(",\"b\":", f); emit_seq(f, b);
  fflush(f);
  compute_diff<vector<int>::const_iterator, EQ>(a.begin(), a.end(), b.begin(), b.end(), lcs, ses, ses_len);
  fputs(",\"del\":[", f);
  for (size_t i = 0; i < ses.deletions().size(); ++i) fprintf(f, "%s%d", i ? "," : "", ses.deletions()[i].index());
  fputs("],\"ins\":[", f);
  for (size_t i = 0; i < ses.insertions().size(); ++i)
    {
      const insertion& in = ses.insertions()[i];
      fprintf(f, "%s{\"at\":%d,\"idx\":[", i ? "," : "", in.insertion_point_index() + 1);
      for (size_t k = 0; k < in.inserted_indexes().size(); ++k) fprintf(f, "%s%u", k ? "," : "", in.inserted_indexes()[k]);
      fputs("]}", f);
    }
  fputs("],\"lcs\":[", f);
  for (size_t i = 0; i < lcs.size(); ++i) fprintf(f, "%s[%d,%d]", i ? "," : "", lcs[i].x(), lcs[i].y());
  fprintf(f, "],\"seslen\":%d,\"ret\":\"ok\"}\n", ses_len);
}

static void all_seqs(int alpha, int maxlen, vector<vector<int> >& out)
{
  out.push_back(vector<int>());
  size_t start = 0;
  for (int len = 1; len <= maxlen; ++len)
    {
      size_t end = out.size();
      for (size_t i = start; i < end; ++i)
	for (int c = 0; c < alpha; ++c) { vector<int> v = out[i]; v.push_back(c); out.push_back(v); }
      start = end;
    }
}

int main(int argc, char** argv)
{
  if (argc < 8) { fprintf(stderr, "usage: myers <out> <alpha> <maxlen> <shard> <nshards> <nrand> <seed>\n"); return 2; }
  FILE* f = fopen(argv[1], "w");
  int alpha = atoi(argv[2]), maxlen = atoi(argv[3]), shard = atoi(argv[4]), nshards = atoi(argv[5]), nrand = atoi(argv[6]);
  unsigned seed = (unsigned) atoi(argv[7]) * 2654435761u + shard;
  vector<vector<int> > seqs; all_seqs(alpha, maxlen, seqs);
  size_t n = 0;
  for (size_t i = 0; i < seqs.size(); ++i)
    for (size_t j = 0; j < seqs.size(); ++j, ++n)
      if ((int)(n % nshards) == shard)
	{ one<eq_id>(f, "id", seqs[i], seqs[j]); one<eq_mod2>(f, "mod2", seqs[i], seqs[j]); }
  srand(seed);
  for (int r = 0; r < nrand; ++r)
    {
      vector<int> a, b; int la = rand() % 14, lb = rand() % 14, al = 2 + rand() % 3;
      for (int i = 0; i < la; ++i) a.push_back(rand() % al);
      // b is a mutated copy of a half of the time, so that long common subsequences occur
      if (rand() % 2) { b = a; for (int k = rand() % 4; k > 0 && !b.empty(); --k) { size_t p = rand() % b.size(); if (rand() % 2) b.erase(b.begin() + p); else b.insert(b.begin() + p, rand() % al); } }
      else for (int i = 0; i < lb; ++i) b.push_back(rand() % al);
      if (r % 2) one<eq_id>(f, "id", a, b); else one<eq_mod2>(f, "mod2", a, b);
    }
  fclose(f);
  return 0;
}
