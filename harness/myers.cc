// Conformance harness for C38: runs diff_utils::compute_diff on every pair of sequences of the space
// Myers.tla enumerates (all pairs up to <maxlen> over <alpha> letters, both equality predicates), plus
// <nrand> random longer pairs, and records each call as one ndjson event.
#include <cstdio>
#include <cstdlib>
#include <vector>
#include <string>
#include "abg-diff-utils.h"
using namespace abigail::diff_utils;
using std::vector;

struct eq_id { bool operator()(int a, int b) const { return a == b; } };
struct eq_mod2 { bool operator()(int a, int b) const { return (a % 2) == (b % 2); } };

static void emit_seq(FILE* f, const vector<int>& v)
{ fputc('[', f); for (size_t i = 0; i < v.size(); ++i) fprintf(f, "%s%d", i ? "," : "", v[i]); fputc(']', f); }

template <typename EQ>
static void one(FILE* f, const char* mode, const vector<int>& a, const vector<int>& b)
{
  vector<point> lcs; edit_script ses; int ses_len = -1;
  fprintf(f, "{\"e\":\"Diff\",\"mode\":\"%s\",\"ov\":0,\"offa\":0,\"offb\":0,\"a\":", mode); emit_seq(f, a);
  fputs(",\"b\":", f); emit_seq(f, b);
  fflush(f);
  compute_diff<vector<int>::const_iterator, EQ>(a.begin(), a.end(), b.begin(), b.end(), lcs, ses, ses_len);
  fputs(",\"del\":[", f);
  for (size_t i = 0; i < ses.deletions().size(); ++i) fprintf(f, "%s%d", i ? "," : "", ses.deletions()[i].index());
  fputs("],\"ins\":[", f);
  for (size_t i = 0; i < ses.insertions().size(); ++i)
    {
      const insertion& in = ses.insertions()[i];
      fprintf(f, "%s{\"at\":%d,\"idx\":[", i ? "," : "", in.insertion_point_index() + 1);
      for (size_t k = 0; k < in.inserted_indexes().size(); ++k) fprintf(f, "%s%u", k ? "," : "", in.inserted_indexes()[k]);
      fputs("]}", f);
    }
  fputs("],\"lcs\":[", f);
  for (size_t i = 0; i < lcs.size(); ++i) fprintf(f, "%s[%d,%d]", i ? "," : "", lcs[i].x(), lcs[i].y());
  fprintf(f, "],\"hasLcs\":true,\"seslen\":%d,\"ret\":\"ok\"}\n", ses_len);
}

static void all_seqs(int alpha, int maxlen, vector<vector<int> >& out)
{
  out.push_back(vector<int>());
  size_t start = 0;
  for (int len = 1; len <= maxlen; ++len)
    {
      size_t end = out.size();
      for (size_t i = start; i < end; ++i)
	for (int c = 0; c < alpha; ++c) { vector<int> v = out[i]; v.push_back(c); out.push_back(v); }
      start = end;
    }
}

// The other public overloads (with explicit bases, without ses_len, without the common subsequence), on sequences embedded at
// offsets offa / offb of larger vectors.  Indices are reported relative to a_begin / b_begin (the library reports them relative
// to the bases): "ov" names the overload, hasLcs / seslen = -1 say what the overload returns.
template <typename EQ>
static void one_ov(FILE* f, const char* mode, int ov, const vector<int>& a, const vector<int>& b, int offa, int offb)
{
  vector<int> A(offa, 7), B(offb, 9);           // padding values differ from every letter
  A.insert(A.end(), a.begin(), a.end()); B.insert(B.end(), b.begin(), b.end());
  A.push_back(7); B.push_back(9);
  typedef vector<int>::const_iterator It;
  It ab = A.begin(), abeg = A.begin() + offa, aend = abeg + a.size(), bb = B.begin(), bbeg = B.begin() + offb, bend = bbeg + b.size();
  vector<point> lcs; edit_script ses; int ses_len = -1; bool has_lcs = true;
  fprintf(f, "{\"e\":\"Diff\",\"mode\":\"%s\",\"ov\":%d,\"offa\":%d,\"offb\":%d,\"a\":", mode, ov, offa, offb); emit_seq(f, a);
  fputs(",\"b\":", f); emit_seq(f, b);
  fflush(f);
  switch (ov)
    {
    case 1: compute_diff<It, EQ>(ab, abeg, aend, bb, bbeg, bend, lcs, ses, ses_len); break;      // bases, lcs, ses, ses_len
    case 2: compute_diff<It, EQ>(ab, abeg, aend, bb, bbeg, bend, lcs, ses); break;               // bases, lcs, ses
    case 3: compute_diff<It, EQ>(ab, abeg, aend, bb, bbeg, bend, ses); has_lcs = false; break;   // bases, ses
    case 4: compute_diff<It, EQ>(abeg, aend, bbeg, bend, lcs, ses); offa = offb = 0; break;      // no bases, lcs, ses
    default: compute_diff<It, EQ>(abeg, aend, bbeg, bend, ses); has_lcs = false; offa = offb = 0; break;   // no bases, ses
    }
  fputs(",\"del\":[", f);
  for (size_t i = 0; i < ses.deletions().size(); ++i) fprintf(f, "%s%d", i ? "," : "", ses.deletions()[i].index() - offa);
  fputs("],\"ins\":[", f);
  for (size_t i = 0; i < ses.insertions().size(); ++i)
    {
      const insertion& in = ses.insertions()[i];
      fprintf(f, "%s{\"at\":%d,\"idx\":[", i ? "," : "", in.insertion_point_index() + 1 - offa);
      for (size_t k = 0; k < in.inserted_indexes().size(); ++k) fprintf(f, "%s%d", k ? "," : "", (int) in.inserted_indexes()[k] - offb);
      fputs("]}", f);
    }
  fputs("],\"lcs\":[", f);
  for (size_t i = 0; i < lcs.size(); ++i) fprintf(f, "%s[%d,%d]", i ? "," : "", lcs[i].x() - offa, lcs[i].y() - offb);
  fprintf(f, "],\"hasLcs\":%s,\"seslen\":%d,\"ret\":\"ok\"}\n", has_lcs ? "true" : "false", ses_len);
}

int main(int argc, char** argv)
{
  if (argc < 8) { fprintf(stderr, "usage: myers <out> <alpha> <maxlen> <shard> <nshards> <nrand> <seed>\n"); return 2; }
  FILE* f = fopen(argv[1], "w");
  int alpha = atoi(argv[2]), maxlen = atoi(argv[3]), shard = atoi(argv[4]), nshards = atoi(argv[5]), nrand = atoi(argv[6]);
  unsigned seed = (unsigned) atoi(argv[7]) * 2654435761u + shard;
  vector<vector<int> > seqs; all_seqs(alpha, maxlen, seqs);
  size_t n = 0;
  for (size_t i = 0; i < seqs.size(); ++i)
    for (size_t j = 0; j < seqs.size(); ++j, ++n)
      if ((int)(n % nshards) == shard)
	{ one<eq_id>(f, "id", seqs[i], seqs[j]); one<eq_mod2>(f, "mod2", seqs[i], seqs[j]); }
  srand(seed);
  for (int r = 0; r < nrand; ++r)
    {
      vector<int> a, b; int la = rand() % 14, lb = rand() % 14, al = 2 + rand() % 3;
      for (int i = 0; i < la; ++i) a.push_back(rand() % al);
      // b is a mutated copy of a half of the time, so that long common subsequences occur
      if (rand() % 2) { b = a; for (int k = rand() % 4; k > 0 && !b.empty(); --k) { size_t p = rand() % b.size(); if (rand() % 2) b.erase(b.begin() + p); else b.insert(b.begin() + p, rand() % al); } }
      else for (int i = 0; i < lb; ++i) b.push_back(rand() % al);
      if (r % 2) one<eq_id>(f, "id", a, b); else one<eq_mod2>(f, "mod2", a, b);
      // the same pair through one of the other overloads, embedded at pseudo-random offsets
      int ov = 1 + r % 5, offa = rand() % 4, offb = rand() % 4;
      if (r % 3) one_ov<eq_id>(f, "id", ov, a, b, offa, offb); else one_ov<eq_mod2>(f, "mod2", ov, a, b, offa, offb);
    }
  fclose(f);
  return 0;
}
