/* LD_PRELOAD shim for C31: makes sysconf(_SC_NPROCESSORS_ONLN) -- the only input of
   abigail::workers::get_number_of_threads() -- return $ABG_VERIF_NPROC, so that abipkgdiff (which has no option for it)
   can be run with any number of worker threads.  Everything else is forwarded.  Records nothing, decides nothing. */
#define _GNU_SOURCE
#include <dlfcn.h>
#include <stdlib.h>
#include <unistd.h>

long
sysconf(int name)
{
  static long (*real)(int);
  if (!real)
    real = (long (*)(int)) dlsym(RTLD_NEXT, "sysconf");
  if (name == _SC_NPROCESSORS_ONLN)
    {
      const char *s = getenv("ABG_VERIF_NPROC");
      if (s && *s && atol(s) > 0)
	return atol(s);
    }
  return real ? real(name) : -1;
}
