// Conformance harness for C41: calls the string / name helpers of abigail::tools_utils on every pair <x, y> of the
// space StrUtils.tla enumerates (x: all token strings up to <maxlenx>, y: up to <maxleny>, over the token alphabet
// <tokens>) and records each call as one ndjson event.  The harness only records; TLC judges (StrUtilsTrace.tla).
//
//   strutils <out> <fn,fn,...> <tok|tok|...> <maxlenx> <maxleny> <shard> <nshards> [<timeout-ms>]
//   strutils <out> --one <fn> <tok|tok|...> <x as tok|tok|...> <y as tok|tok|...>      (replay of a single call)
//
// A token name stands for its own bytes, except "<XX>" (two hex digits) which stands for the single byte 0xXX.
// Results are projected back to token names; a result that is not a concatenation of tokens is recorded as the
// pseudo token "<?hex>" (which no definition can produce).
//
// The calls run in a forked child that publishes the index of the call in progress in shared memory and flushes each
// event; the parent watches.  A call during which the child accumulates <timeout-ms> (default 50 ms; the helpers take
// microseconds) of *user-mode CPU time* without returning is suspected to hang; the suspicion is confirmed by running the
// same call again in a fresh, warmed-up child with 5x the budget, and only then recorded with "ret":"timeout".  User-mode
// time is used because it does not grow while the child is starved of CPU or while the kernel works on its behalf (page
// faults, memory reclaim on a loaded machine).  A child that makes no progress at all for 300 s of wall time is treated the
// same way; a call that kills the child is recorded with "ret":"sig<N>".  The child is restarted after the recorded call.
#include <cstdio>
#include <cstdlib>
#include <cstring>
#include <string>
#include <vector>
#include <set>
#include <unistd.h>
#include <signal.h>
#include <time.h>
#include <sys/mman.h>
#include <sys/wait.h>
#include "abg-tools-utils.h"
using std::string;
using std::vector;
namespace tu = abigail::tools_utils;

typedef vector<int> tstr;			// a token string: indexes into the alphabet
static vector<string> tok_name, tok_bytes;
static vector<tstr> X, Y;
static vector<string> fns;
static const char* FN_ALL[] = {"decl_names_equal", "begins_with", "ends_with", "suffix", "trim_leading", "split",
			       "trim_ws", "is_ascii", "is_ascii_id", 0};
static bool is_binary(const string& f)
{return f == "decl_names_equal" || f == "begins_with" || f == "ends_with" || f == "suffix" || f == "trim_leading" || f == "split";}

static string decode(const string& name)
{
  if (name.size() == 4 && name[0] == '<' && name[3] == '>' && isxdigit(name[1]) && isxdigit(name[2]))
    return string(1, (char) strtol(name.substr(1, 2).c_str(), 0, 16));
  return name;
}

static string bytes_of(const tstr& t)
{string s; for (size_t i = 0; i < t.size(); ++i) s += tok_bytes[t[i]]; return s;}

static void all_strings(int maxlen, vector<tstr>& out)
{
  out.push_back(tstr());
  size_t start = 0;
  for (int len = 1; len <= maxlen; ++len)
    {
      size_t end = out.size();
      for (size_t i = start; i < end; ++i)
	for (size_t c = 0; c < tok_name.size(); ++c) { tstr v = out[i]; v.push_back(c); out.push_back(v); }
      start = end;
    }
}

typedef string buf;			// an event is built in memory and written with one write
static void emit_json_string(buf& f, const string& s)
{
  f += '"';
  for (size_t i = 0; i < s.size(); ++i)
    {
      unsigned char c = s[i];
      if (c == '"' || c == '\\') { f += '\\'; f += (char) c; }
      else if (c < 0x20 || c >= 0x7f) { char b[8]; snprintf(b, sizeof b, "\\u%04x", c); f += b; }
      else f += (char) c;
    }
  f += '"';
}

static void emit_tokens(buf& f, const tstr& t)
{
  f += '[';
  for (size_t i = 0; i < t.size(); ++i) { if (i) f += ','; emit_json_string(f, tok_name[t[i]]); }
  f += ']';
}

// project a result string back to token names
static void emit_projected(buf& f, const string& s)
{
  vector<int> toks; size_t pos = 0; bool ok = true;
  while (pos < s.size() && ok)
    {
      ok = false;
      for (size_t c = 0; c < tok_bytes.size(); ++c)
	if (s.compare(pos, tok_bytes[c].size(), tok_bytes[c]) == 0) { toks.push_back(c); pos += tok_bytes[c].size(); ok = true; break; }
    }
  if (ok) { emit_tokens(f, toks); return; }
  string hex = "<?";
  for (size_t i = 0; i < s.size() && i < 64; ++i) { char b[3]; snprintf(b, sizeof b, "%02x", (unsigned char) s[i]); hex += b; }
  hex += ">";
  f += '['; emit_json_string(f, hex); f += ']';
}

static void emit_head(buf& f, const string& fn, const tstr& x, const tstr& y)
{
  f += "{\"e\":\"Call\",\"fn\":"; emit_json_string(f, fn);
  f += ",\"x\":"; emit_tokens(f, x);
  f += ",\"y\":"; emit_tokens(f, y);
}

static void emit_tail(buf& f, const char* ret, bool res, bool rev, bool set, const vector<string>& out)
{
  f += ",\"ret\":\""; f += ret; f += "\",\"res\":"; f += res ? "true" : "false"; f += ",\"rev\":"; f += rev ? "true" : "false";
  f += ",\"set\":"; f += set ? "true" : "false"; f += ",\"out\":[";
  for (size_t i = 0; i < out.size(); ++i) { if (i) f += ','; emit_projected(f, out[i]); }
  f += "]}\n";
}

static void call(buf& f, const string& fn, const tstr& x, const tstr& y)
{
  const string a = bytes_of(x), b = bytes_of(y);
  bool res = false, rev = false, set = false; vector<string> out;
  if (fn == "decl_names_equal") { res = tu::decl_names_equal(a, b); rev = tu::decl_names_equal(b, a); }
  else if (fn == "begins_with") res = tu::string_begins_with(a, b);
  else if (fn == "ends_with") res = tu::string_ends_with(a, b);
  else if (fn == "suffix")
    {
      const string sentinel("\x02" "unset" "\x02"); string sfx = sentinel;
      res = tu::string_suffix(a, b, sfx);
      set = (sfx != sentinel);
      if (set) out.push_back(sfx);
    }
  else if (fn == "trim_leading") out.push_back(tu::trim_leading_string(a, b));
  else if (fn == "split") res = tu::split_string(a, b, out);
  else if (fn == "trim_ws") out.push_back(tu::trim_white_space(a));
  else if (fn == "is_ascii") res = tu::string_is_ascii(a);
  else if (fn == "is_ascii_id") res = tu::string_is_ascii_identifier(a);
  emit_head(f, fn, x, y);
  emit_tail(f, "ok", res, rev, set, out);
}

struct item { size_t xi, yi, fi; };
static vector<item> work;

static double now()
{struct timespec ts; clock_gettime(CLOCK_MONOTONIC, &ts); return ts.tv_sec + ts.tv_nsec * 1e-9;}

// user-mode CPU time of a process, from /proc/<pid>/stat (field 14, clock ticks)
static double utime_of(pid_t pid)
{
  char path[64], b[1024];
  snprintf(path, sizeof path, "/proc/%d/stat", (int) pid);
  FILE* f = fopen(path, "r");
  if (!f) return 0;
  size_t n = fread(b, 1, sizeof b - 1, f);
  fclose(f);
  b[n] = 0;
  char* p = strrchr(b, ')');
  unsigned long ut = 0;
  if (!p || sscanf(p + 2, "%*c %*d %*d %*d %*d %*d %*u %*u %*u %*u %*u %lu", &ut) != 1) return 0;
  return ut / (double) sysconf(_SC_CLK_TCK);
}

static void check_alphabet(bool need_disjoint_bytes)
{
  for (size_t i = 0; i < tok_bytes.size(); ++i)
    for (size_t j = 0; j < tok_bytes.size(); ++j)
      {
	if (i == j) continue;
	const string &s = tok_bytes[i], &t = tok_bytes[j];
	if (s.empty() || (s.size() <= t.size() && (t.compare(0, s.size(), s) == 0 || t.compare(t.size() - s.size(), s.size(), s) == 0)))
	  { fprintf(stderr, "strutils: alphabet is not a prefix and suffix code (%s / %s)\n", tok_name[i].c_str(), tok_name[j].c_str()); exit(2); }
	if (need_disjoint_bytes && s.find_first_of(t) != string::npos)
	  { fprintf(stderr, "strutils: tokens %s and %s share a byte; split_string needs byte-disjoint tokens\n", tok_name[i].c_str(), tok_name[j].c_str()); exit(2); }
      }
}

static void split_arg(const string& s, char sep, vector<string>& out)
{
  size_t p = 0;
  while (p <= s.size()) { size_t q = s.find(sep, p); if (q == string::npos) q = s.size(); if (q > p) out.push_back(s.substr(p, q - p)); p = q + 1; }
}

static tstr parse_tstr(const string& s)
{
  vector<string> names; split_arg(s, '|', names); tstr t;
  for (size_t i = 0; i < names.size(); ++i)
    {
      size_t c = 0;
      while (c < tok_name.size() && tok_name[c] != names[i]) ++c;
      if (c == tok_name.size()) { fprintf(stderr, "strutils: token %s is not in the alphabet\n", names[i].c_str()); exit(2); }
      t.push_back(c);
    }
  return t;
}

int main(int argc, char** argv)
{
  bool one = argc == 7 && string(argv[2]) == "--one";
  if (argc < 8 && !one) { fprintf(stderr, "usage: strutils <out> <fns> <tok|tok|..> <maxlenx> <maxleny> <shard> <nshards> [<timeout-ms>]\n"); return 2; }
  const char* outpath = argv[1];
  split_arg(one ? argv[3] : argv[2], ',', fns);
  split_arg(one ? argv[4] : argv[3], '|', tok_name);
  for (size_t i = 0; i < tok_name.size(); ++i) tok_bytes.push_back(decode(tok_name[i]));
  int maxlenx = 0, maxleny = 0, shard = 0, nshards = 1;
  if (!one) { maxlenx = atoi(argv[4]); maxleny = atoi(argv[5]); shard = atoi(argv[6]); nshards = atoi(argv[7]); }
  double tmo = (argc > 8 ? atoi(argv[8]) : 50) / 1000.0;
  bool has_split = false;
  for (size_t i = 0; i < fns.size(); ++i)
    {
      bool known = false;
      for (int k = 0; FN_ALL[k]; ++k) known = known || fns[i] == FN_ALL[k];
      if (!known) { fprintf(stderr, "strutils: unknown function %s\n", fns[i].c_str()); return 2; }
      has_split = has_split || fns[i] == "split";
    }
  check_alphabet(has_split);
  if (one) { X.push_back(parse_tstr(argv[5])); Y.push_back(parse_tstr(argv[6])); }
  else { all_strings(maxlenx, X); all_strings(maxleny, Y); }
  size_t n = 0, npairs = 0;
  for (size_t i = 0; i < X.size(); ++i)
    for (size_t j = 0; j < Y.size(); ++j, ++n)
      if ((int) ((i + j) % nshards) == shard)	// (diagonal sharding spreads the y = "" and x = y^k pairs evenly)
	{
	  ++npairs;
	  for (size_t k = 0; k < fns.size(); ++k)
	    if (is_binary(fns[k]) || Y[j].empty()) { item it = {i, j, k}; work.push_back(it); }
	}
  FILE* f = fopen(outpath, "w");
  if (!f) { perror(outpath); return 2; }
  fclose(f);
  volatile long* progress = (volatile long*) mmap(0, 4096, PROT_READ | PROT_WRITE, MAP_SHARED | MAP_ANONYMOUS, -1, 0);
  if (progress == MAP_FAILED) { perror("mmap"); return 2; }
  size_t k0 = 0; int attempt = 0; long hangs = 0, crashes = 0;
  while (k0 < work.size())
    {
      progress[0] = (long) k0; progress[1] = 0;
      pid_t pid = fork();
      if (pid < 0) { perror("fork"); return 2; }
      if (pid == 0)
	{
	  FILE* o = fopen(outpath, "a");
	  if (!o) _exit(3);
	  // warm up (allocator, stdio, the recording code) with a helper that cannot loop, before the watched calls start
	  { buf b; call(b, "ends_with", X[work[k0].xi], Y[work[k0].yi]); fflush(o); }
	  for (size_t k = k0; k < work.size(); ++k)
	    {
	      progress[0] = (long) k; progress[1] = progress[1] + 1;
	      buf b;
	      call(b, fns[work[k].fi], X[work[k].xi], Y[work[k].yi]);
	      fwrite(b.data(), 1, b.size(), o); fflush(o);
	    }
	  progress[0] = (long) work.size(); progress[1] = progress[1] + 1;
	  fclose(o);
	  _exit(0);
	}
      long last = -1; double since = now(), ut_since = 0; int status = 0; bool killed = false;
      for (;;)
	{
	  pid_t w = waitpid(pid, &status, WNOHANG);
	  if (w == pid) break;
	  // the CPU time is read *before* the progress counter: if the counter (monotonic) still has its old value afterwards,
	  // all of that CPU time went into one and the same call
	  double ut = utime_of(pid);
	  long cur = progress[1];
	  if (attempt && (size_t) progress[0] > k0) attempt = 0;	// the confirming run got past the suspected call
	  if (cur != last) { last = cur; since = now(); ut_since = utime_of(pid); }	// read after the change: never over-counts
	  else if ((cur > 0 && ut - ut_since > (attempt ? 5 * tmo : tmo)) || now() - since > 300)
	    { kill(pid, SIGKILL); waitpid(pid, &status, 0); killed = true; break; }
	  usleep(1000);
	}
      if (!killed && WIFEXITED(status) && WEXITSTATUS(status) == 0) break;
      if (!killed && WIFEXITED(status)) { fprintf(stderr, "strutils: child exited with %d\n", WEXITSTATUS(status)); return 2; }
      size_t k = (size_t) progress[0];
      if (k >= work.size()) break;
      if (killed && attempt == 0) { attempt = 1; k0 = k; continue; }	// confirm a time-out once, with more time
      char ret[32];
      if (killed) { snprintf(ret, sizeof ret, "timeout"); ++hangs; }
      else { snprintf(ret, sizeof ret, "sig%d", WTERMSIG(status)); ++crashes; }
      FILE* o = fopen(outpath, "a");
      buf b;
      emit_head(b, fns[work[k].fi], X[work[k].xi], Y[work[k].yi]);
      emit_tail(b, ret, false, false, false, vector<string>());
      fwrite(b.data(), 1, b.size(), o);
      fclose(o);
      attempt = 0; k0 = k + 1;
    }
  printf("{\"pairs\":%zu,\"calls\":%zu,\"timeouts\":%ld,\"crashes\":%ld}\n", npairs, work.size(), hangs, crashes);
  return 0;
}
