// Conformance harness for C42: replays every history of the space Intern.tla enumerates -- all sequences of at most
// <maxcalls> environment::intern calls over the contents <contents> -- each in a fresh environment, followed by all
// pairwise comparisons of the returned handles, the mixed comparisons with plain std::strings, conversions, hashes and a
// hash set, and records everything as ndjson events.  The harness only records; TLC judges (InternTrace.tla).
//
//   intern <out> <contents, comma separated, e.g. ",a,aa,ab"> <maxcalls> <shard> <nshards> [<nrand> <seed>]
//     (<nrand> additional random histories of 32 calls over all 31 strings of length <= 4 over {a, b}: enough distinct contents
//      to make the pool's hash table grow and rehash while handles are alive)
//   intern <out> --history <contents, comma separated> <calls: indexes into the contents, comma separated>   (replay of one history)
//
// Objects are numbered in the order in which their raw pointer (interned_string::raw(), null included) first appears in
// the history; handles are numbered by call.  Contents are recorded as arrays of one-letter strings.
#include <cstdio>
#include <cstdlib>
#include <string>
#include <vector>
#include <map>
#include <sstream>
#include "abg-ir.h"
#include "abg-interned-str.h"
using std::string;
using std::vector;
using abigail::interned_string;

static void emit_content(FILE* f, const string& s)
{
  fputc('[', f);
  for (size_t i = 0; i < s.size(); ++i)
    {
      unsigned char c = s[i];
      if (i) fputc(',', f);
      if (c >= 'a' && c <= 'z') fprintf(f, "\"%c\"", c); else fprintf(f, "\"<%02x>\"", c);
    }
  fputc(']', f);
}

static const char* B(bool b) {return b ? "true" : "false";}

static void history(FILE* f, const vector<string>& contents, const vector<int>& calls)
{
  fputs("{\"e\":\"Reset\"}\n", f);
  abigail::ir::environment env;
  vector<interned_string> h;
  std::map<const string*, int> objno;
  for (size_t k = 0; k < calls.size(); ++k)
    {
      const string& c = contents[calls[k]];
      interned_string s = env.intern(c);
      if (objno.find(s.raw()) == objno.end()) { int n = objno.size() + 1; objno[s.raw()] = n; }
      h.push_back(s);
      fputs("{\"e\":\"Intern\",\"c\":", f); emit_content(f, c);
      fprintf(f, ",\"obj\":%d}\n", objno[s.raw()]);
    }
  // the handles obtained earlier must still denote their objects after the later calls
  for (size_t i = 0; i < h.size(); ++i)
    {
      string conv = static_cast<string>(h[i]);
      std::ostringstream o; o << h[i];
      fprintf(f, "{\"e\":\"Str\",\"i\":%zu,\"obj\":%d,\"conv\":", i + 1, objno.count(h[i].raw()) ? objno[h[i].raw()] : 0); emit_content(f, conv);
      fputs(",\"stream\":", f); emit_content(f, o.str());
      fputs(",\"cat\":", f); emit_content(f, h[i] + string("b"));
      fputs(",\"rcat\":", f); emit_content(f, string("b") + h[i]);
      fprintf(f, ",\"empty\":%s}\n", B(h[i].empty()));
    }
  for (size_t i = 0; i < h.size(); ++i)
    for (size_t j = 0; j < h.size(); ++j)
      fprintf(f, "{\"e\":\"Cmp\",\"i\":%zu,\"j\":%zu,\"eq\":%s,\"ne\":%s,\"lt\":%s}\n", i + 1, j + 1,
	      B(h[i] == h[j]), B(h[i] != h[j]), B(h[i] < h[j]));
  for (size_t i = 0; i < h.size(); ++i)
    for (size_t c = 0; c < contents.size() && c < 8; ++c)	// (random histories: the first 8 contents only)
      {
	const string& s = contents[c];
	fprintf(f, "{\"e\":\"CmpStr\",\"i\":%zu,\"s\":", i + 1); emit_content(f, s);
	fprintf(f, ",\"eq\":%s,\"ne\":%s,\"req\":%s,\"rne\":%s}\n", B(h[i] == s), B(h[i] != s), B(s == h[i]), B(s != h[i]));
      }
  abigail::hash_interned_string hasher;
  abigail::interned_string_set_type set;
  for (size_t i = 0; i < h.size(); ++i)
    {
      unsigned long long v = hasher(h[i]);
      fprintf(f, "{\"e\":\"Hash\",\"i\":%zu,\"h\":[%llu,%llu,%llu,%llu]}\n", i + 1,
	      (v >> 48) & 0xffff, (v >> 32) & 0xffff, (v >> 16) & 0xffff, v & 0xffff);
      set.insert(h[i]);
    }
  fprintf(f, "{\"e\":\"SetSize\",\"n\":%zu}\n", set.size());
}

int main(int argc, char** argv)
{
  if (argc < 5 || (argc < 6 && string(argv[2]) != "--history")) { fprintf(stderr, "usage: intern <out> <contents,comma,separated> <maxcalls> <shard> <nshards>\n"); return 2; }
  FILE* f = fopen(argv[1], "w");
  if (!f) { perror(argv[1]); return 2; }
  vector<string> contents;
  { string s = argv[2]; size_t p = 0; for (;;) { size_t q = s.find(',', p); if (q == string::npos) { contents.push_back(s.substr(p)); break; } contents.push_back(s.substr(p, q - p)); p = q + 1; } }
  if (string(argv[2]) == "--history")
    {
      contents.clear();
      { string s = argv[3]; size_t p = 0; for (;;) { size_t q = s.find(',', p); if (q == string::npos) { contents.push_back(s.substr(p)); break; } contents.push_back(s.substr(p, q - p)); p = q + 1; } }
      vector<int> calls;
      { string s = argv[4]; size_t p = 0; while (p < s.size()) { size_t q = s.find(',', p); if (q == string::npos) q = s.size(); calls.push_back(atoi(s.substr(p, q - p).c_str())); p = q + 1; } }
      for (size_t i = 0; i < calls.size(); ++i) if (calls[i] < 0 || calls[i] >= (int) contents.size()) { fprintf(stderr, "intern: bad content index\n"); return 2; }
      history(f, contents, calls);
      fclose(f);
      return 0;
    }
  int maxcalls = atoi(argv[3]), shard = atoi(argv[4]), nshards = atoi(argv[5]);
  vector<vector<int> > hs; hs.push_back(vector<int>());
  size_t start = 0;
  for (int len = 1; len <= maxcalls; ++len)
    {
      size_t end = hs.size();
      for (size_t i = start; i < end; ++i)
	for (size_t c = 0; c < contents.size(); ++c) { vector<int> v = hs[i]; v.push_back(c); hs.push_back(v); }
      start = end;
    }
  size_t n = 0;
  for (size_t i = 0; i < hs.size(); ++i)
    if ((int) (i % nshards) == shard) { history(f, contents, hs[i]); ++n; }
  int nrand = argc > 6 ? atoi(argv[6]) : 0;
  unsigned seed = (argc > 7 ? (unsigned) atoi(argv[7]) : 1u) * 2654435761u + shard;
  if (nrand > 0)
    {
      vector<string> many; many.push_back("");
      for (size_t b = 0, e = 1, len = 1; len <= 4; ++len, b = e, e = many.size())
	for (size_t i = b; i < e; ++i) { many.push_back(many[i] + "a"); many.push_back(many[i] + "b"); }
      srand(seed);
      for (int r = 0; r < nrand; ++r)
	{
	  vector<int> calls;
	  for (int k = 0; k < 32; ++k) calls.push_back(rand() % many.size());
	  history(f, many, calls);
	}
    }
  fclose(f);
  printf("{\"histories\":%zu,\"random\":%d}\n", n, nrand > 0 ? nrand : 0);
  return 0;
}
