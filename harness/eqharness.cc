// eqharness <binary1> <binary2> [max-types]
//
// Equality, hashing and diffing of IR artifacts through the public API (property C21).  Both binaries are loaded into ONE
// environment, the way tools/abidiff.cc does (one environment_sptr, two dwarf_reader read contexts), then for
//   kind "fn" / "var"   every function / variable of corpus 1 and the same-named one of corpus 2,
//   kind "type"         every pair (also a type with itself) of the first max-types types reachable from the interfaces of corpus 1,
//   kind "xtype"        every named type (struct, union, enum, typedef) reachable in corpus 1 and the same-kind same-named
//                       ones reachable in corpus 2,
// one line is printed:
//   {"e":"Call","kind":..,"a":label,"b":label,"same":a and b are one object,"ab":eq(a,b),"ba":eq(b,a),"ha":class,"hb":class,"chg":has_changes(compute_diff(a,b)),"sab":..,"sba":..}
// sab / sba (types only) are the structural comparisons equals(a, b, 0) / equals(b, a, 0) through the public overload of the types' kind
// (1 / 0; -1: kinds differ); eq is operator== on the objects (function_decl / var_decl) or on the shared pointers (types: deep equality);
// ha / hb are equality-class numbers of hash_type_or_decl()'s values, assigned here in order of first appearance;
// the diff is computed in one diff_context per run, like abidiff does.  The last line is {"e":"Done","calls":n}.
// The harness only records; spec/EqTrace.tla judges.
#include <cstdio>
#include <cstdlib>
#include <cstring>
#include <string>
#include <vector>
#include <map>
#include <set>
#include <iostream>
#include <sstream>
#include "abg-dwarf-reader.h"
#include "abg-corpus.h"
#include "abg-ir.h"
#include "abg-comparison.h"
#include "abg-sptr-utils.h"

using namespace abigail;
using namespace abigail::ir;
using std::string;
using std::vector;

static string
esc(const string& s)
{
  string r;
  for (size_t i = 0; i < s.size(); ++i)
    {
      unsigned char c = s[i];
      if (c == '"' || c == '\\')
	{r += '\\'; r += c;}
      else if (c < 0x20)
	{char b[8]; snprintf(b, sizeof(b), "\\u%04x", c); r += b;}
      else
	r += c;
    }
  return r;
}
static string q(const string& s) {return "\"" + esc(s) + "\"";}

static std::map<size_t, int> hash_classes;
static int
hash_class(size_t h)
{
  std::map<size_t, int>::iterator i = hash_classes.find(h);
  if (i != hash_classes.end())
    return i->second;
  int n = hash_classes.size() + 1;
  return hash_classes[h] = n;
}

static int calls = 0;
static void
emit(const char* kind, const string& a, const string& b, bool same, bool ab, bool ba, size_t ha, size_t hb, bool chg, int sab = -1, int sba = -1)
{
  std::cout << "{\"e\":\"Call\",\"kind\":\"" << kind << "\",\"a\":" << q(a) << ",\"b\":" << q(b)
	    << ",\"same\":" << (same ? "true" : "false") << ",\"ab\":" << (ab ? "true" : "false") << ",\"ba\":" << (ba ? "true" : "false")
	    << ",\"ha\":" << hash_class(ha) << ",\"hb\":" << hash_class(hb)
	    << ",\"chg\":" << (chg ? "true" : "false") << ",\"sab\":" << sab << ",\"sba\":" << sba << "}" << std::endl;
  ++calls;
}

// the types reachable from a type, in discovery order
static void
reach(const type_base_sptr& t, vector<type_base_sptr>& out, std::set<const type_base*>& seen)
{
  if (!t || !seen.insert(t.get()).second)
    return;
  out.push_back(t);
  if (class_or_union_sptr c = is_class_or_union_type(t))
    {
      for (class_or_union::data_members::const_iterator i = c->get_data_members().begin(); i != c->get_data_members().end(); ++i)
	reach((*i)->get_type(), out, seen);
      if (class_decl_sptr cl = is_class_type(t))
	for (class_decl::base_specs::const_iterator i = cl->get_base_specifiers().begin(); i != cl->get_base_specifiers().end(); ++i)
	  reach((*i)->get_base_class(), out, seen);
    }
  else if (enum_type_decl_sptr e = is_enum_type(t))
    reach(e->get_underlying_type(), out, seen);
  else if (typedef_decl_sptr td = is_typedef(t))
    reach(td->get_underlying_type(), out, seen);
  else if (pointer_type_def_sptr p = is_pointer_type(t))
    reach(p->get_pointed_to_type(), out, seen);
  else if (reference_type_def_sptr r = is_reference_type(t))
    reach(r->get_pointed_to_type(), out, seen);
  else if (qualified_type_def_sptr qt = is_qualified_type(t))
    reach(qt->get_underlying_type(), out, seen);
  else if (array_type_def_sptr a = is_array_type(t))
    reach(a->get_element_type(), out, seen);
  else if (function_type_sptr f = is_function_type(t))
    {
      reach(f->get_return_type(), out, seen);
      for (function_type::parameters::const_iterator i = f->get_parameters().begin(); i != f->get_parameters().end(); ++i)
	reach((*i)->get_type(), out, seen);
    }
}

static vector<type_base_sptr>
reachable_types(const corpus_sptr& c)
{
  vector<type_base_sptr> out;
  std::set<const type_base*> seen;
  for (corpus::functions::const_iterator i = c->get_functions().begin(); i != c->get_functions().end(); ++i)
    reach((*i)->get_type(), out, seen);
  for (corpus::variables::const_iterator i = c->get_variables().begin(); i != c->get_variables().end(); ++i)
    reach((*i)->get_type(), out, seen);
  return out;
}

// the structural comparison of two types of the same kind: the public equals() overload of that kind, which never
// looks at the canonical types of its two arguments themselves (-1: different kinds / no overload: not recorded)
static int
structural(const type_base_sptr& a, const type_base_sptr& b)
{
#define TRY(T, is) if (const T* x = is(a.get())) {if (const T* y = is(b.get())) return equals(*x, *y, 0) ? 1 : 0; return -1;}
  TRY(class_decl, is_class_type)
  TRY(union_decl, is_union_type)
  TRY(enum_type_decl, is_enum_type)
  TRY(typedef_decl, is_typedef)
  TRY(pointer_type_def, is_pointer_type)
  TRY(reference_type_def, is_reference_type)
  TRY(qualified_type_def, is_qualified_type)
  TRY(array_type_def, is_array_type)
  TRY(function_type, is_function_type)
  TRY(type_decl, is_type_decl)
#undef TRY
  return -1;
}

static string
kind_of(const type_base_sptr& t)
{
  if (is_class_type(t)) return "struct";
  if (is_union_type(t)) return "union";
  if (is_enum_type(t)) return "enum";
  if (is_typedef(t)) return "typedef";
  return "";
}

static string
label(const type_base_sptr& t, size_t i)
{
  std::ostringstream o;
  o << "#" << i << " " << get_pretty_representation(t.get(), /*internal=*/false);
  return o.str();
}

static corpus_sptr
load(const char* path, environment* env)
{
  vector<char**> di_roots;
  dwarf_reader::read_context_sptr c =
    dwarf_reader::create_read_context(path, di_roots, env, /*load_all_types=*/false, /*linux_kernel_mode=*/false);
  elf_reader::status st = elf_reader::STATUS_UNKNOWN;
  return dwarf_reader::read_corpus_from_elf(*c, st);
}

int
main(int argc, char* argv[])
{
  if (argc < 3)
    {
      fprintf(stderr, "usage: eqharness <binary1> <binary2> [max-types]\n");
      return 2;
    }
  size_t max_types = argc > 3 ? atoi(argv[3]) : 24;
  ir::environment_sptr env(new ir::environment);
  corpus_sptr c1 = load(argv[1], env.get()), c2 = load(argv[2], env.get());
  if (!c1 || !c2)
    {
      std::cout << "{\"e\":\"NotLoaded\"}" << std::endl;
      return 0;
    }
  comparison::diff_context_sptr ctxt(new comparison::diff_context);

  for (corpus::functions::const_iterator i = c1->get_functions().begin(); i != c1->get_functions().end(); ++i)
    for (corpus::functions::const_iterator j = c2->get_functions().begin(); j != c2->get_functions().end(); ++j)
      if ((*i)->get_name() == (*j)->get_name())
	{
	  function_decl* f = *i; function_decl* g = *j;
	  function_decl_sptr fs(f, sptr_utils::noop_deleter()), gs(g, sptr_utils::noop_deleter());     // as corpus_diff does
	  bool chg = comparison::compute_diff(fs, gs, ctxt)->has_changes();
	  emit("fn", f->get_name(), g->get_name(), false, *f == *g, *g == *f, hash_type_or_decl(f), hash_type_or_decl(g), chg);
	}
  for (corpus::variables::const_iterator i = c1->get_variables().begin(); i != c1->get_variables().end(); ++i)
    for (corpus::variables::const_iterator j = c2->get_variables().begin(); j != c2->get_variables().end(); ++j)
      if ((*i)->get_name() == (*j)->get_name())
	{
	  var_decl* v = *i; var_decl* w = *j;
	  var_decl_sptr vs(v, sptr_utils::noop_deleter()), ws(w, sptr_utils::noop_deleter());
	  bool chg = comparison::compute_diff(vs, ws, ctxt)->has_changes();
	  emit("var", v->get_name(), w->get_name(), false, *v == *w, *w == *v, hash_type_or_decl(v), hash_type_or_decl(w), chg);
	}

  vector<type_base_sptr> t1 = reachable_types(c1), t2 = reachable_types(c2);
  size_t n = t1.size() < max_types ? t1.size() : max_types;
  for (size_t i = 0; i < n; ++i)
    for (size_t j = i; j < n; ++j)
      {
	bool chg = comparison::compute_diff(t1[i], t1[j], ctxt)->has_changes();
	emit("type", label(t1[i], i), label(t1[j], j), i == j, t1[i] == t1[j], t1[j] == t1[i],
	     hash_type_or_decl(t1[i].get()), hash_type_or_decl(t1[j].get()), chg, structural(t1[i], t1[j]), structural(t1[j], t1[i]));
      }
  for (size_t i = 0; i < t1.size(); ++i)
    {
      string k = kind_of(t1[i]);
      if (k.empty())
	continue;
      string name = get_type_declaration(t1[i])->get_qualified_name();
      for (size_t j = 0; j < t2.size(); ++j)
	if (kind_of(t2[j]) == k && get_type_declaration(t2[j])->get_qualified_name() == name)
	  {
	    bool chg = comparison::compute_diff(t1[i], t2[j], ctxt)->has_changes();
	    emit("xtype", label(t1[i], i), label(t2[j], j), false, t1[i] == t2[j], t2[j] == t1[i],
		 hash_type_or_decl(t1[i].get()), hash_type_or_decl(t2[j].get()), chg, structural(t1[i], t2[j]), structural(t2[j], t1[i]));
	  }
    }
  // the types of same-named interfaces, position by position (variable type; return and parameter types), and what they are
  // made of (pointed-to / element / underlying type) as long as both sides have the same shape: these pairs need not have the same name
  {
    vector<std::pair<type_base_sptr, type_base_sptr> > todo;
    for (corpus::variables::const_iterator i = c1->get_variables().begin(); i != c1->get_variables().end(); ++i)
      for (corpus::variables::const_iterator j = c2->get_variables().begin(); j != c2->get_variables().end(); ++j)
	if ((*i)->get_name() == (*j)->get_name())
	  todo.push_back(std::make_pair((*i)->get_type(), (*j)->get_type()));
    for (corpus::functions::const_iterator i = c1->get_functions().begin(); i != c1->get_functions().end(); ++i)
      for (corpus::functions::const_iterator j = c2->get_functions().begin(); j != c2->get_functions().end(); ++j)
	if ((*i)->get_name() == (*j)->get_name() && (*i)->get_type() && (*j)->get_type())
	  {
	    function_type_sptr ft = (*i)->get_type(), gt = (*j)->get_type();
	    if (ft->get_return_type() && gt->get_return_type())
	      todo.push_back(std::make_pair(ft->get_return_type(), gt->get_return_type()));
	    for (size_t k = 0; k < ft->get_parameters().size() && k < gt->get_parameters().size(); ++k)
	      if (ft->get_parameters()[k]->get_type() && gt->get_parameters()[k]->get_type())
		todo.push_back(std::make_pair(ft->get_parameters()[k]->get_type(), gt->get_parameters()[k]->get_type()));
	  }
    size_t budget = 4 * max_types;
    for (size_t q = 0; q < todo.size() && q < budget; ++q)
      {
	type_base_sptr a = todo[q].first, b = todo[q].second;
	if (!a || !b)
	  continue;
	bool chg = comparison::compute_diff(a, b, ctxt)->has_changes();
	emit("xtype", label(a, q), label(b, q), false, a == b, b == a, hash_type_or_decl(a.get()), hash_type_or_decl(b.get()), chg,
	     structural(a, b), structural(b, a));
	if (is_pointer_type(a) && is_pointer_type(b))
	  todo.push_back(std::make_pair(is_pointer_type(a)->get_pointed_to_type(), is_pointer_type(b)->get_pointed_to_type()));
	else if (is_array_type(a) && is_array_type(b))
	  todo.push_back(std::make_pair(is_array_type(a)->get_element_type(), is_array_type(b)->get_element_type()));
	else if (is_typedef(a) && is_typedef(b))
	  todo.push_back(std::make_pair(is_typedef(a)->get_underlying_type(), is_typedef(b)->get_underlying_type()));
	else if (is_qualified_type(a) && is_qualified_type(b))
	  todo.push_back(std::make_pair(is_qualified_type(a)->get_underlying_type(), is_qualified_type(b)->get_underlying_type()));
	else if (is_class_or_union_type(a) && is_class_or_union_type(b))
	  {
	    const class_or_union *ca = is_class_or_union_type(a.get()), *cb = is_class_or_union_type(b.get());
	    for (size_t k = 0; k < ca->get_data_members().size() && k < cb->get_data_members().size(); ++k)
	      todo.push_back(std::make_pair(ca->get_data_members()[k]->get_type(), cb->get_data_members()[k]->get_type()));
	  }
      }
  }
  std::cout << "{\"e\":\"Done\",\"calls\":" << calls << "}" << std::endl;
  return 0;
}
