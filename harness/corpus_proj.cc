// corpus_proj <binary> [--no-linux-kernel-mode]
//
// Projection of an ABI corpus through the public API (properties C17, C18, C28).  Loads the binary the way
// tools/abidw.cc does (dwarf_reader::create_read_context + read_corpus_from_elf) and prints ONE JSON line:
//   funsyms / varsyms   id strings of corpus::get_sorted_fun_symbols() / get_sorted_var_symbols()
//   symrows             the same symbols with every attribute (name, version, isDefault, type, bind, vis, size, common,
//                       sect, defined) and the ids of all members of their alias chain ("ring", get_next_alias walk)
//   fns / vars          for each element of corpus::get_functions() / get_variables(): id, name, symbol id, alias ids
//   unref_fn/unref_var  corpus::get_unreferenced_function_symbols() / get_unreferenced_variable_symbols()
// The harness only records; every judgement is TLC's (spec/SymtabTrace.tla, spec/CorpusTrace.tla).
#include <cstdio>
#include <cstring>
#include <string>
#include <vector>
#include <iostream>
#include <sstream>
#include "abg-dwarf-reader.h"
#include "abg-corpus.h"
#include "abg-ir.h"

using namespace abigail;
using std::string;
using std::vector;

static string
esc(const string& s)
{
  string r;
  for (size_t i = 0; i < s.size(); ++i)
    {
      unsigned char c = s[i];
      if (c == '"' || c == '\\')
	{r += '\\'; r += c;}
      else if (c < 0x20)
	{char b[8]; snprintf(b, sizeof(b), "\\u%04x", c); r += b;}
      else
	r += c;
    }
  return r;
}

static string q(const string& s) {return "\"" + esc(s) + "\"";}

static const char*
type_str(elf_symbol::type t)
{
  switch (t)
    {
    case elf_symbol::NOTYPE_TYPE: return "NOTYPE";
    case elf_symbol::OBJECT_TYPE: return "OBJECT";
    case elf_symbol::FUNC_TYPE: return "FUNC";
    case elf_symbol::SECTION_TYPE: return "SECTION";
    case elf_symbol::FILE_TYPE: return "FILE";
    case elf_symbol::COMMON_TYPE: return "COMMON";
    case elf_symbol::TLS_TYPE: return "TLS";
    case elf_symbol::GNU_IFUNC_TYPE: return "IFUNC";
    }
  return "?";
}

static const char*
bind_str(elf_symbol::binding b)
{
  switch (b)
    {
    case elf_symbol::LOCAL_BINDING: return "LOCAL";
    case elf_symbol::GLOBAL_BINDING: return "GLOBAL";
    case elf_symbol::WEAK_BINDING: return "WEAK";
    case elf_symbol::GNU_UNIQUE_BINDING: return "UNIQUE";
    }
  return "?";
}

static const char*
vis_str(elf_symbol::visibility v)
{
  switch (v)
    {
    case elf_symbol::DEFAULT_VISIBILITY: return "DEFAULT";
    case elf_symbol::PROTECTED_VISIBILITY: return "PROTECTED";
    case elf_symbol::HIDDEN_VISIBILITY: return "HIDDEN";
    case elf_symbol::INTERNAL_VISIBILITY: return "INTERNAL";
    }
  return "?";
}

// ids of all members of the alias chain of SYM (SYM included), following get_next_alias until it comes back
static string
ring(const elf_symbol_sptr& sym)
{
  std::ostringstream o;
  o << "[" << q(sym->get_id_string());
  size_t guard = 0;
  for (elf_symbol_sptr a = sym->get_next_alias(); a && a.get() != sym.get() && guard < 100000; a = a->get_next_alias(), ++guard)
    o << "," << q(a->get_id_string());
  o << "]";
  return o.str();
}

static void
ids(std::ostream& o, const char* key, const elf_symbols& syms)
{
  o << "\"" << key << "\":[";
  for (size_t i = 0; i < syms.size(); ++i)
    o << (i ? "," : "") << q(syms[i]->get_id_string());
  o << "]";
}

static void
rows(std::ostream& o, const elf_symbols& syms, const char* sect, bool& first)
{
  for (size_t i = 0; i < syms.size(); ++i)
    {
      const elf_symbol_sptr& s = syms[i];
      unsigned long long sz = s->get_size();
      o << (first ? "" : ",") << "{\"name\":" << q(s->get_name())
	<< ",\"version\":" << q(s->get_version().str())
	<< ",\"isDefault\":" << ((!s->get_version().is_empty() && s->get_version().is_default()) ? "true" : "false")
	<< ",\"type\":\"" << type_str(s->get_type()) << "\",\"bind\":\"" << bind_str(s->get_binding())
	<< "\",\"vis\":\"" << vis_str(s->get_visibility()) << "\",\"size\":" << (sz > 0x7fffffffULL ? 0x7fffffffULL : sz)
	<< ",\"common\":" << (s->is_common_symbol() ? "true" : "false")
	<< ",\"sect\":\"" << sect << "\",\"defined\":" << (s->is_defined() ? "true" : "false")
	<< ",\"id\":" << q(s->get_id_string()) << ",\"ring\":" << ring(s) << "}";
      first = false;
    }
}

int
main(int argc, char* argv[])
{
  if (argc < 2)
    {
      fprintf(stderr, "usage: corpus_proj <binary> [--no-linux-kernel-mode]\n");
      return 2;
    }
  bool kernel_mode = true;
  for (int i = 2; i < argc; ++i)
    if (!strcmp(argv[i], "--no-linux-kernel-mode"))
      kernel_mode = false;

  ir::environment_sptr env(new ir::environment);
  vector<char**> di_roots;
  dwarf_reader::read_context_sptr c =
    dwarf_reader::create_read_context(argv[1], di_roots, env.get(), /*load_all_types=*/false, kernel_mode);
  elf_reader::status st = elf_reader::STATUS_UNKNOWN;
  corpus_sptr corp = dwarf_reader::read_corpus_from_elf(*c, st);

  std::ostringstream o;
  if (!corp)
    {
      o << "{\"ret\":\"nocorpus\",\"status\":" << int(st) << "}";
      std::cout << o.str() << std::endl;
      return 0;
    }
  o << "{\"ret\":\"ok\",\"status\":" << int(st) << ",";
  ids(o, "funsyms", corp->get_sorted_fun_symbols());
  o << ",";
  ids(o, "varsyms", corp->get_sorted_var_symbols());
  o << ",\"symrows\":[";
  bool first = true;
  rows(o, corp->get_sorted_fun_symbols(), "fn", first);
  rows(o, corp->get_sorted_var_symbols(), "var", first);
  o << "],\"fns\":[";
  const corpus::functions& fns = corp->get_functions();
  for (size_t i = 0; i < fns.size(); ++i)
    {
      const function_decl* f = fns[i];
      elf_symbol_sptr s = f->get_symbol();
      o << (i ? "," : "") << "{\"id\":" << q(f->get_id()) << ",\"name\":" << q(f->get_name())
	<< ",\"sym\":" << q(s ? s->get_id_string() : string("")) << ",\"aliases\":" << (s ? ring(s) : string("[]")) << "}";
    }
  o << "],\"vars\":[";
  const corpus::variables& vars = corp->get_variables();
  for (size_t i = 0; i < vars.size(); ++i)
    {
      const var_decl* v = vars[i];
      elf_symbol_sptr s = v->get_symbol();
      o << (i ? "," : "") << "{\"id\":" << q(v->get_id()) << ",\"name\":" << q(v->get_name())
	<< ",\"sym\":" << q(s ? s->get_id_string() : string("")) << ",\"aliases\":" << (s ? ring(s) : string("[]")) << "}";
    }
  o << "],";
  ids(o, "unref_fn", corp->get_unreferenced_function_symbols());
  o << ",";
  ids(o, "unref_var", corp->get_unreferenced_variable_symbols());
  o << "}";
  std::cout << o.str() << std::endl;
  return 0;
}
