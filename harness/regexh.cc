// Conformance harness for C27 (campaign A): abigail::regex::generate_from_strings, compile and match on the
// space Regex.tla enumerates.  A string is a sequence of one-byte tokens; the bytes are concatenated into the
// real std::string.  The harness only records:
//
//   {"e":"GenSet","set":[[tokens]..],"tokens":[..],"maxlen":n,"pat":[bytes of the generated pattern],
//    "compiled":bool,"matched":[[tokens]..],"ret":"ok"}        matched = every x of the space that match() accepted
//   {"e":"Gen","set":[[tokens]..],"x":[tokens],"pat":[..],"compiled":bool,"match":bool,"ret":"ok"}   (random, longer)
//
// usage: regexh <out> <tokens separated by ','> <maxlen> <maxset> <shard> <nshards> <nrand> <seed>
//        regexh <out> --one <set: strings separated by ',' (tokens are bytes)> <x>
#include <cstdio>
#include <cstdlib>
#include <cstring>
#include <string>
#include <vector>
#include "abg-regex.h"

using std::string;
using std::vector;
namespace rx = abigail::regex;

typedef vector<string> tokstr;    // one string = its tokens (each one byte)

static string bytes_of(const tokstr& s)
{ string r; for (size_t i = 0; i < s.size(); ++i) r += s[i]; return r; }

static void jtok(FILE* f, const string& t)
{
  fputc('"', f);
  for (size_t i = 0; i < t.size(); ++i)
    {
      unsigned char c = t[i];
      if (c == '"' || c == '\\') { fputc('\\', f); fputc(c, f); }
      else if (c < 0x20 || c >= 0x7f) fprintf(f, "\\u%04x", c);
      else fputc(c, f);
    }
  fputc('"', f);
}

static void jstr(FILE* f, const tokstr& s)
{ fputc('[', f); for (size_t i = 0; i < s.size(); ++i) { if (i) fputc(',', f); jtok(f, s[i]); } fputc(']', f); }

static void jbytes(FILE* f, const string& s)
{ fputc('[', f); for (size_t i = 0; i < s.size(); ++i) { if (i) fputc(',', f); jtok(f, string(1, s[i])); } fputc(']', f); }

static void jset(FILE* f, const vector<tokstr>& v)
{ fputc('[', f); for (size_t i = 0; i < v.size(); ++i) { if (i) fputc(',', f); jstr(f, v[i]); } fputc(']', f); }

static void all_strings(const vector<string>& toks, int maxlen, vector<tokstr>& out)
{
  out.push_back(tokstr());
  size_t start = 0;
  for (int len = 1; len <= maxlen; ++len)
    {
      size_t end = out.size();
      for (size_t i = start; i < end; ++i)
	for (size_t c = 0; c < toks.size(); ++c) { tokstr v = out[i]; v.push_back(toks[c]); out.push_back(v); }
      start = end;
    }
}

static void gen_set(FILE* f, const vector<tokstr>& set, const vector<string>& toks, int maxlen, const vector<tokstr>& space)
{
  vector<string> strs;
  for (size_t i = 0; i < set.size(); ++i) strs.push_back(bytes_of(set[i]));
  fputs("{\"e\":\"GenSet\",\"set\":", f); jset(f, set);
  fputs(",\"tokens\":", f); jstr(f, toks);
  fprintf(f, ",\"maxlen\":%d", maxlen);
  fflush(f);
  string pat = rx::generate_from_strings(strs);
  fputs(",\"pat\":", f); jbytes(f, pat);
  rx::regex_t_sptr r = rx::compile(pat);
  fprintf(f, ",\"compiled\":%s,\"matched\":[", r ? "true" : "false");
  fflush(f);
  bool first = true;
  if (r)
    for (size_t k = 0; k < space.size(); ++k)
      if (rx::match(r, bytes_of(space[k])))
	{ if (!first) fputc(',', f); first = false; jstr(f, space[k]); }
  fputs("],\"ret\":\"ok\"}\n", f);
}

static void gen_one(FILE* f, const vector<tokstr>& set, const tokstr& x)
{
  vector<string> strs;
  for (size_t i = 0; i < set.size(); ++i) strs.push_back(bytes_of(set[i]));
  fputs("{\"e\":\"Gen\",\"set\":", f); jset(f, set);
  fputs(",\"x\":", f); jstr(f, x);
  fflush(f);
  string pat = rx::generate_from_strings(strs);
  fputs(",\"pat\":", f); jbytes(f, pat);
  rx::regex_t_sptr r = rx::compile(pat);
  bool m = r ? rx::match(r, bytes_of(x)) : false;
  fprintf(f, ",\"compiled\":%s,\"match\":%s,\"ret\":\"ok\"}\n", r ? "true" : "false", m ? "true" : "false");
}

static tokstr toks_of_bytes(const string& s)
{ tokstr r; for (size_t i = 0; i < s.size(); ++i) r.push_back(string(1, s[i])); return r; }

static vector<string> split(const string& s, char sep)
{
  vector<string> r; string cur;
  for (size_t i = 0; i < s.size(); ++i) if (s[i] == sep) { r.push_back(cur); cur.clear(); } else cur += s[i];
  r.push_back(cur);
  return r;
}

int main(int argc, char** argv)
{
  if (argc >= 5 && !strcmp(argv[2], "--one"))
    {
      FILE* f = fopen(argv[1], "w");
      vector<tokstr> set;
      if (argv[3][0])
	{ vector<string> ss = split(argv[3], ','); for (size_t i = 0; i < ss.size(); ++i) set.push_back(toks_of_bytes(ss[i])); }
      gen_one(f, set, toks_of_bytes(argv[4]));
      fclose(f);
      return 0;
    }
  if (argc < 9) { fprintf(stderr, "usage: regexh <out> <tokens,..> <maxlen> <maxset> <shard> <nshards> <nrand> <seed>\n"); return 2; }
  FILE* f = fopen(argv[1], "w");
  vector<string> toks = split(argv[2], ',');
  int maxlen = atoi(argv[3]), maxset = atoi(argv[4]), shard = atoi(argv[5]), nshards = atoi(argv[6]), nrand = atoi(argv[7]);
  unsigned seed = (unsigned) atoi(argv[8]) * 2654435761u + shard;
  for (size_t i = 0; i < toks.size(); ++i)
    if (toks[i].size() != 1) { fprintf(stderr, "tokens must be single bytes\n"); return 2; }
  vector<tokstr> space; all_strings(toks, maxlen, space);
  // every vector of <= maxset strings of the space (order and repetitions included), numbered in a fixed order
  size_t n = 0, nsets = 0;
  vector<size_t> idx;                       // current vector as indexes into space
  for (int len = 0; len <= maxset; ++len)
    {
      idx.assign(len, 0);
      for (;;)
	{
	  if ((int)(n % nshards) == shard)
	    {
	      vector<tokstr> set; for (int k = 0; k < len; ++k) set.push_back(space[idx[k]]);
	      gen_set(f, set, toks, maxlen, space); ++nsets;
	    }
	  ++n;
	  int k = len - 1;
	  while (k >= 0 && ++idx[k] == space.size()) { idx[k] = 0; --k; }
	  if (k < 0) break;
	}
    }
  // random longer strings and larger sets: x is a member, a member with one token changed / dropped / doubled, or unrelated
  srand(seed);
  for (int r = 0; r < nrand; ++r)
    {
      int ns = rand() % 7;
      vector<tokstr> set;
      for (int i = 0; i < ns; ++i)
	{ tokstr s; int l = 1 + rand() % 8; for (int j = 0; j < l; ++j) s.push_back(toks[rand() % toks.size()]); set.push_back(s); }
      tokstr x;
      int how = rand() % 5;
      if (ns && how < 4)
	{
	  x = set[rand() % ns];
	  size_t p = x.empty() ? 0 : rand() % x.size();
	  if (how == 1 && !x.empty()) x[p] = toks[rand() % toks.size()];
	  else if (how == 2 && !x.empty()) x.erase(x.begin() + p);
	  else if (how == 3 && !x.empty()) x.insert(x.begin() + p, x[p]);
	}
      else
	{ int l = rand() % 6; for (int j = 0; j < l; ++j) x.push_back(toks[rand() % toks.size()]); }
      gen_one(f, set, x);
    }
  fclose(f);
  printf("{\"sets\":%zu,\"space\":%zu}\n", nsets, space.size());
  return 0;
}
