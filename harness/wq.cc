// Conformance harness for C32 (and the queue part of C31): drives abigail::workers::queue with <W> workers and
// <N> tasks and records what it observed as one ndjson "Summary" event on stdout.  It only records: whether the
// observation is acceptable is decided by TLC (spec/WorkerQueueAbsTrace.tla), which also sees the H1 events the
// hooked library appended to $ABG_VERIF_TRACE during the run.
//
//   wq <W> <N> <notifier 0|1> <batch 0|1> <workseed>
//
//   notifier 1: queue(W, notifier) with a notifier that records the order of its invocations and whether two
//               invocations ever overlapped (atomic flag; recorded, not judged);  0: queue(W)
//   batch    1: queue::schedule_tasks(vector)   0: queue::schedule_task() once per task
//   Task k (1-based, in scheduling order) spins for a duration derived from (workseed, k).
//   Time-outs are enforced by the driver; a run that hangs prints no Summary.
#include <cstdio>
#include <cstdlib>
#include <vector>
#include "abg-workers.h"

using namespace abigail::workers;

static int* g_performed;          // per task: number of perform() calls (atomic increments)

static unsigned mix(unsigned a, unsigned b)
{ unsigned x = a * 2654435761u ^ (b + 0x9e3779b9u) * 40503u; x ^= x >> 15; x *= 2246822519u; x ^= x >> 13; return x; }

static unsigned spin(unsigned n)
{ volatile unsigned s = 0; for (unsigned i = 0; i < n; ++i) s = s * 1664525u + 1013904223u + i; return s; }

struct wtask : public task
{
  int idx; unsigned work, sink;
  wtask(int i, unsigned w) : idx(i), work(w), sink(0) {}
  virtual void perform()
  { __atomic_add_fetch(&g_performed[idx], 1, __ATOMIC_SEQ_CST); sink = spin(work); }
};

struct recording_notifier : public queue::task_done_notify
{
  int active, overlap, ncalls, cap;
  int* order;
  recording_notifier(int n) : active(0), overlap(0), ncalls(0), cap(2 * n + 8), order(new int[2 * n + 8]()) {}
  virtual void operator()(const task_sptr& t)
  {
    if (__atomic_exchange_n(&active, 1, __ATOMIC_SEQ_CST)) __atomic_store_n(&overlap, 1, __ATOMIC_SEQ_CST);
    int slot = __atomic_fetch_add(&ncalls, 1, __ATOMIC_SEQ_CST);
    wtask* w = dynamic_cast<wtask*>(t.get());
    if (slot < cap) __atomic_store_n(&order[slot], w ? w->idx : -1, __ATOMIC_SEQ_CST);
    spin(200 + (w ? w->work % 800 : 0));
    __atomic_store_n(&active, 0, __ATOMIC_SEQ_CST);
  }
};

static void emit(const char* name, const int* v, int n, int from)
{ printf(",\"%s\":[", name); for (int i = 0; i < n; ++i) printf("%s%d", i ? "," : "", v[from + i]); printf("]"); }

int main(int argc, char** argv)
{
  if (argc < 6) { fprintf(stderr, "usage: wq <workers> <tasks> <notifier 0|1> <batch 0|1> <workseed>\n"); return 2; }
  int W = atoi(argv[1]), N = atoi(argv[2]), with_notifier = atoi(argv[3]), batch = atoi(argv[4]);
  unsigned seed = (unsigned) atoi(argv[5]);
  g_performed = new int[N + 2]();
  recording_notifier note(N);
  queue::tasks_type tasks;
  for (int k = 1; k <= N; ++k)
    {
      unsigned h = mix(seed, k), work = (h & 7) == 0 ? 20000 + (h >> 8) % 60000 : (h >> 8) % 3000;
      tasks.push_back(task_sptr(new wtask(k, work)));
    }
  int sched_ok = 0;
  std::vector<int> done;
  {
    queue* q = with_notifier ? new queue(W, note) : new queue(W);
    if (batch) { if (q->schedule_tasks(tasks)) sched_ok = N; }
    else for (int k = 0; k < N; ++k) if (q->schedule_task(tasks[k])) ++sched_ok;
    q->wait_for_workers_to_complete();
    const queue::tasks_type& d = q->get_completed_tasks();
    for (size_t i = 0; i < d.size(); ++i)
      { wtask* w = dynamic_cast<wtask*>(d[i].get()); done.push_back(w ? w->idx : -1); }
    delete q;
  }
  printf("{\"e\":\"Summary\",\"W\":%d,\"N\":%d,\"notifier\":%d,\"batch\":%d,\"schedok\":%d", W, N, with_notifier, batch, sched_ok);
  emit("perf", g_performed, N, 1);
  emit("done", done.empty() ? 0 : &done[0], (int) done.size(), 0);
  int nc = note.ncalls < note.cap ? note.ncalls : note.cap;
  printf(",\"ncalls\":%d", note.ncalls);
  emit("nseq", note.order, nc, 0);
  printf(",\"overlap\":%d}\n", note.overlap);
  fflush(stdout);
  return 0;
}
