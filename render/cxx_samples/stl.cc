// standard-library types in the interface (large DWARF; thorough tier only)
#include <string>
#include <vector>
#include <map>
#include <memory>
struct Record {
  std::string name;
  std::vector<int> values;
#ifdef V2
  std::map<std::string, long> index;              // V2: mapped type changed
#else
  std::map<std::string, int> index;
#endif
  std::shared_ptr<Record> parent;
};
std::size_t total(const Record& r) { std::size_t s = 0; for (int v : r.values) s += v; return s + r.name.size(); }
std::unique_ptr<Record> make_record(const std::string& n) { std::unique_ptr<Record> r(new Record); r->name = n; return r; }
std::vector<Record> registry;
