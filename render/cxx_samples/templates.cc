// class templates, function template instantiations, non-type parameters, specializations
template <typename T, int N>
struct Array {
  T items[N];
  int used;
  T& at(int i) { return items[i]; }
  static const int capacity = N;
};

template <typename K, typename V>
struct Pair { K key; V value;
#ifdef V2
  bool valid;                                    // V2: member added to every instantiation
#endif
};

template <typename T> struct Box { T v; T get() const { return v; } };
template <> struct Box<bool> { unsigned char bits; bool get() const { return bits & 1; } };
template <typename T> struct Box<T*> { T* p; long refs; T* get() const { return p; } };

template <typename T> T maximum(T a, T b) { return a < b ? b : a; }
template <typename T, typename U> auto mix(T a, U b) -> decltype(a + b) { return a + b; }

template <template <typename> class C, typename T> struct Wrap { C<T> inner; };

struct Node { Node* next; Pair<int, double> payload; };

template int maximum<int>(int, int);
template double maximum<double>(double, double);
#ifdef V2
template long maximum<long>(long, long);         // V2: new instantiation exported
#endif

#ifdef V2
typedef Array<int, 8> IntArray;                  // V2: non-type argument changed
#else
typedef Array<int, 4> IntArray;
#endif

int sum(IntArray& a) { int s = 0; for (int i = 0; i < a.used; ++i) s += a.at(i); return s; }
Pair<const char*, Node*> find(Node* n, const char* k) { Pair<const char*, Node*> p = Pair<const char*, Node*>(); p.key = k; p.value = n; return p; }
bool unbox(const Box<bool>& b, Box<int*>& p, Box<float> f) { return b.get() && p.get() && f.get() > 0; }
double mixed(int a, double b) { return mix(a, b); }
long wrapped(Wrap<Box, long>& w) { return w.inner.get(); }
Array<Pair<char, short>, 3> table;
