// operators, constructors / destructors, const methods, default arguments, friends, nested classes, variadics, lambdas
class Matrix {
public:
  class Row {
  public:
    Row(Matrix& m, int r) : m_(m), r_(r) {}
    double& operator[](int c);
  private:
    Matrix& m_;
    int r_;
  };
  Matrix() : rows_(2), cols_(2) { for (int i = 0; i < 4; ++i) d_[i] = 0; }
  Matrix(const Matrix& o) : rows_(o.rows_), cols_(o.cols_) { for (int i = 0; i < 4; ++i) d_[i] = o.d_[i]; }
  ~Matrix() {}
  Matrix& operator=(const Matrix& o) { for (int i = 0; i < 4; ++i) d_[i] = o.d_[i]; return *this; }
  Matrix operator+(const Matrix& o) const { Matrix m(*this); for (int i = 0; i < 4; ++i) m.d_[i] += o.d_[i]; return m; }
  bool operator==(const Matrix& o) const { for (int i = 0; i < 4; ++i) if (d_[i] != o.d_[i]) return false; return true; }
  Row operator[](int r) { return Row(*this, r); }
  explicit operator bool() const { return d_[0] != 0; }
#ifdef V2
  double trace(bool absolute) const { double t = d_[0] + d_[3]; return absolute && t < 0 ? -t : t; }   // V2: signature changed
#else
  double trace() const { return d_[0] + d_[3]; }
#endif
  friend double det(const Matrix& m);
  friend class Inspector;
private:
  int rows_, cols_;
  double d_[4];
};
double& Matrix::Row::operator[](int c) { return m_.d_[r_ * 2 + c]; }
double det(const Matrix& m) { return m.d_[0] * m.d_[3] - m.d_[1] * m.d_[2]; }
class Inspector { public: static int rows(const Matrix& m) { return m.rows_; } };

struct Resource {
  Resource(int h = -1, const char* label = "none") : handle(h), label_(label) {}
  Resource(Resource&& o) noexcept : handle(o.handle), label_(o.label_) { o.handle = -1; }
  virtual ~Resource() { handle = -1; }
  int handle;
  const char* label_;
};

int log_values(const char* fmt, ...) { return fmt ? 1 : 0; }
int apply_twice(int (*f)(int), int x) { return f(f(x)); }
int with_lambda(int k) { auto add = [k](int v) { return v + k; }; return add(1); }
Matrix identity() { Matrix m; m[0][0] = 1; m[1][1] = 1; return m; }
double trace_of(const Matrix& m) {
#ifdef V2
  return m.trace(false);
#else
  return m.trace();
#endif
}
int rows_of(const Matrix& m) { return Inspector::rows(m); }
Resource acquire(int h) { return Resource(h, "acquired"); }
#ifndef V2
void release(Resource& r) { r.handle = -1; }       // V2: function removed
#endif
bool nonzero(const Matrix& m) { return static_cast<bool>(m); }
