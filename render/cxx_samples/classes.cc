// classes with bases (single, multiple, virtual), virtual functions, access, statics
struct Shape {
  virtual ~Shape() {}
  virtual double area() const = 0;
  virtual const char* name() const { return "shape"; }
#ifdef V2
  virtual int sides() const { return 0; }        // V2: new virtual function (vtable layout change)
#endif
  int id;
protected:
  unsigned flags;
};

struct Colored {
  unsigned char r, g, b;
#ifdef V2
  unsigned char alpha;                           // V2: new data member
#endif
  virtual void paint() {}
};

class Circle : public Shape, protected Colored {
public:
  explicit Circle(double r) : radius(r) {}
  double area() const override { return 3.14159 * radius * radius; }
  const char* name() const override { return "circle"; }
  static int count;
  static Circle* make(double r) { ++count; return new Circle(r); }
private:
  double radius;
};
int Circle::count = 0;

struct VBase { long token; virtual ~VBase() {} };
struct Left : virtual VBase { int l; };
struct Right : virtual VBase { int r; };
#ifdef V2
struct Diamond : Right, Left { char tag; };       // V2: base order swapped
#else
struct Diamond : Left, Right { char tag; };
#endif

class Sealed final : public Circle {
public:
  Sealed() : Circle(1.0), extra(0) {}
  double area() const override { return 1.0; }
#ifdef V2
  long extra;                                    // V2: member type change int -> long
#else
  int extra;
#endif
};

double total_area(const Shape* const* shapes, unsigned n) { double s = 0; for (unsigned i = 0; i < n; ++i) s += shapes[i]->area(); return s; }
Circle* new_circle(double r) { return Circle::make(r); }
long diamond_token(Diamond& d) { return d.token + d.l + d.r; }
void seal(Sealed& s, Colored* c) { s.extra = c ? c->r : 0; }
Shape* global_shape = 0;
