// member pointers, anonymous unions / structs, bit-fields, cv-qualified members, function pointers, arrays
struct Widget;
typedef int (Widget::*Method)(int) const;
typedef double Widget::*Field;
typedef void (*Callback)(Widget*, void*);

struct Widget {
  int width() const { return w; }
  int scaled(int k) const { return w * k; }
  double weight;
  double height;
  int w;
  union {                                         // anonymous union
    int as_int;
    float as_float;
#ifdef V2
    double as_double;                            // V2: anonymous union grows
#endif
  };
  struct {                                        // anonymous struct
    unsigned visible : 1;
#ifdef V2
    unsigned depth : 5;                          // V2: bit-field width changed
#else
    unsigned depth : 3;
#endif
    signed   bias : 4;
  };
  const int serial;
  volatile long ticks;
  mutable char cache[6];
  Callback on_event[2];
  Method preferred;
  Field measured;
  struct Inner { short a; union { char c; short s; }; } inner[2];
  Widget() : weight(0), height(0), w(0), as_int(0), serial(7), ticks(0), preferred(&Widget::scaled), measured(&Widget::weight) {}
};

union Variant { int i; double d; Widget* w; struct { char tag; char body[15]; } raw; Method m; };

int call(const Widget& w, Method m, int k) { return (w.*m)(k); }
double read(const Widget* w, Field f) { return w->*f; }
Method choose(bool a) { return a ? &Widget::scaled : 0; }
void fire(Widget& w, void* ctx) { for (int i = 0; i < 2; ++i) if (w.on_event[i]) w.on_event[i](&w, ctx); }
Variant make_variant(Widget* w) { Variant v; v.w = w; return v; }
int (*table[3])(const Widget&, Method, int) = { call, 0, 0 };
Widget::Inner first_inner(const Widget& w) { return w.inner[0]; }
const volatile Widget* const shared_widget = 0;
extern const volatile Widget* const* const shared_ref = &shared_widget;
