// nested / inline / anonymous namespaces, enum classes, references, using-declarations and aliases
namespace outer {
  enum class Mode : unsigned char { Off, On, Auto
#ifdef V2
    , Eco                                         // V2: enumerator added
#endif
  };
#ifdef V2
  enum class Level : long { Low = -1, High = 1 };  // V2: underlying type changed
#else
  enum class Level : int { Low = -1, High = 1 };
#endif
  enum Plain { P0, P1 = 10, P2 };

  namespace inner {
    struct Config { Mode mode; Level level; Plain plain; const char* name; };
    typedef Config* ConfigPtr;
    using ConfigRef = Config&;
    inline namespace v1 { struct Versioned { int major_, minor_; }; int version(const Versioned& v) { return v.major_ * 100 + v.minor_; } }
  }
  using inner::Config;

  int apply(inner::ConfigRef c, Mode m) { c.mode = m; return static_cast<int>(c.level); }
#ifdef V2
  void reset(Config* c) { c->mode = Mode::Off; }   // V2: reference parameter became a pointer
#else
  void reset(Config& c) { c.mode = Mode::Off; }
#endif
  Config&& steal(Config&& c) { return static_cast<Config&&>(c); }
  const Config& pick(const Config& a, const Config& b) { return a.level < b.level ? b : a; }
}

namespace { struct Hidden { int secret; }; int peek(const Hidden& h) { return h.secret; } }

namespace alias = outer::inner;
alias::ConfigPtr current = 0;
outer::Mode default_mode = outer::Mode::Auto;
int use_hidden() { Hidden h = { 42 }; return peek(h); }
int version_of(alias::Versioned v) { return alias::version(v); }
