struct seg { enum { SEG_SOLID, SEG_DASHED } style; int len; };
struct box { enum { BOX_THIN, BOX_THICK = 4 } border; union { int i; float f; } fill; struct { short x, y; } at; };
struct tag { enum { TAG_A = 1, TAG_B, TAG_C } which; };
int seg_len(struct seg *s) { return s->len; }
int box_border(struct box *b) { return b->border; }
int tag_which(struct tag *t) { return t->which; }
