/* same declarations, other order; bodies, parameter names and line numbers changed */

struct tag { enum { TAG_A = 1, TAG_B, TAG_C } which; };
struct box { enum { BOX_THIN, BOX_THICK = 4 } border; union { int i; float f; } fill; struct { short x, y; } at; };
static int helper(int v) { return v + 1; }
struct seg { enum { SEG_SOLID, SEG_DASHED } style; int len; };
struct unused_thing { enum { U_X, U_Y } u; };
int tag_which(struct tag *the_tag) { return helper(the_tag->which) - 1; }
int box_border(struct box *the_box) { int r = the_box->border; return r; }
int seg_len(struct seg *segment) { return segment->len; }
