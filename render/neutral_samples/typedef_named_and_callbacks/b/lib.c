#define UNUSED(x) ((void) (x))
struct opaque;
typedef enum { M_OFF, M_ON } mode_e;
typedef union { int i; float f; } value_t;
typedef struct { int x, y; } point_t;
typedef int (*cmp_fn)(const point_t *, const point_t *);
typedef struct { point_t at; value_t v; mode_e m; cmp_fn cmp; struct opaque *impl; } item_t;
typedef struct { double never_used; } unused_t;
static const int zero = 0;
item_t first_item;
void item_sort(item_t *array, int count, cmp_fn compare) { UNUSED(array); UNUSED(count); UNUSED(compare); }
point_t item_at(const item_t *item) { point_t p = item->at; return p; }
int item_mode(const item_t *item) { return item->m + zero; }
