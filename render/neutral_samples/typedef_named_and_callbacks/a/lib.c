typedef struct { int x, y; } point_t;
typedef union { int i; float f; } value_t;
typedef enum { M_OFF, M_ON } mode_e;
typedef int (*cmp_fn)(const point_t *, const point_t *);
struct opaque;
typedef struct { point_t at; value_t v; mode_e m; cmp_fn cmp; struct opaque *impl; } item_t;
int item_mode(const item_t *it) { return it->m; }
point_t item_at(const item_t *it) { return it->at; }
void item_sort(item_t *items, int n, cmp_fn cmp) { (void) items; (void) n; (void) cmp; }
item_t first_item;
