struct seg { enum { SEG_SOLID, SEG_DASHED } style; int len; };
struct box { enum { BOX_THIN, BOX_THICK = 4 } border; union { int i; float f; } fill; };
int seg_len(struct seg *s) { return s->len; }
int box_border(struct box *b) { return b->border; }
