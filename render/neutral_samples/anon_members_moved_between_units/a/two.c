struct tag { enum { TAG_A = 1, TAG_B } which; struct { int lo, hi; } range; };
int tag_which(struct tag *t) { return t->which; }
