struct seg { enum { SEG_SOLID, SEG_DASHED } style; int len; };
int seg_len(struct seg *s) { return s->len; }
