struct tag { enum { TAG_A = 1, TAG_B } which; struct { int lo, hi; } range; };
struct box { enum { BOX_THIN, BOX_THICK = 4 } border; union { int i; float f; } fill; };
int box_border(struct box *b) { return b->border; }
int tag_which(struct tag *t) { return t->which; }
