"""Campaign X: renders an abstract corpus of spec/CorpusDiff.tla (a set of symbols [n, v, d, decl]) as an ABIXML document.
No compiler involved.  kind = "fn" (functions) or "var" (variables)."""


def symid(s):
    return s["n"] + (("@@" if s["d"] else "@") + s["v"] if s["v"] else "")


def render(corpus, kind="fn", soname=None):
    syms = sorted(corpus, key=symid)
    out = ["<abi-corpus version='2.1' architecture='elf-amd-x86_64'%s>" % ((" soname='%s'" % soname) if soname else "")]
    sec = "elf-function-symbols" if kind == "fn" else "elf-variable-symbols"
    if syms:
        out.append("  <%s>" % sec)
        for s in syms:
            ver = (" version='%s' is-default-version='%s'" % (s["v"], "yes" if s["d"] else "no")) if s["v"] else ""
            if kind == "fn":
                out.append("    <elf-symbol name='%s'%s type='func-type' binding='global-binding' visibility='default-visibility' is-defined='yes'/>" % (s["n"], ver))
            else:
                out.append("    <elf-symbol name='%s' size='4'%s type='object-type' binding='global-binding' visibility='default-visibility' is-defined='yes'/>" % (s["n"], ver))
        out.append("  </%s>" % sec)
    decls = [s for s in syms if s["decl"]]
    if decls:
        out.append("  <abi-instr address-size='64' path='x.c' comp-dir-path='/x' language='LANG_C11'>")
        out.append("    <type-decl name='int' size-in-bits='32' id='type-id-1'/>")
        out.append("    <type-decl name='void' id='type-id-2'/>")
        for s in decls:
            if kind == "fn":
                out.append("    <function-decl name='%s' mangled-name='%s' visibility='default' binding='global' size-in-bits='64' elf-symbol-id='%s'>" % (s["n"], s["n"], symid(s)))
                out.append("      <return type-id='type-id-2'/>")
                out.append("    </function-decl>")
            else:
                out.append("    <var-decl name='%s' type-id='type-id-1' mangled-name='%s' visibility='default' elf-symbol-id='%s'/>" % (s["n"], s["n"], symid(s)))
        out.append("  </abi-instr>")
    out.append("</abi-corpus>")
    return "\n".join(out) + "\n"
