"""Renderer for the symbol-table campaigns (C17, C18, C28): abstract symbol tables -> assembler / C sources -> ELF binaries.

An abstract row is what spec/Symtab.tla generates: name, type, bind, vis, shndx ("UND" | "ABS" | "COM" | section number),
value (slot inside the section), size, version, isDefault.  The renderer is deliberately loose: whatever it produces is
read back by an independent ELF reader (lib/symobs.readelf_tables) and only those facts enter the oracle, so a row that
cannot be expressed exactly (hidden symbols become local when linked, `.comm` symbols are allocated by the linker, ...)
costs diversity, never soundness.

  asm_table(rows, kernel=None)      -> Rendered(asm, vscript)
  build(rd, workdir, stem, kinds)   -> [(kind, path)]        kinds: see KINDS
  random_table(rng, n, ...)         -> rows                   larger random tables
  pack_rows(rows)                   -> rows                   give generator rows unique names and addresses (one big table)
  c_program(rng, ...)               -> CProgram(sources...)   C17: C sources mixing -g / non -g TUs, aliases, weak, visibility
  build_c(prog, workdir, stem, ...) -> [(kind, path)]
"""
import os, re
import vf

SECTION_OF = {"1": ".text", "2": ".data", "3": "__ksymtab", "4": ".rodata"}
TYPE_DIR = {"FUNC": "@function", "OBJECT": "@object", "TLS": "@tls_object", "IFUNC": "@gnu_indirect_function", "NOTYPE": "@notype"}
VIS_DIR = {"HIDDEN": ".hidden", "PROTECTED": ".protected", "INTERNAL": ".internal"}


class Rendered:
    def __init__(self, asm, vscript, versions):
        self.asm, self.vscript, self.versions = asm, vscript, versions


def _ident(s):
    return re.sub(r"[^A-Za-z0-9_.$]", "_", s)


def normalize(row):
    """Make a generated row expressible (or return None).  Not an oracle: only keeps the assembler and linkers happy."""
    r = dict(row)
    if r["type"] not in TYPE_DIR:
        return None
    if r["shndx"] == "UND":
        if r["bind"] == "LOCAL":
            return None
        r["vis"] = "DEFAULT"
        r["version"] = ""
        if r["type"] in ("TLS", "IFUNC"):
            r["type"] = "FUNC" if r["type"] == "IFUNC" else "OBJECT"
    if r["shndx"] == "COM":
        if r["type"] != "OBJECT" or r["bind"] not in ("GLOBAL", "LOCAL"):
            return None
        r["version"] = ""
    if r["shndx"] == "ABS" and r["type"] in ("TLS", "IFUNC"):
        return None
    if r["bind"] == "UNIQUE" and (r["type"] != "OBJECT" or r["shndx"] in ("UND", "ABS", "COM")):
        return None
    if r["version"] and (r["bind"] == "LOCAL" or r["vis"] in ("HIDDEN", "INTERNAL") or r["shndx"] in ("ABS",)):
        r["version"] = ""
    return r


def asm_table(rows, kernel=None, entry=True):
    """rows: abstract rows.  kernel: None | "strings" (a __ksymtab_strings section) | "module" (.modinfo +
    .gnu.linkonce.this_module): marker rows (__ksymtab_<sym>, __crc_<sym>) are ordinary rows of the table."""
    lines = ["# rendered by render/symasm.py"]
    sections = {}            # section name -> {slot key -> [label]}
    heads, tails, versions = [], [], set()
    used = set()
    comm = []
    tls_at = []
    for k, row in enumerate(rows):
        r = normalize(row)
        if r is None:
            continue
        base = r["name"] or "anon"
        ver = r["version"]
        exported = base
        if ver:
            label = _ident("%s__v%d" % (base, k))
            versions.add(ver)
        elif r["shndx"] == "UND":
            label = _ident("und_" + base)
        else:
            label = _ident(base)
            if label in used:
                label = _ident("%s_%d" % (base, k))
        if label in used:
            continue
        used.add(label)
        d = []
        if r["bind"] == "UNIQUE":
            d.append(".type %s,@gnu_unique_object" % label)
        else:
            if r["bind"] == "GLOBAL":
                d.append(".globl %s" % label)
            elif r["bind"] == "WEAK":
                d.append(".weak %s" % label)
            d.append(".type %s,%s" % (label, TYPE_DIR[r["type"]]))
        if r["vis"] in VIS_DIR:
            d.append("%s %s" % (VIS_DIR[r["vis"]], label))
        sh = r["shndx"]
        if sh == "UND":
            heads += d
            tails.append(".quad %s" % label)
            continue
        if sh == "COM":
            if r["bind"] == "LOCAL":
                comm.append(".local %s" % label)
            comm.append(".comm %s,%d,8" % (label, max(r["size"], 1)))
            continue
        d.append(".size %s,%d" % (label, r["size"]))
        if ver:
            d.append(".symver %s,%s%s%s,remove" % (label, exported, "@@" if r["isDefault"] else "@", ver))
        heads += d
        if sh == "ABS":
            heads.append(".set %s,%d" % (label, 0x1000 + 16 * int(r["value"])))
            continue
        sec = ".tdata" if r["type"] == "TLS" else SECTION_OF.get(sh, ".data.s" + _ident(sh))
        if r["type"] == "TLS" and row.get("tlsoff") is not None:
            tls_at.append((int(row["tlsoff"]), label))      # explicit offset in the TLS template (st_value of the symbol)
            continue
        slot = (sh, int(r["value"])) if r["type"] == "TLS" else int(r["value"])
        sections.setdefault(sec, {}).setdefault(slot, []).append(label)
    if entry and "_start" not in used:
        heads += [".globl _start", ".type _start,@function", ".size _start,1"]
        sections.setdefault(".text", {}).setdefault(1 << 30, []).append("_start")
    lines += heads
    flags = {".text": ('"ax"', "@progbits"), ".data": ('"aw"', "@progbits"), ".tdata": ('"awT"', "@progbits"),
             "__ksymtab": ('"a"', "@progbits"), ".rodata": ('"a"', "@progbits")}
    for sec in sorted(sections):
        fl, ty = flags.get(sec, ('"aw"', "@progbits"))
        lines.append(".section %s,%s,%s" % (sec, fl, ty))
        for slot in sorted(sections[sec], key=lambda s: (0, s) if isinstance(s, int) else (1, s)):
            lines.append(".balign 16")
            for lab in sections[sec][slot]:
                lines.append("%s:" % lab)
            lines.append(".skip 16,0xc3" if sec == ".text" else ".skip 16,1")
    if tls_at:
        lines.append('.section .tdata,"awT",@progbits')
        for off, lab in sorted(tls_at):
            lines += [".org %d" % off, "%s:" % lab]
        lines.append(".skip 16,1")
    if tails:
        lines.append(".section .data.refs,\"aw\",@progbits")
        lines += tails
    lines += comm
    if kernel == "strings":
        lines += ['.section __ksymtab_strings,"aMS",@progbits,1', '.asciz "exported"']
    elif kernel == "module":
        lines += ['.section .modinfo,"a",@progbits', '.asciz "license=GPL"',
                  '.section .gnu.linkonce.this_module,"aw",@progbits', ".skip 64"]
    lines.append('.section .note.GNU-stack,"",@progbits')
    vs = None
    if versions:
        vl = sorted(versions)
        vs = "".join("%s { };\n" % v if i == 0 else "%s { } %s;\n" % (v, vl[i - 1]) for i, v in enumerate(vl))
    return Rendered("\n".join(lines) + "\n", vs, sorted(versions))


KINDS = ("rel", "dso-bfd", "dso-lld", "dso-strip", "exec", "exec-dyn-bfd", "exec-dyn-lld", "exec-dyn-strip", "pie")


def _dummy_dso(workdir):
    p = os.path.join(workdir, "libdummy.so")
    if not os.path.exists(p):
        src = os.path.join(workdir, "dummy.s")
        with open(src, "w") as f:
            f.write(".text\n.globl dummy_fn\n.type dummy_fn,@function\ndummy_fn: ret\n.size dummy_fn,1\n.section .note.GNU-stack,\"\",@progbits\n")
        r = vf.run(["gcc", "-shared", "-nostdlib", "-o", p + ".tmp%d" % os.getpid(), src], timeout=60)
        if r.exit != 0:
            return None
        os.replace(p + ".tmp%d" % os.getpid(), p)
    return p


def build(rd, workdir, stem, kinds=KINDS):
    """Assemble and link.  Returns [(kind, path)] for the variants that built; a variant the toolchain refuses is simply
    absent (the caller counts it as discarded)."""
    os.makedirs(workdir, exist_ok=True)
    s = os.path.join(workdir, stem + ".s")
    o = os.path.join(workdir, stem + ".o")
    with open(s, "w") as f:
        f.write(rd.asm)
    r = vf.run(["gcc", "-c", s, "-o", o], timeout=60)
    if r.exit != 0:
        return [], r.err[-300:]
    res = []
    if "rel" in kinds:
        res.append(("rel", o))
    vsf = []
    if rd.vscript:
        m = os.path.join(workdir, stem + ".map")
        with open(m, "w") as f:
            f.write(rd.vscript)
        vsf = ["-Wl,--version-script=" + m]
    dummy = _dummy_dso(workdir)
    errs = ""

    def link(kind, args, out):
        nonlocal errs
        r = vf.run(["gcc", "-nostdlib"] + args + vsf + [o, "-o", out], timeout=60)
        if r.exit == 0 and os.path.exists(out):
            res.append((kind, out))
            return True
        errs += r.err[-200:]
        return False

    def strip(kind, src, out):
        if os.path.exists(src):
            r = vf.run(["strip", "--strip-all", "-o", out, src], timeout=60)
            if r.exit == 0:
                res.append((kind, out))

    P = lambda suffix: os.path.join(workdir, stem + suffix)
    if "dso-bfd" in kinds or "dso-strip" in kinds:
        ok = link("dso-bfd", ["-shared", "-fuse-ld=bfd"], P(".bfd.so"))
        if ok and "dso-strip" in kinds:
            strip("dso-strip", P(".bfd.so"), P(".strip.so"))
    if "dso-lld" in kinds:
        link("dso-lld", ["-shared", "-fuse-ld=lld"], P(".lld.so"))
    if "exec" in kinds:
        link("exec", ["-no-pie", "-static", "-fuse-ld=bfd", "-Wl,--unresolved-symbols=ignore-all"], P(".exe"))
    if dummy:
        if "exec-dyn-bfd" in kinds or "exec-dyn-strip" in kinds:
            ok = link("exec-dyn-bfd", ["-no-pie", "-fuse-ld=bfd", "-Wl,--export-dynamic", "-Wl,--unresolved-symbols=ignore-all", "-Wl,--no-as-needed", dummy], P(".dyn.bfd.exe"))
            if ok and "exec-dyn-strip" in kinds:
                strip("exec-dyn-strip", P(".dyn.bfd.exe"), P(".dyn.strip.exe"))
        if "exec-dyn-lld" in kinds:
            link("exec-dyn-lld", ["-no-pie", "-fuse-ld=lld", "-Wl,--export-dynamic", "-Wl,--unresolved-symbols=ignore-all", "-Wl,--no-as-needed", dummy], P(".dyn.lld.exe"))
        if "pie" in kinds:
            link("pie", ["-pie", "-fuse-ld=bfd", "-Wl,--export-dynamic", "-Wl,--unresolved-symbols=ignore-all", "-Wl,--no-as-needed", dummy], P(".pie"))
    return res, errs


# ------------------------------------------------------------------------------------------------- table sources
def pack_rows(rows, prefix="s"):
    """Generator rows describe one symbol each; packed into one table they get unique names and their own address."""
    out = []
    for k, r in enumerate(rows):
        q = dict(r)
        q["name"] = "%s%d" % (prefix, k)
        q["value"] = k
        out.append(q)
    return out


def random_table(rng, n, versions=False, nslots=None):
    nslots = nslots or max(2, n // 2)
    rows = []
    for k in range(n):
        t = rng.choice(["FUNC"] * 4 + ["OBJECT"] * 4 + ["TLS", "IFUNC", "NOTYPE"])
        b = rng.choice(["GLOBAL"] * 5 + ["WEAK", "WEAK", "LOCAL", "LOCAL", "UNIQUE"])
        v = rng.choice(["DEFAULT"] * 6 + ["PROTECTED", "HIDDEN", "INTERNAL"])
        sh = rng.choice(["1"] * 5 + ["2"] * 4 + ["UND", "ABS", "COM"])
        ver, dflt = "", False
        if versions and rng.random() < 0.4:
            ver, dflt = rng.choice([("V1", True), ("V1", False), ("V2", True), ("V2", False)])
        name = "n%d" % rng.randrange(max(2, n * 2 // 3)) if versions else "n%d" % k
        rows.append({"name": name, "type": t, "bind": b, "vis": v, "shndx": sh, "value": rng.randrange(nslots),
                     "size": rng.choice([0, 1, 4, 8, 16, 4096]), "version": ver, "isDefault": dflt})
    # one default version per name at most (the linker refuses two)
    seen = set()
    for r in rows:
        if r["version"]:
            key = (r["name"], r["version"])
            if key in seen or (r["isDefault"] and (r["name"], "default") in seen):
                r["version"] = ""
                r["name"] += "_u%d" % len(seen)
            else:
                seen.add(key)
                if r["isDefault"]:
                    seen.add((r["name"], "default"))
    return rows


def add_markers(rng, rows, fraction=0.5, crc=True):
    """C28: mark a subset of the named rows as exported through ksymtab: a `__ksymtab_<name>` NOTYPE LOCAL symbol in
    section __ksymtab (as EXPORT_SYMBOL leaves behind), optionally `__crc_<name>`."""
    names = sorted(set(r["name"] for r in rows if r["name"] and not r["name"].startswith("__")))
    marked = [n for n in names if rng.random() < fraction]
    out = list(rows)
    for n in marked:
        out.append({"name": "__ksymtab_" + n, "type": "NOTYPE", "bind": "LOCAL", "vis": "DEFAULT", "shndx": "3",
                    "value": len(out), "size": 0, "version": "", "isDefault": False})
        if crc and rng.random() < 0.3:
            out.append({"name": "__crc_" + n, "type": "NOTYPE", "bind": "GLOBAL", "vis": "DEFAULT", "shndx": "ABS",
                        "value": len(out), "size": 0, "version": "", "isDefault": False})
    if rng.random() < 0.3:     # a marker for a symbol that does not exist
        out.append({"name": "__ksymtab_ghost", "type": "NOTYPE", "bind": "LOCAL", "vis": "DEFAULT", "shndx": "3",
                    "value": len(out), "size": 0, "version": "", "isDefault": False})
    return out, marked


# ------------------------------------------------------------------------------------------------- C programs (C17)
class CProgram:
    def __init__(self):
        self.g, self.n = [], []          # lines of the TU compiled with -g / without
        self.entities = []


def c_program(rng, nfn=6, nvar=5, kernel_exports=None, traps=False):
    """Two translation units, one compiled with -g and one without.  Functions and variables with external, weak and
    static linkage, default / hidden / protected visibility, alias declarations (also of static definitions, also weak),
    groups of functions with identical bodies (so that identical-code folding puts several DIEs on one address)."""
    p = CProgram()
    for tu, lines in (("g", p.g), ("n", p.n)):
        lines.append("/* rendered by render/symasm.py: TU '%s' */" % tu)
        uses = []
        nbody = max(1, nfn // 2)
        for i in range(nfn):
            name = "%s_f%d" % (tu, i)
            link = rng.choice(["", "", "", "static ", "__attribute__((weak)) "])
            vis = "" if link == "static " else rng.choice(["", "", "", "__attribute__((visibility(\"hidden\"))) ", "__attribute__((visibility(\"protected\"))) "])
            body = rng.randrange(nbody)
            lines.append("%s%sint %s(int x) { return x * %d + %d; }" % (link, vis, name, 3 + body, body))
            p.entities.append({"tu": tu, "kind": "fn", "name": name, "link": link.strip(), "vis": vis.strip(), "body": body})
            uses.append("(long)&%s" % name)
            for j in range(rng.choice([0, 0, 1, 2])):
                an = "%s_a%d" % (name, j)
                extra = rng.choice(["", "", ", weak", ", visibility(\"hidden\")"])
                lines.append("extern __typeof(%s) %s __attribute__((alias(\"%s\")%s));" % (name, an, name, extra))
                p.entities.append({"tu": tu, "kind": "fn-alias", "name": an, "of": name, "extra": extra})
        # functions the optimizer reduces to nothing: size 0, so that they share their address with each other and with the next function,
        # each with a DIE of its own (needs no identical-code folding; at -O0 they are ordinary functions)
        for i in range(rng.choice([0, 0, 1, 2, 3]) if traps else 0):
            name = "%s_t%d" % (tu, i)
            link = rng.choice(["", "", "__attribute__((weak)) "])
            lines.append("%svoid %s(void) { __builtin_unreachable(); }" % (link, name))
            p.entities.append({"tu": tu, "kind": "fn", "name": name, "link": link.strip(), "vis": "", "body": -1})
            uses.append("(long)&%s" % name)
        for i in range(nvar):
            name = "%s_v%d" % (tu, i)
            tls = rng.random() < 0.15
            link = rng.choice(["", "", "", "static ", "__attribute__((weak)) "])
            vis = "" if link == "static " else rng.choice(["", "", "", "__attribute__((visibility(\"hidden\"))) ", "__attribute__((visibility(\"protected\"))) "])
            init = rng.choice([" = %d" % (i + 1), " = %d" % (i + 1), ""])
            lines.append("%s%s%sint %s%s;" % (link, vis, "__thread " if tls else "", name, init))
            p.entities.append({"tu": tu, "kind": "var", "name": name, "link": link.strip(), "vis": vis.strip(), "tls": tls})
            uses.append("(long)&%s" % name if not tls else "(long)%s" % name)
            if not tls and init:
                for j in range(rng.choice([0, 0, 0, 1, 2])):
                    an = "%s_a%d" % (name, j)
                    extra = rng.choice(["", "", ", weak"])
                    lines.append("extern __typeof(%s) %s __attribute__((alias(\"%s\")%s));" % (name, an, name, extra))
                    p.entities.append({"tu": tu, "kind": "var-alias", "name": an, "of": name, "extra": extra})
        lines.append("long %s_use(void) { return %s; }" % (tu, " + ".join(uses) if uses else "0"))
        if kernel_exports is not None:
            # what EXPORT_SYMBOL leaves in the symbol table: a static marker object named __ksymtab_<sym> in section __ksymtab
            cands = [e["name"] for e in p.entities if e["tu"] == tu and e["kind"] in ("fn", "var") and e.get("link") != "static" and not e.get("tls")]
            for nm in cands:
                if rng.random() < 0.5:
                    kernel_exports.append(nm)
                    lines.append("static const void *const __ksymtab_%s __attribute__((section(\"__ksymtab\"), used)) = (const void *)&%s;" % (nm, nm))
    if kernel_exports is not None:
        p.g.append("static const char __kstrtab_all[] __attribute__((section(\"__ksymtab_strings\"), used)) = \"exported\";")
    p.g.append("void _start(void) { g_use(); }")
    p.g.insert(1, "long g_use(void);")
    return p


C_KINDS = ("rel", "dso-bfd", "dso-lld", "dso-lld-icf", "dso-gold-icf", "exec", "exec-lld-icf", "pie")     # gold keeps the DIEs of folded functions valid (lld tombstones them)


def build_c(prog, workdir, stem, cc="gcc", opt="-O0", dwarf="-gdwarf-4", kinds=C_KINDS, fcommon=False):
    os.makedirs(workdir, exist_ok=True)
    P = lambda suffix: os.path.join(workdir, stem + suffix)
    srcs = {"g": P(".g.c"), "n": P(".n.c")}
    with open(srcs["g"], "w") as f:
        f.write("\n".join(prog.g) + "\n")
    with open(srcs["n"], "w") as f:
        f.write("\n".join(prog.n) + "\n")
    res, errs = [], ""
    objs = {}
    for pic in ("pic", "nopic"):
        fl = ["-fPIC"] if pic == "pic" else ["-fno-pic"]
        common = [cc, opt, "-w", "-ffunction-sections", "-fdata-sections", "-fno-asynchronous-unwind-tables"] + fl + (["-fcommon"] if fcommon else [])
        og, on = P(".g.%s.o" % pic), P(".n.%s.o" % pic)
        r1 = vf.run(common + [dwarf, "-c", srcs["g"], "-o", og], timeout=120)
        r2 = vf.run(common + ["-c", srcs["n"], "-o", on], timeout=120)
        if r1.exit != 0 or r2.exit != 0:
            return [], (r1.err + r2.err)[-400:]
        objs[pic] = [og, on]

    def link(kind, args, out, pic):
        nonlocal errs
        r = vf.run([cc if cc == "gcc" else "gcc", "-nostdlib"] + args + objs[pic] + ["-o", out], timeout=120)
        if r.exit == 0 and os.path.exists(out):
            res.append((kind, out))
        else:
            errs += "[%s] %s" % (kind, r.err[-200:])

    if "rel" in kinds:
        r = vf.run(["ld", "-r", "-o", P(".rel.o")] + objs["nopic"], timeout=60)
        if r.exit == 0:
            res.append(("rel", P(".rel.o")))
    if "dso-bfd" in kinds:
        link("dso-bfd", ["-shared", "-fuse-ld=bfd"], P(".bfd.so"), "pic")
    if "dso-lld" in kinds:
        link("dso-lld", ["-shared", "-fuse-ld=lld"], P(".lld.so"), "pic")
    if "dso-lld-icf" in kinds:
        link("dso-lld-icf", ["-shared", "-fuse-ld=lld", "-Wl,--icf=all"], P(".icf.so"), "pic")
    if "exec" in kinds:
        link("exec", ["-no-pie", "-static", "-fuse-ld=bfd"], P(".exe"), "nopic")
    if "dso-gold-icf" in kinds:
        link("dso-gold-icf", ["-shared", "-fuse-ld=gold", "-Wl,--icf=all"], P(".gicf.so"), "pic")
    if "exec-lld-icf" in kinds:
        link("exec-lld-icf", ["-no-pie", "-static", "-fuse-ld=lld", "-Wl,--icf=all"], P(".icf.exe"), "nopic")
    if "pie" in kinds:
        link("pie", ["-pie", "-fuse-ld=bfd", "-Wl,--export-dynamic"], P(".pie"), "pic")
    return res, errs
