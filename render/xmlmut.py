"""Structure-aware mutator of ABIXML documents (abidw output, tests/data samples) -- the concrete side of the mutation
actions of spec/Reader.tla.  Only renders: every function returns bytes; nothing here judges anything.

A document is tokenized tolerantly (regular expression over tags; comments, the XML declaration and text are kept as
they are), so a mutation edits the ORIGINAL bytes at the offsets of one element / attribute and everything else in
the document stays byte-identical (the mutated document can be diffed against the original).

Mutation classes and the Reader.tla action each one renders (class = first two dot-separated fields; the element kind
and position are in the `detail` / `elem` of the mutation, not in the class, so that a class key stays coarse):

  class                         Reader.tla action      what is done to the bytes
  ----------------------------  ---------------------  -----------------------------------------------------------
  truncate.raw                  Truncate(k) + ByteFlip  the first N bytes (cut inside a tag / a value / between elements)
  truncate.closed               Truncate(k)            cut at an element boundary, open ancestors closed again (well-formed)
  delete.<element>              DeleteElement(i)       one element (with its sub-tree) removed
  dupid.same-kind               DuplicateId(i, j)      id of element j := id of an element i of the same kind
  dupid.other-kind              DuplicateId(i, j)      id of element j := id of an element i of another kind
  dupid.clone                   DuplicateId(i, j)      a whole type element inserted a second time (same kind, same content)
  dangling.<ref-attr>           DanglingRef(i)         type-id / naming-typedef-id / def-of-decl-id / method-class-id /
                                                       elf-symbol-id / alias := an id nothing defines
  misref.<ref-attr>             Retarget(i, j)         reference := an id that IS defined, of a kind the referrer does not
                                                       expect (.self: the referrer's own id; cycles of non-keying kinds)
  reorder.siblings              Reorder(i, j)          two sibling elements swapped (a definition moved after its use)
  reorder.sections              Reorder(i, j)          abi-instr moved before the symbol sections / children reversed
  attr.<attr>.<value class>     SetAttr(e, a, c)       attribute removed (missing) or set to a value of class empty /
                                                       non-numeric / negative / huge / wrong-enum
  attr.version.<n>-component    SetAttr(root, version) version := '2' | '2.' | '.1' (one component), '.' (none)
  retag.<what>                  Retag(i)               element renamed: another type kind, member wrapper, root, unknown
  byteflip.<region>             ByteFlip               one bit / byte changed in a tag name, attribute name, value, markup

`mutations(doc, rng, budget)` enumerates candidates of every class at several positions (stratified by element kind)
and returns at most `budget` of them: a fifth byte-level, the others dealt round-robin over the actions and their
classes, chosen with `rng` (deterministic for a given seed)."""
import re

REF_ATTRS = ("type-id", "naming-typedef-id", "def-of-decl-id", "method-class-id", "elf-symbol-id", "alias")
TYPE_ELEMS = ("type-decl", "class-decl", "union-decl", "enum-decl", "typedef-decl", "pointer-type-def", "reference-type-def",
              "qualified-type-def", "array-type-def", "function-type", "subrange")
NUMERIC_ATTRS = ("size-in-bits", "alignment-in-bits", "layout-offset-in-bits", "address-size", "dimensions", "length", "value", "line", "column",
                 "vtable-offset", "size", "lower-bound", "upper-bound", "crc")
ENUM_ATTRS = ("access", "visibility", "binding", "kind", "is-struct", "is-declaration-only", "is-anonymous", "language", "static", "const", "volatile",
              "restrict", "type", "is-defined", "is-common", "is-default-version", "is-virtual", "is-artificial", "is-variadic", "constructor", "destructor",
              "declared-inline", "is-non-reachable", "is-infinite", "tracking-non-reachable-types")
ACTION = {"truncate": "Truncate", "delete": "DeleteElement", "dupid": "DuplicateId", "dangling": "DanglingRef", "misref": "Retarget",
          "reorder": "Reorder", "attr": "SetAttr", "retag": "Retag", "byteflip": "ByteFlip"}
VALUES = {"empty": b"", "non-numeric": b"x1y", "negative": b"-1", "huge": b"99999999999999999999", "wrong-enum": b"bogus"}

_SKIP = re.compile(rb"<!--.*?-->|<\?.*?\?>|<!\[CDATA\[.*?\]\]>|<![^>]*>", re.S)
_TAG = re.compile(rb"<(/?)([A-Za-z_][\w.:-]*)((?:\s+[\w:.-]+\s*=\s*(?:'[^']*'|\"[^\"]*\"))*)\s*(/?)>", re.S)
_ATTR = re.compile(rb"([\w:.-]+)(\s*=\s*)(['\"])(.*?)\3", re.S)


def action_of(cls):
    """the Reader.tla action a mutation class renders"""
    return ACTION[cls.split(".")[0]]


class Elem:
    __slots__ = ("name", "start", "open_end", "end", "attrs", "parent", "children", "idx", "selfclosed")

    def get(self, a):
        for (n, s, e, vs, ve) in self.attrs:
            if n == a:
                return (s, e, vs, ve)
        return None


def tokenize(doc):
    """-> list of Elem in document order (ill-nested input: unclosed elements end at the end of the document)"""
    holes = [(m.start(), m.end()) for m in _SKIP.finditer(doc)]
    hi = 0
    elems, stack = [], []
    for m in _TAG.finditer(doc):
        while hi < len(holes) and holes[hi][1] <= m.start():
            hi += 1
        if hi < len(holes) and holes[hi][0] <= m.start() < holes[hi][1]:
            continue
        closing, name, attrs, selfclose = m.group(1), m.group(2).decode("latin-1"), m.group(3), m.group(4)
        if closing:
            for k in range(len(stack) - 1, -1, -1):
                if stack[k].name == name:
                    for e in stack[k:]:
                        e.end = m.end()
                    del stack[k:]
                    break
            continue
        e = Elem()
        e.name, e.start, e.open_end, e.end, e.selfclosed = name, m.start(), m.end(), m.end(), bool(selfclose)
        e.attrs = []
        base = m.start(3)
        for a in _ATTR.finditer(attrs):
            e.attrs.append((a.group(1).decode("latin-1"), base + a.start(), base + a.end(), base + a.start(4), base + a.end(4)))
        e.parent = stack[-1] if stack else None
        e.children = []
        e.idx = len(elems)
        if e.parent is not None:
            e.parent.children.append(e)
        elems.append(e)
        if not selfclose:
            stack.append(e)
    for e in stack:
        e.end = len(doc)
    return elems


def _val(doc, e, a):
    g = e.get(a)
    return doc[g[2]:g[3]] if g else None


def _set(doc, e, a, value):
    s, en, vs, ve = e.get(a)
    return doc[:vs] + value + doc[ve:]


def _drop_attr(doc, e, a):
    s, en, vs, ve = e.get(a)
    while s > 0 and doc[s - 1:s] in (b" ", b"\t", b"\n"):
        s -= 1
    return doc[:s] + doc[en:]


def _line_start(doc, pos):
    """extend an element start backwards over its indentation"""
    k = pos
    while k > 0 and doc[k - 1:k] in (b" ", b"\t"):
        k -= 1
    if k > 0 and doc[k - 1:k] == b"\n":
        k -= 1
    return k


def _rename(doc, e, new):
    new = new.encode()
    old = e.name.encode()
    out = doc
    if not e.selfclosed:
        k = doc.rfind(b"</" + old, e.open_end, e.end)
        if k >= 0:
            out = out[:k + 2] + new + out[k + 2 + len(old):]
    return out[:e.start + 1] + new + out[e.start + 1 + len(old):]


def _pick(rng, xs, n):
    xs = list(xs)
    if len(xs) <= n:
        return xs
    return rng.sample(xs, n)


def _strat(rng, elems, n):
    """up to n elements of every element kind"""
    by = {}
    for e in elems:
        by.setdefault(e.name, []).append(e)
    out = []
    for k in sorted(by):
        out += _pick(rng, by[k], n)
    return out


def _where(e):
    return "%s#%d" % (e.name, e.idx)


FRESH = b"type-id-7654321"


def candidates(doc, rng, per=2):
    """-> list of (class, detail, elem kind, bytes) -- every class at up to `per` positions per element kind"""
    E = tokenize(doc)
    out = []
    if not E:
        return [("byteflip.any", "no element", "", bytes(doc[:len(doc) // 2]))]
    root = E[0]
    ided = [e for e in E if e.get("id") and e.name in TYPE_ELEMS]
    ids = {}
    for e in ided:
        ids.setdefault(_val(doc, e, "id"), e)

    def add(cls, detail, e, data):
        if data != doc:
            out.append((cls, detail, e.name if e is not None else "", bytes(data)))

    # ---- Truncate
    n = len(doc)
    for k in sorted({rng.randrange(1, n) for _ in range(8 * per)}):
        add("truncate.raw", "first %d of %d bytes" % (k, n), None, doc[:k])
    for e in _pick(rng, [e for e in E if e.parent is not None], 3 * per):
        closing = b""
        p = e.parent
        while p is not None:
            closing += b"</" + p.name.encode() + b">\n"
            p = p.parent
        add("truncate.closed", "cut before %s, ancestors closed" % _where(e), e, doc[:_line_start(doc, e.start)] + b"\n" + closing)

    # ---- DeleteElement
    for e in _strat(rng, [e for e in E if e.parent is not None], per):
        add("delete." + e.name, "removed %s" % _where(e), e, doc[:_line_start(doc, e.start)] + doc[e.end:])

    # ---- DuplicateId
    for e in _strat(rng, ided, per):
        same = [o for o in ided if o.name == e.name and o is not e and _val(doc, o, "id") != _val(doc, e, "id")]
        other = [o for o in ided if o.name != e.name]
        if same:
            o = rng.choice(same)
            add("dupid.same-kind", "id of %s := id of %s" % (_where(e), _where(o)), e, _set(doc, e, "id", _val(doc, o, "id")))
        if other:
            o = rng.choice(other)
            add("dupid.other-kind", "id of %s := id of %s" % (_where(e), _where(o)), e, _set(doc, e, "id", _val(doc, o, "id")))
    for e in _strat(rng, [e for e in ided if e.parent is not None and e.parent.name in ("abi-instr", "namespace-decl")], 1):
        txt = doc[_line_start(doc, e.start):e.end]
        tgt = rng.choice([s for s in e.parent.children])
        at = rng.choice([_line_start(doc, tgt.start), tgt.end])
        add("dupid.clone", "%s inserted again %s %s" % (_where(e), "at", _where(tgt)), e, doc[:at] + txt + doc[at:])

    # ---- DanglingRef / Retarget
    for a in REF_ATTRS:
        users = [e for e in E if e.get(a)]
        for e in _strat(rng, users, per):
            add("dangling." + a, "%s of %s := undefined id" % (a, _where(e)), e, _set(doc, e, a, FRESH if a not in ("elf-symbol-id", "alias") else b"no_such_symbol_zz"))
            if a in ("elf-symbol-id", "alias"):
                continue
            own = e
            while own is not None and not (own.get("id") and own.name in TYPE_ELEMS):
                own = own.parent
            if own is not None:
                add("misref.%s" % a, "%s of %s := own id (self reference, %s)" % (a, _where(e), _where(own)), e, _set(doc, e, a, _val(doc, own, "id")))
            cur = ids.get(_val(doc, e, a))
            others = [o for o in ided if cur is None or o.name != cur.name]
            if others:
                o = rng.choice(others)
                add("misref.%s" % a, "%s of %s := id of %s (was %s)" % (a, _where(e), _where(o), cur.name if cur else "?"), e, _set(doc, e, a, _val(doc, o, "id")))
    # a cycle through kinds that resolve their reference before they register themselves
    chain = [e for e in ided if e.name in ("typedef-decl", "qualified-type-def", "array-type-def") and e.get("type-id")]
    for _ in range(per):
        if len(chain) >= 2:
            a, b = rng.sample(chain, 2)
            d = _set(doc, a, "type-id", _val(doc, b, "id"))
            E2 = tokenize(d)
            d = _set(d, E2[b.idx], "type-id", _val(doc, a, "id"))
            add("misref.type-id", "cycle %s <-> %s" % (_where(a), _where(b)), a, d)

    # ---- Reorder
    sibs = [e for e in E if e.parent is not None and len(e.parent.children) > 1]
    for e in _strat(rng, sibs, 1):
        o = rng.choice([s for s in e.parent.children if s is not e])
        a, b = (e, o) if e.start < o.start else (o, e)
        add("reorder.siblings", "%s <-> %s" % (_where(a), _where(b)), e, doc[:a.start] + doc[b.start:b.end] + doc[a.end:b.start] + doc[a.start:a.end] + doc[b.end:])
    instrs = [e for e in E if e.name == "abi-instr" and e.parent is not None]
    for e in _pick(rng, instrs, per):
        first = e.parent.children[0]
        if first is not e:
            add("reorder.sections", "%s moved before %s" % (_where(e), _where(first)), e, doc[:first.start] + doc[e.start:e.end] + b"\n" + doc[first.start:_line_start(doc, e.start)] + doc[e.end:])
        if len(e.children) > 1:
            parts = [doc[_line_start(doc, ch.start):ch.end] for ch in e.children]
            s0, e0 = _line_start(doc, e.children[0].start), e.children[-1].end
            add("reorder.sections", "children of %s reversed" % _where(e), e, doc[:s0] + b"".join(reversed(parts)) + doc[e0:])

    # ---- SetAttr
    names = sorted({a[0] for e in E for a in e.attrs})
    for a in names:
        users = [e for e in E if e.get(a)]
        if a in REF_ATTRS or a == "id":
            classes = ["missing", "empty"]
        elif a in NUMERIC_ATTRS:
            classes = ["missing", "empty", "non-numeric", "negative", "huge"]
        elif a in ENUM_ATTRS:
            classes = ["missing", "empty", "wrong-enum"]
        else:                                   # names, paths, versions: free text
            classes = ["missing", "empty", "huge"]
        for vc in classes:
            for e in _strat(rng, users, 1 if a not in ("id", "type-id", "name", "version") else per):
                if vc == "missing":
                    add("attr.%s.missing" % a, "%s removed from %s" % (a, _where(e)), e, _drop_attr(doc, e, a))
                else:
                    v = VALUES[vc] if not (vc == "huge" and a not in NUMERIC_ATTRS) else b"N" * 70000
                    add("attr.%s.%s" % (a, vc), "%s of %s := %s" % (a, _where(e), (v[:24] + b"..." if len(v) > 24 else v).decode()), e, _set(doc, e, a, v))
    if root.get("version"):
        for v, cls in ((b"2", "one-component"), (b"2.", "one-component"), (b".1", "one-component"), (b".", "zero-component"), (b"..", "zero-component"),
                       (b"a.b", "non-numeric"), (b"1.2.3", "three-component")):
            add("attr.version." + cls, "version of %s := '%s'" % (_where(root), v.decode()), root, _set(doc, root, "version", v))

    # ---- Retag
    kinds = sorted({e.name for e in ided})
    for e in _strat(rng, ided, 1):
        to = rng.choice([k for k in TYPE_ELEMS if k != e.name and k != "subrange"])
        add("retag.type", "%s renamed %s" % (_where(e), to), e, _rename(doc, e, to))
    for e in _strat(rng, [e for e in E if e.name in ("data-member", "member-function", "member-type", "base-class", "parameter", "return", "underlying-type",
                                                       "enumerator", "var-decl", "function-decl", "elf-symbol", "namespace-decl", "member-template")], 1):
        to = rng.choice([k for k in ("data-member", "member-function", "member-type", "parameter", "return", "var-decl", "function-decl", "namespace-decl",
                                     "type-decl", "class-decl", "abi-instr") if k != e.name])
        add("retag.member", "%s renamed %s" % (_where(e), to), e, _rename(doc, e, to))
    for e in _strat(rng, [e for e in E if e.parent is not None], 1)[:2 * per]:
        add("retag.unknown", "%s renamed no-such-element" % _where(e), e, _rename(doc, e, "no-such-element"))
    for to in ("abi-corpus-group", "abi-instr", "abi-corpus", "type-decl", "no-such-root"):
        if to != root.name:
            add("retag.root", "root %s renamed %s" % (root.name, to), root, _rename(doc, root, to))

    # ---- ByteFlip
    def flip(cls, lo, hi, what):
        if hi <= lo:
            return
        k = rng.randrange(lo, hi)
        b = bytearray(doc)
        mode = rng.choice(["bit", "bit", "ff", "nul", "lt"])
        b[k] = {"bit": b[k] ^ (1 << rng.randrange(7)), "ff": 0xff, "nul": 0, "lt": ord("<")}[mode]
        add(cls, "%s: byte %d %s (%s)" % (what, k, mode, "0x%02x -> 0x%02x" % (doc[k], b[k])), None, bytes(b))
    for e in _pick(rng, E, 4 * per):
        flip("byteflip.name", e.start + 1, e.start + 1 + len(e.name), "tag name of " + _where(e))
    withattrs = [e for e in E if e.attrs]
    for e in _pick(rng, withattrs, 4 * per):
        n_, s, en, vs, ve = rng.choice(e.attrs)
        flip("byteflip.attr-name", s, s + len(n_), "attribute name %s of %s" % (n_, _where(e)))
    for e in _pick(rng, withattrs, 6 * per):
        n_, s, en, vs, ve = rng.choice(e.attrs)
        flip("byteflip.value", vs, ve, "value of %s of %s" % (n_, _where(e)))
    for e in _pick(rng, E, 4 * per):
        flip("byteflip.markup", e.open_end - 2, e.open_end, "end of the start tag of " + _where(e))
    for _ in range(6 * per):
        flip("byteflip.any", 0, len(doc), "anywhere")
    return out


BYTE_LEVEL = ("truncate.raw", "byteflip.")


def mutations(doc, rng, budget, per=2):
    """at most `budget` mutations of `doc` (bytes): a fifth of them byte-level (truncate.raw, byteflip.*: "any byte sequence"); the
    others structure-aware, dealt round-robin over the actions (SetAttr, which has most classes, three per round) and, within an
    action, round-robin over its classes -- so every action and, budget permitting, every class is present"""
    cs = candidates(doc, rng, per)
    raw = [c for c in cs if c[0].startswith(BYTE_LEVEL)]
    cs = [c for c in cs if not c[0].startswith(BYTE_LEVEL)]
    out = _pick(rng, raw, max(1, budget // 5))
    by = {}
    for c in cs:
        by.setdefault(c[0].split(".")[0], {}).setdefault(c[0], []).append(c)
    queues = {}
    for a in sorted(by):
        classes = sorted(by[a])
        rng.shuffle(classes)
        for k in classes:
            rng.shuffle(by[a][k])
        q = []
        while any(by[a][k] for k in classes):
            q += [by[a][k].pop() for k in classes if by[a][k]]
        queues[a] = q
    while len(out) < budget and any(queues.values()):
        for a in sorted(queues):
            for _ in range(3 if a == "attr" else 1):
                if queues[a] and len(out) < budget:
                    out.append(queues[a].pop(0))
    return out
