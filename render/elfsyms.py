"""Renderer for the symbol-table campaign (C37, base binaries of C34).

Abstract library -> assembler source (+ version script) -> shared objects linked by ld.bfd / ld.lld / ld.gold with
--hash-style=sysv|gnu|both -> independent ground truth (readelf --dyn-syms / -V / -S) -> query names.

The renderer computes the real SysV and GNU hashes (facts logged with every event) and uses them only to *choose*
query names that are hard for a hash-table walk: absent names falling into occupied buckets, passing the bloom filter,
or colliding with a present name on the full 32-bit hash.  It never judges a result.
"""
import os, re, subprocess, struct, sys

sys.path.insert(0, os.path.dirname(os.path.abspath(__file__)))
import elfpatch

LINKERS = ("bfd", "lld", "gold")
STYLES = ("sysv", "gnu", "both")


# ------------------------------------------------------------------------------------------------- hashes (facts)
def sysv_hash(name):
    h = 0
    for c in name.encode("latin-1"):
        h = ((h << 4) + c) & 0xffffffff
        g = h & 0xf0000000
        if g:
            h ^= g >> 24
        h &= ~g & 0xffffffff
    return h


def gnu_hash(name):
    h = 5381
    for c in name.encode("latin-1"):
        h = (h * 33 + c) & 0xffffffff
    return h


def split16(h):
    """a 32-bit fact as two 16-bit words (TLC integers are 32-bit signed)"""
    return [h >> 16, h & 0xffff]


def gnu_twin(name):
    """a different identifier with the same GNU hash: ..(c1)(c2) -> ..(c1+1)(c2-33)"""
    if len(name) < 3:
        return None
    c1, c2 = ord(name[-2]), ord(name[-1])
    t = name[:-2] + chr(c1 + 1) + chr(c2 - 33)
    return t if re.match(r"^[A-Za-z_][A-Za-z0-9_]*$", t) and gnu_hash(t) == gnu_hash(name) else None


def sysv_twin(name):
    """a different identifier with the same SysV hash: ..(c1)(c2) -> ..(c1+1)(c2-16)"""
    if len(name) < 3:
        return None
    c1, c2 = ord(name[-2]), ord(name[-1])
    t = name[:-2] + chr(c1 + 1) + chr(c2 - 16)
    return t if re.match(r"^[A-Za-z_][A-Za-z0-9_]*$", t) and sysv_hash(t) == sysv_hash(name) else None


# ------------------------------------------------------------------------------------------------- abstract library
_ALPHA = "abcdefghijklmnopqrstuvwxyzABCDEFGHIJKLMNOPQRSTUVWXYZ_"
_ALNUM = _ALPHA + "0123456789"


def _name(rng, used):
    while True:
        k = rng.random()
        if k < 0.15:
            n = rng.choice(_ALPHA) + "".join(rng.choice(_ALNUM) for _ in range(rng.randrange(0, 3)))
        elif k < 0.3:
            parts = ["".join(rng.choice("abcdefghijklmnopqrstuvwxyz") for _ in range(rng.randrange(2, 9))) for _ in range(rng.randrange(1, 4))]
            n = "_ZN" + "".join("%d%s" % (len(p), p) for p in parts) + "E" + rng.choice(["v", "i", "Pc", "RKS_"])
        elif k < 0.45:
            n = rng.choice(["lib", "x", "my", "abg", "foo"]) + "_" + "".join(rng.choice("abcdefghij") for _ in range(rng.randrange(1, 5)))
        else:
            n = rng.choice(_ALPHA) + "".join(rng.choice(_ALNUM) for _ in range(rng.randrange(3, 40)))
        if n not in used and not n.startswith(("_end", "_edata", "__bss_start", "_init", "_fini", "_DYNAMIC", "_GLOBAL_OFFSET_TABLE_")):
            return n


def make_lib(rng, nsyms, versions=True):
    """dict(syms=[{name,type,bind,vers:[(node,default)] | None}], hidden=[names], undef=[names], nodes=[..])"""
    used = set()
    nodes = ["V1", "V2", "V3"] if versions else []
    syms, hidden, undef = [], [], []

    def fresh():
        n = _name(rng, used)
        used.add(n)
        return n

    while len(syms) < nsyms:
        r = rng.random()
        ty = "func" if rng.random() < 0.7 else "object"
        bind = "global" if rng.random() < 0.8 else "weak"
        if r < 0.10:
            # a pair of present names with the same full GNU hash, or the same full SysV hash
            base = fresh()
            n1 = base + rng.choice(["az", "bz", "cy", "mx"]) if rng.random() < 0.5 else base + rng.choice(["aq", "br", "cz", "ds"])
            used.add(n1)
            syms.append({"name": n1, "type": ty, "bind": bind, "vers": None})
            t = gnu_twin(n1) or sysv_twin(n1)
            if t and t not in used and rng.random() < 0.5:
                used.add(t)
                syms.append({"name": t, "type": ty, "bind": "global", "vers": None})
            continue
        n = fresh()
        vers = None
        if versions and r < 0.40:
            k = rng.random()
            if k < 0.30:
                vers = [(rng.choice(nodes), True)]                       # name@@Vk only
            elif k < 0.55:
                vers = [("V1", False), ("V2", True)]                     # name@V1, name@@V2
            elif k < 0.70:
                vers = [("V1", False), ("V2", False), ("V3", True)]
            elif k < 0.85:
                vers = [("V1", False), (None, True)]                     # name@V1 and an unversioned default definition
            elif k < 0.93:
                vers = [("V2", False), ("V1", False), (None, True)]
            else:
                vers = [(rng.choice(nodes), False)]                      # only a hidden (non-default) version
        syms.append({"name": n, "type": ty, "bind": bind, "vers": vers})
    for _ in range(max(2, nsyms // 25)):
        hidden.append(fresh())
    for _ in range(rng.randrange(0, 6)):
        undef.append(fresh())
    rng.shuffle(syms)
    return {"syms": syms, "hidden": hidden, "undef": undef, "nodes": nodes}


def _defn(out, name, ty, bind, hidden=False):
    sec = ".text" if ty == "func" else ".data"
    out.append("\t%s" % sec)
    out.append("\t.%s %s" % ("weak" if bind == "weak" else "globl", name))
    if hidden:
        out.append("\t.hidden %s" % name)
    out.append("\t.type %s,@%s" % (name, "function" if ty == "func" else "object"))
    if ty == "func":
        out += ["%s:" % name, "\tret", "\t.size %s,.-%s" % (name, name)]
    else:
        out += ["\t.p2align 2", "%s:" % name, "\t.long 1", "\t.size %s,4" % name]


def render(lib):
    """-> (assembler text, version script text or None, impl names made local by the script)"""
    out = ["\t.file \"gen.s\""]
    per_node = {n: [] for n in lib["nodes"]}
    local = []
    for s in lib["syms"]:
        if not s["vers"]:
            _defn(out, s["name"], s["type"], s["bind"])
        elif len(s["vers"]) == 1 and s["vers"][0][1] and s["vers"][0][0]:
            _defn(out, s["name"], s["type"], s["bind"])
            per_node[s["vers"][0][0]].append(s["name"])
        else:
            for k, (node, dflt) in enumerate(s["vers"]):
                if node is None:
                    _defn(out, s["name"], s["type"], s["bind"])
                    continue
                impl = "%s__impl%d" % (s["name"], k)
                _defn(out, impl, s["type"], "global")
                out.append("\t.symver %s,%s%s%s" % (impl, s["name"], "@@" if dflt else "@", node))
                local.append(impl)
    for n in lib["hidden"]:
        _defn(out, n, "func", "global", hidden=True)
    if lib["undef"]:
        out += ["\t.text", "\t.globl __calls_out", "\t.type __calls_out,@function", "__calls_out:"]
        out += ["\tcall %s@PLT" % u for u in lib["undef"]]
        out += ["\tret", "\t.size __calls_out,.-__calls_out"]
    out.append("\t.section .note.GNU-stack,\"\",@progbits")
    script = None
    if lib["nodes"]:
        parts = []
        prev = None
        for node in lib["nodes"]:
            body = "".join(" %s;" % x for x in per_node[node])
            loc = ("\n local:" + "".join(" %s;" % x for x in local)) if node == lib["nodes"][0] and local else ""
            parts.append("%s {%s%s\n}%s;" % (node, ("\n global:" + body) if body else "", loc, (" " + prev) if prev else ""))
            prev = node
        script = "\n".join(parts) + "\n"
    return "\n".join(out) + "\n", script, local


def link(src, script, out, linker, style, extra=()):
    cmd = ["gcc", "-shared", "-nostdlib", "-fuse-ld=" + linker, "-Wl,--hash-style=" + style, "-Wl,-soname,libgen.so"]
    if script:
        cmd.append("-Wl,--version-script=" + script)
    cmd += list(extra) + ["-o", out, src]
    r = subprocess.run(cmd, stdout=subprocess.PIPE, stderr=subprocess.STDOUT, text=True, timeout=120)
    return r.returncode == 0 and os.path.exists(out), r.stdout[-600:]


# ------------------------------------------------------------------------------------------------- ground truth
_ROW = re.compile(r"^\s*(\d+):\s+([0-9a-f]+)\s+(\d+|0x[0-9a-f]+)\s+(\S+)\s+(\S+)\s+(\S+)(?:\s+\[[^\]]*\])?\s+(\S+)(?:\s+(\S+))?(?:\s+\((\d+)\))?\s*$")
_VSYM = re.compile(r"\s(\d+)(h?)\s*\(([^)]*)\)")


def _readelf(args, path):
    r = subprocess.run(["readelf"] + args + [path], stdout=subprocess.PIPE, stderr=subprocess.PIPE, text=True, timeout=60,
                       env={"PATH": os.environ.get("PATH", "/usr/bin:/bin"), "LC_ALL": "C"})
    return r.stdout if r.returncode == 0 else None


def dynsyms(path):
    """rows of .dynsym as readelf shows them: [{i,name,ver,default,ndx,type,bind,vis}]"""
    txt = _readelf(["--dyn-syms", "-W"], path)
    if txt is None:
        return None
    rows = []
    for ln in txt.splitlines():
        m = _ROW.match(ln)
        if not m:
            continue
        nm = m.group(8) or ""
        ver, dflt = "", False
        if "@@" in nm:
            nm, ver = nm.split("@@", 1)
            dflt = True
        elif "@" in nm:
            nm, ver = nm.split("@", 1)
        rows.append({"i": int(m.group(1)), "name": nm, "ver": ver, "default": dflt, "ndx": m.group(7), "type": m.group(4), "bind": m.group(5), "vis": m.group(6)})
    return rows


def versyms(path):
    """.gnu.version as readelf -V shows it: index -> (version index, hidden, version name); {} without the section"""
    txt = _readelf(["-V", "-W"], path)
    if txt is None:
        return None
    res, inside = {}, False
    for ln in txt.splitlines():
        if ln.startswith("Version symbols section"):
            inside = True
            continue
        if inside:
            m = re.match(r"^\s+([0-9a-f]+):(.*)$", ln)
            if not m:
                if ln.strip() == "" or ln.startswith("Version"):
                    inside = False if ln.strip() == "" and res else inside
                continue
            base = int(m.group(1), 16)
            for k, vm in enumerate(_VSYM.finditer(m.group(2))):
                res[base + k] = (int(vm.group(1)), vm.group(2) == "h", vm.group(3))
    return res


def hash_order(path):
    """kinds of the hash sections in file order, from readelf -S"""
    txt = _readelf(["-S", "-W"], path)
    if txt is None:
        return None
    order = []
    for ln in txt.splitlines():
        m = re.match(r"^\s*\[\s*\d+\]\s+(\S+)\s+(\S+)\s", ln)
        if m and m.group(2) in ("HASH", "GNU_HASH"):
            order.append("hash" if m.group(2) == "HASH" else "gnu")
    return order


def truth(path):
    """independent ground truth of one shared object, or (None, reason) if the two readelf views disagree.
    -> ({name: {"present":bool, "undef":bool, "versions":[..in .dynsym order..], "ambiguous":bool}}, order);
    a name on which readelf --dyn-syms and readelf -V disagree is marked ambiguous (it is not queried)"""
    rows = dynsyms(path)
    vs = versyms(path)
    order = hash_order(path)
    if rows is None or vs is None or order is None or not rows:
        return None, "readelf failed"
    try:
        if elfpatch.Elf(open(path, "rb").read()).hash_order() != order:
            return None, "section order: readelf and parser disagree"
    except Exception as ex:
        return None, "parser: %s" % ex
    names = {}
    for r in rows:
        if r["i"] == 0 or not r["name"]:
            continue
        d = names.setdefault(r["name"], {"present": False, "undef": False, "versions": [], "ambiguous": False})
        if vs:
            vi, hid, vn = vs.get(r["i"], (1, False, ""))
            v2 = vn if vi >= 2 else ""
            if v2 != r["ver"] or (r["ver"] and hid == r["default"] and r["ndx"] != "UND"):
                # the two views disagree (e.g. the ABS symbol of a version node): no ground truth for this name
                d["ambiguous"] = True
        if r["ndx"] == "UND":
            d["undef"] = True
        else:
            d["present"] = True
            d["versions"].append(r["ver"])
    for d in names.values():
        if d["present"]:
            d["undef"] = False
    return names, order


# ------------------------------------------------------------------------------------------------- queries
def absent_queries(rng, path, names, lib, want=40):
    """absent names (not in .dynsym at all), each with the reason it was chosen: [(name, class)]"""
    e = elfpatch.Elf(open(path, "rb").read())
    sv, gn = e.sysv(), e.gnu()
    present = [n for n, d in names.items() if d["present"]]
    res = []
    seen = set(names)

    def add(n, cls):
        if n and n not in seen and "\0" not in n:
            seen.add(n)
            res.append((n, cls))

    for n in lib["hidden"]:
        add(n, "hidden-visibility")
    for s in lib["syms"]:
        if s["vers"] and len(s["vers"]) > 1:
            add("%s__impl0" % s["name"], "local-impl")
            add("%s@%s" % (s["name"], s["vers"][0][0] or "V1"), "name@version-literal")
    for n in rng.sample(present, min(len(present), want // 4)):
        add(gnu_twin(n), "gnu-full-hash-twin")
        add(sysv_twin(n), "sysv-full-hash-twin")
        add(n + "x", "suffix")
        add(n[:-1], "prefix")
        add(n.swapcase(), "case")
    # names falling into occupied buckets / passing the bloom filter
    occ_s = {b for b in range(sv["nbucket"]) if sv["bucket"][b]} if sv and sv["nbucket"] else set()
    occ_g = {b for b in range(gn["nbuckets"]) if gn["bucket"][b]} if gn and gn["nbuckets"] else set()
    tries, got = 0, {"sysv-bucket": 0, "gnu-bucket+bloom": 0, "gnu-bloom": 0, "random": 0}
    while tries < 20000 and min(got.values()) < want // 4:
        tries += 1
        n = "q%d_%s" % (tries, "".join(rng.choice(_ALNUM) for _ in range(rng.randrange(1, 12))))
        hs, hg = sysv_hash(n), gnu_hash(n)
        bloom = False
        if gn and gn["bloom_size"]:
            w = gn["bloom"][(hg // 64) % gn["bloom_size"]]
            bloom = (w >> (hg % 64)) & 1 and (w >> ((hg >> gn["bloom_shift"]) % 64)) & 1
        if gn and bloom and (hg % gn["nbuckets"]) in occ_g and got["gnu-bucket+bloom"] < want // 4:
            got["gnu-bucket+bloom"] += 1
            add(n, "gnu-bucket+bloom")
        elif gn and bloom and got["gnu-bloom"] < want // 4:
            got["gnu-bloom"] += 1
            add(n, "gnu-bloom")
        elif sv and (hs % sv["nbucket"]) in occ_s and got["sysv-bucket"] < want // 4:
            got["sysv-bucket"] += 1
            add(n, "sysv-bucket")
        elif got["random"] < want // 4:
            got["random"] += 1
            add(n, "random")
        if not gn:
            got["gnu-bucket+bloom"] = got["gnu-bloom"] = want
        if not sv:
            got["sysv-bucket"] = want
    return res


def facts(path, name):
    """hash facts of one query against one file (logged with the event)"""
    return {"hs": split16(sysv_hash(name)), "hg": split16(gnu_hash(name))}


_FOUND = re.compile(r"^found symbol '(.*?)'(?: \(.*?\))?, an instance of (.*?) of (.*?)(?:, of versions? (.*))?$")


def parse_abisym(out):
    """abisym's stdout -> (found, [versions]) or None if it is neither of the two messages"""
    out = out.strip()
    if out.startswith("could not find symbol '"):
        return False, []
    m = _FOUND.match(out)
    if not m:
        return None
    vers = re.findall(r"'([^']*)'", m.group(4)) if m.group(4) else [""]
    return True, vers
