"""Renders an abstract program of spec/Abi.tla (types, fns, vars) as C (or C++) sources.

Only rendering: every choice that is not in the abstract program comes from a `style` dict (the *neutral* degrees of
freedom of C06: order of definitions, parameter names, bodies, line shifts, static helpers, unused types, split in TUs).
Names: struct S<id>, union U<id>, enum E<id> {E<id>_k<n>}, typedef T<id>, member m<n>, function fn<id>, variable var<id>.
"""
import random

BASES = [None, ("char", 1), ("short", 2), ("int", 4), ("long", 8), ("unsigned char", 1), ("unsigned short", 2),
         ("unsigned int", 4), ("unsigned long", 8), ("float", 4), ("double", 8)]

DEFAULT_STYLE = {"seed": 0, "param_prefix": "p", "body": 0, "shift": 0, "statics": 0, "unused": 0, "tus": 1}


class Prog:
    def __init__(self, types, fns, vars_, lang="c"):
        self.types = [None] + list(types)   # 1-based
        self.fns = list(fns)
        self.vars = list(vars_)
        self.lang = lang

    # ---- names
    def tname(self, i):
        ty = self.types[i]
        k = ty["k"]
        tag = "" if self.lang == "cxx" else {"struct": "struct ", "union": "union ", "enum": "enum "}.get(k, "")
        if k == "base":
            return BASES[ty["id"]][0]
        if k == "struct":
            return tag + "S%d" % ty["id"]
        if k == "union":
            return tag + "U%d" % ty["id"]
        if k == "enum":
            return tag + "E%d" % ty["id"]
        if k == "typedef":
            return "T%d" % ty["id"]
        raise ValueError(k)

    # ---- declarators (inside-out)
    def decl(self, t, inner):
        if t == 0:
            return ("void " + inner).rstrip()
        ty = self.types[t]
        k = ty["k"]
        if k in ("base", "struct", "union", "enum", "typedef"):
            return (self.tname(t) + " " + inner).rstrip()
        if k == "ptr":
            tgt = ty["t"]
            if tgt != 0 and self.types[tgt]["k"] == "array":
                return self.decl(tgt, "(*%s)" % inner)
            return self.decl(tgt, "*" + inner)
        if k == "const":
            tgt = self.types[ty["t"]]
            if tgt["k"] == "ptr":
                pt = tgt["t"]
                if pt != 0 and self.types[pt]["k"] == "array":
                    return self.decl(pt, "(* const %s)" % inner)
                return self.decl(pt, "* const " + inner)
            return "const " + self.decl(ty["t"], inner)
        if k == "array":
            return self.decl(ty["t"], "%s[%d]" % (inner, ty["d"]))
        if k == "fnptr":
            ps = ", ".join(self.decl(m["t"], "") for m in ty["m"]) or "void"
            return self.decl(ty["t"], "(*%s)(%s)" % (inner, ps))
        raise ValueError(k)

    # ---- by-value dependencies (what must be complete before a definition)
    def byval(self, t, acc=None):
        acc = set() if acc is None else acc
        if t == 0:
            return acc
        ty = self.types[t]
        k = ty["k"]
        if k in ("struct", "union"):
            acc.add(t)
        elif k in ("typedef", "const", "array"):
            self.byval(ty["t"], acc)
        return acc

    def deps(self, i):
        """types whose *definition* must precede the definition of type i (named types only)."""
        ty = self.types[i]
        k = ty["k"]
        d = set()

        def named(t):
            # named types mentioned anywhere in the declarator of t need at least a declaration; typedefs and enums a definition
            if t == 0:
                return
            u = self.types[t]
            if u["k"] in ("typedef", "enum"):
                d.add(t)
            elif u["k"] in ("ptr", "const", "array"):
                named(u["t"])
            elif u["k"] == "fnptr":
                named(u["t"])
                for m in u["m"]:
                    named(m["t"])
        if k in ("struct", "union"):
            for m in ty["m"]:
                named(m["t"])
                d |= self.byval(m["t"])
            for b in ty.get("b", []):
                d |= self.byval(b)
        elif k == "typedef":
            named(ty["t"])
            if self.types[ty["t"]]["k"] == "array":
                d |= self.byval(ty["t"])
        d.discard(i)
        return d

    def type_defs(self, rng, only=None):
        """definitions of all named types in a dependency-respecting (otherwise shuffled) order."""
        named = [i for i in range(1, len(self.types)) if self.types[i]["k"] in ("struct", "union", "enum", "typedef")]
        out = []
        tag = ""
        for i in named:
            ty = self.types[i]
            if ty["k"] in ("struct", "union"):
                kw = ty["k"]
                out.append("%s %s;" % (kw, self.tname(i).split()[-1]))
        done = set()
        pending = list(named)
        rng.shuffle(pending)
        guard = 0
        while pending:
            guard += 1
            if guard > 10000:
                raise RuntimeError("cyclic type dependencies")
            i = pending.pop(0)
            if not (self.deps(i) & set(named)) <= done:
                pending.append(i)
                continue
            done.add(i)
            out.append(self.define(i))
        return out

    def define(self, i):
        ty = self.types[i]
        k = ty["k"]
        if k in ("struct", "union"):
            head = "%s %s" % (k, self.tname(i).split()[-1])
            if ty.get("b"):
                head += " : " + ", ".join("public " + self.tname(b) for b in ty["b"])
            lines = [head + " {"]
            cur = "public"
            for m in ty["m"]:
                acc = m.get("acc") or "public"
                if self.lang == "cxx" and acc != cur:
                    lines.append(" %s:" % acc)
                    cur = acc
                d = self.decl(m["t"], "m%d" % m["n"])
                if m["bw"]:
                    d += " : %d" % m["bw"]
                lines.append("  " + d + ";")
            if self.lang == "cxx" and (ty.get("vf") or ty.get("mf")):
                if cur != "public":
                    lines.append(" public:")
                for v in ty.get("vf", []):
                    lines.append("  virtual int vf%d(int a);" % v)      # defined out of line (key function: vtable and full debug info are emitted)
                for f in ty.get("mf", []):
                    lines.append("  int mf%d(int a) { return a + %d; }" % (f, f))   # inline, used by verif_use_methods, hidden (-fvisibility-inlines-hidden)
            lines.append("};")
            return "\n".join(lines)
        if k == "enum":
            return "enum E%d { %s };" % (ty["id"], ", ".join("E%d_k%d = %d" % (ty["id"], e["n"], e["v"]) for e in ty["e"]))
        if k == "typedef":
            return "typedef " + self.decl(ty["t"], "T%d" % ty["id"]) + ";"
        raise ValueError(k)

    def fn_proto(self, f, prefix="p"):
        ps = []
        for j, p in enumerate(f["p"]):
            nm = "%s%d" % (prefix, j)
            d = self.decl(p["t"], ("const " + nm) if p["c"] and self._ptrlike(p["t"]) else nm)
            if p["c"] and not self._ptrlike(p["t"]):
                d = "const " + d
            ps.append(d)
        if f.get("va"):
            ps.append("...")
        return self.decl(f["r"], "fn%d(%s)" % (f["id"], ", ".join(ps) or "void"))

    def _ptrlike(self, t):
        return t != 0 and self.types[t]["k"] in ("ptr", "fnptr")

    def fn_def(self, f, style):
        body_variants = ["", "  volatile int verif_x = %d; (void) verif_x;\n" % (f["id"] * 7), "  /* body variant */\n  { int i; for (i = 0; i < 3; ++i) ; }\n"]
        body = body_variants[style["body"] % len(body_variants)]
        if f["r"] != 0:
            body += "  return *(%s)0;\n" % self.decl(f["r"], "*")
        ext = 'extern "C" ' if self.lang == "cxx" else ""
        return "%s%s\n{\n%s}" % (ext, self.fn_proto(f, style["param_prefix"]), body)

    def var_def(self, v):
        d = self.decl(v["t"], "var%d" % v["id"])
        if self.lang == "cxx":
            # const objects have internal linkage in C++ unless declared extern; classes with virtuals need a constructed object
            return 'extern "C" { extern ' + d + "; }\n" + d + self._cxx_init(v["t"]) + ";"
        return d + ";"

    def _cxx_init(self, t):
        return "" if self._has_const(t) is False else " = {}"

    def _has_const(self, t):
        """does the object type t (or an element / member reached by value) carry const, so that C++ demands an initializer?"""
        if t == 0:
            return False
        ty = self.types[t]
        k = ty["k"]
        if k == "const":
            return True
        if k in ("typedef", "array"):
            return self._has_const(ty["t"])
        if k in ("struct", "union"):
            return any(self._has_const(m["t"]) for m in ty["m"]) or any(self._has_const(b) for b in ty.get("b", []))
        return False


def render(types, fns, vars_, lang="c", style=None):
    """-> dict file name -> content.  `types.h` + tu<k>.c files."""
    st = dict(DEFAULT_STYLE)
    st.update(style or {})
    rng = random.Random(st["seed"])
    P = Prog(types, fns, vars_, lang)
    ext = "c" if lang == "c" else "cc"
    hdr = ["/* generated from spec/Abi.tla */", "#ifndef VERIF_TYPES_H", "#define VERIF_TYPES_H"] + [""] * st["shift"]
    hdr += P.type_defs(rng)
    for u in range(st["unused"]):
        hdr.append("struct Unused%d { int a; char b[%d]; };" % (u, u + 1))
    for f in fns:
        hdr.append(('extern "C" ' if lang == "cxx" else "") + P.fn_proto(f, "q") + ";")
    hdr.append("#endif")
    files = {"types.h": "\n".join(hdr) + "\n"}
    items = [("f", f) for f in fns] + [("v", v) for v in vars_]
    rng.shuffle(items)
    ntu = max(1, min(st["tus"], len(items)))
    tus = [[] for _ in range(ntu)]
    for n, it in enumerate(items):
        tus[n % ntu].append(it)
    for k, tu in enumerate(tus):
        lines = ["/* tu %d */" % k] + [""] * (st["shift"] * (k + 1)) + ['#include "types.h"']
        for s in range(st["statics"]):
            lines.append("static int helper_%d_%d(int a) { return a + %d; }" % (k, s, s))
            lines.append("static int hidden_state_%d_%d = %d;" % (k, s, s))
        if k == 0 and lang == "cxx":
            uses = []
            for i in range(1, len(P.types)):
                ty = P.types[i]
                if ty["k"] == "struct":
                    for v in ty.get("vf", []):
                        lines.append("int %s::vf%d(int a) { return a + %d; }" % (P.tname(i), v, v))
                    for f in ty.get("mf", []):
                        uses.append("((%s*) 0)->mf%d(1)" % (P.tname(i), f))
            # the inline member functions are instantiated (and described in the debug info) because this function uses them
            lines.append('extern "C" int verif_use_methods(void) { return %s; }' % (" + ".join(uses) or "0"))
        for kind, it in tu:
            lines.append(P.fn_def(it, st) if kind == "f" else P.var_def(it))
        if st["statics"]:
            lines.append("static int __attribute__((used)) verif_use_%d(void) { return %s; }" % (k, " + ".join("helper_%d_%d(hidden_state_%d_%d)" % (k, s, k, s) for s in range(st["statics"]))))
        files["tu%d.%s" % (k, ext)] = "\n".join(lines) + "\n"
    return files


def probe_source(types, lang="c"):
    """A program printing, as one JSON object, what the compiler uses: sizeof of every named type, offsetof of every
    non-bit-field member, and (by the set-bit scan idiom) the bit position and width of every bit-field."""
    P = Prog(types, [], [], lang)
    rng = random.Random(0)
    out = ["#include <stdio.h>", "#include <stddef.h>", "#include <string.h>"] + P.type_defs(rng)
    out.append("static int first_bit(const unsigned char* p, size_t n) { size_t i; for (i = 0; i < n * 8; ++i) if (p[i / 8] & (1u << (i % 8))) return (int) i; return -1; }")
    out.append("static int count_bits(const unsigned char* p, size_t n) { size_t i; int c = 0; for (i = 0; i < n * 8; ++i) if (p[i / 8] & (1u << (i % 8))) ++c; return c; }")
    out.append("int main(void) {")
    out.append('  printf("{\\"types\\":[");')
    first = True
    for i in range(1, len(P.types)):
        ty = P.types[i]
        k = ty["k"]
        if k not in ("struct", "union", "enum", "typedef"):
            continue
        nm = P.tname(i)
        label = nm.split()[-1]
        sep = "" if first else ","
        first = False
        out.append('  printf("%s{\\"name\\":\\"%s\\",\\"idx\\":%d,\\"size\\":%%lu,\\"members\\":[", (unsigned long) sizeof(%s));' % (sep, label, i, nm))
        if k in ("struct", "union"):
            for j, m in enumerate(ty["m"]):
                msep = "" if j == 0 else ","
                if m["bw"]:
                    out.append("  { %s x; memset(&x, 0, sizeof x); x.m%d = ~0; " % (nm, m["n"]) +
                               'printf("%s{\\"n\\":%d,\\"bit\\":%%d,\\"width\\":%%d}", first_bit((unsigned char*) &x, sizeof x), count_bits((unsigned char*) &x, sizeof x)); }' % (msep, m["n"]))
                else:
                    out.append('  printf("%s{\\"n\\":%d,\\"bit\\":%%lu,\\"width\\":0}", (unsigned long) offsetof(%s, m%d) * 8);' % (msep, m["n"], nm, m["n"]))
        out.append('  printf("]}");')
    out.append('  printf("]}\\n");')
    out.append("  return 0;")
    out.append("}")
    return "\n".join(out) + "\n"
