"""ELF64-LE section parser and patcher (pure python, struct only): enumerates *targeted* corruptions of a valid
shared object for C34 (and the section-type swaps of C37).

    e = Elf(data)                      parse: e.sh (section headers), e.sec(name), e.words(sec), e.dynsyms()
    for cls, detail, patched in corruptions(data, rng, thorough): ...

Every corruption has a stable class name `<object>.<field>.<value class>`; the class (never an offset or a value)
is what a C34 finding is keyed by.

Mapping to the corrupt-table space of spec/ElfHash.tla (SpecCorrupt: a section is a flat array of words, cq.len of
them, every word a walk reads ranges over 0..CorruptMax, i.e. 0 / in range / out of range; cq.symN symbol-table rows):

  hash.nbucket.{0,1,big}       word 0 of a section read by LookupSysV          (0: "not found"; big: bucket read "OOB")
  hash.nchain.{0,1,big}        word 1                                           (only the loop condition reads it)
  hash.bucket.{zero,big,nchain}  words 2..2+nb: 0 / out of range ("Assert" or "OOB") / first out-of-range index
  hash.chain.{zero,big,self,cycle2,nchain}  words 2+nb..: chain end everywhere / out of range / cycles ("Loop")
  hash.sh_size.* , hash.truncated       cq.len smaller than 2+nb+nc: reads "OOB"
  gnu.nbuckets.{0,1,big}       word 0 of a section read by LookupGnu
  gnu.symoffset.{0,big,symcount+1}   word 1: p = i - symoff negative ("OOB") or limit symN - symoff <= 0
  gnu.bloom_size.{0,big}       word 2: "DivZero" / bloom, bucket and chain addresses "OOB"
  gnu.bloom_shift.{64,big}     word 3: "BadShift"
  gnu.bloom.{zero,ones}        bloom words: reject everything / accept everything (every absent name reaches the chain walk)
  gnu.bucket.{zero,one,big,symcount}   bucket words: 0 / below symoffset / out of range
  gnu.chain.{nostop,allstop,hashflip}  chain words: end-of-chain bit never / always set, hash bits altered
  gnu.sh_size.*, gnu.truncated cq.len
  dynsym.sh_size.*, dynsym.sh_entsize.*   cq.symN inconsistent with the tables ("Assert": gelf_getsym fails; entsize 0: division)
  hash.sh_type.gnu / gnu.sh_type.hash / order swaps     SelectSection: kind and index disagree (deviation D1 of ElfHash.tla)
Outside that space (no model counterpart; observed only): .dynsym entries, version sections, section-header links,
ELF header fields, truncations at many offsets (truncated.*), an ELF magic / identification / header followed by random
bytes or zeros (garbage.*), DWARF bytes, random flips.
"""
import struct

SHT = {"NULL": 0, "PROGBITS": 1, "SYMTAB": 2, "STRTAB": 3, "RELA": 4, "HASH": 5, "DYNAMIC": 6, "NOTE": 7, "NOBITS": 8,
       "DYNSYM": 11, "GNU_HASH": 0x6ffffff6, "VERDEF": 0x6ffffffd, "VERNEED": 0x6ffffffe, "VERSYM": 0x6fffffff}
_SH = struct.Struct("<IIQQQQIIQQ")          # name type flags addr offset size link info addralign entsize
_SH_FIELDS = ("name_off", "type", "flags", "addr", "offset", "size", "link", "info", "addralign", "entsize")
_SH_POS = {"name_off": (0, "<I"), "type": (4, "<I"), "flags": (8, "<Q"), "addr": (16, "<Q"), "offset": (24, "<Q"), "size": (32, "<Q"),
           "link": (40, "<I"), "info": (44, "<I"), "addralign": (48, "<Q"), "entsize": (56, "<Q")}
_EH_POS = {"e_type": (16, "<H"), "e_machine": (18, "<H"), "e_version": (20, "<I"), "e_entry": (24, "<Q"), "e_phoff": (32, "<Q"),
           "e_shoff": (40, "<Q"), "e_flags": (48, "<I"), "e_ehsize": (52, "<H"), "e_phentsize": (54, "<H"), "e_phnum": (56, "<H"),
           "e_shentsize": (58, "<H"), "e_shnum": (60, "<H"), "e_shstrndx": (62, "<H")}
_SYM = struct.Struct("<IBBHQQ")             # st_name st_info st_other st_shndx st_value st_size


class Elf:
    def __init__(self, data):
        self.data = bytes(data)
        d = self.data
        if d[:4] != b"\x7fELF" or d[4] != 2 or d[5] != 1:
            raise ValueError("not an ELF64 little-endian file")
        self.eh = {k: struct.unpack_from(f, d, o)[0] for k, (o, f) in _EH_POS.items()}
        self.sh = []
        for i in range(self.eh["e_shnum"]):
            off = self.eh["e_shoff"] + i * self.eh["e_shentsize"]
            s = dict(zip(_SH_FIELDS, _SH.unpack_from(d, off)))
            s["index"] = i
            s["hdr"] = off
            self.sh.append(s)
        strs = self.sh[self.eh["e_shstrndx"]]
        for s in self.sh:
            b = strs["offset"] + s["name_off"]
            s["name"] = d[b:d.index(b"\0", b)].decode("latin-1")

    def sec(self, name):
        for s in self.sh:
            if s["name"] == name:
                return s
        return None

    def words(self, s):
        return list(struct.unpack_from("<%dI" % (s["size"] // 4), self.data, s["offset"]))

    def hash_order(self):
        """kinds of the hash sections in file (= section index) order"""
        return [("hash" if s["type"] == SHT["HASH"] else "gnu") for s in self.sh if s["type"] in (SHT["HASH"], SHT["GNU_HASH"])]

    def dynsyms(self):
        s = self.sec(".dynsym")
        if not s or not s["entsize"]:
            return []
        strtab = self.sh[s["link"]]
        res = []
        for i in range(s["size"] // s["entsize"]):
            st_name, info, other, shndx, value, size = _SYM.unpack_from(self.data, s["offset"] + i * s["entsize"])
            b = strtab["offset"] + st_name
            nm = self.data[b:self.data.index(b"\0", b)].decode("latin-1")
            res.append({"i": i, "name": nm, "info": info, "other": other, "shndx": shndx, "value": value, "size": size})
        return res

    def sysv(self):
        s = self.sec(".hash")
        if not s:
            return None
        w = self.words(s)
        nb, nc = w[0], w[1]
        return {"nbucket": nb, "nchain": nc, "bucket": w[2:2 + nb], "chain": w[2 + nb:2 + nb + nc]}

    def gnu(self):
        s = self.sec(".gnu.hash")
        if not s:
            return None
        w = self.words(s)
        nb, symoff, nw, shift = w[:4]
        bloom = [w[4 + 2 * k] | (w[5 + 2 * k] << 32) for k in range(nw)]
        return {"nbuckets": nb, "symoffset": symoff, "bloom_size": nw, "bloom_shift": shift, "bloom": bloom,
                "bucket": w[4 + 2 * nw:4 + 2 * nw + nb], "chain": w[4 + 2 * nw + nb:]}


# ------------------------------------------------------------------------------------------------- patch primitives
def _put(data, off, fmt, val):
    b = bytearray(data)
    if off < 0 or off + struct.calcsize(fmt) > len(b):
        return None
    struct.pack_into(fmt, b, off, val & ((1 << (8 * struct.calcsize(fmt))) - 1))
    return bytes(b)


def _word(e, s, k, val):
    """section word k := val"""
    if (k + 1) * 4 > s["size"]:
        return None
    return _put(e.data, s["offset"] + 4 * k, "<I", val)


def _words(e, s, pairs):
    b = bytearray(e.data)
    for k, val in pairs:
        if (k + 1) * 4 > s["size"]:
            return None
        struct.pack_into("<I", b, s["offset"] + 4 * k, val & 0xffffffff)
    return bytes(b)


def _shdr(e, s, field, val):
    off, fmt = _SH_POS[field]
    return _put(e.data, s["hdr"] + off, fmt, val)


def _ehdr(e, field, val):
    off, fmt = _EH_POS[field]
    return _put(e.data, off, fmt, val)


BIG = 0x7ffffff0


def corruptions(data, rng, thorough=False):
    """yield (class, detail, patched bytes) for every targeted corruption applicable to this file"""
    e = Elf(data)
    n = len(data)
    out = []

    def add(cls, detail, patched):
        if patched is not None and patched != e.data:
            out.append((cls, detail, patched))

    pick = lambda seq, k: (list(seq) if len(seq) <= k else rng.sample(list(seq), k))
    reps = 3 if thorough else 1

    # ---- .hash
    s = e.sec(".hash")
    if s and s["size"] >= 8:
        t = e.sysv()
        nb, nc = t["nbucket"], t["nchain"]
        for v, nm in ((0, "0"), (1, "1"), (BIG, "big")):
            add("hash.nbucket." + nm, "nbucket=%d" % v, _word(e, s, 0, v))
            add("hash.nchain." + nm, "nchain=%d" % v, _word(e, s, 1, v))
        used = [b for b in range(nb) if t["bucket"][b]]
        add("hash.bucket.zero", "all buckets 0", _words(e, s, [(2 + b, 0) for b in range(nb)]))
        add("hash.bucket.big", "all buckets big", _words(e, s, [(2 + b, BIG) for b in range(nb)]))
        add("hash.bucket.nchain", "all buckets = nchain", _words(e, s, [(2 + b, nc) for b in range(nb)]))
        for b in pick(used, reps):
            add("hash.bucket.big", "bucket[%d]=big" % b, _word(e, s, 2 + b, BIG))
        add("hash.chain.zero", "all chain 0", _words(e, s, [(2 + nb + i, 0) for i in range(nc)]))
        add("hash.chain.big", "all chain big", _words(e, s, [(2 + nb + i, BIG) for i in range(nc)]))
        add("hash.chain.nchain", "all chain = nchain", _words(e, s, [(2 + nb + i, nc) for i in range(nc)]))
        add("hash.chain.self", "chain[i]=i for all i>0", _words(e, s, [(2 + nb + i, i) for i in range(1, nc)]))
        add("hash.chain.cycle2", "chain[i]=i^1 (2-cycles)", _words(e, s, [(2 + nb + i, (i ^ 1) or 1) for i in range(1, nc)]))
        add("hash.chain.zeroslot", "chain[0]=1", _word(e, s, 2 + nb, 1))
        for b in pick(used, reps):
            i = t["bucket"][b]
            add("hash.chain.self", "chain[%d]=%d (head of bucket %d)" % (i, i, b), _word(e, s, 2 + nb + i, i))
            add("hash.chain.big", "chain[%d]=big" % i, _word(e, s, 2 + nb + i, BIG))
        add("hash.truncated", "sh_size=8", _shdr(e, s, "size", 8))
        add("hash.sh_type.gnu", ".hash typed SHT_GNU_HASH", _shdr(e, s, "type", SHT["GNU_HASH"]))

    # ---- .gnu.hash
    s = e.sec(".gnu.hash")
    if s and s["size"] >= 16:
        t = e.gnu()
        nb, so, nw = t["nbuckets"], t["symoffset"], t["bloom_size"]
        nsym = len(e.dynsyms())
        kb = 4 + 2 * nw
        kc = kb + nb
        ncw = len(t["chain"])
        for v, nm in ((0, "0"), (1, "1"), (BIG, "big")):
            add("gnu.nbuckets." + nm, "nbuckets=%d" % v, _word(e, s, 0, v))
        for v, nm in ((0, "0"), (nsym + 1, "symcount+1"), (BIG, "big")):
            add("gnu.symoffset." + nm, "symoffset=%d" % v, _word(e, s, 1, v))
        for v, nm in ((0, "0"), (BIG, "big"), (nw + 1, "plus1")):
            add("gnu.bloom_size." + nm, "bloom_size=%d" % v, _word(e, s, 2, v))
        for v, nm in ((64, "64"), (BIG, "big"), (0, "0")):
            add("gnu.bloom_shift." + nm, "bloom_shift=%d" % v, _word(e, s, 3, v))
        add("gnu.bloom.zero", "bloom all 0", _words(e, s, [(4 + k, 0) for k in range(2 * nw)]))
        add("gnu.bloom.ones", "bloom all 1", _words(e, s, [(4 + k, 0xffffffff) for k in range(2 * nw)]))
        add("gnu.bucket.zero", "all buckets 0", _words(e, s, [(kb + b, 0) for b in range(nb)]))
        add("gnu.bucket.one", "all buckets 1 (< symoffset)" , _words(e, s, [(kb + b, 1) for b in range(nb)]))
        add("gnu.bucket.big", "all buckets big", _words(e, s, [(kb + b, BIG) for b in range(nb)]))
        add("gnu.bucket.symcount", "all buckets = symcount", _words(e, s, [(kb + b, nsym) for b in range(nb)]))
        add("gnu.bucket.last", "all buckets = symcount-1", _words(e, s, [(kb + b, max(nsym - 1, 1)) for b in range(nb)]))
        add("gnu.chain.nostop", "no end-of-chain bit", _words(e, s, [(kc + i, t["chain"][i] & ~1) for i in range(ncw)]))
        add("gnu.chain.allstop", "every end-of-chain bit", _words(e, s, [(kc + i, t["chain"][i] | 1) for i in range(ncw)]))
        add("gnu.chain.hashflip", "chain hashes inverted", _words(e, s, [(kc + i, t["chain"][i] ^ 0xfffffffe) for i in range(ncw)]))
        add("gnu.chain.zero", "chain all 0", _words(e, s, [(kc + i, 0) for i in range(ncw)]))
        add("gnu.bloom_ones+bucket_big", "bloom all 1, buckets big", _words(e, s, [(4 + k, 0xffffffff) for k in range(2 * nw)] + [(kb + b, BIG) for b in range(nb)]))
        add("gnu.bloom_ones+bucket_one", "bloom all 1, buckets 1", _words(e, s, [(4 + k, 0xffffffff) for k in range(2 * nw)] + [(kb + b, 1) for b in range(nb)]))
        add("gnu.bloom_ones+nostop", "bloom all 1, no end-of-chain bit", _words(e, s, [(4 + k, 0xffffffff) for k in range(2 * nw)] + [(kc + i, t["chain"][i] & ~1) for i in range(ncw)]))
        add("gnu.truncated", "sh_size=16", _shdr(e, s, "size", 16))
        add("gnu.sh_type.hash", ".gnu.hash typed SHT_HASH", _shdr(e, s, "type", SHT["HASH"]))

    # ---- section headers of the sections the readers use
    for nm in (".dynsym", ".dynstr", ".hash", ".gnu.hash", ".gnu.version", ".gnu.version_d", ".symtab", ".strtab", ".dynamic"):
        s = e.sec(nm)
        if not s:
            continue
        tag = nm.lstrip(".").replace(".", "_")
        if tag == "gnu_hash":
            tag = "gnu"
        for v, vn in ((0, "0"), (s["index"], "self"), (len(e.sh), "shnum"), (BIG, "big")):
            if v != s["link"]:
                add("%s.sh_link.%s" % (tag, vn), "sh_link=%d" % v, _shdr(e, s, "link", v))
        for v, vn in ((0, "0"), (BIG, "big")):
            if v != s["info"]:
                add("%s.sh_info.%s" % (tag, vn), "sh_info=%d" % v, _shdr(e, s, "info", v))
        for v, vn in ((0, "0"), (1, "1"), (s["entsize"] + 1 if s["entsize"] else 3, "plus1"), (BIG, "big")):
            if v != s["entsize"]:
                add("%s.sh_entsize.%s" % (tag, vn), "sh_entsize=%d" % v, _shdr(e, s, "entsize", v))
        for v, vn in ((0, "0"), (s["size"] // 2, "half"), (max(s["size"] - 1, 0), "minus1"), (s["size"] + (s["entsize"] or 4), "plus1ent"),
                      (n, "filesize"), (1 << 40, "big")):
            if v != s["size"]:
                add("%s.sh_size.%s" % (tag, vn), "sh_size=%d" % v, _shdr(e, s, "size", v))
        for v, vn in ((n - 4, "eof-4"), (n + 4096, "beyond"), (1 << 60, "big")):
            add("%s.sh_offset.%s" % (tag, vn), "sh_offset=%d" % v, _shdr(e, s, "offset", v))
    s = e.sec(".dynsym")
    if s:
        add("dynsym.sh_type.symtab", ".dynsym typed SHT_SYMTAB", _shdr(e, s, "type", SHT["SYMTAB"]))
        add("dynsym.sh_type.progbits", ".dynsym typed SHT_PROGBITS", _shdr(e, s, "type", SHT["PROGBITS"]))

    # ---- .dynsym / .symtab entries
    for nm in (".dynsym", ".symtab"):
        s = e.sec(nm)
        if not s or s["entsize"] != 24:
            continue
        tag = nm.lstrip(".")
        cnt = s["size"] // 24
        strsz = e.sh[s["link"]]["size"] if s["link"] < len(e.sh) else 0
        base = s["offset"]

        def allsyms(fieldoff, fmt, val, first=1):
            b = bytearray(e.data)
            for i in range(first, cnt):
                struct.pack_into(fmt, b, base + 24 * i + fieldoff, val)
            return bytes(b)
        add(tag + ".st_name.big", "every st_name big", allsyms(0, "<I", BIG))
        add(tag + ".st_name.strsz", "every st_name = size of the string table", allsyms(0, "<I", strsz & 0xffffffff))
        add(tag + ".st_name.last", "every st_name = strsz-1", allsyms(0, "<I", max(strsz - 1, 0)))
        add(tag + ".st_name.same", "every st_name equal (duplicate names)", allsyms(0, "<I", 1))
        for v, vn in ((0, "undef"), (0xfff1, "abs"), (0xfff2, "common"), (0xffff, "xindex"), (0xff00, "loreserve"), (len(e.sh) + 7, "big")):
            add(tag + ".st_shndx." + vn, "every st_shndx=%#x" % v, allsyms(6, "<H", v))
        for v, vn in ((0x1f, "type15"), (0xf2, "bind15"), (0x00, "local-notype"), (0x1a, "ifunc"), (0x16, "tls"), (0x15, "common-type"), (0x13, "section"), (0x14, "file")):
            add(tag + ".st_info." + vn, "every st_info=%#x" % v, allsyms(4, "<B", v))
        add(tag + ".st_other.ff", "every st_other=0xff", allsyms(5, "<B", 0xff))
        add(tag + ".st_value.big", "every st_value huge", allsyms(8, "<Q", 0xfffffffffffffff0))
        add(tag + ".st_value.zero", "every st_value 0", allsyms(8, "<Q", 0))
        add(tag + ".st_value.same", "every st_value equal (all aliases)", allsyms(8, "<Q", 0x1000))
        add(tag + ".st_size.big", "every st_size huge", allsyms(16, "<Q", 0xfffffffffffffff0))
        add(tag + ".null.nonzero", "symbol 0 made a global function", _put(e.data, base + 4, "<B", 0x12))

    # ---- versions
    s = e.sec(".gnu.version")
    if s:
        cnt = s["size"] // 2

        def allver(val, first=1):
            b = bytearray(e.data)
            for i in range(first, cnt):
                struct.pack_into("<H", b, s["offset"] + 2 * i, val)
            return bytes(b)
        for v, vn in ((0, "0"), (0x8000, "hidden0"), (0x8001, "hidden1"), (0x7fff, "max"), (0xffff, "ffff"), (40, "undefined-index")):
            add("versym.idx." + vn, "every version index %#x" % v, allver(v))
        add("versym.idx.first", "version index of the null symbol = 2", _put(e.data, s["offset"], "<H", 2))
    s = e.sec(".gnu.version_d")
    if s and s["size"] >= 20:
        o = s["offset"]           # Verdef: vd_version(2) vd_flags(2) vd_ndx(2) vd_cnt(2) vd_hash(4) vd_aux(4) vd_next(4)
        offs = []
        p = 0
        while p + 20 <= s["size"] and len(offs) < 64:
            offs.append(p)
            nxt = struct.unpack_from("<I", e.data, o + p + 16)[0]
            if not nxt:
                break
            p += nxt
        for p in offs[:2 if not thorough else 4]:
            k = offs.index(p)
            for v, vn in ((0, "0"), (1, "1"), (4, "4"), (BIG, "big"), (0xffffffff, "ffffffff")):
                add("verdef.vd_next." + vn, "verdef #%d vd_next=%#x" % (k, v), _put(e.data, o + p + 16, "<I", v))
                add("verdef.vd_aux." + vn, "verdef #%d vd_aux=%#x" % (k, v), _put(e.data, o + p + 12, "<I", v))
            for v, vn in ((0, "0"), (0xffff, "ffff")):
                add("verdef.vd_cnt." + vn, "verdef #%d vd_cnt=%#x" % (k, v), _put(e.data, o + p + 6, "<H", v))
                add("verdef.vd_ndx." + vn, "verdef #%d vd_ndx=%#x" % (k, v), _put(e.data, o + p + 4, "<H", v))
            add("verdef.vd_version.9", "verdef #%d vd_version=9" % k, _put(e.data, o + p, "<H", 9))
            aux = struct.unpack_from("<I", e.data, o + p + 12)[0]
            if p + aux + 8 <= s["size"]:
                add("verdaux.vda_name.big", "verdef #%d vda_name big" % k, _put(e.data, o + p + aux, "<I", BIG))
                add("verdaux.vda_next.big", "verdef #%d vda_next big" % k, _put(e.data, o + p + aux + 4, "<I", BIG))
        if len(offs) > 1:
            b = bytearray(e.data)
            for p in offs:
                struct.pack_into("<H", b, o + p + 4, 2)
            add("verdef.vd_ndx.dup", "every verdef has index 2", bytes(b))
        add("verdef.zero", "section zeroed", e.data[:o] + b"\0" * s["size"] + e.data[o + s["size"]:])

    # ---- ELF header and truncations
    for f, vals in (("e_shoff", ((0, "0"), (n - 8, "eof-8"), (n + 64, "beyond"), (1 << 60, "big"))),
                    ("e_shnum", ((0, "0"), (1, "1"), (e.eh["e_shnum"] + 5, "plus5"), (0xffff, "ffff"))),
                    ("e_shstrndx", ((0, "0"), (e.eh["e_shnum"], "shnum"), (0xffff, "ffff"))),
                    ("e_shentsize", ((0, "0"), (8, "8"), (0xffff, "ffff"))),
                    ("e_phoff", ((n + 64, "beyond"), (1 << 60, "big"))),
                    ("e_phnum", ((0, "0"), (0xffff, "ffff"))),
                    ("e_phentsize", ((0, "0"), (1, "1"))),
                    ("e_type", ((0, "none"), (1, "rel"), (2, "exec"), (4, "core"), (0xffff, "ffff"))),
                    ("e_machine", ((0, "none"), (21, "ppc64"), (40, "arm"), (183, "aarch64"), (0xffff, "ffff"))),
                    ("e_version", ((0, "0"), (9, "9")))):
        for v, vn in vals:
            add("ehdr.%s.%s" % (f, vn), "%s=%d" % (f, v), _ehdr(e, f, v))
    add("ehdr.ei_class.32", "EI_CLASS=ELFCLASS32", _put(e.data, 4, "<B", 1))
    add("ehdr.ei_class.0", "EI_CLASS=0", _put(e.data, 4, "<B", 0))
    add("ehdr.ei_data.msb", "EI_DATA=ELFDATA2MSB", _put(e.data, 5, "<B", 2))
    add("ehdr.ei_version.0", "EI_VERSION=0", _put(e.data, 6, "<B", 0))
    cuts = [(0, "empty"), (4, "magic"), (16, "ident"), (63, "ehdr-1"), (64, "ehdr"), (120, "ehdr+1phdr"), (256, "256"), (512, "512"),
            (n // 4, "quarter"), (n // 2, "half"), (e.eh["e_shoff"] - 1, "before-shdrs-1"), (e.eh["e_shoff"], "no-shdrs"),
            (e.eh["e_shoff"] + 64, "1-shdr"), (e.eh["e_shoff"] + 64 * 3, "3-shdrs"), (n - 64, "last-shdr"), (n - 1, "minus1")]
    for nm in (".dynsym", ".dynstr", ".hash", ".gnu.hash", ".gnu.version", ".gnu.version_d", ".dynamic", ".symtab", ".strtab", ".shstrtab", ".debug_info", ".debug_abbrev"):
        s = e.sec(nm)
        if s and s["size"]:
            tag = nm.lstrip(".").replace(".", "_")
            cuts += [(s["offset"], "at-" + tag), (s["offset"] + s["size"] // 2, "in-" + tag)]
    for r in range(8 if thorough else 2):
        cuts.append((rng.randrange(1, n), "random"))
    for cut, vn in cuts:
        if 0 <= cut < n:
            out.append(("truncated." + vn, "file cut at %d of %d" % (cut, n), e.data[:cut]))
    # an ELF identification followed by bytes that are not an ELF file
    for r in range(6 if thorough else 2):
        ln = rng.choice([8, 60, 64, 200, 1000, 5000])
        out.append(("garbage.magic+random", "\\x7fELF + %d random bytes" % ln, b"\x7fELF" + bytes(rng.randrange(256) for _ in range(ln))))
        out.append(("garbage.ident+random", "valid e_ident + %d random bytes" % ln, e.data[:16] + bytes(rng.randrange(256) for _ in range(ln))))
        out.append(("garbage.ehdr+random", "valid ELF header + %d random bytes" % ln, e.data[:64] + bytes(rng.randrange(256) for _ in range(ln))))
    out.append(("garbage.magic+zeros", "\\x7fELF + 4096 zero bytes", b"\x7fELF" + b"\0" * 4096))
    out.append(("garbage.ehdr+zeros", "valid ELF header + zeros up to the file size", e.data[:64] + b"\0" * (n - 64)))

    # ---- .dynamic entries (d_tag, d_val)
    s = e.sec(".dynamic")
    if s and s["entsize"] == 16:
        cnt = s["size"] // 16
        for want, nm in ((14, "soname"), (1, "needed"), (5, "strtab"), (10, "strsz")):
            for i in range(cnt):
                tag, val = struct.unpack_from("<QQ", e.data, s["offset"] + 16 * i)
                if tag == want:
                    add("dynamic.%s.big" % nm, "DT_%s value big" % nm.upper(), _put(e.data, s["offset"] + 16 * i + 8, "<Q", BIG))
                    break
        b = bytearray(e.data)
        for i in range(cnt):
            struct.pack_into("<Q", b, s["offset"] + 16 * i, 14)
        add("dynamic.all-soname", "every entry DT_SONAME", bytes(b))
        b = bytearray(e.data)
        for i in range(cnt):
            struct.pack_into("<Q", b, s["offset"] + 16 * i, 1)
            struct.pack_into("<Q", b, s["offset"] + 16 * i + 8, BIG)
        add("dynamic.all-needed-big", "every entry DT_NEEDED with a big string offset", bytes(b))

    # ---- DWARF
    s = e.sec(".debug_info")
    if s and s["size"] > 12:
        o = s["offset"]
        for v, vn in ((0, "0"), (s["size"] * 2, "double"), (0xfffffff0, "big"), (0xffffffff, "dwarf64")):
            add("debug_info.unit_length." + vn, "first unit_length=%#x" % v, _put(e.data, o, "<I", v))
        for v, vn in ((0, "0"), (1, "1"), (6, "6"), (0xffff, "ffff")):
            add("debug_info.version." + vn, "first CU version=%d" % v, _put(e.data, o + 4, "<H", v))
        ver = struct.unpack_from("<H", e.data, o + 4)[0]
        if ver >= 5:      # unit_type(1) address_size(1) abbrev_offset(4)
            add("debug_info.unit_type.ff", "unit_type=0xff", _put(e.data, o + 6, "<B", 0xff))
            add("debug_info.unit_type.type", "unit_type=DW_UT_type", _put(e.data, o + 6, "<B", 2))
            add("debug_info.address_size.0", "address_size=0", _put(e.data, o + 7, "<B", 0))
            add("debug_info.address_size.ff", "address_size=255", _put(e.data, o + 7, "<B", 255))
            add("debug_info.abbrev_offset.big", "abbrev_offset big", _put(e.data, o + 8, "<I", BIG))
        else:             # abbrev_offset(4) address_size(1)
            add("debug_info.abbrev_offset.big", "abbrev_offset big", _put(e.data, o + 6, "<I", BIG))
            add("debug_info.address_size.0", "address_size=0", _put(e.data, o + 10, "<B", 0))
            add("debug_info.address_size.ff", "address_size=255", _put(e.data, o + 10, "<B", 255))
    for nm in (".debug_info", ".debug_abbrev", ".debug_str", ".debug_line", ".debug_line_str", ".debug_aranges", ".debug_rnglists", ".debug_loclists",
               ".debug_str_offsets", ".debug_addr"):
        s = e.sec(nm)
        if not s or s["size"] < 8:
            continue
        tag = nm.lstrip(".")
        for v, vn in ((0, "0"), (s["size"] // 2, "half"), (n, "filesize")):
            add("%s.sh_size.%s" % (tag, vn), "sh_size=%d" % v, _shdr(e, s, "size", v))
        add("%s.sh_type.nobits" % tag, "typed SHT_NOBITS", _shdr(e, s, "type", SHT["NOBITS"]))
        add("%s.sh_flags.compressed" % tag, "SHF_COMPRESSED set on uncompressed data", _shdr(e, s, "flags", s["flags"] | 0x800))
        add("%s.zero" % tag, "content zeroed", e.data[:s["offset"]] + b"\0" * s["size"] + e.data[s["offset"] + s["size"]:])
        add("%s.ff" % tag, "content 0xff", e.data[:s["offset"]] + b"\xff" * s["size"] + e.data[s["offset"] + s["size"]:])
        for r in range(6 if thorough else 2):
            b = bytearray(e.data)
            for _ in range(1 + r * 3):
                p = s["offset"] + rng.randrange(s["size"])
                b[p] = rng.randrange(256)
            add("%s.flip" % tag, "%d random bytes" % (1 + r * 3), bytes(b))

    # ---- random byte flips in the sections the ELF readers parse, and anywhere
    for nm in (".dynsym", ".dynstr", ".gnu.version", ".gnu.version_d", ".hash", ".gnu.hash", ".dynamic", ".symtab", ".strtab", ".shstrtab"):
        s = e.sec(nm)
        if not s or not s["size"]:
            continue
        tag = nm.lstrip(".").replace(".", "_")
        for r in range(4 if thorough else 1):
            b = bytearray(e.data)
            for _ in range(1 + 4 * r):
                p = s["offset"] + rng.randrange(s["size"])
                b[p] = rng.randrange(256)
            add("flip." + tag, "%d random bytes" % (1 + 4 * r), bytes(b))
    for r in range(12 if thorough else 3):
        b = bytearray(e.data)
        for _ in range(1 + r):
            p = e.eh["e_shoff"] + rng.randrange(64 * e.eh["e_shnum"])
            b[p] = rng.randrange(256)
        add("flip.shdrs", "%d random bytes in the section header table" % (1 + r), bytes(b))
    for r in range(12 if thorough else 3):
        b = bytearray(e.data)
        for _ in range(1 + 2 * r):
            b[rng.randrange(n)] = rng.randrange(256)
        add("flip.any", "%d random bytes anywhere" % (1 + 2 * r), bytes(b))
    return out


def group(cls):
    """coarse family of a class: which reader it aims at"""
    return cls.split(".")[0]
