"""Renders an abstract program of spec/Abi.tla with its named types split between a public header, a private header and
the .c file (C26), on top of render/cprog.Prog.

  place[i-1] in {"pub", "priv", "src", ""} for type index i (from spec/SupprCase.tla: a definition never precedes a type
  it needs complete, so the three files can be included in the order pub, priv, src).

Layout:   <root>/include/<pubdir>/<pubname>    definitions of the "pub" types (+ forward declarations of every struct/union:
                                               a private struct is *declared* in the public header, defined outside)
          <root>/src/priv.h                    definitions of the "priv" types
          <root>/src/lib.c                     definitions of the "src" types, the functions and the variables
Only rendering.
"""
import os, subprocess
import cprog


def _order(P):
    """named types in a dependency-respecting, deterministic order"""
    named = [i for i in range(1, len(P.types)) if P.types[i]["k"] in ("struct", "union", "enum", "typedef")]
    done, out, pending = set(), [], list(named)
    guard = 0
    while pending:
        guard += 1
        if guard > 10000:
            raise RuntimeError("cyclic type dependencies")
        i = pending.pop(0)
        if not (P.deps(i) & set(named)) <= done:
            pending.append(i)
            continue
        done.add(i)
        out.append(i)
    return out


def render(types, fns, vars_, place, lang="c", pubname="pub.h", pubdir="", shift=0, privname="priv.h"):
    """-> dict relative path -> content"""
    P = cprog.Prog(types, fns, vars_, lang)
    order = _order(P)
    where = lambda i: place[i - 1]
    for i in order:
        for d in P.deps(i):
            if P.types[d]["k"] in ("struct", "union", "enum", "typedef"):
                rank = {"pub": 0, "priv": 1, "src": 2}
                if rank[where(d)] > rank[where(i)]:
                    raise RuntimeError("placement puts %d before its dependency %d" % (i, d))
    fwd = ["%s %s;" % (P.types[i]["k"], P.tname(i).split()[-1]) for i in order if P.types[i]["k"] in ("struct", "union")]
    pub = ["/* public header */", "#ifndef VERIF_PUB_H", "#define VERIF_PUB_H"] + [""] * shift + fwd
    pub += [P.define(i) for i in order if where(i) == "pub"] + ["#endif"]
    priv = ["/* private header */", "#ifndef VERIF_PRIV_H", "#define VERIF_PRIV_H"] + [P.define(i) for i in order if where(i) == "priv"] + ["#endif"]
    rel = "/".join(x for x in ("..", "include", pubdir, pubname) if x)
    src = ['#include "%s"' % rel, '#include "%s"' % privname] + [P.define(i) for i in order if where(i) == "src"]
    st = dict(cprog.DEFAULT_STYLE)
    for f in fns:
        src.append(P.fn_def(f, st))
    for v in vars_:
        src.append(P.var_def(v))
    pubpath = "/".join(x for x in ("include", pubdir, pubname) if x)
    return {pubpath: "\n".join(pub) + "\n", ("src/" + privname): "\n".join(priv) + "\n", "src/lib.c": "\n".join(src) + "\n"}, pubpath


def build(root, files, cc="gcc", flags=("-g",)):
    """write the tree under root and build <root>/lib.so from src/lib.c (compiled inside src/, as a project would)"""
    for rel, content in files.items():
        p = os.path.join(root, rel)
        os.makedirs(os.path.dirname(p), exist_ok=True)
        with open(p, "w") as f:
            f.write(content)
    r = subprocess.run([cc] + list(flags) + ["-w", "-O0", "-fPIC", "-shared", "-o", "../lib.so", "lib.c"], cwd=os.path.join(root, "src"),
                       stdout=subprocess.PIPE, stderr=subprocess.PIPE, text=True)
    if r.returncode != 0:
        return None, r.stderr
    return os.path.join(root, "lib.so"), ""
