int grid[2][6];
char tab[4][2];
struct holder { int cells[2][6]; short m[3][2][2]; };
int sum_grid(int (*g)[6]) { return g[0][0]; }
struct holder held;
int first(struct holder *h) { return h->cells[0][0]; }
