int grid[3][4];
char tab[2][4];
struct holder { int cells[3][4]; short m[2][3][2]; };
int sum_grid(int (*g)[4]) { return g[0][0]; }
struct holder held;
int first(struct holder *h) { return h->cells[0][0]; }
