enum E { A = 0, C = 1, D = 1 };
int f(enum E e) { return e; }
