enum E { A = 0, B = 1 };
int f(enum E e) { return e; }
