struct s1 { float a; int b; }; struct s2 { double x; long p; int u[2]; };
union u1 { unsigned i; float f; };
struct s1 v1; struct s2 v2; union u1 v3;
int f1(struct s1 *p, struct s2 *q, union u1 *r) { return (int) p->a + (int) q->x + (int) r->i; }
