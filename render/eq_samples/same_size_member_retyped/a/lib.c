struct s1 { int a; float b; }; struct s2 { long x; void *p; unsigned u[2]; };
union u1 { int i; float f; };
struct s1 v1; struct s2 v2; union u1 v3;
int f1(struct s1 *p, struct s2 *q, union u1 *r) { return p->a + (int) q->x + r->i; }
