struct B;
struct A { struct B *x; };
struct B { struct A *y; };
void take_other(struct A *a) { (void) a; }
