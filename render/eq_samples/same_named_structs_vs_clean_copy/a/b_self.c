struct A { struct A *x; };
void take_self(struct A *a) { (void) a; }
