int **pp; const int *cp; int *const pc = 0; volatile int *vp; int (*fp)(int, long);
int use(int **a, const int *b, volatile int *c, int (*f)(int, long)) { return **a + *b + *c + f(1, 2); }
