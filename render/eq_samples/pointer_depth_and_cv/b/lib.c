int ***pp; int *cp; const int *const pc = 0; const volatile int *vp; int (*fp)(long, int);
int use(int ***a, int *b, const volatile int *c, int (*f)(long, int)) { return ***a + *b + *c + f(1, 2); }
