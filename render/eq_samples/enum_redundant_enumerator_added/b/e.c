enum foo { e0 = 0, e1 = 1, e2 = 2, e_added = 1 };
enum foo g(enum foo x) { return x; }
