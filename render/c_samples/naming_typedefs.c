/* aggregates and enumerations that have no tag: the typedef names them */
typedef struct { int x; int y; } point_t;
typedef union { int as_int; float as_float; unsigned char bytes[4]; } value_t;
typedef enum { MODE_OFF, MODE_ON, MODE_AUTO = 10 } mode_t_;
typedef struct { point_t origin; value_t payload; mode_t_ mode; } record_t;
typedef struct node_s { struct node_s *next; record_t rec; } node_t, *node_ptr;
int record_mode(const record_t *r) { return r->mode; }
value_t make_value(int i) { value_t v; v.as_int = i; return v; }
point_t origin_of(node_ptr n) { return n->rec.origin; }
mode_t_ current_mode = MODE_AUTO;
node_t head_node;
