/* bit-fields of several base types, flexible / zero-length / multi-dimensional arrays, packed and aligned records */
struct bits { unsigned a : 1; unsigned b : 7; signed int c : 12; unsigned long long d : 40; char e : 3; _Bool f : 1; int : 0; unsigned g : 9; };
struct flex { int n; double tail[]; };
struct zero { int n; int z[0]; };
struct grid { int cells[3][4]; char name[16]; const char *labels[2]; int (*rows)[4]; };
struct __attribute__((packed)) wire { char tag; int value; short crc; };
struct __attribute__((aligned(32))) wide { int v; };
typedef int vec4 __attribute__((vector_size(16)));
int bits_sum(struct bits *b) { return b->a + b->b + b->c + b->g; }
double flex_first(struct flex *f) { return f->n ? f->tail[0] : 0; }
int zero_n(struct zero *z) { return z->n; }
int grid_cell(struct grid *g, int (*rows)[4]) { return g->cells[1][2] + rows[0][1]; }
struct wire wire_var;
struct wide wide_var;
vec4 vec_var;
