/* aliases, weak definitions, hidden / protected visibility, TLS, common-like tentative definitions, static helpers */
struct counter { long hits; long misses; };
static int helper(int x) { return x + 1; }
int visible_fn(int x) { return helper(x); }
int alias_fn(int x) __attribute__((alias("visible_fn")));
int weak_fn(int x) __attribute__((weak));
int weak_fn(int x) { return x; }
int __attribute__((visibility("hidden"))) hidden_fn(int x) { return x; }
int __attribute__((visibility("protected"))) protected_fn(struct counter *c) { return (int) c->hits; }
struct counter global_counter;
extern struct counter counter_alias __attribute__((alias("global_counter")));
__thread int tls_value;
int tentative_value;
static struct counter private_counter;
long use_private(void) { return private_counter.hits + hidden_fn(1); }
