/* anonymous struct / union members, nested; several anonymous aggregates of one kind in one record */
struct shape {
  int kind;
  union { struct { int w, h; }; struct { int radius; } circle; int raw[3]; };
  union { long big; char tag[8]; } u2;
  union { short s; char c2[2]; } u3;
  struct { unsigned a : 3; unsigned b : 5; } flags;
  struct { unsigned c : 1; } more;
};
enum { ANON_A, ANON_B } anon_enum_var;
enum { ANON_C = 5 } anon_enum_var2;
enum { ANON_D = 7, ANON_E } anon_enum_var3;
int shape_area(struct shape *s) { return s->kind ? s->w * s->h : s->circle.radius; }
struct shape unit_shape;
