/* function pointers and their typedefs, variadic functions, cv / restrict qualifiers, opaque types, arrays as parameters */
struct opaque;
typedef int (*compare_fn)(const void *, const void *);
typedef void handler_t(int, ...);
typedef struct ops { compare_fn cmp; handler_t *on_event; struct opaque *(*open)(const char *restrict path, int flags); void (*close)(struct opaque *); } ops_t;
int sum_all(int n, ...) { return n; }
void sort_with(void *base, unsigned long n, compare_fn cmp) { (void) base; (void) n; (void) cmp; }
const volatile int *cv_pointer(const int *const p, volatile char *restrict q) { (void) q; return p; }
int takes_array(int a[10], char m[][8], const struct opaque *o) { (void) m; (void) o; return a[0]; }
struct opaque *opaque_open(const ops_t *ops, const char *p) { return ops->open(p, 0); }
handler_t *current_handler;
const ops_t default_ops;
long double ld_value(long double x, _Complex double z) { (void) z; return x; }
