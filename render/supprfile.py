"""Renders suppression records of spec/Suppr.tla (the typed RESULT of parsing a section) as the INI text libabigail reads.

A record is a dict with the fields of Suppr!Section: kind ("type" | "function" | "variable" | "file"), name, name_regexp,
name_not_regexp, type_kind, symbol_name, symbol_version, change_kind, accessed_through, source_location_not_in (list),
file_name_regexp, soname_regexp, ranges (list of {form: "at" | "between", b, e}); a regular expression is
{k: "none" | "invalid" | "re", a, z, alts: [[piece, ...], ...], bad}; a boundary is {k: "int" | "end" | "offset_of" |
"offset_after", v, m}.  Only rendering: nothing here decides what a section matches (Suppr.tla does).
"""

NO_RE = {"k": "none", "a": False, "z": False, "alts": [], "bad": ""}


def invalid(text):
    return {"k": "invalid", "a": False, "z": False, "alts": [], "bad": text}


def regex(alts, a=False, z=False):
    """alts: list of alternatives; an alternative is a string or a list of pieces joined by '.*'"""
    return {"k": "re", "a": a, "z": z, "alts": [[x] if isinstance(x, str) else list(x) for x in alts], "bad": ""}


def bnd(k, v=0, m=""):
    return {"k": k, "v": v, "m": m}


END = bnd("end")


def range_at(b):
    return {"form": "at", "b": b, "e": END}


def range_between(b, e):
    return {"form": "between", "b": b, "e": e}


def section(kind, **kw):
    s = {"kind": kind, "name": "", "name_regexp": NO_RE, "name_not_regexp": NO_RE, "type_kind": "", "symbol_name": "", "symbol_version": "",
         "change_kind": "", "accessed_through": "", "source_location_not_in": [], "file_name_regexp": NO_RE, "soname_regexp": NO_RE, "ranges": []}
    for k, v in kw.items():
        if k not in s:
            raise KeyError(k)
        s[k] = v
    return s


_SPECIAL = set(".[]()*+?{}|^$\\")
_INI_DELIMITERS = set("[]{}=,;#\\")


def _lit(piece):
    """a literal piece as an extended regular expression"""
    return "".join(("\\" + ch) if ch in _SPECIAL else ch for ch in piece)


def ini_escape(text):
    """a string as an INI property value: the characters the INI reader treats as delimiters (and the backslash) are escaped"""
    return "".join(("\\" + ch) if ch in _INI_DELIMITERS else ch for ch in text)


def regex_text(r):
    if r["k"] == "none":
        return None
    if r["k"] == "invalid":
        return r["bad"]
    alts = [".*".join(_lit(p) for p in alt) for alt in r["alts"]]
    body = alts[0] if len(alts) == 1 else "(" + "|".join(alts) + ")"
    return ("^" if r["a"] else "") + body + ("$" if r["z"] else "")


def boundary_text(b):
    if b["k"] == "int":
        return str(b["v"])
    if b["k"] == "end":
        return "end"
    return "%s(%s)" % (b["k"], b["m"])


_HEAD = {"type": "suppress_type", "function": "suppress_function", "variable": "suppress_variable", "file": "suppress_file"}


def render(sections):
    """one record or a list of records -> INI text"""
    if isinstance(sections, dict):
        sections = [sections]
    out = []
    for s in sections:
        out.append("[%s]" % _HEAD[s["kind"]])
        for prop in ("name", "type_kind", "symbol_name", "symbol_version", "change_kind", "accessed_through"):
            if s[prop] != "":
                out.append("  %s = %s" % (prop, ini_escape(s[prop])))
        for prop in ("name_regexp", "name_not_regexp", "file_name_regexp", "soname_regexp"):
            t = regex_text(s[prop])
            if t is not None:
                out.append("  %s = %s" % (prop, ini_escape(t)))
        if s["source_location_not_in"]:
            out.append("  source_location_not_in = %s" % ", ".join(ini_escape(x) for x in s["source_location_not_in"]))
        ats = [r for r in s["ranges"] if r["form"] == "at"]
        # the property can be given once: further "at" ranges are written as the equivalent {b, end}
        betweens = [r for r in s["ranges"] if r["form"] == "between"] + ats[1:]
        if ats:
            out.append("  has_data_member_inserted_at = %s" % boundary_text(ats[0]["b"]))
        if len(betweens) == 1:
            out.append("  has_data_member_inserted_between = {%s, %s}" % (boundary_text(betweens[0]["b"]), boundary_text(betweens[0]["e"])))
        elif betweens:
            out.append("  has_data_members_inserted_between = {%s}" %
                       ", ".join("{%s, %s}" % (boundary_text(r["b"]), boundary_text(r["e"])) for r in betweens))
        out.append("")
    return "\n".join(out)
