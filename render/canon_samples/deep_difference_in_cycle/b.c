struct B; struct C;
struct A { struct B *b; int k; };
struct B { struct A *a; struct C *c; };
struct C { long v; struct A *back; };
void fa2(struct A *a) { (void) a; }
void fb2(struct B *b) { (void) b; }
