struct B; struct C;
struct A { struct B *b; int k; };
struct B { struct A *a; struct C *c; };
struct C { int v; struct A *back; };
void fa1(struct A *a) { (void) a; }
void fb1(struct B *b) { (void) b; }
