struct B; struct C;
struct A { struct B *b; int k; };
struct B { struct A *a; struct C *c; };
struct C { int v; struct A *back; };
void fa3(struct A *a) { (void) a; }
void fc3(struct C *c) { (void) c; }
