struct L;
struct R { struct L *l; struct R *self; };
struct L { struct R *r; int tail; };
void ra(struct R *r) { (void) r; }
void la(struct L *l) { (void) l; }
