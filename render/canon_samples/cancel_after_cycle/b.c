struct L;
struct R { struct L *l; struct R *self; };
struct L { struct R *r; long tail; };
void rb(struct R *r) { (void) r; }
void lb(struct L *l) { (void) l; }
