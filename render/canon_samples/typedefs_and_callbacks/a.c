typedef struct { int a; } anon_t;
struct cb;
typedef int (*handler_t)(struct cb *, const anon_t *);
struct cb { handler_t h; struct cb *chain[2]; const struct cb *parent; };
int run_a(struct cb *c, anon_t *t) { return c->h(c, t); }
