typedef struct { int a; } anon_t;
struct cb;
typedef int (*handler_t)(struct cb *, const anon_t *);
struct cb { handler_t h; struct cb *chain[2]; const struct cb *parent; };
typedef struct cb cb_t;
int run_b(cb_t *c, anon_t *t) { return c->h(c, t); }
handler_t get_b(cb_t *c) { return c->h; }
