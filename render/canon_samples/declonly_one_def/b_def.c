struct S { int a; struct S *self; };
struct holder { struct S *opaque; struct holder *next; };
int use_def(struct holder *h) { return h->opaque->a; }
