struct S;
struct holder { struct S *opaque; struct holder *next; };
void use_opaque(struct holder *h) { (void) h; }
