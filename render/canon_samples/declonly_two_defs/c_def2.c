struct S { char c; };
int use2(struct S *s) { return s->c; }
