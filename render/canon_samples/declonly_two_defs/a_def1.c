struct T { int v; };
struct S { int a; struct T *t; };
int use1(struct S *s) { return s->a; }
