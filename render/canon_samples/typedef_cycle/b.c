struct item { struct item *next; int v; };
int vb(struct item *i) { return i->v; }
