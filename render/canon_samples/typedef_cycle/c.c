typedef struct item item_t;
struct other { int w; };
struct item { struct other *next; int v; };
int vc(item_t *i) { return i->v; }
