typedef struct item item_t;
struct item { item_t *next; int v; };
int va(item_t *i) { return i->v; }
