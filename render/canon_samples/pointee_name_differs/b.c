struct Y { int a; };
struct P { struct Y *x; struct P *next; };
void py(struct P *p) { (void) p; }
