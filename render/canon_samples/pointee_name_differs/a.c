struct X { int a; };
struct P { struct X *x; struct P *next; };
void px(struct P *p) { (void) p; }
