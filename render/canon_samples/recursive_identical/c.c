struct tree;
struct node { struct node *next, *prev; struct tree *owner; int key; };
struct tree { struct node *root; struct tree *parent; union u *payload; };
union u { struct node *n; struct tree *t; union u *self; long raw; };
struct node *walk_c(struct tree *t) { return t->root; }
union u *pay_c(struct tree *t) { return t->payload; }
