\* STRICT selection property: fails while FixedSelect = FALSE (order .gnu.hash, .hash); holds with TRUE.
CONSTANTS Names = {0, 1}
          MaxSyms = 0
          Buckets = {1}
          VerSyms <- VerSymsNone
          VerDefs = {}
          BloomBits = 4
          BloomShapes <- BloomShapesOne
          Hashes <- HashFamily
          MaxSecs = 4
          CorruptLens = {}
          CorruptMax = 0
          CorruptSyms = {}
          CorruptHashes = {}
          FixedSelect = FALSE
          FixedSysV = FALSE
          FixedGnu = FALSE
SPECIFICATION SpecSelect
INVARIANT SelectionConsistent
CHECK_DEADLOCK FALSE
