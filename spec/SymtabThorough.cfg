\* C18, thorough bounds
CONSTANT Plans <- PlanC18Thorough
SPECIFICATION Spec
INVARIANTS Ideal Faithful Witness
CHECK_DEADLOCK FALSE
