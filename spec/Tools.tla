------------------------------------------ MODULE Tools ------------------------------------------
(* The command-line tools as control-flow state machines over *outcome classes* (C08, C09).          *)
(* One behaviour = one invocation: a run record is chosen, main() is stepped through its decision     *)
(* points (one action each, named after the code), and ends in an exit status.  The bit-field:       *)
(*   1 = ERROR, 2 = USAGE_ERROR, 4 = ABI_CHANGE, 8 = ABI_INCOMPATIBLE_CHANGE.                        *)
(* The comparison itself is abstracted to what main() consults: has_net_changes and                   *)
(* has_incompatible_changes of the corpus diff (bound to the report by DiffStats / C10, C13).         *)
EXTENDS Naturals, Integers, Sequences, FiniteSets, TLC

OK == 0  ERROR == 1  USAGE == 2  CHANGE == 4  INCOMPAT == 8
Bit(x, b) == (x \div b) % 2 = 1
Or(a, b) == (IF Bit(a, 1) \/ Bit(b, 1) THEN 1 ELSE 0) + (IF Bit(a, 2) \/ Bit(b, 2) THEN 2 ELSE 0)
          + (IF Bit(a, 4) \/ Bit(b, 4) THEN 4 ELSE 0) + (IF Bit(a, 8) \/ Bit(b, 8) THEN 8 ELSE 0)

(* How an input file presents itself to a tool. *)
FileClass == {"missing",      \* no such file
              "notregular",   \* a directory
              "unknown",      \* content type not recognized (empty, text, garbage)
              "elf",          \* ELF that loads
              "elf-fail",     \* recognized as ELF but cannot be read (corrupt / no symbols)
              "xml",          \* ABIXML corpus that loads
              "xml-fail",     \* starts like an ABIXML corpus but is malformed / truncated
              "group", "group-fail",
              "bi", "bi-fail",       \* a translation-unit (abi-instr) document
              "archive"}             \* rpm/deb/tar: recognized, not comparable by abidiff
Loadable == {"elf", "xml", "group", "bi"}
KindOf(c) == CASE c \in {"elf", "xml"} -> "corpus" [] c = "group" -> "group" [] c = "bi" -> "tu" [] OTHER -> "none"

ArgClass == {"ok", "bad-option", "missing-operand", "help", "version", "too-many-files", "no-file", "one-file"}
SupprClass == {"none", "ok", "missing"}

AbidiffRuns == [args : ArgClass, suppr : SupprClass, f1 : FileClass, f2 : FileClass,
                suppressed : BOOLEAN, symtabs : BOOLEAN, vmismatch : BOOLEAN, net : BOOLEAN, incompat : BOOLEAN]

(* abidiff's main(), decision by decision, as a function of the run (the actions below step through it). *)
AbidiffExit(r) ==
  IF r.args \in {"bad-option", "missing-operand", "help", "too-many-files", "no-file"} THEN ERROR + USAGE
  ELSE IF r.args = "version" THEN OK
  ELSE IF r.suppr = "missing" THEN ERROR + USAGE
  ELSE IF r.args = "one-file" THEN ERROR + USAGE                  \* a missing second operand is a usage error
  ELSE IF r.f1 \in {"missing", "notregular"} \/ r.f2 \in {"missing", "notregular"} THEN ERROR
  ELSE IF r.suppressed THEN OK
  ELSE IF r.f1 = "unknown" THEN ERROR
  ELSE IF r.f1 \in {"elf-fail", "xml-fail", "group-fail"} THEN ERROR
  ELSE IF r.f2 = "unknown" THEN ERROR
  ELSE IF r.f2 \in {"elf-fail", "xml-fail", "group-fail"} THEN ERROR
  ELSE IF r.f1 = "bi-fail" \/ r.f2 = "bi-fail" THEN ERROR          \* nil translation unit: kinds differ, or nothing to compare
  ELSE IF KindOf(r.f1) # KindOf(r.f2) THEN ERROR
  ELSE IF KindOf(r.f1) = "none" THEN ERROR
  ELSE IF KindOf(r.f1) = "tu" THEN OK
  ELSE IF r.symtabs THEN OK
  ELSE IF r.vmismatch THEN ERROR
  ELSE (IF r.net THEN CHANGE ELSE OK) + (IF r.incompat THEN INCOMPAT ELSE 0)

(* The comparison reached the point where the verdict bits are computed *)
Compared(r) == /\ r.args = "ok" /\ r.suppr # "missing" /\ ~r.suppressed /\ r.f1 \in Loadable /\ r.f2 \in Loadable
               /\ KindOf(r.f1) = KindOf(r.f2) /\ KindOf(r.f1) \in {"corpus", "group"} /\ ~r.symtabs /\ ~r.vmismatch

(* abicompat *)
CompatArgs == {"ok", "bad-option", "help", "version", "wrong-invocation", "redundant-conflict"}
AbicompatRuns == [args : CompatArgs, app : FileClass, lib1 : FileClass, lib2 : FileClass, weak : BOOLEAN, listonly : BOOLEAN,
                  suppressed : BOOLEAN, net : BOOLEAN, incompat : BOOLEAN]
AbicompatExit(r) ==
  IF r.args \in {"bad-option", "help", "wrong-invocation"} THEN ERROR + USAGE
  ELSE IF r.args = "version" THEN OK
  ELSE IF r.args = "redundant-conflict" THEN ERROR
  ELSE IF r.app \in {"missing", "notregular"} THEN ERROR
  ELSE IF r.suppressed THEN OK
  ELSE IF r.app # "elf" THEN ERROR
  ELSE IF r.listonly THEN OK
  ELSE IF r.lib1 \in {"missing", "notregular"} THEN ERROR
  ELSE IF r.lib1 \notin {"elf", "xml"} THEN ERROR
  ELSE IF ~r.weak /\ r.lib2 \notin {"elf", "xml"} THEN ERROR
  ELSE (IF r.net THEN CHANGE ELSE OK) + (IF r.incompat THEN INCOMPAT ELSE 0)
CompatCompared(r) == r.args = "ok" /\ r.app = "elf" /\ ~r.suppressed /\ ~r.listonly /\ r.lib1 \in {"elf", "xml"}
                     /\ (r.weak \/ r.lib2 \in {"elf", "xml"})

(* ---- the state machine -------------------------------------------------------------------------- *)
VARIABLES tool, run, pc, status
vars == <<tool, run, pc, status>>

Init == /\ tool \in {"abidiff", "abicompat"}
        /\ run \in (IF tool = "abidiff" THEN AbidiffRuns ELSE AbicompatRuns)
        /\ pc = "start" /\ status = OK
(* Facts tying the abstract comparison to reality: an incompatible change is a net change (DiffStats!IncompatImpliesNet). *)
Consistent == run.incompat => run.net
Exit(s) == pc' = "done" /\ status' = s /\ UNCHANGED <<tool, run>>
Goto(l) == pc' = l /\ UNCHANGED <<tool, run, status>>

ParseCommandLine ==
  /\ pc = "start"
  /\ IF tool = "abidiff"
     THEN IF run.args \in {"bad-option", "missing-operand", "help", "too-many-files", "no-file"} THEN Exit(ERROR + USAGE)
          ELSE IF run.args = "version" THEN Exit(OK) ELSE Goto("suppr")
     ELSE IF run.args \in {"bad-option", "help", "wrong-invocation"} THEN Exit(ERROR + USAGE)
          ELSE IF run.args = "version" THEN Exit(OK)
          ELSE IF run.args = "redundant-conflict" THEN Exit(ERROR) ELSE Goto("files")
CheckSuppressionFiles ==
  /\ pc = "suppr"
  /\ IF run.suppr = "missing" THEN Exit(ERROR + USAGE)
     ELSE IF run.args = "one-file" THEN Exit(ERROR + USAGE) ELSE Goto("files")
CheckFiles ==
  /\ pc = "files"
  /\ IF tool = "abidiff"
     THEN IF run.f1 \in {"missing", "notregular"} \/ run.f2 \in {"missing", "notregular"} THEN Exit(ERROR)
          ELSE IF run.suppressed THEN Exit(OK) ELSE Goto("load1")
     ELSE IF run.app \in {"missing", "notregular"} THEN Exit(ERROR)
          ELSE IF run.suppressed THEN Exit(OK) ELSE Goto("load1")
LoadFirst ==
  /\ pc = "load1"
  /\ IF tool = "abidiff"
     THEN IF run.f1 \in {"unknown", "elf-fail", "xml-fail", "group-fail"} THEN Exit(ERROR) ELSE Goto("load2")
     ELSE IF run.app # "elf" THEN Exit(ERROR) ELSE IF run.listonly THEN Exit(OK) ELSE Goto("load2")
LoadSecond ==
  /\ pc = "load2"
  /\ IF tool = "abidiff"
     THEN IF run.f2 \in {"unknown", "elf-fail", "xml-fail", "group-fail"} THEN Exit(ERROR) ELSE Goto("kinds")
     ELSE IF run.lib1 \notin {"elf", "xml"} THEN Exit(ERROR)
          ELSE IF ~run.weak /\ run.lib2 \notin {"elf", "xml"} THEN Exit(ERROR) ELSE Goto("compare")
CheckKinds ==
  /\ pc = "kinds"
  /\ IF run.f1 = "bi-fail" \/ run.f2 = "bi-fail" \/ KindOf(run.f1) # KindOf(run.f2) \/ KindOf(run.f1) = "none" THEN Exit(ERROR)
     ELSE IF KindOf(run.f1) = "tu" THEN Exit(OK)
     ELSE IF run.symtabs THEN Exit(OK)
     ELSE IF run.vmismatch THEN Exit(ERROR) ELSE Goto("compare")
Compare ==
  /\ pc = "compare"
  /\ Exit((IF run.net THEN CHANGE ELSE OK) + (IF run.incompat THEN INCOMPAT ELSE 0))
Next == ParseCommandLine \/ CheckSuppressionFiles \/ CheckFiles \/ LoadFirst \/ LoadSecond \/ CheckKinds \/ Compare
Spec == Init /\ [][Next]_vars

(* ---- properties ------------------------------------------------------------------------------------ *)
Done == pc = "done"
(* the step machine and the closed form agree (the closed form is what trace validation evaluates) *)
StepsAgreeWithFunction == Done => status = (IF tool = "abidiff" THEN AbidiffExit(run) ELSE AbicompatExit(run))
(* C08: documented bits only; 8 => 4; 2 => 1 *)
StatusLattice == Done /\ Consistent => /\ status \in 0..15
                                        /\ (Bit(status, 8) => Bit(status, 4))
                                        /\ (Bit(status, 2) => Bit(status, 1))
(* C08: when no error occurred, the change bit is set exactly when the comparison has a net change *)
ChangeBitIffNet == Done /\ ~Bit(status, 1) /\ (IF tool = "abidiff" THEN Compared(run) ELSE CompatCompared(run))
                     => (Bit(status, 4) <=> run.net)
(* C09: an input that cannot be loaded is never "no change" *)
Unloadable(c) == c \notin Loadable
LoadFailIsError ==
  Done /\ run.args = "ok" => IF tool = "abidiff"
       THEN (run.suppr # "missing" /\ ~run.suppressed /\ (Unloadable(run.f1) \/ Unloadable(run.f2))) => Bit(status, 1)
       ELSE (~run.suppressed /\ (run.app # "elf" \/ (~run.listonly /\ (run.lib1 \notin {"elf", "xml"} \/ (~run.weak /\ run.lib2 \notin {"elf", "xml"})))))
              => Bit(status, 1)
====================================================================================================
