------------------------------------------ MODULE History ------------------------------------------
(* Functional behaviour of the tools (C14): over a history of runs, the outputs are a function of     *)
(* (tool, inputs, options) -- never of the address-space layout, the allocator, the working directory, *)
(* the temporary-directory name or the run's position in the history.                                  *)
(* State: `seen`, the function from run keys to the observed (output hash, exit status).  A run with a  *)
(* known key is a step only if it reproduces the recorded observation.                                 *)
EXTENDS Naturals, Sequences, FiniteSets, TLC

CONSTANTS Keys, Outs, Envs
VARIABLES seen
Init == seen = [k \in {} |-> 0]
Run(k, o) == /\ (k \in DOMAIN seen => seen[k] = o)
             /\ seen' = [x \in DOMAIN seen \cup {k} |-> IF x = k THEN o ELSE seen[x]]
Next == \E k \in Keys, o \in Outs, e \in Envs : Run(k, o)      \* the environment e is not an input of Run: that is the property
Spec == Init /\ [][Next]_seen
Functional == \A k \in DOMAIN seen : seen[k] \in Outs
====================================================================================================
