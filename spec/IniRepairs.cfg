\* Both transcriptions side by side (module IniTrace): the repairs are conservative, and the pinned tree satisfies
\* the restricted properties.
CONSTANTS Alphabet <- Alpha12
          MaxLen = 4
          Prefix <- PrefixNone
          Fixes <- AllFixes
          ValAlphabet <- ValAlpha
          StrLen = 1
SPECIFICATION RSpec
INVARIANTS RepairsConservative PinnedRestricted
CHECK_DEADLOCK FALSE
