\* Both transcriptions side by side (module IniTrace): the specification holds and the pinned tree satisfies
\* the restricted properties.
CONSTANTS Alphabet <- Alpha12
          MaxLen = 4
          Prefix <- PrefixNone
          Fixes <- AllFixes
          ValAlphabet <- ValAlpha
          StrLen = 1
SPECIFICATION RSpec
INVARIANTS Combined
CHECK_DEADLOCK FALSE
