---------------------------------------- MODULE SymtabTrace ----------------------------------------
(* Trace validation for C18 and C28.  One event = one binary, observed by an independent ELF reader *)
(* (readelf -hSsW --dyn-syms -V, parsed into rows by lib/symobs.py) and by libabigail (abidw's        *)
(* <elf-function-symbols>/<elf-variable-symbols>, and the public API through harness/corpus_proj.cc).*)
(*                                                                                                  *)
(*  {"e":"Symtab", "etype":"REL|EXEC|DYN", "sections":[{name,type}], "hasSymtab":b, "hasDynsym":b,    *)
(*   "symtab":[rows], "dynsym":[rows], "mode":"kernel|nokernel",                                     *)
(*   "abidw":[records], "classes":[[ids]], "hasApi":b, "api":[records], "apiclasses":[[ids]], "ret"} *)
(*        verdict: abidw's records = Symtab!Expected(rows of the relevant table) as sets, alias        *)
(*        classes equal as partitions; the same for the API view (which also has function sizes).    *)
(*  {"e":"Kernel", ...same fields...}                                                                 *)
(*        verdict (C28): ids recorded = marked public ids (kernel mode) / all public ids (nokernel).   *)
(* A crash, time-out or failure of the tool is "ret" # "ok" and is rejected.                         *)
(* Symtab's variable dev is AllDev throughout: `Load` then predicts what the code as it is does,     *)
(* which is used only to *name* a rejection (never to accept one).                                   *)
EXTENDS Symtab, IOUtils

T == ndJsonDeserialize(IOEnv.TRACE)
VARIABLES l, verdict

(* ------------------------------------------------------------------------------------------------ *)
(* KNOWN-FINDING PREDICATES (to be moved to KnownFindings.tla; FALSE = not listed, i.e. a violation). *)
(* Each would be as narrow as the rejection it is consulted for: the structural condition is already *)
(* established by the verdict operator before the predicate is asked.                                *)
KF_C18_unwritten_main(ev) == FALSE   \* aliases of a chain whose main symbol is not written are not recorded as aliases
KF_C18_tls_offset(ev)     == FALSE   \* a TLS symbol whose offset equals another symbol's address is recorded as its alias
KF_C18_symtab_versym(ev)  == FALSE   \* .gnu.version indexed with .symtab indices (ET_EXEC/ET_REL with a version section)
KF_C28_nokernel(ev)       == FALSE   \* --no-linux-kernel-mode still filters to the ksymtab-marked symbols
(* ------------------------------------------------------------------------------------------------ *)

ToSet(s) == {s[i] : i \in 1..Len(s)}
Tbl(ev) == RelevantTable(ev.etype, ev.hasSymtab, ev.hasDynsym)
R(ev)   == IF Tbl(ev) = "symtab" THEN ev.symtab ELSE ev.dynsym
C(ev)   == Ctx(ev.etype, IsKernelSections(ev.sections), ev.mode = "kernel")
NoFnSize(rec) == IF rec.sect = "fn" THEN [rec EXCEPT !.size = 0] ELSE rec      \* abidw does not write the size of function symbols
NoVer(rec) == [rec EXCEPT !.version = "", !.isDefault = FALSE]
Classes(cs) == Big({ToSet(cs[i]) : i \in 1..Len(cs)})     \* a class whose members all have one id says nothing

(* A binary without debug info whose ABI is empty: abidw declines to write an empty corpus and exits 1 (status      *)
(* "no symbols found").  Nothing was to be recorded, so this is not a deviation from C18/C28.                       *)
EmptyAbiRefused(ev) == ev.ret = "exit1" /\ ev.abidw = <<>>

RECURSIVE Join(_)
Join(S) == IF S = {} THEN "" ELSE LET x == CHOOSE y \in S : TRUE IN x \o (IF S = {x} THEN "" ELSE ",") \o Join(S \ {x})
RecId(x) == Id(x) \o "/" \o x.sect
Diff(want, got) == "missing=" \o Join({RecId(x) : x \in want \ got}) \o ";unexpected=" \o Join({RecId(x) : x \in got \ want})
JoinC(CS) == Join({"{" \o Join(c) \o "}" : c \in CS})
DiffC(want, got) == "missing=" \o JoinC(want \ got) \o ";unexpected=" \o JoinC(got \ want)
Kf(b, id, reason) == IF b THEN "kf:" \o id ELSE "bad:" \o reason

AliasVerdict(ev, rws, c, want, got, predicted, what) ==
  IF got = want THEN "ok"
  ELSE IF got = predicted /\ DeviatesUnwrittenMainOn(rws, c) /\ ~DeviatesTlsOn(rws, c)
       THEN Kf(KF_C18_unwritten_main(ev), "C18-unwritten-main", what \o "-unwritten-main:" \o DiffC(want, got))
  ELSE IF got = predicted /\ DeviatesTlsOn(rws, c) /\ ~DeviatesUnwrittenMainOn(rws, c)
       THEN Kf(KF_C18_tls_offset(ev), "C18-tls-offset", what \o "-tls-offset:" \o DiffC(want, got))
  ELSE "bad:" \o what \o ":" \o DiffC(want, got)

SymVerdict(ev) ==
  LET rws  == R(ev)
      c    == C(ev)
      E    == Expected(rws, c)
      obs  == ToSet(ev.abidw)
      want == {NoFnSize(x) : x \in E.records}
      Ek   == Expected(rws, CodeCtx(c))
      L    == Load(rws, c)
  IN IF Tbl(ev) = "none" THEN "bad:no-symbol-table"
     ELSE IF EmptyAbiRefused(ev) /\ want = {} THEN "ok"
     ELSE IF ev.ret # "ok" THEN "bad:run-" \o ev.ret
     ELSE IF obs # want
          THEN IF c.kernel /\ ~c.kmode /\ obs = {NoFnSize(x) : x \in Ek.records}
               THEN Kf(KF_C28_nokernel(ev), "C28-nokernel", "no-kernel-mode-ignored:" \o Diff(want, obs))
               ELSE IF ev.etype # "DYN" /\ Tbl(ev) = "symtab" /\ {NoVer(x) : x \in obs} = want /\ \E x \in obs : x.version # ""
               THEN Kf(KF_C18_symtab_versym(ev), "C18-symtab-versym", "symtab-versym:" \o Diff(want, obs))
               ELSE "bad:records:" \o Diff(want, obs)
     ELSE IF ev.hasApi /\ ToSet(ev.api) # E.records THEN "bad:api-records:" \o Diff(E.records, ToSet(ev.api))
     ELSE LET v == AliasVerdict(ev, rws, c, E.classes, Classes(ev.classes), WrittenClasses(rws, L), "aliases")
          IN IF v # "ok" \/ ~ev.hasApi THEN v
             ELSE AliasVerdict(ev, rws, c, E.classes, Classes(ev.apiclasses), MemClasses(rws, L), "api-aliases")

(* C28: the recorded interface as sets of symbol ids *)
KernelVerdict(ev) ==
  LET rws  == R(ev)
      c    == C(ev)
      got  == {Id(x) : x \in ToSet(ev.abidw)}
      want == KernelExpectedIds(rws, c)
      D    == "missing=" \o Join(want \ got) \o ";unexpected=" \o Join(got \ want)
  IN IF ~c.kernel THEN "bad:not-a-kernel-binary"
     ELSE IF EmptyAbiRefused(ev) /\ want = {} THEN "ok"
     ELSE IF EmptyAbiRefused(ev) /\ ~c.kmode /\ ExportedIds(rws) = {}
     THEN Kf(KF_C28_nokernel(ev), "C28-nokernel", "no-kernel-mode-ignored:" \o D)
     ELSE IF ev.ret # "ok" THEN "bad:run-" \o ev.ret
     ELSE IF got = want THEN "ok"
     ELSE IF ~c.kmode /\ got = ExportedIds(rws) THEN Kf(KF_C28_nokernel(ev), "C28-nokernel", "no-kernel-mode-ignored:" \o D)
     ELSE "bad:kernel-filter:" \o D

Verdict(ev) == IF ev.e = "Symtab" THEN SymVerdict(ev) ELSE KernelVerdict(ev)

TInit == l = 1 /\ verdict = "ok" /\ rows = <<>> /\ ctx = Ctx("DYN", FALSE, TRUE) /\ dev = AllDev /\ plan = P("trace", AllDev, 0)
TNext == /\ l <= Len(T) /\ l' = l + 1
         /\ T[l].e \in {"Symtab", "Kernel"}
         /\ rows' = R(T[l]) /\ ctx' = C(T[l])
         /\ verdict' = Verdict(T[l])
         /\ UNCHANGED <<dev, plan>>
TSpec == TInit /\ [][TNext]_<<vars, l, verdict>>

Report == verdict = "ok" \/ PrintT(ToJson([i |-> l - 1, v |-> verdict]))
Accepted == TLCGet("stats").diameter - 1 = Len(T)
====================================================================================================
