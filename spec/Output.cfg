CONSTANT MaxWrites = 6
SPECIFICATION Spec
INVARIANTS WriteFaultIsFailure NoSpuriousFailure
PROPERTY Terminates
CHECK_DEADLOCK FALSE
