CONSTANTS N = 3
  MaxRemoved = 0
  WithSup = FALSE
  WithRed = TRUE
SPECIFICATION Spec
INVARIANTS LatticeDefault Arithmetic HarmfulNotFiltered LeafAgreesOrExplained
CHECK_DEADLOCK FALSE
