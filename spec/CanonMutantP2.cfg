CONSTANTS
  N = 4
  MaxKids = 2
  MaxEdges = 6
  Kinds = {}
  AllowDecl = FALSE
  GraphClass = "any"
  OrderClass = "any"
  CycleCheck = "pair"
  Pass2Cancel = "fresh"
  Outermost = "flush"
  PropagateDespiteCycle = FALSE
  Pass2ClearsDeps = TRUE
SPECIFICATION Spec
CHECK_DEADLOCK FALSE
INVARIANTS CanonIffBisim
