CONSTANTS
  FaithfulRegex = FALSE
  FaithfulHeaders = FALSE
  Mode = "ranges"
  Tier = "thorough"
  MaxMem = 4
SPECIFICATION Spec
CHECK_DEADLOCK FALSE
INVARIANTS Safety RemovalNeverHidden OutsideNeverHidden
