\* Oddities = {} : the corrected code path satisfies the properties (hard invariants); PinnedDifferences prints the cases on which the
\* transcription of the pinned code departs from the declarative verdict.  With Oddities <- AllOddities TLC stops at the first counterexample.
CONSTANTS Names <- DefaultNames
          Types <- DefaultTypes
          Oddities = {}
SPECIFICATION Spec
INVARIANTS VerdictIsFunctionOfUsedPart UnusedIsIrrelevant UsedRemovalIsIncompatible UsedChangeIsReported WeakModeReportsMismatch
           DefinitionsSane PinnedDifferences
CHECK_DEADLOCK FALSE
