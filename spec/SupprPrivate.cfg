CONSTANTS
  FaithfulRegex = FALSE
  FaithfulHeaders = FALSE
  Mode = "private"
  Tier = "thorough"
  MaxMem = 4
SPECIFICATION Spec
CHECK_DEADLOCK FALSE
INVARIANTS PrivateRuleDir PrivateRuleFile
