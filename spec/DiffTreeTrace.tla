-------------------------------------- MODULE DiffTreeTrace --------------------------------------
(* Binding of DiffTree.tla to the implementation (hook H3: `abidiff --dump-diff-tree` additionally    *)
(* prints, per diff node, its local category, has_local_changes, has_changes, is_filtered_out).       *)
(* One event = the whole diff forest of one comparison, as dumped after all passes, plus the options   *)
(* and what the tool printed / returned.  Local facts (parent, hasLocal, lcat) and the suppression /   *)
(* redundancy marks are taken from the dump; TLC recomputes from them what DiffTree derives --         *)
(* propagated categories, filtering, statistics, net / incompatible verdicts, exit bits -- and          *)
(* compares with what the implementation derived and reported.                                          *)
EXTENDS Naturals, Integers, Sequences, FiniteSets, TLC, Json, IOUtils, KnownFindings, Catalogue

T == ndJsonDeserialize(IOEnv.TRACE)
VARIABLES l, verdict

ToSet(s) == {s[i] : i \in 1..Len(s)}
Nodes(ev) == 1..Len(ev.nodes)
Children(ev, n) == {c \in Nodes(ev) : ev.nodes[c].parent = n}
Roots(ev) == {n \in Nodes(ev) : ev.nodes[n].parent = 0}
LCat(ev, n) == ToSet(ev.nodes[n].lcat)
OCat(ev, n) == ToSet(ev.nodes[n].cat)          \* observed inherited category classes

(* DiffTree!Cat, one propagation step: a node's inherited category comes from its own local category and its children's    *)
(* categories -- or from those of another node of its class of equivalence (the canonical diff node carries the category of *)
(* the class; a later occurrence of the same pair of types is not traversed again).                                         *)
SameClass(ev, n) == {m \in Nodes(ev) : m = n \/ (ev.nodes[n].cls # 0 /\ ev.nodes[m].cls = ev.nodes[n].cls)}
CatOf(ev, n) == UNION {LCat(ev, m) \cup UNION {OCat(ev, c) : c \in Children(ev, m)} : m \in SameClass(ev, n)}

Allowed(ev) == (IF ev.allowHarmful THEN {"HARMFUL", "VIRTUAL"} ELSE {}) \cup (IF ev.allowHarmless THEN {"HARMLESS"} ELSE {})
(* DiffTree!Filtered on the observed inherited category and marks *)
FilteredRule(ev, n) ==
  /\ ~(ev.allowHarmless /\ ev.allowHarmful)          \* every category allowed: nothing is filtered (not even redundant nodes)
  /\ \/ ev.nodes[n].sup
     \/ (ev.nodes[n].red /\ ~ev.showRed)
     \/ (OCat(ev, n) # {} /\ OCat(ev, n) \cap Allowed(ev) = {})

(* DiffTree!Sup, soundness direction (suppression_categorization_visitor): a node carries SUPPRESSED / PRIVATE only if a             *)
(* specification matched it (visit_begin: the mark is in its *local* category), or every changed child carries the mark (visit_end),  *)
(* or it is a typedef over a marked underlying type, or a function whose function type was matched -- or a node of its class of      *)
(* equivalence has such a cause.  Marks are only ever added, so the facts at dump time imply the facts when the rule was applied.    *)
SupCause(ev, m) ==
  \/ ev.nodes[m].lsup
  \/ /\ \E c \in Children(ev, m) : ev.nodes[c].hasChanges
     /\ \A c \in Children(ev, m) : ev.nodes[c].hasChanges => ev.nodes[c].sup
  \/ (ev.nodes[m].kindname = "typedef_diff" /\ \E c \in Children(ev, m) : ev.nodes[c].hasChanges /\ ev.nodes[c].sup)
  \/ (ev.nodes[m].kindname = "function_decl_diff" /\ \E c \in Children(ev, m) : ev.nodes[c].lsup)
SupUnexplained(ev) == {n \in Nodes(ev) : ev.nodes[n].sup /\ ~\E m \in SameClass(ev, n) : SupCause(ev, m)}
(* DiffTree!Red, soundness direction (redundancy_marking_visitor): a node carries REDUNDANT only if it repeats a class of            *)
(* equivalence met earlier in the traversal (the dump lists nodes in traversal order; an ancestor of the same class -- a recursive  *)
(* type -- counts), or -- visit_end -- it has a changed child and none of its changed children is still to be reported.              *)
RedCause(ev, n) ==
  \/ ev.nodes[n].cls # 0 /\ \E m \in 1..(n - 1) : ev.nodes[m].cls = ev.nodes[n].cls
  \/ /\ \E c \in Children(ev, n) : ev.nodes[c].hasChanges
     /\ \A c \in Children(ev, n) : ev.nodes[c].hasChanges => (ev.nodes[c].filtered \/ ev.nodes[c].red)
RedUnexplained(ev) == {n \in Nodes(ev) : ev.nodes[n].red /\ ~RedCause(ev, n)}

(* frame (C22 at tree level): no node matched by a specification => no node marked *)
FrameBroken(ev) == (\A n \in Nodes(ev) : ~ev.nodes[n].lsup) /\ (\E n \in Nodes(ev) : ev.nodes[n].sup)

Changed(ev, kind) == {r \in Roots(ev) : ev.nodes[r].kind = kind /\ ev.nodes[r].hasChanges}
FilteredRoots(ev, kind) == {r \in Changed(ev, kind) : ev.nodes[r].filtered}
NetChanged(ev, kind) == Cardinality(Changed(ev, kind)) - Cardinality(FilteredRoots(ev, kind))
VirtOff(ev) == {r \in Changed(ev, "fn") : ~ev.nodes[r].filtered /\ "VIRTUAL" \in OCat(ev, r)}
Incompatible(ev) == ev.netRemoved > 0 \/ (VirtOff(ev) # {} /\ NetChanged(ev, "fn") > 0) \/ ev.sonameOrArch
HasNet(ev) == ev.netRemoved > 0 \/ ev.netAdded > 0 \/ NetChanged(ev, "fn") > 0 \/ NetChanged(ev, "var") > 0 \/ ev.sonameOrArch
Bit(x, b) == (x \div b) % 2 = 1

(* ---- leaf mode (--leaf-changes-only): DiffTree!LeafIface / NetLeafIface / HasNetLeaf ------------------------------------------- *)
(* The leaf reporter counts, per kind, the changed interfaces that carry a *local* change, and among them those not to be reported. *)
LeafIface(ev, kind) == {r \in Changed(ev, kind) : ev.nodes[r].hasLocal}
LeafIfaceFiltered(ev, kind) == {r \in LeafIface(ev, kind) : ev.nodes[r].filtered}
NetLeafIface(ev, kind) == Cardinality(LeafIface(ev, kind)) - Cardinality(LeafIfaceFiltered(ev, kind))
(* leaf types: the marker accepts nodes below an interface that carry a local change and are not of an indirection kind; further     *)
(* exclusions (name-only changes, anonymous aggregates, declaration-only classes) are not in the dump, so the count printed by the    *)
(* tool is bounded from above by the number of candidate classes of equivalence, and is an input of the verdict below.              *)
NonLeafKinds == {"pointer_diff", "reference_diff", "qualified_type_diff", "typedef_diff", "array_diff", "fn_parm_diff", "distinct_diff"}
LeafCandidates(ev) == {n \in Nodes(ev) \ Roots(ev) : ev.nodes[n].hasLocal /\ ev.nodes[n].kindname \notin NonLeafKinds}
ClassKey(ev, n) == IF ev.nodes[n].cls = 0 THEN <<"n", n>> ELSE <<"c", ev.nodes[n].cls>>
LeafCandidateClasses(ev) == {ClassKey(ev, n) : n \in LeafCandidates(ev)}
HasNetLeaf(ev) == ev.netRemoved > 0 \/ ev.netAdded > 0 \/ ev.leafTypes > 0 \/ NetLeafIface(ev, "fn") > 0 \/ NetLeafIface(ev, "var") > 0 \/ ev.sonameOrArch
LeafVerdict(ev) ==
  IF ev.sumChangedFns # NetLeafIface(ev, "fn") \/ ev.sumFilteredFns # Cardinality(LeafIfaceFiltered(ev, "fn")) THEN "bad:leaf-function-summary-disagrees-with-tree"
  ELSE IF ev.sumChangedVars # NetLeafIface(ev, "var") \/ ev.sumFilteredVars # Cardinality(LeafIfaceFiltered(ev, "var")) THEN "bad:leaf-variable-summary-disagrees-with-tree"
  ELSE IF ev.leafTypes + ev.leafTypesF > Cardinality(LeafCandidateClasses(ev)) THEN "bad:more-leaf-types-than-local-changes-in-tree"
  ELSE IF Bit(ev.exit, 4) # HasNetLeaf(ev) THEN "bad:leaf-change-bit-disagrees-with-tree"
  ELSE IF Bit(ev.exit, 8) # Incompatible(ev) THEN "bad:incompatible-bit-disagrees-with-tree"
  ELSE "ok"

(* DiffTree!WellFormed, third conjunct: a local change of a pointer / reference / array node (one the leaf marker never records) is   *)
(* also a local change of the node that uses it -- equals() decides both with types_have_similar_structure -- otherwise the change   *)
(* is recorded nowhere in leaf mode.                                                                                                 *)
IndirKinds == {"pointer_diff", "reference_diff", "array_diff"}
(* the user of an indirection: the nearest ancestor that is not itself a pointer / reference / array / qualified type / typedef (an array of  *)
(* pointers to functions is not "local" itself when only the pointed-to function type changed, the variable that has this type is)        *)
PassKinds == IndirKinds \cup {"qualified_type_diff", "typedef_diff"}
RECURSIVE Bearer(_, _)
Bearer(ev, n) == LET p == ev.nodes[n].parent IN IF p = 0 THEN 0 ELSE IF ev.nodes[p].kindname \in PassKinds THEN Bearer(ev, p) ELSE p
IndirOrphans(ev) == {n \in Nodes(ev) \ Roots(ev) : ev.nodes[n].hasLocal /\ ev.nodes[n].kindname \in IndirKinds
                                                   /\ Bearer(ev, n) # 0 /\ ~ev.nodes[Bearer(ev, n)].hasLocal}

(* Catalogue!CategoryOfKind: the pair differs by exactly one catalogue entry (ev.mutKind, "" otherwise) whose category class is        *)
(* specified: some node carries that class in its local category.                                                                   *)
(* (when every category is allowed the filters -- and with them the categorization -- do not run at all)                            *)
CatalogueMismatch(ev) == ~(ev.allowHarmless /\ ev.allowHarmful) /\ HasSpecifiedCategory(ev.mutKind) /\ ~\E n \in Nodes(ev) : CategoryOfKind(ev.mutKind) \in LCat(ev, n)

Verdict(ev) ==
  IF ev.ret # "ok" THEN "bad:crash"
  ELSE IF CatalogueMismatch(ev) THEN "bad:catalogue-entry-not-categorized-as-modelled"
  ELSE IF IndirOrphans(ev) # {} THEN "bad:local-change-of-indirection-not-local-to-its-user"
  ELSE IF \E n \in Nodes(ev) : ~(LCat(ev, n) \subseteq OCat(ev, n)) THEN "bad:local-category-not-in-category"
  ELSE IF \E n \in Nodes(ev) : ~(OCat(ev, n) \subseteq CatOf(ev, n)) THEN "bad:category-not-from-self-or-children"
  ELSE IF FrameBroken(ev) THEN "bad:suppressed-mark-although-nothing-matched"
  ELSE IF SupUnexplained(ev) # {} THEN "bad:suppressed-mark-without-cause"
  ELSE IF RedUnexplained(ev) # {} THEN "bad:redundant-mark-without-cause"
  ELSE IF \E n \in Nodes(ev) : ev.nodes[n].hasChanges /\ (ev.nodes[n].filtered # FilteredRule(ev, n)) THEN "bad:is-filtered-out-disagrees-with-rule"
  ELSE IF ev.leaf THEN LeafVerdict(ev)
  ELSE IF ev.sumChangedFns # NetChanged(ev, "fn") \/ ev.sumFilteredFns # Cardinality(FilteredRoots(ev, "fn")) THEN "bad:function-summary-disagrees-with-tree"
  ELSE IF ev.sumChangedVars # NetChanged(ev, "var") \/ ev.sumFilteredVars # Cardinality(FilteredRoots(ev, "var")) THEN "bad:variable-summary-disagrees-with-tree"
  ELSE IF Bit(ev.exit, 4) # HasNet(ev) THEN "bad:change-bit-disagrees-with-tree"
  ELSE IF Bit(ev.exit, 8) # Incompatible(ev) THEN "bad:incompatible-bit-disagrees-with-tree"
  ELSE "ok"

TInit == l = 1 /\ verdict = "ok"
TNext == l <= Len(T) /\ l' = l + 1 /\ verdict' = Verdict(T[l])
TSpec == TInit /\ [][TNext]_<<l, verdict>>
Report == verdict = "ok" \/ PrintT(ToJson([i |-> l - 1, v |-> verdict]))
Accepted == TLCGet("stats").diameter - 1 = Len(T)
====================================================================================================
