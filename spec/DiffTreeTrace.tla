-------------------------------------- MODULE DiffTreeTrace --------------------------------------
(* Binding of DiffTree.tla to the implementation (hook H3: `abidiff --dump-diff-tree` additionally    *)
(* prints, per diff node, its local category, has_local_changes, has_changes, is_filtered_out).       *)
(* One event = the whole diff forest of one comparison, as dumped after all passes, plus the options   *)
(* and what the tool printed / returned.  Local facts (parent, hasLocal, lcat) and the suppression /   *)
(* redundancy marks are taken from the dump; TLC recomputes from them what DiffTree derives --         *)
(* propagated categories, filtering, statistics, net / incompatible verdicts, exit bits -- and          *)
(* compares with what the implementation derived and reported.                                          *)
EXTENDS Naturals, Integers, Sequences, FiniteSets, TLC, Json, IOUtils, KnownFindings

T == ndJsonDeserialize(IOEnv.TRACE)
VARIABLES l, verdict

ToSet(s) == {s[i] : i \in 1..Len(s)}
Nodes(ev) == 1..Len(ev.nodes)
Children(ev, n) == {c \in Nodes(ev) : ev.nodes[c].parent = n}
Roots(ev) == {n \in Nodes(ev) : ev.nodes[n].parent = 0}
LCat(ev, n) == ToSet(ev.nodes[n].lcat)
OCat(ev, n) == ToSet(ev.nodes[n].cat)          \* observed inherited category classes

(* DiffTree!Cat, one propagation step: a node's inherited category comes from its own local category and its children's    *)
(* categories -- or from those of another node of its class of equivalence (the canonical diff node carries the category of *)
(* the class; a later occurrence of the same pair of types is not traversed again).                                         *)
SameClass(ev, n) == {m \in Nodes(ev) : m = n \/ (ev.nodes[n].cls # 0 /\ ev.nodes[m].cls = ev.nodes[n].cls)}
CatOf(ev, n) == UNION {LCat(ev, m) \cup UNION {OCat(ev, c) : c \in Children(ev, m)} : m \in SameClass(ev, n)}

Allowed(ev) == (IF ev.allowHarmful THEN {"HARMFUL", "VIRTUAL"} ELSE {}) \cup (IF ev.allowHarmless THEN {"HARMLESS"} ELSE {})
(* DiffTree!Filtered on the observed inherited category and marks *)
FilteredRule(ev, n) ==
  /\ ~(ev.allowHarmless /\ ev.allowHarmful)          \* every category allowed: nothing is filtered (not even redundant nodes)
  /\ \/ ev.nodes[n].sup
     \/ (ev.nodes[n].red /\ ~ev.showRed)
     \/ (OCat(ev, n) # {} /\ OCat(ev, n) \cap Allowed(ev) = {})

Changed(ev, kind) == {r \in Roots(ev) : ev.nodes[r].kind = kind /\ ev.nodes[r].hasChanges}
FilteredRoots(ev, kind) == {r \in Changed(ev, kind) : ev.nodes[r].filtered}
NetChanged(ev, kind) == Cardinality(Changed(ev, kind)) - Cardinality(FilteredRoots(ev, kind))
VirtOff(ev) == {r \in Changed(ev, "fn") : ~ev.nodes[r].filtered /\ "VIRTUAL" \in OCat(ev, r)}
Incompatible(ev) == ev.netRemoved > 0 \/ (VirtOff(ev) # {} /\ NetChanged(ev, "fn") > 0) \/ ev.sonameOrArch
HasNet(ev) == ev.netRemoved > 0 \/ ev.netAdded > 0 \/ NetChanged(ev, "fn") > 0 \/ NetChanged(ev, "var") > 0 \/ ev.sonameOrArch
Bit(x, b) == (x \div b) % 2 = 1

Verdict(ev) ==
  IF ev.ret # "ok" THEN "bad:crash"
  ELSE IF \E n \in Nodes(ev) : ~(LCat(ev, n) \subseteq OCat(ev, n)) THEN "bad:local-category-not-in-category"
  ELSE IF \E n \in Nodes(ev) : ~(OCat(ev, n) \subseteq CatOf(ev, n)) THEN "bad:category-not-from-self-or-children"
  ELSE IF \E n \in Nodes(ev) : ev.nodes[n].hasChanges /\ (ev.nodes[n].filtered # FilteredRule(ev, n)) THEN "bad:is-filtered-out-disagrees-with-rule"
  ELSE IF ev.sumChangedFns # NetChanged(ev, "fn") \/ ev.sumFilteredFns # Cardinality(FilteredRoots(ev, "fn")) THEN "bad:function-summary-disagrees-with-tree"
  ELSE IF ev.sumChangedVars # NetChanged(ev, "var") \/ ev.sumFilteredVars # Cardinality(FilteredRoots(ev, "var")) THEN "bad:variable-summary-disagrees-with-tree"
  ELSE IF Bit(ev.exit, 4) # HasNet(ev) THEN "bad:change-bit-disagrees-with-tree"
  ELSE IF Bit(ev.exit, 8) # Incompatible(ev) THEN "bad:incompatible-bit-disagrees-with-tree"
  ELSE "ok"

TInit == l = 1 /\ verdict = "ok"
TNext == l <= Len(T) /\ l' = l + 1 /\ verdict' = Verdict(T[l])
TSpec == TInit /\ [][TNext]_<<l, verdict>>
Report == verdict = "ok" \/ PrintT(ToJson([i |-> l - 1, v |-> verdict]))
Accepted == TLCGet("stats").diameter - 1 = Len(T)
====================================================================================================
