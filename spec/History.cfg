CONSTANTS Keys = {"k1", "k2", "k3"}
  Outs = {"o1", "o2"}
  Envs = {"e1", "e2", "e3"}
SPECIFICATION Spec
INVARIANT Functional
