SPECIFICATION TSpec
INVARIANT Report
POSTCONDITION Accepted
CHECK_DEADLOCK FALSE
