--------------------------------------- MODULE ReaderTrace ---------------------------------------
(* Trace validation for C33 (abilint / abidiff on mutated ABIXML documents) and C35 (abidw, abidiff,  *)
(* abilint, abipkgdiff on compiler output), both run on the ASan+UBSan build (C33 also on the          *)
(* unsanitized build, whose crashes ASan can mask).  Events are recorded by checks/C33.py and          *)
(* checks/C35.py; the fields are projections of the wait status and of the error stream made by        *)
(* checks/_reader.py (nothing there judges).                                                           *)
(*                                                                                                     *)
(*  {"e":"Load","tool":"abilint"|"abidiff","build":"asan"|"hooks","mutation":<class of                 *)
(*   render/xmlmut.py>,"action":<Reader.tla action>,"wf":bool (expat),"ret":"ok"|"sigN"|"timeout"|     *)
(*   "san","kind":"none"|"assert"|"abort"|"segv"|"stack-overflow"|"fpe"|"throw:.."|"san:.."|"timeout", *)
(*   "fn":<function>,"exit":n,"foreign":bool, ...}                                                     *)
(*  {"e":"San","tool":..,"input":<class of the input>,"ret":..,"kind":..,"fn":..,"foreign":bool, ...}  *)
(*                                                                                                     *)
(* Reader!LoadTotal on the implementation: a run is accepted iff it terminated normally (ANY exit       *)
(* status: the reader either loads or reports an error) -- no signal, no assertion, no sanitizer        *)
(* report, no time-out.  A fault whose innermost non-runtime frame is in libxml2 / libelf / libdw is    *)
(* foreign: accepted, counted by the check.  A rejected event carries its class key, which is what a    *)
(* known-finding predicate matches on.                                                                 *)
EXTENDS Naturals, Sequences, TLC, Json, IOUtils, KnownFindings

T == ndJsonDeserialize(IOEnv.TRACE)
VARIABLES l, verdict

(* ------------------------------------------------------------------------------------------------ *)
(* BEGIN known-finding predicates (to be moved to KnownFindings.tla by whoever lists a finding)       *)
(* A C33 finding is keyed by LoadKey(ev) = mutation class | tool | kind | function; a predicate        *)
(* matches on those fields of the event (ev.mutation, ev.action, ev.tool, ev.kind, ev.fn, ev.site =    *)
(* last component of ev.fn), never on addresses or line numbers.  Example:                             *)
(*   KF_C33(ev) == ev.kind = "assert" /\ ev.site \in {"build_or_get_type_decl", "build_type_decl"}     *)
(* A C35 finding is keyed by SanKey(ev) = tool | kind | function.                                       *)
(* KF_C33(ev) : see KnownFindings.tla *)
(* KF_C33_Id(ev) : see KnownFindings.tla *)
(* KF_C35(ev) : see KnownFindings.tla *)
(* KF_C35_Id(ev) : see KnownFindings.tla *)
(* END known-finding predicates                                                                        *)
(* ------------------------------------------------------------------------------------------------ *)

Clean(ev) == ev.ret = "ok" /\ ev.kind = "none"

LoadKey(ev) == ev.mutation \o "|" \o ev.tool \o "|" \o ev.kind \o "|" \o ev.fn
LoadVerdict(ev) ==
  IF Clean(ev) THEN "ok"
  ELSE IF ev.foreign THEN "ok"
  ELSE IF KF_C33(ev) THEN "kf:" \o KF_C33_Id(ev)
  ELSE "bad:" \o LoadKey(ev)

SanKey(ev) == ev.tool \o "|" \o ev.kind \o "|" \o ev.fn
SanVerdict(ev) ==
  IF Clean(ev) THEN "ok"
  ELSE IF ev.foreign THEN "ok"
  ELSE IF KF_C35(ev) THEN "kf:" \o KF_C35_Id(ev)
  ELSE "bad:" \o SanKey(ev)

TInit == l = 1 /\ verdict = "ok"
TLoad == T[l].e = "Load" /\ verdict' = LoadVerdict(T[l])
TSan == T[l].e = "San" /\ verdict' = SanVerdict(T[l])
TNext == l <= Len(T) /\ l' = l + 1 /\ (TLoad \/ TSan)
TSpec == TInit /\ [][TNext]_<<l, verdict>>

Report == verdict = "ok" \/ PrintT(ToJson([i |-> l - 1, v |-> verdict]))
Accepted == TLCGet("stats").diameter - 1 = Len(T)
====================================================================================================
