\* STRICT in-bounds property on the operators standing for the implementation: fails while FixedSysV/FixedGnu are FALSE; holds with TRUE.
\* buckets, chain; read as .gnu.hash: 4 header words, bloom, buckets, chain), EVERY value 0..4 for every word a walk
\* reads, symbol tables of 2 and 5 entries (thorough: 0, 2, 5), queries with hash 0..3, bloom words of 2 bits.  Both the transcribed and
\* the corrected walks are explored.
CONSTANTS Names = {0, 1}
          MaxSyms = 0
          Buckets = {1}
          VerSyms <- VerSymsNone
          VerDefs = {}
          BloomBits = 2
          BloomShapes <- BloomShapesOne
          Hashes <- HashFamily
          MaxSecs = 0
          CorruptLens = {0, 3, 6, 9, 13}
          CorruptMax = 4
          CorruptSyms = {2, 5}
          CorruptHashes = {0, 1, 2, 3}
          FixedSelect = FALSE
          FixedSysV = FALSE
          FixedGnu = FALSE
SPECIFICATION SpecCorrupt
INVARIANT LookupInBounds
CHECK_DEADLOCK FALSE
