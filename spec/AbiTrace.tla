----------------------------------------- MODULE AbiTrace -----------------------------------------
(* Trace validation for the program / program-pair campaigns (C01-C07, C12, C13, C43 ...).          *)
(* Cases come from Abi.tla (TLC-generated, with the expected observation); each event records what  *)
(* the real tools did on the rendered and compiled case.  The guards are the properties' statements *)
(* on those observations.  Stateless: one step per event.                                           *)
EXTENDS Naturals, Integers, Sequences, FiniteSets, TLC, Json, IOUtils, KnownFindings

T == ndJsonDeserialize(IOEnv.TRACE)
VARIABLES l, verdict

Bit(x, b) == (x \div b) % 2 = 1          \* b = 1 (error), 2 (usage), 4 (ABI change), 8 (incompatible change)
ToSet(s) == {s[i] : i \in 1..Len(s)}
Terminated(ev) == ev.ret = "ok"           \* normal termination: no signal, no sanitizer report, no time-out

(* C01: a binary compared with itself, in any form and under any reporting option *)
VSelfDiff(ev) == IF ~Terminated(ev) THEN "bad:crash" ELSE IF ev.exit = 0 /\ ev.outlen = 0 THEN "ok" ELSE "bad:self-diff-not-empty"

(* C02: B against the ABIXML abidw emitted for it, and abidw --abidiff *)
VXmlEquiv(ev) == IF ~Terminated(ev) THEN "bad:crash"
                 ELSE IF ev.dwexit # 0 THEN "bad:abidw-failed"
                 ELSE IF ev.diffexit # 0 \/ ev.outlen # 0 THEN "bad:elf-vs-abixml-differ"
                 ELSE IF ev.selfcheck # 0 THEN "bad:abidw--abidiff" ELSE "ok"

(* C03: abilint reproduces the document byte for byte; abilint --diff exits 0 *)
VFixpoint(ev) == IF ~Terminated(ev) THEN "bad:crash"
                 ELSE IF ev.lintexit # 0 THEN "bad:abilint-failed"
                 ELSE IF ev.h1 # ev.h2 \/ ev.diffexit # 0
                      THEN (IF KF_C03_void(ev) THEN "kf:C03-void-type-position"
                            ELSE IF KF_C03_declonly(ev) THEN "kf:C03-member-function-of-declaration-only-class"
                            ELSE IF ev.h1 # ev.h2 THEN "bad:not-a-fixpoint" ELSE "bad:abilint--diff")
                 ELSE "ok"

(* C04: well-formed, every referenced type id defined exactly once, every referenced symbol id listed *)
VWellFormed(ev) == IF ~Terminated(ev) THEN "bad:crash"
                   ELSE IF ~ev.wf THEN (IF KF_C04_unescaped(ev) THEN "kf:C04-unescaped-attrs" ELSE "bad:not-well-formed")
                   ELSE IF ev.undefined # <<>> THEN "bad:type-id-undefined"
                   ELSE IF ev.duplicated # <<>> THEN "bad:type-id-defined-twice"
                   ELSE IF ev.symundefined # <<>> THEN "bad:symbol-id-not-listed" ELSE "ok"

(* C05: only breaking catalogue entries were applied and the model says the ABI changed *)
VBreaking(ev) ==
  IF ~Terminated(ev) THEN "bad:crash"
  ELSE IF Bit(ev.exit, 1) \/ Bit(ev.exit, 2) THEN "bad:error-status"
  ELSE IF ~Bit(ev.exit, 4) THEN (IF KF_C05_union(ev) THEN "kf:C05-same-size-change-in-union"
                                 ELSE IF KF_C05_beside(ev) THEN "kf:C05-uncategorized-change-beside-harmless-change" ELSE "bad:change-bit-missing")
  ELSE IF ev.removed # <<>> /\ ~Bit(ev.exit, 8) THEN "bad:incompatible-bit-missing"
  ELSE IF ~(ToSet(ev.removed) \subseteq ToSet(ev.namedRemoved)) THEN "bad:removed-interface-not-named"
  ELSE IF ev.affected # <<>> /\ ToSet(ev.affected) \cap ToSet(ev.named) = {}
       THEN (IF KF_C05_beside(ev) THEN "kf:C05-uncategorized-change-beside-harmless-change" ELSE "bad:affected-interface-not-named")
  ELSE "ok"

(* C06: the model program is unchanged, only neutral rendering choices differ *)
VNeutral(ev) == IF ~Terminated(ev) THEN "bad:crash" ELSE IF ev.exit = 0 /\ ev.outlen = 0 THEN "ok" ELSE "bad:neutral-edit-reported"

(* C43: same sources, same compiler and code generation, different debug-info configuration *)
VDebugFormat(ev) == IF Terminated(ev) /\ ev.exit = 0 /\ ev.outlen = 0 THEN "ok"
                    ELSE IF KF_C43_type_units(ev) THEN "kf:C43-gcc-type-units"
                    ELSE IF ~Terminated(ev) THEN "bad:crash" ELSE "bad:debug-format-changes-the-verdict"

(* C07: only harmless catalogue entries: silent by default, listed with --harmless *)
VHarmless(ev) ==
  IF ~Terminated(ev) THEN "bad:crash"
  ELSE IF ev.exit # 0 THEN "bad:harmless-change-not-filtered"
  ELSE IF ~Bit(ev.hexit, 4) \/ ToSet(ev.affected) \cap ToSet(ev.hnamed) = {}
       THEN (IF KF_C07_method(ev) THEN "kf:C07-nonvirtual-member-function-not-listed" ELSE "bad:harmless-change-not-shown-with--harmless")
  ELSE "ok"

(* C12 / C13 / C43 and friends: two runs that must agree *)
VSameVerdict(ev) ==
  IF ~Terminated(ev) THEN "bad:crash"
  ELSE IF ev.exit1 # ev.exit2 THEN "bad:exit-status-differs"
  ELSE IF ToSet(ev.names1) # ToSet(ev.names2) THEN "bad:reported-interfaces-differ" ELSE "ok"

(* C13: leaf mode vs default mode on the same pair *)
VLeaf(ev) ==
  IF ~Terminated(ev) THEN "bad:crash"
  ELSE IF ev.exitDefault # ev.exitLeaf
       THEN (IF KF_C13_union(ev) THEN "kf:C13-same-size-change-in-union"
             ELSE IF KF_C13_cvtypedef(ev) THEN "kf:C13-renamed-typedef-made-const" ELSE "bad:leaf-mode-exit-status-differs")
  ELSE IF ~(ToSet(ev.changedDefault) \subseteq ToSet(ev.mentionedLeaf)) THEN "bad:changed-interface-not-impacted-in-leaf-mode"
  ELSE "ok"

(* C10: summary numbers = listed entries, per section; --stat prints the same summary *)
SecOk(ev, part, field, sec) ==
  LET n == IF part \in DOMAIN ev.summary THEN ev.summary[part][field] ELSE 0
      m == IF sec \in DOMAIN ev.entries THEN ev.entries[sec] ELSE 0
      h == IF sec \in DOMAIN ev.sections THEN ev.sections[sec] ELSE 0
  IN n = m /\ h = m
VSummary(ev) ==
  IF ~Terminated(ev) THEN "bad:crash"
  ELSE IF ~(/\ SecOk(ev, "fns", "removed", "removed_fns") /\ SecOk(ev, "fns", "changed", "changed_fns") /\ SecOk(ev, "fns", "added", "added_fns")
            /\ SecOk(ev, "vars", "removed", "removed_vars") /\ SecOk(ev, "vars", "changed", "changed_vars") /\ SecOk(ev, "vars", "added", "added_vars")
            /\ SecOk(ev, "fsyms", "removed", "removed_fsyms") /\ SecOk(ev, "fsyms", "added", "added_fsyms")
            /\ SecOk(ev, "vsyms", "removed", "removed_vsyms") /\ SecOk(ev, "vsyms", "added", "added_vsyms"))
       THEN "bad:summary-disagrees-with-listed-entries"
  ELSE IF ~ev.statSame THEN "bad:--stat-summary-differs"
  ELSE IF ev.statExit # ev.exit THEN "bad:--stat-exit-differs"
  ELSE "ok"

Verdict(ev) ==
  CASE ev.e = "SelfDiff" -> VSelfDiff(ev)
    [] ev.e = "Leaf" -> VLeaf(ev)
    [] ev.e = "DebugFormat" -> VDebugFormat(ev)
    [] ev.e = "Summary" -> VSummary(ev)
    [] ev.e = "XmlEquiv" -> VXmlEquiv(ev)
    [] ev.e = "Fixpoint" -> VFixpoint(ev)
    [] ev.e = "WellFormed" -> VWellFormed(ev)
    [] ev.e = "Breaking" -> VBreaking(ev)
    [] ev.e = "Neutral" -> VNeutral(ev)
    [] ev.e = "Harmless" -> VHarmless(ev)
    [] ev.e = "SameVerdict" -> VSameVerdict(ev)
    [] OTHER -> "bad:unknown-event"

TInit == l = 1 /\ verdict = "ok"
TNext == l <= Len(T) /\ l' = l + 1 /\ verdict' = Verdict(T[l])
TSpec == TInit /\ [][TNext]_<<l, verdict>>
Report == verdict = "ok" \/ PrintT(ToJson([i |-> l - 1, v |-> verdict]))
Accepted == TLCGet("stats").diameter - 1 = Len(T)
====================================================================================================
