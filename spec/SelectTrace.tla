---------------------------------------- MODULE SelectTrace ---------------------------------------
(* Trace validation of interface selection by the real tools (C27, program campaign).               *)
(*   {"e":"Whitelist","tool":"abidw","exported":[sym..],"listed":[sym..],"seenSyms":[sym..],        *)
(*    "seenDecls":[sym..],"exit":n,"ret":"ok"}                                                       *)
(*        exported = the defined global function / object symbols of the binary (readelf), listed =   *)
(*        the names written into the whitelist file, seenSyms = names of the <elf-symbol> entries      *)
(*        abidw emitted, seenDecls = elf-symbol-id of the function-decl / var-decl elements            *)
(*   {"e":"WhitelistDiff","exported":[sym..],"listed":[sym..],"compared":[sym..],"exit":n,"ret":"ok"} *)
(*        abidiff --kmi-whitelist on a pair in which EVERY interface differs; compared = symbols of     *)
(*        the interfaces the report lists                                                              *)
(*   {"e":"KeepDrop","ifaces":[{"kind","name":[tokens]}..],"opts":[{"opt","pat":{"bol","lit","eol"}}..], *)
(*    "compared":[[tokens]..],"exit":n,"ret":"ok"}                                                    *)
(*        abidiff with keep/drop options on such a pair; compared = names the report lists             *)
(* Symbol names are opaque strings (set operations only); declaration names and pattern literals are   *)
(* token sequences because Select!PMatch looks inside them.  The verdicts are the declarative          *)
(* definitions Select!Selected and Select!KeepDrop.  Conformance prints which transcription (pinned /   *)
(* corrected code path) a KeepDrop observation follows; it never rejects.                               *)
EXTENDS Select, IOUtils

(* ---- known findings of C27 (program campaign): placeholders, to be moved to KnownFindings.tla ------ *)
(* The structural part identifies the failing inputs; the leading FALSE is the "listed" switch.          *)
(* abidiff --keep-fn R / --keep-var R is rejected as a usage error (the option does not consume R)        *)
KF_C27_keep_operand(ev) == FALSE /\ ev.e = "KeepDrop" /\ ev.exit = 3
                           /\ \E k \in 1..Len(ev.opts) : ev.opts[k].opt \in {"keep-fn", "keep-var"}
(* abidiff accepts the keep/drop options but compares every interface                                     *)
KF_C27_patterns_ignored(ev) == FALSE /\ ev.e = "KeepDrop" /\ ev.exit \in {0, 4, 12}
                               /\ {ev.compared[k] : k \in 1..Len(ev.compared)} = {ev.ifaces[k].name : k \in 1..Len(ev.ifaces)}
(* ------------------------------------------------------------------------------------------------------ *)

T == ndJsonDeserialize(IOEnv.TRACE)
VARIABLES l, verdict

Bit(x, b) == (x \div b) % 2 = 1
ToSet(s) == {s[i] : i \in 1..Len(s)}
Terminated(ev) == ev.ret = "ok"

VWhitelist(ev) ==
  LET want == ToSet(ev.exported) \cap ToSet(ev.listed)
  IN IF ~Terminated(ev) THEN "bad:crash"
     ELSE IF want = {} /\ ev.exit # 0 /\ ev.seenSyms = <<>> /\ ev.seenDecls = <<>>
          THEN "ok"                      \* Reading: nothing selected; the reader then finds "no symbols" and the tool gives up (status: C08)
     ELSE IF ev.exit # 0 THEN "bad:abidw-failed"
     ELSE IF ev.listed = <<>> /\ ToSet(ev.seenSyms) = ToSet(ev.exported) /\ ToSet(ev.seenDecls) = ToSet(ev.exported)
          THEN "ok"                      \* Reading: a whitelist that lists nothing may also be taken as "no whitelist"
     ELSE IF ToSet(ev.seenSyms) \ want # {} THEN "bad:unlisted-symbol-emitted"
     ELSE IF want \ ToSet(ev.seenSyms) # {} THEN "bad:listed-symbol-missing"
     ELSE IF ToSet(ev.seenDecls) \ want # {} THEN "bad:unlisted-interface-emitted"
     ELSE IF want \ ToSet(ev.seenDecls) # {} THEN "bad:listed-interface-missing"
     ELSE "ok"

VWhitelistDiff(ev) ==
  LET want == ToSet(ev.exported) \cap ToSet(ev.listed)
  IN IF ~Terminated(ev) THEN "bad:crash"
     ELSE IF want = {} /\ ev.exit = 1 /\ ev.compared = <<>> THEN "ok"      \* same Reading
     ELSE IF Bit(ev.exit, 1) \/ Bit(ev.exit, 2) THEN "bad:error-status"
     ELSE IF ev.listed = <<>> /\ ToSet(ev.compared) = ToSet(ev.exported) THEN "ok"
     ELSE IF ToSet(ev.compared) \ want # {} THEN "bad:unlisted-interface-compared"
     ELSE IF want \ ToSet(ev.compared) # {} THEN "bad:listed-interface-not-compared"
     ELSE IF (want # {}) # Bit(ev.exit, 4) THEN "bad:change-bit-disagrees-with-selection"
     ELSE "ok"

Ifaces(ev) == {[kind |-> ev.ifaces[k].kind, name |-> ev.ifaces[k].name, sym |-> ev.ifaces[k].name] : k \in 1..Len(ev.ifaces)}
VKeepDrop(ev) ==
  LET want == {i.name : i \in KeepDrop(Ifaces(ev), ev.opts)}
  IN IF ~Terminated(ev) THEN "bad:crash"
     ELSE IF Bit(ev.exit, 1) \/ Bit(ev.exit, 2)
          THEN (IF KF_C27_keep_operand(ev) THEN "kf:C27-keep-fn-var-operand" ELSE "bad:option-rejected")
     ELSE IF ToSet(ev.compared) # want
          THEN (IF KF_C27_patterns_ignored(ev) THEN "kf:C27-keep-drop-ignored"
                ELSE IF ToSet(ev.compared) \ want # {} THEN "bad:dropped-interface-compared" ELSE "bad:kept-interface-not-compared")
     ELSE IF (want # {}) # Bit(ev.exit, 4) THEN "bad:change-bit-disagrees-with-selection"
     ELSE "ok"

Verdict(ev) ==
  CASE ev.e = "Whitelist" -> VWhitelist(ev)
    [] ev.e = "WhitelistDiff" -> VWhitelistDiff(ev)
    [] ev.e = "KeepDrop" -> VKeepDrop(ev)
    [] OTHER -> "bad:unknown-event"

Follows(ev) ==
  LET obs == [usage |-> Bit(ev.exit, 2), compared |-> IF Bit(ev.exit, 2) THEN {} ELSE ToSet(ev.compared)]
      P == ImplAbidiff(Ifaces(ev), ev.opts, AllOddities)
      C == ImplAbidiff(Ifaces(ev), ev.opts, {})
      proj(r) == [usage |-> r.usage, compared |-> {i.name : i \in r.compared}]
  IN IF proj(P) = proj(C) THEN (IF obs = proj(P) THEN "both" ELSE "neither")
     ELSE IF obs = proj(P) THEN "pinned" ELSE IF obs = proj(C) THEN "corrected" ELSE "neither"

TInit == l = 1 /\ verdict = "ok" /\ ifaces = {} /\ wl = NoWl /\ opts = <<>>
TNext == /\ l <= Len(T) /\ l' = l + 1
         /\ verdict' = Verdict(T[l])
         /\ UNCHANGED vars
TSpec == TInit /\ [][TNext]_<<vars, l, verdict>>

Report == verdict = "ok" \/ PrintT(ToJson([i |-> l - 1, v |-> verdict]))
Conformance == l = 1 \/ T[l-1].e # "KeepDrop" \/ T[l-1].ret # "ok" \/ Follows(T[l-1]) = "both"
               \/ PrintT(ToJson([at |-> l - 1, follows |-> Follows(T[l-1])]))
Accepted == TLCGet("stats").diameter - 1 = Len(T)
====================================================================================================
