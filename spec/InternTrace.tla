--------------------------------------- MODULE InternTrace ---------------------------------------
(* Trace validation of environment::intern / interned_string (C42).  Events of harness/intern.cc:   *)
(*   {"e":"Reset"}                                   a fresh environment: a new history begins      *)
(*   {"e":"Intern","c":[letters],"obj":n}            intern(c) returned object number n             *)
(*   {"e":"Str","i":h,"conv":[..],"stream":[..],"cat":[..],"rcat":[..],"empty":b}                  *)
(*                                                   string(h), o << h, h + "b", "b" + h, h.empty() *)
(*   {"e":"Cmp","i":h1,"j":h2,"eq":b,"ne":b,"lt":b}        h1 == h2, h1 != h2, h1 < h2              *)
(*   {"e":"CmpStr","i":h,"s":[..],"eq":b,"ne":b,"req":b,"rne":b}   h == s, h != s, s == h, s != h   *)
(*   {"e":"Hash","i":h,"h":[w3,w2,w1,w0]}            hash_interned_string()(h) as four 16-bit words *)
(*   {"e":"SetSize","n":k}                           size of an interned_string_set_type of all h   *)
(* Handles are numbered by Intern call within the history.                                          *)
(*                                                                                                  *)
(* The step for Intern is Intern!Intern itself: it is enabled only if the recorded object number is *)
(* the one the pool holds for that content, or the next fresh number if the content is new -- this  *)
(* is "identical objects exactly when the contents are equal".  The other events leave the pool     *)
(* unchanged; their verdict compares the recorded result with the same operator on the *contents*.  *)
EXTENDS Intern, Json, IOUtils, KnownFindings

T == ndJsonDeserialize(IOEnv.TRACE)
VARIABLES l, verdict,
          hashOf         \* [content -> hash words]: the hash recorded first for a handle of that content

Ev == T[l]
IsE(e) == Ev.e = e
Known(i) == i \in Handles

VStr == IF ~Known(Ev.i) THEN "bad:unknown-handle"
        ELSE IF Ev.conv # Content(Ev.i) THEN "bad:conversion-to-string-differs-from-content"
        ELSE IF Ev.stream # Content(Ev.i) THEN "bad:streamed-text-differs-from-content"
        ELSE IF Ev.cat # Content(Ev.i) \o <<"b">> \/ Ev.rcat # <<"b">> \o Content(Ev.i) THEN "bad:concatenation-differs-from-content"
        ELSE IF Ev.empty # (Content(Ev.i) = <<>>) THEN "bad:empty-differs-from-content"
        ELSE "ok"
VCmp == IF ~Known(Ev.i) \/ ~Known(Ev.j) THEN "bad:unknown-handle"
        ELSE IF Ev.eq # (Content(Ev.i) = Content(Ev.j)) THEN "bad:equality-differs-from-contents"
        ELSE IF Ev.ne # (Content(Ev.i) # Content(Ev.j)) THEN "bad:inequality-differs-from-contents"
        ELSE IF Ev.lt # StrLess(Content(Ev.i), Content(Ev.j)) THEN "bad:order-differs-from-contents"
        ELSE "ok"
VCmpStr == IF ~Known(Ev.i) THEN "bad:unknown-handle"
           ELSE IF Ev.eq # (Content(Ev.i) = Ev.s) \/ Ev.req # (Content(Ev.i) = Ev.s) THEN "bad:mixed-equality-differs-from-contents"
           ELSE IF Ev.ne # (Content(Ev.i) # Ev.s) \/ Ev.rne # (Content(Ev.i) # Ev.s) THEN "bad:mixed-inequality-differs-from-contents"
           ELSE "ok"
VHash == IF ~Known(Ev.i) THEN "bad:unknown-handle"
         ELSE IF Content(Ev.i) \in DOMAIN hashOf /\ hashOf[Content(Ev.i)] # Ev.h THEN "bad:equal-contents-hash-differently"
         ELSE "ok"
VSetSize == IF Ev.n = Cardinality({Content(i) : i \in Handles}) THEN "ok" ELSE "bad:hash-set-size-differs-from-distinct-contents"

TInit == l = 1 /\ verdict = "ok" /\ hashOf = <<>> /\ Init
TReset == IsE("Reset") /\ pool' = <<>> /\ hist' = <<>> /\ hashOf' = <<>> /\ verdict' = "ok"
TIntern == /\ IsE("Intern")
           /\ Ev.obj = ObjectFor(Ev.c)            \* the guard: the object the pool holds, or the next fresh one
           /\ Intern(Ev.c)
           /\ verdict' = "ok" /\ UNCHANGED hashOf
TObserve == /\ \/ IsE("Str") /\ verdict' = VStr /\ UNCHANGED hashOf
               \/ IsE("Cmp") /\ verdict' = VCmp /\ UNCHANGED hashOf
               \/ IsE("CmpStr") /\ verdict' = VCmpStr /\ UNCHANGED hashOf
               \/ IsE("SetSize") /\ verdict' = VSetSize /\ UNCHANGED hashOf
               \/ /\ IsE("Hash") /\ verdict' = VHash
                  /\ hashOf' = IF Known(Ev.i) /\ Content(Ev.i) \notin DOMAIN hashOf
                               THEN [c \in DOMAIN hashOf \cup {Content(Ev.i)} |-> IF c = Content(Ev.i) THEN Ev.h ELSE hashOf[c]]
                               ELSE hashOf
            /\ UNCHANGED vars
TNext == l <= Len(T) /\ l' = l + 1 /\ (TReset \/ TIntern \/ TObserve)
TSpec == TInit /\ [][TNext]_<<vars, l, verdict, hashOf>>

Report == verdict = "ok" \/ PrintT(ToJson([i |-> l - 1, v |-> verdict]))
(* the module's invariants, evaluated on every state the implementation's history drives the pool through *)
StateOk == (l > 1 /\ T[l-1].e = "Intern") => SameIffEqualContents /\ PoolWellFormed      \* (the other events leave the pool unchanged)
Accepted == TLCGet("stats").diameter - 1 = Len(T)
====================================================================================================
