\* generator: versioned tables of <= 2 rows
CONSTANT Plans <- PlanGenVersion
SPECIFICATION Spec
CONSTRAINT GenEmit
CHECK_DEADLOCK FALSE
