--------------------------------------------- MODULE Ini ---------------------------------------------
(* The INI reader and writer of libabigail (src/abg-ini.cc), properties C39 and C25 (INI part).      *)
(*                                                                                                    *)
(* The module is a *transcription*: one operator per C++ function of abg-ini.cc, same control flow,   *)
(* same order of stream operations, over texts that are sequences of one-character tokens.  The       *)
(* std::istream is modelled with its position and its eofbit / failbit exactly as libstdc++ sets them *)
(* (peek at the end sets eofbit; get at the end sets eofbit|failbit; any read on a stream that is not *)
(* good() sets failbit and yields traits::eof(), i.e. the character 0xff once stored in a char).      *)
(* Where the C++ can abort (ABG_ASSERT), dereference a null pointer, or loop forever, the             *)
(* transcription reaches an explicit outcome "Abort" / "NullDeref" / "Hang" -- never an evaluation    *)
(* error of TLC.  cur_line_/cur_column_ are not modelled (they are written, never read).              *)
(*                                                                                                    *)
(* CONSTANT Fixes selects the code that is transcribed.  Fixes = {} is the pinned tree.  Each element *)
(* is one proposed repair (/verif/patches), transcribed at the place the patch changes; with all of   *)
(* them (AllFixes: the specification) the three properties hold on every explored text:               *)
(*   "nullcheck"  C25-ini-null-value.diff          read_property_value tests the list for nil; the     *)
(*                                                 tuple loop stops at an item that is no value        *)
(*   "bufgood"    C25-ini-trailing-backslash.diff  read_next_char accepts a put-back character         *)
(*                                                 whatever the state of the stream                    *)
(*   "eol"        C39-eol-after-continuation.diff  an end of line that follows a line continuation     *)
(*                                                 ends the string                                     *)
(*   "tuplelist"  C39-tuple-adjacent-items.diff    adjacent string/list items of a tuple are one list  *)
(*                                                 (what the writer's output reads back as)            *)
(*   "reescape"   C39-writer-escape.diff           the writer escapes what the reader would otherwise  *)
(*                                                 interpret                                           *)
(*                                                                                                    *)
(* Values.  A configuration is a sequence of sections [name, props]; a property is [name, v]; a value *)
(* v is a record [k, s, strs, items] with k in "str" (s: the string), "list" (strs: the strings),     *)
(* "tuple" (items: values), "nil" (no value).  A simple property without value has v = StrV(<<>>).    *)
(* Strings are sequences of tokens, because TLC cannot look inside a string.                          *)
EXTENDS Naturals, Sequences, FiniteSets, TLC

CONSTANTS Alphabet,      \* the tokens texts are made of
          MaxLen,        \* texts are Prefix \o (at most MaxLen tokens)
          Prefix,        \* a fixed beginning (<<>> or e.g. <<"s","]","x","=">>: explores property values deeper)
          Fixes          \* see above

(* Alphabets are defined here because strings in cfg files are not unescaped ("\n" there is backslash, n).  `a` is  *)
(* a letter that an escape turns into a space (like 0, b, r), `x` one that it leaves alone, `t` becomes a tab;      *)
(* `#` behaves like `;` everywhere.                                                                                  *)
Alpha12 == {"x", "a", " ", "\n", "=", ",", "{", "}", "[", "]", ";", "\\"}
Alpha14 == Alpha12 \cup {"#", "t"}
Alpha8  == {"x", " ", ",", "{", "}", ";", "\\", "\n"}        \* for the inside of tuples
Alpha9  == {"x", "a", " ", "\n", "=", "[", "]", ";", "\\"}   \* for section headers and property names
ValAlpha == {"a", " ", "=", "["}
ValAlpha2 == {"a", "="}
PrefixNone  == <<>>                                  \* cfg files cannot write tuples: Prefix <- PrefixNone
PrefixValue == <<"s", "]", "x", "=">>                \* the shortest text that reaches read_property_value
PrefixTuple == <<"s", "]", "x", "=", "{">>           \* ... read_tuple_property_value
Fix(f) == f \in Fixes
AllFixes == {"nullcheck", "bufgood", "eol", "tuplelist", "reescape"}

EOFC == "<ff>"           \* (char) traits::eof()
NUL  == "<00>"           \* char c = 0

(* ---- character classes, the char_is_ functions ------------------------------------------------------------ *)
IsWS(c) == c \in {" ", "\t", "\n"}
IsCommentStart(c) == c \in {";", "#"}
IsDelim(c, ws, sq, eq) ==
  \/ (sq /\ c \in {"[", "]"}) \/ c \in {"{", "}"} \/ (eq /\ c = "=") \/ c = ","
  \/ (ws /\ IsWS(c)) \/ IsCommentStart(c)
IsValueChar(c) == ~(IsDelim(c, FALSE, FALSE, FALSE) \/ c = "\n")
IsSectionNameChar(c) == ~(c \in {"[", "]", "\n"} \/ IsCommentStart(c))
IsPropertyNameChar(c) == ~IsDelim(c, TRUE, TRUE, TRUE)
CharOK(kind, c) == IF kind = "sname" THEN IsSectionNameChar(c) ELSE IsPropertyNameChar(c)

RECURSIVE TrimL(_), TrimR(_)
TrimL(v) == IF v # <<>> /\ IsWS(v[1]) THEN TrimL(Tail(v)) ELSE v
TrimR(v) == IF v # <<>> /\ IsWS(v[Len(v)]) THEN TrimR(SubSeq(v, 1, Len(v) - 1)) ELSE v
Trim(v) == TrimR(TrimL(v))                                   \* trim_white_space

(* ---- values ----------------------------------------------------------------------------------- *)
NilV       == [k |-> "nil",   s |-> <<>>, strs |-> <<>>, items |-> <<>>]
StrV(x)    == [k |-> "str",   s |-> x,    strs |-> <<>>, items |-> <<>>]
ListV(xs)  == [k |-> "list",  s |-> <<>>, strs |-> xs,   items |-> <<>>]
TupleV(vs) == [k |-> "tuple", s |-> <<>>, strs |-> <<>>, items |-> vs]
NilP == [name |-> <<>>, v |-> NilV]                          \* property_sptr()
NilS == [name |-> <<>>, props |-> <<>>]                      \* section_sptr() (a real section has props # <<>>)

(* ---- std::istream + read_context::buf_ -------------------------------------------------------- *)
(* s = [t, pos, eof, fail, buf, crash]; pos characters were extracted; buf is the put-back stack.     *)
S0(t) == [t |-> t, pos |-> 0, eof |-> FALSE, fail |-> FALSE, buf |-> <<>>, crash |-> ""]
Crash(s, why) == IF s.crash = "" THEN [s EXCEPT !.crash = why] ELSE s
Crashed(s) == s.crash # ""
SameStream(a, b) == a.pos = b.pos /\ a.eof = b.eof /\ a.fail = b.fail /\ a.buf = b.buf

InGood(s) == ~s.eof /\ ~s.fail                               \* in_.good()
InPeek(s) ==                                                 \* in_.peek()
  IF ~InGood(s) THEN [s |-> [s EXCEPT !.fail = TRUE], c |-> EOFC]
  ELSE IF s.pos >= Len(s.t) THEN [s |-> [s EXCEPT !.eof = TRUE], c |-> EOFC]
  ELSE [s |-> s, c |-> s.t[s.pos + 1]]
InGet(s) ==                                                  \* in_.get()
  IF ~InGood(s) THEN [s |-> [s EXCEPT !.fail = TRUE], c |-> EOFC]
  ELSE IF s.pos >= Len(s.t) THEN [s |-> [s EXCEPT !.eof = TRUE, !.fail = TRUE], c |-> EOFC]
  ELSE [s |-> [s EXCEPT !.pos = @ + 1], c |-> s.t[s.pos + 1]]

Good(s) == s.buf # <<>> \/ InGood(s)                         \* read_context::good()
Eof(s)  == s.buf = <<>> /\ s.eof                             \* read_context::eof()
PopBuf(s) == [s |-> [s EXCEPT !.buf = SubSeq(@, 1, Len(@) - 1)], c |-> s.buf[Len(s.buf)]]
GetRaw(s) == IF s.buf # <<>> THEN PopBuf(s) ELSE InGet(s)    \* get(/*do_handle_escape=*/false)

(* handle_escape(c, peek): returns the state, the resulting character and whether an escape was seen *)
HandleEscape(s, c, pk) ==
  IF c # "\\" THEN [s |-> s, c |-> c, esc |-> FALSE]
  ELSE
    LET g1 == GetRaw(s) IN                                   \* non-peek: the escaped char; peek: the backslash itself
    IF ~Good(g1.s) THEN [s |-> g1.s, c |-> c, esc |-> TRUE]
    ELSE IF pk /\ g1.c # c THEN [s |-> Crash(g1.s, "Abort"), c |-> c, esc |-> TRUE]   \* ABG_ASSERT(b == c)
    ELSE
      LET g2 == IF pk THEN GetRaw(g1.s) ELSE g1 IN
      IF pk /\ ~Good(g2.s) THEN [s |-> g2.s, c |-> c, esc |-> TRUE]
      ELSE IF g2.c \in {"0", "a", "b", "r"} THEN [s |-> g2.s, c |-> " ", esc |-> TRUE]
      ELSE IF g2.c = "t" THEN [s |-> g2.s, c |-> "\t", esc |-> TRUE]
      ELSE IF g2.c = "\n" THEN                               \* continuation line
        LET g3 == GetRaw(g2.s) IN
        IF ~Good(g3.s) THEN [s |-> g3.s, c |-> c, esc |-> TRUE] ELSE [s |-> g3.s, c |-> g3.c, esc |-> TRUE]
      ELSE [s |-> g2.s, c |-> g2.c, esc |-> TRUE]

(* peek(bool& escaped): escIn is the caller's variable, left untouched when a character is put back *)
PeekE(s, escIn) ==
  IF s.buf # <<>> THEN [s |-> s, c |-> s.buf[Len(s.buf)], esc |-> escIn]
  ELSE LET p == InPeek(s)
           h == HandleEscape(p.s, p.c, TRUE)
       IN IF h.esc THEN [s |-> [h.s EXCEPT !.buf = Append(@, h.c)], c |-> h.c, esc |-> TRUE]
          ELSE [s |-> h.s, c |-> h.c, esc |-> FALSE]
Peek(s) == PeekE(s, FALSE)                                   \* peek()

Get(s) ==                                                    \* get()
  IF s.buf # <<>> THEN PopBuf(s)
  ELSE LET g == InGet(s) h == HandleEscape(g.s, g.c, FALSE) IN [s |-> h.s, c |-> h.c]

(* read_next_char(c): c keeps its old value c0 when the function returns false *)
ReadNextChar(s, c0) ==
  LET fromBuf == s.buf # <<>>
      g == Get(s)
  IN IF ~Good(g.s) /\ ~(Fix("bufgood") /\ fromBuf) THEN [s |-> g.s, ok |-> FALSE, c |-> c0]
     ELSE [s |-> g.s, ok |-> TRUE, c |-> g.c]
ReadAssert(s, c0) ==                                         \* ABG_ASSERT(read_next_char(c))
  LET r == ReadNextChar(s, c0) IN IF r.ok THEN r ELSE [r EXCEPT !.s = Crash(r.s, "Abort")]

RECURSIVE SkipLine(_)
SkipLine(s) ==                                               \* skip_line(); its result is never used
  IF Crashed(s) THEN s
  ELSE LET r == ReadNextChar(s, NUL) IN IF ~r.ok \/ r.c = "\n" THEN r.s ELSE SkipLine(r.s)

RECURSIVE SkipWS(_)
SkipWS(s) ==                                                 \* skip_white_spaces()
  IF Crashed(s) THEN s
  ELSE LET p == Peek(s) IN
       IF ~Good(p.s) \/ ~IsWS(p.c) THEN p.s
       ELSE LET r == ReadAssert(p.s, p.c) IN SkipWS(r.s)
StreamOk(s) == Good(s) \/ Eof(s)                             \* "return good() || eof()"

RECURSIVE SkipComments(_)
SkipComments(s) ==                                           \* skip_comments()
  IF Crashed(s) THEN s
  ELSE LET p == Peek(s) IN
       IF ~Good(p.s) \/ ~IsCommentStart(p.c) THEN p.s
       ELSE LET n == SkipLine(p.s) IN IF SameStream(n, s) THEN Crash(n, "Hang") ELSE SkipComments(n)

RECURSIVE SkipWSC(_)
SkipWSC(s) ==                                                \* skip_white_spaces_or_comments()
  IF Crashed(s) \/ ~Good(s) THEN s
  ELSE LET p == Peek(s) IN
       IF IsWS(p.c) THEN LET n == SkipWS(p.s) IN IF SameStream(n, s) THEN Crash(n, "Hang") ELSE SkipWSC(n)
       ELSE IF IsCommentStart(p.c) THEN LET n == SkipComments(p.s) IN IF SameStream(n, s) THEN Crash(n, "Hang") ELSE SkipWSC(n)
       ELSE p.s

(* for (c = peek(); good(); c = peek()) { if (!char_is_X(c)) break; ABG_ASSERT(read_next_char(c)); name += c; } *)
RECURSIVE NameLoop(_, _, _)
NameLoop(s, name, kind) ==
  IF Crashed(s) THEN [s |-> s, name |-> name]
  ELSE LET p == Peek(s) IN
       IF ~Good(p.s) \/ ~CharOK(kind, p.c) THEN [s |-> p.s, name |-> name]
       ELSE LET r == ReadAssert(p.s, p.c) IN NameLoop(r.s, Append(name, r.c), kind)

ReadPropertyName(s) ==                                       \* read_property_name
  LET p == Peek(s) IN
  IF ~Good(p.s) \/ ~IsPropertyNameChar(p.c) THEN [s |-> p.s, ok |-> FALSE, name |-> <<>>]
  ELSE LET r == ReadAssert(p.s, p.c)
           n == NameLoop(r.s, <<r.c>>, "pname")
       IN [s |-> n.s, ok |-> TRUE, name |-> n.name]

ReadSectionName(s) ==                                        \* read_section_name
  LET p == Peek(s) IN
  IF ~Good(p.s) \/ ~IsSectionNameChar(p.c) THEN [s |-> p.s, ok |-> FALSE, name |-> <<>>]
  ELSE LET r == ReadNextChar(p.s, NUL)                       \* ABG_ASSERT(read_next_char(c) || char_is_section_name_char(b)): holds
           n == NameLoop(r.s, <<r.c>>, "sname")
       IN [s |-> n.s, ok |-> TRUE, name |-> n.name]

RECURSIVE StrLoop(_, _, _)
StrLoop(s, v, esc) ==                                        \* the loop of read_string; esc is the variable `escaped`
  IF Crashed(s) THEN [s |-> s, v |-> v]
  ELSE LET p == PeekE(s, esc) IN
       IF ~Good(p.s) THEN [s |-> p.s, v |-> v]
       ELSE IF (~p.esc /\ ~IsValueChar(p.c)) \/ (Fix("eol") /\ p.c = "\n") THEN [s |-> p.s, v |-> v]
       ELSE LET r == ReadAssert(p.s, NUL) IN StrLoop(r.s, Append(v, r.c), p.esc)

ReadString(s) ==                                             \* read_string
  LET p == PeekE(s, FALSE) IN
  IF ~Good(p.s) THEN [s |-> p.s, v |-> <<>>]
  ELSE IF ~p.esc /\ IsDelim(p.c, FALSE, TRUE, TRUE) THEN [s |-> p.s, v |-> <<>>]
  ELSE LET l == StrLoop(p.s, <<>>, p.esc) IN [s |-> l.s, v |-> Trim(l.v)]

RECURSIVE ListLoop(_, _)
ListLoop(s, content) ==                                      \* the loop of read_list_property_value
  IF Crashed(s) THEN [s |-> s, content |-> content]
  ELSE LET rs == ReadString(s) IN
       IF rs.v = <<>> THEN [s |-> rs.s, content |-> content]
       ELSE LET c2 == Append(content, rs.v)
                p  == Peek(SkipWS(rs.s))
            IN IF ~Good(p.s) \/ p.c # "," THEN [s |-> p.s, content |-> c2]
               ELSE LET r == ReadNextChar(SkipWS(p.s), NUL)  \* c = 0; read_next_char(c); ABG_ASSERT(c == ',')
                    IN IF r.c # "," THEN [s |-> Crash(r.s, "Abort"), content |-> c2] ELSE ListLoop(r.s, c2)

(* the "tuplelist" repair: a string or list item that follows a string or list item extends it *)
Strs(v) == IF v.k = "str" THEN <<v.s>> ELSE v.strs
PushItem(values, v) ==
  IF Fix("tuplelist") /\ values # <<>> /\ values[Len(values)].k \in {"str", "list"} /\ v.k \in {"str", "list"}
  THEN [values EXCEPT ![Len(values)] = ListV(Strs(@) \o Strs(v))]
  ELSE Append(values, v)

RECURSIVE ReadPropertyValue(_), ReadTuple(_), TupleLoop(_, _)
ReadPropertyValue(s) ==                                      \* read_property_value
  LET p == Peek(s) IN
  IF ~Good(p.s) THEN [s |-> p.s, v |-> NilV]
  ELSE IF p.c = "{" THEN ReadTuple(p.s)
  ELSE LET l == ListLoop(p.s, <<>>) IN
       IF l.content = <<>> THEN                              \* read_list_property_value returned nil ...
         (IF Fix("nullcheck") THEN [s |-> l.s, v |-> NilV]
          ELSE [s |-> Crash(l.s, "NullDeref"), v |-> NilV])  \* ... and list->get_content() dereferences it
       ELSE IF Len(l.content) = 1 THEN [s |-> l.s, v |-> StrV(l.content[1])]
       ELSE [s |-> l.s, v |-> ListV(l.content)]

(* while (good() && peek() != '}') { skip_white_spaces(); if ((value = read_property_value())) push;    *)
(*                                   skip_white_spaces(); if (good() && peek() == ',') read_next_char(c); } *)
TupleLoop(s, values) ==
  IF Crashed(s) \/ ~Good(s) THEN [s |-> s, values |-> values]
  ELSE LET p == Peek(s) IN
       IF p.c = "}" THEN [s |-> p.s, values |-> values]
       ELSE LET rv == ReadPropertyValue(SkipWS(p.s))
                vals == IF rv.v.k # "nil" THEN PushItem(values, rv.v) ELSE values
                s2 == SkipWS(rv.s)
                s3 == IF Good(s2) THEN (LET q == Peek(s2) IN IF q.c = "," THEN ReadNextChar(q.s, NUL).s ELSE q.s) ELSE s2
            IN IF Fix("nullcheck") /\ rv.v.k = "nil" THEN [s |-> rv.s, values |-> values]        \* repair: else break;
               ELSE IF SameStream(s3, s) /\ ~Crashed(s3) THEN [s |-> Crash(s3, "Hang"), values |-> vals]
               ELSE TupleLoop(s3, vals)

ReadTuple(s) ==                                              \* read_tuple_property_value
  LET p == Peek(s) IN
  IF ~Good(p.s) \/ p.c # "{" THEN [s |-> p.s, v |-> NilV]
  ELSE LET r == ReadAssert(p.s, NUL)
           l == TupleLoop(r.s, <<>>)
           q == Peek(l.s)
       IN IF q.c # "}" THEN [s |-> q.s, v |-> NilV]
          ELSE [s |-> ReadNextChar(q.s, NUL).s, v |-> TupleV(l.values)]

ReadProperty(s) ==                                           \* read_property
  LET n == ReadPropertyName(s) IN
  IF ~n.ok THEN [s |-> n.s, p |-> NilP]
  ELSE LET p == Peek(SkipWS(n.s)) IN
       IF p.c # "=" THEN [s |-> p.s, p |-> [name |-> n.name, v |-> StrV(<<>>)]]     \* simple_property(name)
       ELSE LET r == ReadAssert(p.s, p.c)                    \* ABG_ASSERT(read_next_char(c)); ABG_ASSERT(c == '=')
                s1 == IF r.c # "=" THEN Crash(r.s, "Abort") ELSE r.s
                s2 == SkipWS(s1)
            IN IF ~Good(s2) THEN [s |-> s2, p |-> NilP]
               ELSE LET rv == ReadPropertyValue(s2) IN
                    IF rv.v.k = "nil" THEN [s |-> rv.s, p |-> NilP]
                    ELSE [s |-> rv.s, p |-> [name |-> n.name, v |-> rv.v]]

RECURSIVE PropLoop(_, _)
PropLoop(s, props) ==                                        \* while (prop = read_property()) { push; skip_white_spaces_or_comments(); }
  IF Crashed(s) THEN [s |-> s, props |-> props]
  ELSE LET rp == ReadProperty(s) IN
       IF rp.p = NilP THEN [s |-> rp.s, props |-> props]
       ELSE LET n == SkipWSC(rp.s) IN
            IF SameStream(n, s) /\ ~Crashed(n) THEN [s |-> Crash(n, "Hang"), props |-> props]
            ELSE PropLoop(n, Append(props, rp.p))

ReadSection(s) ==                                            \* read_section
  LET p == Peek(s) IN
  IF ~Good(p.s) THEN [s |-> p.s, sec |-> NilS]
  ELSE LET s1 == IF p.c = "[" THEN (LET r == ReadAssert(p.s, NUL) IN IF r.c # "[" THEN Crash(r.s, "Abort") ELSE r.s) ELSE p.s
           n  == ReadSectionName(s1)
       IN IF ~n.ok THEN [s |-> n.s, sec |-> NilS]
          ELSE LET s2 == SkipWS(n.s) IN
               IF ~StreamOk(s2) THEN [s |-> s2, sec |-> NilS]
               ELSE LET r == ReadNextChar(s2, NUL) IN
                    IF ~r.ok \/ r.c # "]" THEN [s |-> r.s, sec |-> NilS]
                    ELSE LET s3 == SkipWSC(r.s) IN
                         IF ~StreamOk(s3) THEN [s |-> s3, sec |-> NilS]
                         ELSE LET pl == PropLoop(s3, <<>>) IN
                              IF pl.props # <<>> THEN [s |-> pl.s, sec |-> [name |-> n.name, props |-> pl.props]]
                              ELSE [s |-> pl.s, sec |-> NilS]

RECURSIVE SectionsLoop(_, _)
SectionsLoop(s, secs) ==                                     \* read_sections: while (input.good()) {...}
  IF Crashed(s) \/ ~InGood(s) THEN [s |-> s, secs |-> secs]
  ELSE LET rs == ReadSection(SkipWSC(s)) IN
       IF rs.sec = NilS THEN [s |-> rs.s, secs |-> secs]
       ELSE IF SameStream(rs.s, s) /\ ~Crashed(rs.s) THEN [s |-> Crash(rs.s, "Hang"), secs |-> secs]
       ELSE SectionsLoop(rs.s, Append(secs, rs.sec))

(* read_config(istream&): st is "Done" (a configuration), "Reject" (false / nil returned), or a crash state *)
Parse(t) ==
  LET r == SectionsLoop(S0(t), <<>>) IN
  IF Crashed(r.s) THEN [st |-> r.s.crash, cfg |-> <<>>]
  ELSE IF InGood(r.s) \/ r.s.eof THEN [st |-> "Done", cfg |-> r.secs]
  ELSE [st |-> "Reject", cfg |-> <<>>]

(* ---- write_config ----------------------------------------------------------------------------- *)
RECURSIVE Join(_, _)
Join(ss, sep) == IF ss = <<>> THEN <<>> ELSE IF Len(ss) = 1 THEN ss[1] ELSE ss[1] \o sep \o Join(Tail(ss), sep)

(* repair "reescape": a backslash before every character the reader would not take literally *)
EscName(n) == IF ~Fix("reescape") THEN n
              ELSE Join([i \in 1..Len(n) |-> IF n[i] = "\\" THEN <<"\\", "\\">> ELSE <<n[i]>>], <<>>)
EscStr(v) == IF ~Fix("reescape") THEN v
             ELSE Join([i \in 1..Len(v) |-> IF v[i] = "\\" \/ (v[i] # "\n" /\ ~IsValueChar(v[i])) \/ (i = 1 /\ v[i] \in {"[", "]", "="})
                                            THEN <<"\\", v[i]>> ELSE <<v[i]>>], <<>>)

RECURSIVE ValStr(_)
ValStr(v) ==                                                 \* property_value::as_string
  IF v.k = "str" THEN EscStr(v.s)
  ELSE IF v.k = "list" THEN Join([i \in 1..Len(v.strs) |-> EscStr(v.strs[i])], <<",">>)
  ELSE IF v.k = "tuple" THEN <<"{">> \o Join([i \in 1..Len(v.items) |-> ValStr(v.items[i])], <<",">>) \o <<"}">>
  ELSE <<>>
PrintProp(p) ==                                              \* write_property, with the indentation of write_section
  LET val == ValStr(p.v) IN
  <<" ", " ">> \o EscName(p.name) \o (IF val = <<>> THEN <<>> ELSE <<" ", "=", " ">> \o val) \o <<"\n">>
PrintSection(sec) ==
  <<"[">> \o EscName(sec.name) \o <<"]", "\n">> \o Join([i \in 1..Len(sec.props) |-> PrintProp(sec.props[i])], <<>>) \o <<"\n">>
PrintCfg(cfg) == Join([i \in 1..Len(cfg) |-> PrintSection(cfg[i])], <<>>)     \* write_config

(* ---- the properties ---------------------------------------------------------------------------- *)
Total(t) == Parse(t).st \in {"Done", "Reject"}                                   \* C25 (INI part)
RoundTrip(t) ==                                                                  \* C39, second sentence
  LET p1 == Parse(t) IN
  p1.st = "Done" => LET p2 == Parse(PrintCfg(p1.cfg)) IN p2.st = "Done" /\ p2.cfg = p1.cfg
PrintParseOf(c) == LET p == Parse(PrintCfg(c)) IN p.st = "Done" /\ p.cfg = c    \* C39, first sentence

(* Where the pinned tree (Fixes = {}) violates them -- found by TLC (IniPinned.cfg, or any space with   *)
(* Fixes = {}), confirmed on the real code by the conformance run; [..] = shortest text:                *)
(*  D1 NullDeref [s]x==]: what follows `name =` (or is an item of a tuple) starts, after white space --  *)
(*     which includes newlines -- with [ ] = , } ; # (escaped or not: the escape is consumed by the      *)
(*     peek() of skip_white_spaces / read_property_value, which forget it): read_list_property_value    *)
(*     returns nil and read_property_value calls list->get_content().  Also the tuples `{ }` and `{,`.    *)
(*     A plausible file: "[s]\n a =\n[t]\n b = c\n" (the value of a is missing).                         *)
(*  D2 Abort [x\]: a backslash that is the last character of the text (or is followed by a newline that *)
(*     is the last character) met by peek() while a name or a string is read: the backslash is put back, *)
(*     good() is true because of it, get() pops it, good() is false, ABG_ASSERT(read_next_char(c)) fails.*)
(*  D3 RoundTrip, not re-escaped [s]\\]: the configuration read contains what only an escape produces   *)
(*     (a backslash in a name or string; { } , ; # in a string; a string of a list starting with [ ] =)  *)
(*     and write_config prints it bare.  `x = y\;z` reads y;z, is written `x = y;z`, reads y.            *)
(*     Re-reading can also crash (D1): s]x=\\= is written `x = \=`.                                      *)
(*  D4 RoundTrip, newline in a value [s]x=y\<nl><nl>z]: the character after a continuation line is      *)
(*     returned raw and marked escaped, so a newline there becomes part of the string; no text denotes it.*)
(*  D5 RoundTrip, tuple items [s]x={y<nl>z}]: string/list items of a tuple separated by a newline or by   *)
(*     `,,` are distinct items, written `{y,z}`, which reads as one list item.                           *)
(* The next operators are the restrictions under which the pinned tree satisfies the properties.        *)
HasTok(t, S) == \E i \in 1..Len(t) : t[i] \in S
PlainStr(v) == \A i \in 1..Len(v) : IsValueChar(v[i]) /\ v[i] # "\\" /\ (i = 1 => v[i] \notin {"[", "]", "="})
RECURSIVE ValPlain(_)
ValPlain(v) ==            \* the writer's output for v reads back as v on the pinned tree
  IF v.k = "str" THEN PlainStr(v.s)
  ELSE IF v.k = "list" THEN \A j \in 1..Len(v.strs) : PlainStr(v.strs[j])
  ELSE \A j \in 1..Len(v.items) : /\ ValPlain(v.items[j])
                                  /\ (j > 1 => ~(v.items[j-1].k \in {"str", "list"} /\ v.items[j].k \in {"str", "list"}))
CfgPlain(cfg) == \A i \in 1..Len(cfg) : /\ ~HasTok(cfg[i].name, {"\\"})
                                        /\ \A j \in 1..Len(cfg[i].props) : /\ ~HasTok(cfg[i].props[j].name, {"\\"})
                                                                           /\ ValPlain(cfg[i].props[j].v)
TotalPinned(t) == Parse(t).st \in {"Done", "Reject", "NullDeref", "Abort"}        \* never "Hang"
RoundTripPlain(t) ==                                                             \* holds on the pinned tree
  LET p1 == Parse(t) IN
  (p1.st = "Done" /\ CfgPlain(p1.cfg)) => LET p2 == Parse(PrintCfg(p1.cfg)) IN p2.st = "Done" /\ p2.cfg = p1.cfg
NoEscapeTotal(t) ==       \* on the pinned tree every crash is a NullDeref or involves a backslash
  Parse(t).st = "Abort" => HasTok(t, {"\\"})

(* ---- the explored space: all texts Prefix \o w, |w| <= MaxLen ---------------------------------- *)
VARIABLES text, conf
Init == text = Prefix /\ conf = <<>>
Grow == Len(text) < Len(Prefix) + MaxLen /\ \E c \in Alphabet : text' = Append(text, c) /\ UNCHANGED conf
Spec == Init /\ [][Grow]_<<text, conf>>

ParseTotal    == Total(text)
ReadWriteRead == RoundTrip(text)
NeverRejects  == Parse(text).st # "Reject"       \* read_config(istream&) cannot fail: failbit never comes without eofbit
ParseTotalPinned    == TotalPinned(text)
ReadWriteReadPlain  == RoundTripPlain(text)
AbortNeedsBackslash == NoEscapeTotal(text)

(* ---- the explored configurations (first sentence of C39) --------------------------------------- *)
(* Documented value characters: what char_is_property_value_char accepts ("white spaces, square      *)
(* brackets and the equal character can be part of a property value"), leading and trailing white    *)
(* space being ignored (manual).  Reading: strings are non-empty and trimmed; a string does not      *)
(* start with [ ] = (the reader takes these as delimiters in first position: D1); lists have at      *)
(* least two strings; tuple items are strings, lists or tuples, no two adjacent string/list items;   *)
(* names are non-empty, property names without delimiters, section names without [ ] ; # newline.    *)
CONSTANTS ValAlphabet,   \* tokens of strings
          StrLen         \* maximal string length in configurations
RECURSIVE SeqsUpTo(_, _)
SeqsUpTo(A, n) == IF n = 0 THEN {<<>>} ELSE LET R == SeqsUpTo(A, n - 1) IN R \cup {Append(w, a) : w \in {x \in R : Len(x) = n - 1}, a \in A}
DocStr(v) == v # <<>> /\ ~IsWS(v[1]) /\ ~IsWS(v[Len(v)]) /\ ~(v[1] \in {"[", "]", "="}) /\ \A i \in 1..Len(v) : IsValueChar(v[i]) /\ v[i] # "\\"
IsFlat(v) == v.k \in {"str", "list"}
RECURSIVE DocValue(_)
DocValue(v) ==
  IF v.k = "str" THEN DocStr(v.s)
  ELSE IF v.k = "list" THEN Len(v.strs) >= 2 /\ \A i \in 1..Len(v.strs) : DocStr(v.strs[i])
  ELSE IF v.k = "tuple" THEN \A i \in 1..Len(v.items) : DocValue(v.items[i]) /\ (i > 1 => ~(IsFlat(v.items[i-1]) /\ IsFlat(v.items[i])))
  ELSE FALSE
DocPName(n) == n # <<>> /\ \A i \in 1..Len(n) : IsPropertyNameChar(n[i]) /\ n[i] # "\\"
DocSName(n) == n # <<>> /\ \A i \in 1..Len(n) : IsSectionNameChar(n[i]) /\ n[i] # "\\"
DocCfg(c) == \A i \in 1..Len(c) : /\ DocSName(c[i].name) /\ c[i].props # <<>>
                                  /\ \A j \in 1..Len(c[i].props) : /\ DocPName(c[i].props[j].name)
                                                                    /\ (c[i].props[j].v = StrV(<<>>) \/ DocValue(c[i].props[j].v))
Strings == {v \in SeqsUpTo(ValAlphabet, StrLen) : DocStr(v)}
Lists   == {ListV(<<a, b>>) : a \in Strings, b \in Strings}
Flat    == {StrV(a) : a \in Strings} \cup Lists
Tuples1 == {TupleV(<<>>)} \cup {TupleV(<<a>>) : a \in Flat}
Tuples  == Tuples1 \cup {TupleV(<<a, b>>) : a \in Flat, b \in Tuples1} \cup {TupleV(<<a, b>>) : a \in Tuples1, b \in Flat \cup Tuples1}
Values  == {StrV(<<>>)} \cup Flat \cup Tuples
PNames  == {<<"x">>, <<"x", "y">>}
SNames  == {<<"s">>, <<"s", " ", "=">>}
Small   == {StrV(<<>>)} \cup Flat \cup Tuples1
InitC == text = <<>> /\ conf \in
           {<<[name |-> sn, props |-> <<[name |-> pn, v |-> v]>>]>> : sn \in SNames, pn \in PNames, v \in Values}
           \cup {<<[name |-> <<"s">>, props |-> <<[name |-> <<"x">>, v |-> v]>>], [name |-> <<"t">>, props |-> <<[name |-> <<"y">>, v |-> w]>>]>> : v \in Small, w \in Flat}
           \cup {<<[name |-> <<"s">>, props |-> <<[name |-> <<"x">>, v |-> v], [name |-> <<"y">>, v |-> w]>>]>> : v \in Small, w \in Flat \cup {StrV(<<>>)}}
SpecC == InitC /\ [][FALSE]_<<text, conf>>
PrintParse == DocCfg(conf) /\ PrintParseOf(conf)
=======================================================================================================
