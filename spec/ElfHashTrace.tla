--------------------------------------- MODULE ElfHashTrace ---------------------------------------
(* Trace validation for C37 (abisym lookups on linked shared objects) and C34 (abidw / abidiff /     *)
(* abisym on corrupted ELF files under ASan+UBSan).  Events are recorded by checks/C37.py and        *)
(* checks/C34.py; the ground truth of a Lookup event is readelf's view of .dynsym / .gnu.version,    *)
(* parsed by render/elfsyms.py.                                                                      *)
(*                                                                                                    *)
(*  {"e":"Lookup","lib":..,"linker":..,"style":..,"order":[kinds of the hash sections in file order], *)
(*   "name":..,"present":bool,"undef":bool,"versions":[version of every defined row named name, in    *)
(*   .dynsym order, "" = none],"found":bool,"foundVersions":[as printed by abisym],"ret":"ok"|"sig8".. *)
(*   ,"collide":..,"hs":[hi,lo],"hg":[hi,lo]}       (hashes: facts computed by the renderer)          *)
(*  {"e":"Run","tool":..,"corruption":<class>,"ret":"exit"|"signal"|"timeout","kind":..,"fn":..,      *)
(*   "san":..,"top":..,"assert":..,"foreign":bool,"status":..}                                        *)
(*                                                                                                    *)
(* The verdict of a failed event names the model's explanation when ElfHash.tla has one: the same    *)
(* named deviations that the model check tolerates (D1 section kind/index mismatch, D2 version leak). *)
EXTENDS ElfHash, Json, IOUtils, KnownFindings

T == ndJsonDeserialize(IOEnv.TRACE)
VARIABLES l, verdict

(* ------------------------------------------------------------------------------------------------ *)
(* BEGIN known-finding predicates (to be moved to KnownFindings.tla by whoever lists a finding)       *)
(* A C34 finding is keyed by ClassKey(ev) = corruption class | tool | kind | innermost libabigail      *)
(* function; a predicate matches on those fields of the event (ev.corruption, ev.tool, ev.kind,       *)
(* ev.fn), never on addresses or line numbers.                                                        *)
(* KF_C34(ev) : see KnownFindings.tla *)
(* KF_C34_Id(ev) : see KnownFindings.tla *)
(* KF_C37(ev) : see KnownFindings.tla *)
(* KF_C37_Id(ev) : see KnownFindings.tla *)
(* END known-finding predicates                                                                        *)
(* ------------------------------------------------------------------------------------------------ *)

Count(s, v) == Cardinality({i \in 1..Len(s) : s[i] = v})
SameBag(s, t) == Len(s) = Len(t) /\ \A i \in 1..Len(s) : Count(s, s[i]) = Count(t, s[i])

(* what the GNU walk of ElfHash.tla (LookupGnu, `ver` kept across hits) reports for rows with these versions *)
Leaked(vs) == LET F[i \in 0..Len(vs)] == IF i = 0 THEN <<>>
                                         ELSE Append(F[i-1], IF vs[i] # "" \/ i = 1 THEN vs[i] ELSE F[i-1][i-1])
              IN F[Len(vs)]
LeakShape(vs) == \E i, j \in 1..Len(vs) : i < j /\ vs[i] # "" /\ vs[j] = ""

Cause(ev) ==
  IF Dev_SelectKindIndexMismatch(SecsOf(ev.order)) THEN ";model=D1-hash-section-kind-index-mismatch"
  ELSE IF SelectSection(SecsOf(ev.order)).kind = "gnu" /\ LeakShape(ev.versions) /\ SameBag(Leaked(ev.versions), ev.foundVersions)
       THEN ";model=D2-gnu-version-leak"
  ELSE ""

LookupGuard(ev) ==          \* C37, weakest reading: an undefined-only name is outside the statement
  IF ev.ret # "ok" THEN "lookup-did-not-return(" \o ev.ret \o ")"
  ELSE IF ev.undef THEN "ok"
  ELSE IF ev.found /\ ~ev.present THEN "found-but-absent"
  ELSE IF ~ev.found /\ ev.present THEN "present-but-not-found"
  ELSE IF ~SameBag(ev.versions, ev.foundVersions) THEN "versions-differ"
  ELSE "ok"
LookupVerdict(ev) ==
  LET g == LookupGuard(ev)
  IN IF g = "ok" THEN "ok"
     ELSE IF KF_C37(ev) THEN "kf:" \o KF_C37_Id(ev)
     ELSE "bad:" \o g \o Cause(ev)

(* C34: normal termination (any exit status), no signal, no ABG_ASSERT abort, no sanitizer report, no *)
(* time-out; a fault whose innermost non-runtime frame is in libelf/libdw/libxml2 is foreign.          *)
ClassKey(ev) == ev.corruption \o "|" \o ev.tool \o "|" \o ev.kind \o "|" \o ev.fn
RunClean(ev) == ev.ret = "exit" /\ ev.san = "" /\ ev.assert = "" /\ ev.kind = "none"
RunVerdict(ev) ==
  IF RunClean(ev) THEN "ok"
  ELSE IF ev.foreign THEN "ok"
  ELSE IF KF_C34(ev) THEN "kf:" \o KF_C34_Id(ev)
  ELSE "bad:" \o ClassKey(ev)

TInit == l = 1 /\ verdict = "ok" /\ dyn = <<NullRow>> /\ nb = 1 /\ hf = (CHOOSE x \in Hashes : TRUE)
         /\ secs = <<>> /\ ht = <<>> /\ cq = NoQuery
TLookup == T[l].e = "Lookup" /\ verdict' = LookupVerdict(T[l]) /\ secs' = SecsOf(T[l].order)
TRun == T[l].e = "Run" /\ verdict' = RunVerdict(T[l]) /\ UNCHANGED secs
TNext == l <= Len(T) /\ l' = l + 1 /\ (TLookup \/ TRun) /\ UNCHANGED <<dyn, nb, hf, ht, cq>>
TSpec == TInit /\ [][TNext]_<<vars, l, verdict>>

Report == verdict = "ok" \/ PrintT(ToJson([i |-> l - 1, v |-> verdict]))
Accepted == TLCGet("stats").diameter - 1 = Len(T)
====================================================================================================
