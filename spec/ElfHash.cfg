\* C37, build space: every valid .dynsym of <= 5 unversioned symbols over 5 names (defined or undefined),
\* 1..3 buckets, 2 hash-function shapes (spread; colliding), 2 bloom shapes, all four orders of {.hash, .gnu.hash}.
CONSTANTS Names = {0, 1, 2, 3, 4}
          MaxSyms = 5
          Buckets = {1, 2, 3}
          VerSyms <- VerSymsNone
          VerDefs = {2, 3}
          BloomBits = 4
          BloomShapes <- BloomShapesTwo
          Hashes <- HashFamilyTwo
          MaxSecs = 0
          CorruptLens = {}
          CorruptMax = 0
          CorruptSyms = {}
          CorruptHashes = {}
          FixedSelect = FALSE
          FixedSysV = FALSE
          FixedGnu = FALSE
SPECIFICATION SpecBuild
INVARIANT BuildSpaceOk
CHECK_DEADLOCK FALSE
