CONSTANTS
  N = 4
  MaxKids = 2
  MaxEdges = 4
  Kinds = {"ptr", "typedef"}
  AllowDecl = TRUE
  GraphClass = "any"
  OrderClass = "any"
  CycleCheck = "pair"
  Pass2Cancel = "fresh"
  PropagateDespiteCycle = FALSE
SPECIFICATION Spec
CHECK_DEADLOCK FALSE
INVARIANTS TypeOK CanonIffBisim PropagatedSound CanonShape NoAbort
