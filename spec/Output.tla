------------------------------------------ MODULE Output ------------------------------------------
(* How abidw and abilint deliver their ABIXML (C36): the document goes through a buffered stream to  *)
(* standard output or to the --out-file in n write(2) calls followed by a close; any of these may     *)
(* fail (ENOSPC, EIO), and a failed device keeps failing.  The tool must not exit 0 when the          *)
(* document did not reach its destination completely.                                                 *)
EXTENDS Naturals, Integers, TLC

CONSTANTS MaxWrites

VARIABLES tool, dest, n,       \* which tool, where to, how many write calls the document needs
          failAt,              \* 0 = no fault; k in 1..n = the k-th write fails (and all later ones); n+1 = the close fails
          k, delivered,        \* writes attempted so far, writes that reached the device
          streamBad,           \* the stream's failure state (badbit/failbit), as the tool can observe it after flushing
          pc, exit
vars == <<tool, dest, n, failAt, k, delivered, streamBad, pc, exit>>

Init == /\ tool \in {"abidw", "abilint"} /\ dest \in {"stdout", "outfile"}
        /\ n \in 1..MaxWrites /\ failAt \in 0..(n + 1)
        /\ k = 0 /\ delivered = 0 /\ streamBad = FALSE /\ pc = "writing" /\ exit = -1

Write == /\ pc = "writing" /\ k < n
         /\ k' = k + 1
         /\ IF failAt # 0 /\ k + 1 >= failAt
            THEN streamBad' = TRUE /\ UNCHANGED delivered
            ELSE delivered' = delivered + 1 /\ UNCHANGED streamBad
         /\ UNCHANGED <<tool, dest, n, failAt, pc, exit>>
(* the tool flushes and closes its output *before* it decides its exit status *)
FlushAndClose == /\ pc = "writing" /\ k = n
                 /\ streamBad' = (streamBad \/ failAt = n + 1)
                 /\ pc' = "closed"
                 /\ UNCHANGED <<tool, dest, n, failAt, k, delivered, exit>>
Return == /\ pc = "closed"
          /\ exit' = IF streamBad THEN 1 ELSE 0
          /\ pc' = "done"
          /\ UNCHANGED <<tool, dest, n, failAt, k, delivered, streamBad>>
Next == Write \/ FlushAndClose \/ Return
Spec == Init /\ [][Next]_vars /\ WF_vars(Next)

Incomplete == delivered < n \/ failAt = n + 1
WriteFaultIsFailure == pc = "done" => (Incomplete => exit # 0)
NoSpuriousFailure == pc = "done" => (failAt = 0 => exit = 0)
Terminates == <>(pc = "done")
====================================================================================================
