------------------------------------------ MODULE Symtab ------------------------------------------
(* ELF symbol table -> libabigail's symbol table (properties C18 and C28).                          *)
(*                                                                                                  *)
(* A raw table is a sequence of rows as an ELF reader prints them.  `Load` is the loop of            *)
(* symtab::load_ (src/abg-symtab-reader.cc) transcribed statement by statement, `Matches` is          *)
(* symtab_filter::matches, `MakeFilter` is symtab::make_filter, `WrittenClasses` is what             *)
(* write_elf_symbol_aliases (src/abg-writer.cc) emits.  `Expected` is the declarative statement of   *)
(* the properties and does not look at the code.                                                    *)
(*                                                                                                  *)
(* The code deviates from the properties in named places.  Each deviation is a member of AllDev;   *)
(* the operators that mirror the code consult the variable dev (fixed along a behaviour), so that   *)
(*   dev = {}      is the code as the properties want it  (invariant Ideal: the properties hold),   *)
(*   dev = AllDev  is the code as it is                    (invariant Faithful: the properties hold  *)
(*                                                          wherever no named deviation applies),   *)
(*   dev = {d}     exhibits deviation d alone              (Witness prints the minimal tables on     *)
(*                                                          which the properties then fail).         *)
EXTENDS Naturals, Sequences, FiniteSets, TLC, Json

CONSTANT Plans          \* what one TLC run explores: a set of [slice, dev, max] (cfg: Plans <- PlanXxx, defined at the end)
VARIABLE dev            \* the deviations of the code that the operators below mirror in this behaviour (constant along it)

AllDev == { "kernel-mode-ignored",              \* symtab::load_ / make_filter ask elf_helpers::is_linux_kernel, never the reader option
            "unwritten-main-hides-aliases",     \* aliases are written on the main symbol only; a main symbol that is not public/exported is not written
            "tls-offset-shares-address-map" }   \* st_value of STT_TLS symbols (an offset) is entered in the address -> symbol map

Types == {"FUNC", "OBJECT", "TLS", "IFUNC", "COMMON", "NOTYPE", "SECTION", "FILE"}
Binds == {"LOCAL", "GLOBAL", "WEAK", "UNIQUE"}
Viss  == {"DEFAULT", "PROTECTED", "HIDDEN", "INTERNAL"}
(* shndx is a string: "UND", "ABS", "COM" or a section number in decimal.  value is only compared  *)
(* for equality (small naturals in the model, hexadecimal strings in traces).                       *)

Row(n, t, b, v, sh, val, sz, ver, def) ==
  [name |-> n, type |-> t, bind |-> b, vis |-> v, shndx |-> sh, value |-> val, size |-> sz, version |-> ver, isDefault |-> def]

(* A context: ELF type ("REL", "EXEC", "DYN"), whether the section headers make it a Linux kernel   *)
(* binary, and the reader option (abidw --no-linux-kernel-mode clears it).                          *)
Ctx(e, k, m) == [etype |-> e, kernel |-> k, kmode |-> m]

------------------------------------------------------------------------------------------------------
(* Which table: elf_helpers::find_symbol_table_section *)
RelevantTable(etype, hasSymtab, hasDynsym) ==
  IF etype \in {"REL", "EXEC"}
  THEN (IF hasSymtab THEN "symtab" ELSE IF hasDynsym THEN "dynsym" ELSE "none")
  ELSE (IF hasDynsym THEN "dynsym" ELSE IF hasSymtab THEN "symtab" ELSE "none")

(* elf_helpers::is_linux_kernel on the section headers (name, type) *)
IsKernelSections(secs) ==
  LET Has(n) == \E i \in 1..Len(secs) : secs[i].name = n /\ secs[i].type = "PROGBITS"
  IN Has("__ksymtab_strings") \/ (Has(".modinfo") /\ Has(".gnu.linkonce.this_module"))

------------------------------------------------------------------------------------------------------
(* Row predicates (elf_symbol::is_public / is_function / is_variable and the tests of load_) *)
HasPrefix(s, p) == Len(s) >= Len(p) /\ SubSeq(s, 1, Len(p)) = p
Strip(s, p)     == SubSeq(s, Len(p) + 1, Len(s))
KsymPrefix == "__ksymtab_"
CrcPrefix  == "__crc_"

IsDefined(r)  == r.shndx # "UND"
IsCommon(r)   == r.shndx = "COM" \/ r.type = "COMMON"
IsFunction(r) == r.type \in {"FUNC", "IFUNC"}
IsVariable(r) == r.type \in {"OBJECT", "TLS"}
IsPublic(r)   == IsDefined(r) /\ r.bind \in {"GLOBAL", "WEAK", "UNIQUE"} /\ r.vis \in {"DEFAULT", "PROTECTED"}
TypeKept(r)   == r.type \in {"FUNC", "IFUNC", "TLS"} \/ (r.type = "OBJECT" /\ r.shndx # "ABS")

Id(r) == IF r.version = "" THEN r.name
         ELSE r.name \o (IF r.isDefault THEN "@@" ELSE "@") \o r.version

(* What the ABI records about one symbol.  sect: "fn" = <elf-function-symbols>, "var" = <elf-variable-symbols>. *)
SymRec(r) == [name |-> r.name, version |-> r.version, isDefault |-> (r.version # "" /\ r.isDefault),
              type |-> r.type, bind |-> r.bind, vis |-> r.vis, size |-> r.size,
              common |-> IsCommon(r), sect |-> IF IsFunction(r) THEN "fn" ELSE "var"]

------------------------------------------------------------------------------------------------------
(* The code *)

(* `is_kernel` in load_ and `is_kernel_binary_` used by make_filter: both elf_helpers::is_linux_kernel. *)
KernelBinaryCode(ctx) == IF "kernel-mode-ignored" \in dev THEN ctx.kernel ELSE ctx.kernel /\ ctx.kmode

(* Key of addr_symbol_map_.  maybe_adjust_et_rel_sym_addr_to_abs_addr adds the section's sh_addr in  *)
(* relocatable files (libdwfl has laid the sections out one after the other; the model takes that    *)
(* layout to be injective on (section, offset)).                                                     *)
AddrBase(r, ctx) == IF ctx.etype = "REL" THEN <<r.shndx, r.value>> ELSE <<"abs", r.value>>
AddrKeyCode(r, ctx) ==
  IF "tls-offset-shares-address-map" \in dev THEN <<"any">> \o AddrBase(r, ctx)
  ELSE <<IF r.type = "TLS" THEN "tls" ELSE "mem">> \o AddrBase(r, ctx)

LoadInit == [status |-> "ok", kept |-> <<>>, main |-> <<>>, ring |-> <<>>, amap |-> <<>>, marked |-> {}, crcs |-> {}]
(* kept: symbols_ (row indices, table order); main[i]: main symbol of row i; ring[m]: the alias     *)
(* chain of main symbol m in get_next_alias order starting at m; amap: addr_symbol_map_; marked:    *)
(* exported_kernel_symbols; crcs: crc_values (keys only).  main/ring/amap are functions built up    *)
(* with @@; <<>> is the empty function.                                                             *)

(* setup_symbol_lookup_tables: emplace into addr_symbol_map_; on collision add_alias to the main    *)
(* symbol of the entry found (add_alias appends at the end of the chain).                           *)
SetupLookup(st, i, r, ctx) ==
  LET k == AddrKeyCode(r, ctx) IN
  IF k \notin DOMAIN st.amap
  THEN [st EXCEPT !.amap = (k :> i) @@ @]
  ELSE LET m == st.main[st.amap[k]] IN
       [st EXCEPT !.main = (i :> m) @@ @, !.ring = (m :> Append(st.ring[m], i)) @@ @]

LoadStep(st, i, r, ctx) ==
  IF r.name = "" THEN st                                                     \* "no name, no game"
  ELSE IF KernelBinaryCode(ctx) /\ HasPrefix(r.name, KsymPrefix)
  THEN (IF Strip(r.name, KsymPrefix) \in st.marked
        THEN [st EXCEPT !.status = "abort"]                                   \* ABG_ASSERT(insert(..).second)
        ELSE [st EXCEPT !.marked = @ \cup {Strip(r.name, KsymPrefix)}])
  ELSE IF KernelBinaryCode(ctx) /\ HasPrefix(r.name, CrcPrefix)
  THEN (IF Strip(r.name, CrcPrefix) \in st.crcs
        THEN [st EXCEPT !.status = "abort"]
        ELSE [st EXCEPT !.crcs = @ \cup {Strip(r.name, CrcPrefix)}])
  ELSE IF ~TypeKept(r) THEN st
  ELSE LET st1 == [st EXCEPT !.kept = Append(@, i), !.main = (i :> i) @@ @, !.ring = (i :> <<i>>) @@ @] IN
       IF IsCommon(r) THEN st1                                                \* common instances: by name only
       ELSE IF IsDefined(r) THEN SetupLookup(st1, i, r, ctx)
       ELSE st1

Load(rows, ctx) ==
  LET F[i \in 0..Len(rows)] ==
        IF i = 0 THEN LoadInit
        ELSE LET prev == F[i-1]                       \* evaluated once (a second reference would double the work per row)
             IN IF prev.status # "ok" THEN prev ELSE LoadStep(prev, i, rows[i], ctx)
      st == F[Len(rows)]
  IN [status |-> st.status, kept |-> st.kept, main |-> st.main, ring |-> st.ring,
      kernelBinary |-> KernelBinaryCode(ctx),
      \* "Now apply the ksymtab_exported attribute": public symbols whose name was marked
      inKsym |-> {st.kept[j] : j \in {q \in 1..Len(st.kept) : rows[st.kept[q]].name \in st.marked /\ IsPublic(rows[st.kept[q]])}}]

(* symtab_filter: every criterion is "any" (unset), "yes" or "no" *)
Opt(o, b) == o = "any" \/ ((o = "yes") <=> b)
Matches(f, r, inKsymtab) ==
  /\ Opt(f.functions, IsFunction(r))
  /\ Opt(f.variables, IsVariable(r))
  /\ Opt(f.public, IsPublic(r))
  /\ (f.undefined = "any" \/ ((f.undefined = "yes") <=> ~IsDefined(r)))
  /\ Opt(f.kernel, inKsymtab)
MakeFilter(L) == [functions |-> "any", variables |-> "any", public |-> "yes", undefined |-> "any",
                  kernel |-> IF L.kernelBinary THEN "yes" ELSE "any"]

KeptSet(L) == {L.kept[j] : j \in 1..Len(L.kept)}
Filtered(rows, L, f) == {i \in KeptSet(L) : Matches(f, rows[i], i \in L.inKsym)}
FunSyms(rows, L) == Filtered(rows, L, [MakeFilter(L) EXCEPT !.functions = "yes"])   \* corpus::get_sorted_fun_symbols
VarSyms(rows, L) == Filtered(rows, L, [MakeFilter(L) EXCEPT !.variables = "yes"])   \* corpus::get_sorted_var_symbols
EmittedIdx(rows, L) == FunSyms(rows, L) \cup VarSyms(rows, L)
Emitted(rows, L) == {SymRec(rows[i]) : i \in EmittedIdx(rows, L)}

(* symbols_ is finally sorted by id string.  TLC has no order on strings, so the order is supplied  *)
(* as a rank; nothing in C18/C28 depends on it (tables are compared as sets).                       *)
SortedBy(rank(_), S) ==
  LET n == Cardinality(S)
      Pick[k \in 0..n] == IF k = 0 THEN <<>>
                          ELSE LET done == {Pick[k-1][j] : j \in 1..(k-1)}
                                   x == CHOOSE y \in S \ done : \A z \in S \ done : rank(y) <= rank(z)
                               IN Append(Pick[k-1], x)
  IN Pick[n]

RangeOf(s) == {s[j] : j \in 1..Len(s)}
Big(C) == {c \in C : Cardinality(c) >= 2}

(* Alias classes as the in-memory chains relate the recorded symbols (elf_symbol::get_next_alias). *)
MemClasses(rows, L) ==
  Big({ {Id(rows[i]) : i \in RangeOf(L.ring[m]) \cap EmittedIdx(rows, L)} : m \in {L.main[i] : i \in KeptSet(L)} })

(* Alias classes as abidw writes them: attribute alias='..' on a *main* symbol that is itself       *)
(* written, listing the members of its chain that are public and agree on is_in_ksymtab.            *)
WrittenClassesCode(rows, L) ==
  Big({ {Id(rows[m])} \cup {Id(rows[a]) : a \in {x \in RangeOf(L.ring[m]) \ {m} :
                                                     IsPublic(rows[x]) /\ ((x \in L.inKsym) <=> (m \in L.inKsym))}}
        : m \in {i \in EmittedIdx(rows, L) : L.main[i] = i} })
WrittenClasses(rows, L) ==
  IF "unwritten-main-hides-aliases" \in dev THEN WrittenClassesCode(rows, L) ELSE MemClasses(rows, L)

------------------------------------------------------------------------------------------------------
(* The properties, declaratively *)
Marked(rows) == {Strip(rows[i].name, KsymPrefix) : i \in {j \in 1..Len(rows) : HasPrefix(rows[j].name, KsymPrefix)}}

(* st_value of a TLS symbol is an offset into the TLS template, not an address. *)
AddrKey(r, ctx) == <<IF r.type = "TLS" THEN "tls" ELSE "mem">> \o AddrBase(r, ctx)

ExpectedIdx(rows, ctx) ==
  LET K == ctx.kernel /\ ctx.kmode
      M == IF K THEN Marked(rows) ELSE {}
  IN {i \in 1..Len(rows) :
        LET r == rows[i] IN
        /\ r.name # "" /\ TypeKept(r) /\ IsPublic(r)
        /\ K => (r.name \in M /\ ~HasPrefix(r.name, KsymPrefix) /\ ~HasPrefix(r.name, CrcPrefix))}

Expected(rows, ctx) ==
  LET E == ExpectedIdx(rows, ctx)
      A == {i \in E : ~IsCommon(rows[i])}
  IN [records |-> {SymRec(rows[i]) : i \in E},
      classes |-> Big({ {Id(rows[j]) : j \in {q \in A : AddrKey(rows[q], ctx) = AddrKey(rows[i], ctx)}} : i \in A })]

(* C28 in its own words, without Expected *)
PublicIds(rows)   == {Id(rows[i]) : i \in {j \in 1..Len(rows) : rows[j].name # "" /\ TypeKept(rows[j]) /\ IsPublic(rows[j])}}
ExportedIds(rows) == {Id(rows[i]) : i \in {j \in 1..Len(rows) : rows[j].name # "" /\ TypeKept(rows[j]) /\ IsPublic(rows[j])
                                                                  /\ rows[j].name \in Marked(rows)}}
KernelExpectedIds(rows, ctx) == IF ctx.kernel /\ ctx.kmode THEN ExportedIds(rows) ELSE PublicIds(rows)

(* Preconditions under which the properties are stated: at most one marker / crc symbol per name     *)
(* (the kernel's build refuses duplicate exports), and the marker prefixes are reserved.             *)
WellFormed(rows) ==
  /\ \A i, j \in 1..Len(rows) : (i # j /\ rows[i].name = rows[j].name)
                                  => ~(HasPrefix(rows[i].name, KsymPrefix) \/ HasPrefix(rows[i].name, CrcPrefix))
  /\ \A i \in 1..Len(rows) : HasPrefix(rows[i].name, KsymPrefix) => ~IsPublic(rows[i]) \/ ~TypeKept(rows[i])
  /\ \A i \in 1..Len(rows) : HasPrefix(rows[i].name, CrcPrefix)  => ~IsPublic(rows[i]) \/ ~TypeKept(rows[i])

(* Where the code as it is departs from the properties, stated on the input alone. *)
CodeCtx(c) == [c EXCEPT !.kmode = TRUE]          \* the context as load_/make_filter see it
DeviatesKernelModeOn(rows, ctx) == ctx.kernel /\ ~ctx.kmode /\ Expected(rows, CodeCtx(ctx)) # Expected(rows, ctx)
InMap(r) == r.name # "" /\ TypeKept(r) /\ IsDefined(r) /\ ~IsCommon(r)
DeviatesTlsOn(rows, ctx) ==
  \E i, j \in 1..Len(rows) :
     /\ rows[i].type = "TLS" /\ rows[j].type # "TLS" /\ AddrBase(rows[i], ctx) = AddrBase(rows[j], ctx)
     /\ InMap(rows[i]) /\ InMap(rows[j])
(* an earlier row at the same address that is not itself written (not public, or -- in a kernel     *)
(* binary -- not exported) is the main symbol of the chain, and only a written main symbol carries  *)
(* the alias attribute                                                                              *)
DeviatesUnwrittenMainOn(rows, ctx) ==
  LET X == ExpectedIdx(rows, CodeCtx(ctx)) IN
  \E i, j \in 1..Len(rows) :
     /\ i < j /\ InMap(rows[i]) /\ InMap(rows[j])
     /\ ~(KernelBinaryCode(ctx) /\ (HasPrefix(rows[i].name, KsymPrefix) \/ HasPrefix(rows[i].name, CrcPrefix)))
     /\ i \notin X /\ j \in X
     /\ AddrKeyCode(rows[i], ctx) = AddrKeyCode(rows[j], ctx)

------------------------------------------------------------------------------------------------------
(* The properties as predicates of a table and a context (the code side depends on dev) *)
RecordsAgreeOn(rws, L, E) == L.status = "ok" /\ Emitted(rws, L) = E.records
AliasesAgreeOn(rws, L, E) == L.status = "ok" => WrittenClasses(rws, L) = E.classes /\ MemClasses(rws, L) = E.classes
KernelFilterOn(rws, c, L) == c.kernel => L.status = "ok" /\ {Id(rws[i]) : i \in EmittedIdx(rws, L)} = KernelExpectedIds(rws, c)
PropertiesOn(rws, c) == LET L == Load(rws, c) E == Expected(rws, c)
                        IN RecordsAgreeOn(rws, L, E) /\ AliasesAgreeOn(rws, L, E) /\ KernelFilterOn(rws, c, L)
(* The code as it is satisfies the properties everywhere except where a named deviation applies:    *)
(* nothing else is wrong with the transcription (or with the code).                                 *)
OnlyNamedDeviationsOn(rws, c) ==
  LET L == Load(rws, c) E == Expected(rws, c) IN
  /\ ~DeviatesKernelModeOn(rws, c) => RecordsAgreeOn(rws, L, E) /\ KernelFilterOn(rws, c, L)
  /\ (~DeviatesKernelModeOn(rws, c) /\ ~DeviatesTlsOn(rws, c) /\ ~DeviatesUnwrittenMainOn(rws, c)) => AliasesAgreeOn(rws, L, E)

------------------------------------------------------------------------------------------------------
(* The model: tables are built row by row *)
VARIABLES rows, ctx, plan
vars == <<rows, ctx, dev, plan>>

(* C18 *)
LoadedEqualsFiltered == LET L == Load(rows, ctx) E == Expected(rows, ctx) IN RecordsAgreeOn(rows, L, E) /\ AliasesAgreeOn(rows, L, E)
(* C28 *)
KernelFilter == KernelFilterOn(rows, ctx, Load(rows, ctx))
(* both *)
Properties == PropertiesOn(rows, ctx)

Ideal    == dev = {} => Properties
Faithful == dev = AllDev => /\ OnlyNamedDeviationsOn(rows, ctx)
                            /\ (ctx.kernel /\ ctx.kmode) => KernelFilter       \* the half of C28 the code satisfies
(* dev = {d}: every minimal table on which the properties fail is printed (the invariant itself is always true) *)
Witness  == (Cardinality(dev) = 1 /\ Len(rows) > 0 /\ ~Properties /\ PropertiesOn(SubSeq(rows, 1, Len(rows) - 1), ctx))
            => PrintT(ToJson([witness |-> CHOOSE d \in dev : TRUE, rows |-> rows, ctx |-> ctx]))

------------------------------------------------------------------------------------------------------
(* Slices of the attribute space *)
CtxPlain  == {Ctx(e, FALSE, TRUE) : e \in {"REL", "DYN"}}
CtxKernel == {Ctx("EXEC", TRUE, m) : m \in BOOLEAN} \cup {Ctx("REL", TRUE, TRUE)}
CtxAll    == {Ctx(e, k, m) : e \in {"REL", "EXEC", "DYN"}, k \in BOOLEAN, m \in BOOLEAN}
CtxOne    == {Ctx("DYN", FALSE, TRUE)}

(* every row-local attribute combination (the filter is row-local): max = 1 *)
SliceFilter == {Row(n, t, b, v, sh, 0, 4, "", FALSE) : n \in {"a", ""}, t \in Types, b \in Binds, v \in Viss, sh \in {"UND", "ABS", "COM", "1"}}
(* addresses, sections, kinds and publicness (aliasing): max = 4.  A row named "#" takes the name of its position. *)
SliceAlias == {Row("#", t, bv[1], bv[2], pl[1], pl[2], 4, "", FALSE) :
                 t \in {"FUNC", "OBJECT", "TLS"}, bv \in {<<"GLOBAL", "DEFAULT">>, <<"LOCAL", "DEFAULT">>},
                 pl \in {<<"1", 0>>, <<"1", 1>>, <<"2", 0>>}}
              \cup {Row("#", "OBJECT", b, "DEFAULT", "COM", 8, 4, "", FALSE) : b \in {"GLOBAL", "LOCAL"}}
(* versions: max = 3 *)
SliceVersion == {Row(n, "FUNC", b, "DEFAULT", "1", val, 1, vd[1], vd[2]) :
                   n \in {"a", "b"}, b \in {"GLOBAL", "LOCAL"}, val \in {0, 1},
                   vd \in {<<"", FALSE>>, <<"V1", TRUE>>, <<"V1", FALSE>>, <<"V2", TRUE>>}}
(* kernel markers: max = 4 *)
SliceKernel ==
  {Row(n, t, b, "DEFAULT", "1", val, 4, "", FALSE) : n \in {"a", "b"}, t \in {"FUNC", "OBJECT"}, b \in {"LOCAL", "GLOBAL"}, val \in {0, 1}}
  \cup {Row(n, "NOTYPE", "LOCAL", "DEFAULT", "3", 0, 0, "", FALSE) : n \in {"__ksymtab_a", "__ksymtab_b", "__crc_a"}}
  \cup {Row(n, "FUNC", "LOCAL", "DEFAULT", "1", 0, 4, "", FALSE) : n \in {"__ksymtab_a"}}

(* rows the renderer can express in assembler (generation) *)
GenPlace == {<<"1", 0>>, <<"1", 1>>, <<"2", 0>>, <<"UND", 0>>, <<"ABS", 0>>, <<"COM", 0>>}
GenRows1 == {Row("s", t, b, v, pl[1], pl[2], sz, vd[1], vd[2]) :
               t \in {"FUNC", "OBJECT", "TLS", "IFUNC", "NOTYPE"}, b \in Binds, v \in Viss, pl \in GenPlace, sz \in {0, 8},
               vd \in {<<"", FALSE>>, <<"V1", TRUE>>, <<"V1", FALSE>>}}
GenRowsAlias == {Row("#", t, bv[1], bv[2], pl[1], pl[2], 4, "", FALSE) :
                   t \in {"FUNC", "OBJECT", "TLS"},
                   bv \in {<<"GLOBAL", "DEFAULT">>, <<"WEAK", "PROTECTED">>, <<"LOCAL", "DEFAULT">>, <<"GLOBAL", "HIDDEN">>},
                   pl \in {<<"1", 0>>, <<"1", 1>>, <<"2", 0>>}}
GenRowsVersion == {Row(n, t, "GLOBAL", "DEFAULT", "1", val, 4, vd[1], vd[2]) :
                   n \in {"a", "b"}, t \in {"FUNC", "OBJECT"}, val \in {0, 1},
                   vd \in {<<"", FALSE>>, <<"V1", TRUE>>, <<"V1", FALSE>>, <<"V2", TRUE>>}}
GenRowsKernel ==
  {Row(n, t, bv[1], bv[2], "1", val, 4, "", FALSE) : n \in {"a", "b", "c"}, t \in {"FUNC", "OBJECT"},
      bv \in {<<"GLOBAL", "DEFAULT">>, <<"LOCAL", "DEFAULT">>, <<"GLOBAL", "HIDDEN">>}, val \in {0, 1}}
  \cup {Row(n, "NOTYPE", "LOCAL", "DEFAULT", "3", 0, 0, "", FALSE) : n \in {"__ksymtab_a", "__ksymtab_b", "__ksymtab_d", "__crc_a"}}

RowsOf(s) == CASE s = "alias" -> SliceAlias [] s = "filter" -> SliceFilter [] s = "version" -> SliceVersion [] s = "kernel" -> SliceKernel
               [] s = "gen-row" -> GenRows1 [] s = "gen-alias" -> GenRowsAlias [] s = "gen-version" -> GenRowsVersion
               [] s = "gen-kernel" -> GenRowsKernel
CtxsOf(s) == CASE s = "alias" -> CtxPlain [] s = "filter" -> CtxAll [] s = "kernel" -> CtxKernel [] OTHER -> CtxOne

P(s, d, m) == [slice |-> s, dev |-> d, max |-> m]
DevMain == {"unwritten-main-hides-aliases"}
DevTls  == {"tls-offset-shares-address-map"}
DevKm   == {"kernel-mode-ignored"}
(* C18 *)
PlanC18Quick    == {P("alias", {}, 4), P("alias", AllDev, 3), P("filter", {}, 1), P("filter", AllDev, 1),
                    P("version", {}, 3), P("version", AllDev, 3), P("alias", DevMain, 3), P("alias", DevTls, 3)}
PlanC18Thorough == (PlanC18Quick \ {P("alias", AllDev, 3)}) \cup {P("alias", AllDev, 4)}
(* C28 *)
PlanC28Quick    == {P("kernel", {}, 3), P("kernel", AllDev, 3), P("kernel", DevKm, 2)}
PlanC28Thorough == {P("kernel", {}, 4), P("kernel", AllDev, 4), P("kernel", DevKm, 2)}
(* generators *)
PlanGenRow == {P("gen-row", {}, 1)}
PlanGenAlias2 == {P("gen-alias", {}, 2)}
PlanGenAlias3 == {P("gen-alias", {}, 3)}
PlanGenVersion == {P("gen-version", {}, 2)}
PlanGenKernel2 == {P("gen-kernel", {}, 2)}
PlanGenKernel3 == {P("gen-kernel", {}, 3)}

PosName == <<"s1", "s2", "s3", "s4", "s5", "s6">>
Init == \E p \in Plans : plan = p /\ dev = p.dev /\ rows = <<>> /\ ctx \in CtxsOf(p.slice)
Next == /\ Len(rows) < plan.max
        /\ \E r \in RowsOf(plan.slice) : rows' = Append(rows, IF r.name = "#" THEN [r EXCEPT !.name = PosName[Len(rows) + 1]] ELSE r)
        /\ WellFormed(rows')
        /\ UNCHANGED <<ctx, dev, plan>>
Spec == Init /\ [][Next]_vars

(* Generation: every reachable table is one case (CONSTRAINT GenEmit) *)
GenEmit == Len(rows) = 0 \/ PrintT(ToJson([rows |-> rows, ctx |-> ctx]))
====================================================================================================
