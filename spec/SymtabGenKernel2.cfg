\* generator: kernel tables with markers, <= 2 rows
CONSTANT Plans <- PlanGenKernel2
SPECIFICATION Spec
CONSTRAINT GenEmit
CHECK_DEADLOCK FALSE
