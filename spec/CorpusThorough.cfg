\* C17: as Corpus.cfg with the code as it is explored to 4 symbols
CONSTANTS Addrs = {0, 1}
          MaxDies = 3
          Plans <- PlanThorough
SPECIFICATION Spec
INVARIANTS Ideal Faithful Witness TypeOK
CHECK_DEADLOCK FALSE
