------------------------------------------ MODULE Writer ------------------------------------------
(* ABIXML emission (C04, later C03 / C40).  Part 1: attribute escaping.                              *)
(* Strings are sequences of tokens over Sigma (TLC cannot look inside strings): the five XML          *)
(* metacharacters, a plain letter and a non-ASCII letter.  Escape is the transcription of             *)
(* xml::escape_xml_string; an attribute value is written between single quotes.  Every attribute the  *)
(* writer emits from *input-controlled* text must go through Escape: AttrsFromInput lists them.       *)
EXTENDS Naturals, Sequences, FiniteSets, TLC, Json

CONSTANTS MaxLen

Sigma == {"a", "<", ">", "&", "'", "\"", "é"}
Meta == {"<", ">", "&", "'", "\""}
Entity(ch) == CASE ch = "<" -> "&lt;" [] ch = ">" -> "&gt;" [] ch = "&" -> "&amp;" [] ch = "'" -> "&apos;" [] ch = "\"" -> "&quot;"

(* xml::escape_xml_string, token-wise *)
Escape(s) == [i \in 1..Len(s) |-> IF s[i] \in Meta THEN Entity(s[i]) ELSE s[i]]
(* what an XML parser gives back for an attribute value written as the token sequence t *)
Unescape(t) == [i \in 1..Len(t) |-> CASE t[i] = "&lt;" -> "<" [] t[i] = "&gt;" -> ">" [] t[i] = "&amp;" -> "&" [] t[i] = "&apos;" -> "'"
                                       [] t[i] = "&quot;" -> "\"" [] OTHER -> t[i]]
(* a single-quoted attribute value is well-formed iff it has no raw '<', no raw '&' and no raw single quote *)
AttrWellFormed(t) == \A i \in 1..Len(t) : t[i] \notin {"<", "&", "'"}

(* Attributes whose text comes from the analysed binary (symbol names and versions, SONAME, DT_NEEDED, paths, *)
(* declaration and type names): each must be emitted through Escape.                                           *)
AttrsFromInput == {"abi-corpus/path", "abi-corpus/soname", "abi-corpus/architecture", "dependency/name",
                   "elf-symbol/name", "elf-symbol/version", "elf-symbol/alias", "*/elf-symbol-id", "*/mangled-name",
                   "abi-instr/path", "abi-instr/comp-dir-path", "*/filepath", "*/name"}
Emit(attr, s) == Escape(s)      \* the writer: every input-controlled attribute is escaped

VARIABLES s
Init == s = <<>>
Next == Len(s) < MaxLen /\ \E ch \in Sigma : s' = Append(s, ch)
Spec == Init /\ [][Next]_s

EscapeSound == \A a \in AttrsFromInput : AttrWellFormed(Emit(a, s)) /\ Unescape(Emit(a, s)) = s
(* generator: the strings used as symbol names / SONAMEs / directory names by the C04 campaign *)
EmitString == PrintT(ToJson([s |-> s]))
====================================================================================================
