------------------------------------------ MODULE Intern ------------------------------------------
(* String interning as abigail::interned_string_pool / environment::intern promise it (C42).        *)
(*                                                                                                  *)
(* State: the pool of one environment, a map content -> object, and the history of Intern calls     *)
(* with the object each one returned.  Objects are numbered in the order of their first appearance  *)
(* (the harness numbers raw pointers the same way; the null pointer that stands for "" is an object *)
(* like any other).  A content is a sequence of letters.                                            *)
(*                                                                                                  *)
(* The operators of class interned_string are transcribed on objects, the way the class computes    *)
(* them (pointer comparison, hash of the pointer, conversion through the pointed-to string); the    *)
(* property states that they agree with the same operators on the contents.                         *)
EXTENDS Naturals, Sequences, FiniteSets, TLC

CONSTANTS Contents,      \* the contents that may be interned (a set of sequences of letters)
          MaxCalls       \* maximal length of a history

ContentsSmall == {<<>>, <<"a">>, <<"a", "a">>, <<"a", "b">>}                      \* "", "a", "aa", "ab"
ContentsLarge == ContentsSmall \cup {<<"b">>, <<"a", "a", "a">>}

Rank(ch) == CASE ch = "a" -> 1 [] ch = "b" -> 2 [] ch = "c" -> 3 [] OTHER -> 9
Min2(a, b) == IF a <= b THEN a ELSE b
(* std::string::operator< : lexicographic, a proper prefix is smaller *)
StrLess(s, t) ==
  \E k \in 0..Min2(Len(s), Len(t)) :
     /\ SubSeq(s, 1, k) = SubSeq(t, 1, k)
     /\ \/ k = Len(s) /\ k < Len(t)
        \/ k < Len(s) /\ k < Len(t) /\ Rank(s[k+1]) < Rank(t[k+1])

VARIABLES pool,          \* [content -> object number], the contents interned so far
          hist           \* sequence of [c |-> content, o |-> object]: the Intern calls of this environment
vars == <<pool, hist>>

Init == pool = <<>> /\ hist = <<>>          \* <<>> is the function with the empty domain

(* what create_string does: look the content up, create a fresh object if it is new *)
ObjectFor(c) == IF c \in DOMAIN pool THEN pool[c] ELSE Cardinality(DOMAIN pool) + 1
Intern(c) == /\ pool' = IF c \in DOMAIN pool THEN pool ELSE [d \in DOMAIN pool \cup {c} |-> IF d = c THEN ObjectFor(c) ELSE pool[d]]
             /\ hist' = Append(hist, [c |-> c, o |-> ObjectFor(c)])
Next == Len(hist) < MaxCalls /\ \E c \in Contents : Intern(c)
Spec == Init /\ [][Next]_vars

Handles    == 1..Len(hist)
Content(i) == hist[i].c
Obj(i)     == hist[i].o
Same(i, j) == Obj(i) = Obj(j)                                   \* raw() pointers are equal
ObjStr(o)  == CHOOSE c \in DOMAIN pool : pool[c] = o            \* the string an object points to ("" for null)

(* ---- the operators of interned_string, as the class computes them ------------------------------ *)
OpEq(i, j)    == Obj(i) = Obj(j)                                \* raw_ == o.raw_
OpNe(i, j)    == ~OpEq(i, j)
OpLt(i, j)    == StrLess(ObjStr(Obj(i)), ObjStr(Obj(j)))        \* static_cast<string>(*this) < static_cast<string>(o)
OpEqStr(i, s) == ObjStr(Obj(i)) = s                             \* raw_ ? *raw_ == o : o.empty()
OpStr(i)      == ObjStr(Obj(i))                                 \* operator string()
OpEmpty(i)    == ObjStr(Obj(i)) = <<>>                          \* !raw_
OpHash(i)     == Obj(i)                                         \* std::hash of the pointer value: one value per object

(* ---- the property ----------------------------------------------------------------------------------- *)
SameIffEqualContents == \A i, j \in Handles : Same(i, j) <=> Content(i) = Content(j)
CompareLikeContents ==
  \A i, j \in Handles : /\ OpEq(i, j) = (Content(i) = Content(j))
                        /\ OpNe(i, j) = (Content(i) # Content(j))
                        /\ OpLt(i, j) = StrLess(Content(i), Content(j))
MixedCompareLikeContents == \A i \in Handles : \A s \in Contents : OpEqStr(i, s) = (Content(i) = s)
ConvertLikeContents == \A i \in Handles : OpStr(i) = Content(i) /\ OpEmpty(i) = (Content(i) = <<>>)
HashLikeContents == \A i, j \in Handles : Content(i) = Content(j) => OpHash(i) = OpHash(j)
(* a hash set of handles has one element per distinct content *)
SetLikeContents == Cardinality({OpHash(i) : i \in Handles}) = Cardinality({Content(i) : i \in Handles})

(* sanity of the order used above: a strict total order on the contents *)
OrderIsStrictTotal ==
  \A s, t \in Contents : /\ ~(StrLess(s, t) /\ StrLess(t, s))
                         /\ (s # t => StrLess(s, t) \/ StrLess(t, s))
                         /\ ~StrLess(s, s)
PoolWellFormed == /\ \A c, d \in DOMAIN pool : c # d => pool[c] # pool[d]
                  /\ {pool[c] : c \in DOMAIN pool} = 1..Cardinality(DOMAIN pool)
====================================================================================================
