CONSTANTS N = 3
  MaxRemoved = 1
  WithSup = FALSE
  WithRed = FALSE
SPECIFICATION Spec
INVARIANTS LatticeLeaf
CHECK_DEADLOCK FALSE
