CONSTANTS
  N = 3
  MaxKids = 2
  MaxEdges = 6
  Kinds = {}
  AllowDecl = FALSE
  GraphClass = "any"
  OrderClass = "any"
  CycleCheck = "set"
  Pass2Cancel = "flag"
  Outermost = "coded"
  PropagateDespiteCycle = FALSE
  Pass2ClearsDeps = FALSE
SPECIFICATION Spec
CHECK_DEADLOCK FALSE
INVARIANTS CanonIffBisim
