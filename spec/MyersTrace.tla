---------------------------------------- MODULE MyersTrace ----------------------------------------
(* Trace validation of diff_utils::compute_diff (C38).  Every event is one call recorded by         *)
(* harness/myers.cc: the two sequences, the predicate, the returned edit script (0-based indices,   *)
(* insertion point shifted by one so that "before the first element" is 0), the returned common     *)
(* subsequence and the returned length.  The step is enabled for any call; the verdict says whether *)
(* the recorded result is one the contract of Myers.tla allows.                                     *)
EXTENDS Myers, Json, IOUtils, KnownFindings

T == ndJsonDeserialize(IOEnv.TRACE)
VARIABLES l, verdict

Inc(s) == [i \in 1..Len(s) |-> s[i] + 1]
Ins(ev) == [i \in 1..Len(ev.ins) |-> [at |-> ev.ins[i].at, idx |-> Inc(ev.ins[i].idx)]]
Pts(ev) == [i \in 1..Len(ev.lcs) |-> <<ev.lcs[i][1] + 1, ev.lcs[i][2] + 1>>]

Verdict(ev) ==
  IF ev.ret # "ok" THEN "bad:call-did-not-return"
  ELSE IF ~ScriptCorrect(ev.a, ev.b, ev.mode, Inc(ev.del), Ins(ev), ev.seslen) THEN "bad:edit-script"
  ELSE IF LcsCorrect(ev.a, ev.b, ev.mode, Pts(ev)) THEN "ok"
  ELSE IF KF_C38_lcs(ev) THEN "kf:C38-lcs-points" ELSE "bad:lcs"

TInit == l = 1 /\ verdict = "ok" /\ A = <<>> /\ B = <<>> /\ mode = "id"
TDiff == /\ T[l].e = "Diff"
         /\ A' = T[l].a /\ B' = T[l].b /\ mode' = T[l].mode
         /\ verdict' = Verdict(T[l])
TNext == l <= Len(T) /\ l' = l + 1 /\ TDiff
TSpec == TInit /\ [][TNext]_<<vars, l, verdict>>

Report == verdict = "ok" \/ PrintT(ToJson([i |-> l - 1, v |-> verdict]))
Accepted == TLCGet("stats").diameter - 1 = Len(T)
====================================================================================================
