---------------------------------------- MODULE MyersTrace ----------------------------------------
(* Trace validation of diff_utils::compute_diff (C38).  Every event is one call recorded by         *)
(* harness/myers.cc: the two sequences, the predicate, the returned edit script (0-based indices,   *)
(* insertion point shifted by one so that "before the first element" is 0), the returned common     *)
(* subsequence and the returned length.  The step is enabled for any call; the verdict says whether *)
(* the recorded result is one the contract of Myers.tla allows.                                     *)
EXTENDS Myers, Json, IOUtils, KnownFindings

T == ndJsonDeserialize(IOEnv.TRACE)
VARIABLES l, verdict

Inc(s) == [i \in 1..Len(s) |-> s[i] + 1]
Ins(ev) == [i \in 1..Len(ev.ins) |-> [at |-> ev.ins[i].at, idx |-> Inc(ev.ins[i].idx)]]
Pts(ev) == [i \in 1..Len(ev.lcs) |-> <<ev.lcs[i][1] + 1, ev.lcs[i][2] + 1>>]

(* ev.ov names the overload that was called (0: iterators + lcs + ses + ses_len; 1-3: with explicit bases; 4, 5: without ses_len / *)
(* without the common subsequence); an overload that does not return the length (seslen = -1) or the subsequence (hasLcs = FALSE)   *)
(* is judged on what it returns.  Indices are relative to the beginning of the two sequences whatever the bases were.               *)
SesLen(ev) == IF ev.seslen = -1 THEN ScriptLen(Inc(ev.del), Ins(ev)) ELSE ev.seslen
Negative(ev) == \/ \E i \in 1..Len(ev.del) : ev.del[i] < 0
                \/ \E i \in 1..Len(ev.ins) : ev.ins[i].at < 0 \/ \E k \in 1..Len(ev.ins[i].idx) : ev.ins[i].idx[k] < 0
                \/ \E i \in 1..Len(ev.lcs) : ev.lcs[i][1] < 0 \/ ev.lcs[i][2] < 0
Verdict(ev) ==
  IF ev.ret # "ok" THEN "bad:call-did-not-return"
  ELSE IF Negative(ev) THEN "bad:index-before-the-beginning-of-the-sequence"
  ELSE IF ~ScriptCorrect(ev.a, ev.b, ev.mode, Inc(ev.del), Ins(ev), SesLen(ev)) THEN "bad:edit-script"
  ELSE IF ~ev.hasLcs THEN "ok"
  ELSE IF LcsCorrect(ev.a, ev.b, ev.mode, Pts(ev)) THEN "ok"
  ELSE IF KF_C38_lcs(ev) THEN "kf:C38-lcs-points" ELSE "bad:lcs"

TInit == l = 1 /\ verdict = "ok" /\ A = <<>> /\ B = <<>> /\ mode = "id"
TDiff == /\ T[l].e = "Diff"
         /\ A' = T[l].a /\ B' = T[l].b /\ mode' = T[l].mode
         /\ verdict' = Verdict(T[l])
TNext == l <= Len(T) /\ l' = l + 1 /\ TDiff
TSpec == TInit /\ [][TNext]_<<vars, l, verdict>>

Report == verdict = "ok" \/ PrintT(ToJson([i |-> l - 1, v |-> verdict]))
Accepted == TLCGet("stats").diameter - 1 = Len(T)
====================================================================================================
