CONSTANTS Names = {}
          HashRange = 1
          Step = 1
SPECIFICATION TSpec
INVARIANTS Report Conformance
POSTCONDITION Accepted
CHECK_DEADLOCK FALSE
