---------------------------------------- MODULE RegexTrace ----------------------------------------
(* Trace validation of regex::generate_from_strings / compile / match (C27, campaign A).  Events are *)
(* recorded by harness/regexh.cc:                                                                    *)
(*   {"e":"GenSet","set":[[tokens]..],"tokens":[..],"maxlen":n,"pat":[bytes],"compiled":bool,       *)
(*    "matched":[[tokens]..],"ret":"ok"}    matched = EVERY string of at most maxlen tokens over      *)
(*                                          `tokens` that match() accepted for the generated pattern  *)
(*   {"e":"Gen","set":[[tokens]..],"x":[tokens],"pat":[bytes],"compiled":bool,"match":bool,"ret":"ok"} *)
(* The verdict is the declarative statement of the property -- "a string matches the generated       *)
(* pattern if and only if it was present in the vector" -- on the recorded result; it does not use   *)
(* the ERE interpreter.  Independently, Conformance prints every event on which the transcription    *)
(* (Regex!Gen) or the interpreter (Regex!MatchAst) does not reproduce what the implementation did    *)
(* (evidence about the faithfulness of the model; it never rejects a trace).                         *)
EXTENDS Regex, IOUtils

(* ---- known findings of C27 (campaign A): FALSE placeholders, to be moved to KnownFindings.tla ---- *)
KF_C27_regex(ev) == FALSE
(* ------------------------------------------------------------------------------------------------- *)

T == ndJsonDeserialize(IOEnv.TRACE)
VARIABLES l, verdict

ToSet(s) == {s[i] : i \in 1..Len(s)}
InSpace(ev, x) == Len(x) <= ev.maxlen /\ Range(x) \subseteq ToSet(ev.tokens)

VGenSet(ev) ==
  LET S == ToSet(ev.set) M == ToSet(ev.matched)
  IN IF ev.ret # "ok" THEN "bad:call-did-not-return"
     ELSE IF ~ev.compiled THEN "bad:generated-pattern-does-not-compile"
     ELSE IF M \ S # {} THEN "bad:string-outside-the-vector-matches"
     ELSE IF \E x \in S : InSpace(ev, x) /\ x \notin M THEN "bad:member-of-the-vector-does-not-match"
     ELSE "ok"
VGen(ev) ==
  IF ev.ret # "ok" THEN "bad:call-did-not-return"
  ELSE IF ~ev.compiled THEN "bad:generated-pattern-does-not-compile"
  ELSE IF ev.match /\ ev.x \notin ToSet(ev.set) THEN "bad:string-outside-the-vector-matches"
  ELSE IF ~ev.match /\ ev.x \in ToSet(ev.set) THEN "bad:member-of-the-vector-does-not-match"
  ELSE "ok"
Verdict(ev) ==
  LET v == CASE ev.e = "GenSet" -> VGenSet(ev) [] ev.e = "Gen" -> VGen(ev) [] OTHER -> "bad:unknown-event"
  IN IF v # "ok" /\ KF_C27_regex(ev) THEN "kf:C27-regex" ELSE v

Follows(ev) ==
  LET ast == Parse(Gen(ev.set))
  IN IF ev.pat # Gen(ev.set) THEN "pattern-differs"
     ELSE IF ast.k = "undef" THEN "pattern-undefined-in-model"
     ELSE IF ev.e = "GenSet"
          THEN (IF \A x \in ToSet(ev.set) \cup ToSet(ev.matched) : MatchAst(ast, x) <=> x \in ToSet(ev.matched) THEN "both" ELSE "match-differs")
          ELSE (IF MatchAst(ast, ev.x) <=> ev.match THEN "both" ELSE "match-differs")

TInit == l = 1 /\ verdict = "ok" /\ strs = <<>>
TNext == /\ l <= Len(T) /\ l' = l + 1
         /\ strs' = T[l].set
         /\ verdict' = Verdict(T[l])
TSpec == TInit /\ [][TNext]_<<vars, l, verdict>>

Report == verdict = "ok" \/ PrintT(ToJson([i |-> l - 1, v |-> verdict]))
Conformance == l = 1 \/ T[l-1].e \notin {"GenSet", "Gen"} \/ T[l-1].ret # "ok" \/ Follows(T[l-1]) = "both"
               \/ PrintT(ToJson([at |-> l - 1, follows |-> Follows(T[l-1])]))
Accepted == TLCGet("stats").diameter - 1 = Len(T)
====================================================================================================
