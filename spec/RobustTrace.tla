---------------------------------------- MODULE RobustTrace ----------------------------------------
(* Totality of tool runs on hostile inputs (C25; shared shape with C33-C35): every run ends in a      *)
(* normal process exit -- whatever the status -- with no signal, no failed assertion, no sanitizer     *)
(* report and no time-out; crashes whose innermost non-runtime frame lies in a foreign library are     *)
(* recorded but not attributed.  Event: {"e":"Run","tool","input" (class of the input),"ret","kind",  *)
(* "fn","foreign"}.  The class key of a finding is input|tool|kind|fn (never a line number).           *)
EXTENDS Naturals, Sequences, TLC, Json, IOUtils, KnownFindings

T == ndJsonDeserialize(IOEnv.TRACE)
VARIABLES l, verdict

Key(ev) == ev.input \o "|" \o ev.tool \o "|" \o ev.kind \o "|" \o ev.fn
Verdict(ev) ==
  IF ev.ret = "ok" THEN "ok"
  ELSE IF ev.foreign THEN "ok"
  ELSE IF KF_C25(ev) THEN "kf:" \o KF_C25_Id(ev)
  ELSE "bad:" \o ev.kind \o "-in-" \o ev.fn

TInit == l = 1 /\ verdict = "ok"
TNext == l <= Len(T) /\ l' = l + 1 /\ verdict' = Verdict(T[l])
TSpec == TInit /\ [][TNext]_<<l, verdict>>
Report == verdict = "ok" \/ PrintT(ToJson([i |-> l - 1, v |-> verdict]))
Accepted == TLCGet("stats").diameter - 1 = Len(T)
====================================================================================================
