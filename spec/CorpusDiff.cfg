CONSTANTS Names = {"fn1", "fn2"}
  Versions = {"V1"}
  MaxSyms = 3
SPECIFICATION Spec
INVARIANTS MirrorOrKnown SetDifferenceOrKnown SelfDiffEmpty ExitLattice
CHECK_DEADLOCK FALSE
