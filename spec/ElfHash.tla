------------------------------------------ MODULE ElfHash ------------------------------------------
(* ELF symbol hash tables as a linker emits them and as libabigail walks them (properties C37, C34). *)
(*                                                                                                    *)
(*  (a) BuildSysV / BuildGnu : what ld.bfd / ld.lld / ld.gold emit for a dynamic symbol table         *)
(*  (b) LookupSysV / LookupGnu : *transcriptions* of lookup_symbol_from_sysv_hash_tab,                *)
(*      setup_gnu_ht + lookup_symbol_from_gnu_hash_tab (src/abg-dwarf-reader.cc) over a section       *)
(*      modelled as a flat array of 32-bit words, every read with an explicit index, so that          *)
(*      "OOB" (read outside the section data), "Assert" (ABG_ASSERT(gelf_getsym(..)) on an index past *)
(*      the symbol table), "DivZero" (% by a zero word), "BadShift" (>> by >= the word width: UB) and  *)
(*      "Loop" (the walk revisits an index: it never ends) are explicit outcomes TLC can reach          *)
(*  (c) SelectSection : find_hash_table_section_index (src/abg-elf-helpers.cc) over the sections in    *)
(*      file order                                                                                     *)
(*  (d) versions : rows carry a .gnu.version entry [idx, hid]; get_version_for_symbol                 *)
(*                                                                                                    *)
(* Every transcribed operator X has a corrected variant XFixed (what patches/C37-*.diff, C34-*.diff   *)
(* do to the code).  The BOOLEAN constants FixedSelect / FixedSysV / FixedGnu say which of the two     *)
(* stands for the implementation ("XImpl"); checks/C37.py sets them from fingerprints of the           *)
(* transcribed source lines, so once /repo is repaired the strict properties are what is checked.      *)
(*                                                                                                    *)
(* Abstractions (stated, not hidden): names are small naturals and the two hash functions are given   *)
(* as functions Names -> Nat (the renderer computes the real 32-bit hashes and logs them as facts);    *)
(* a bloom word has BloomBits bits and occupies ONE array cell (the ELFCLASS32 layout; in ELFCLASS64   *)
(* it occupies two cells, bf_size = 2 * bf_nwords, which shifts addresses but adds no behaviour);      *)
(* BloomBits is also the width of size_t for the purpose of "shift count too large".                   *)
EXTENDS Naturals, Integers, Sequences, FiniteSets, TLC

CONSTANTS Names,        \* names that occur in symbol tables and queries (small naturals)
          MaxSyms,      \* rows of .dynsym besides the null symbol
          Buckets,      \* set of bucket counts a linker may choose
          VerSyms,      \* .gnu.version entries a row may carry: records [idx |-> 0.., hid |-> BOOLEAN]
          VerDefs,      \* version indices defined by .gnu.version_d (>= 2)
          BloomBits,    \* C : bits per bloom word (64 in an ELFCLASS64 file)
          BloomShapes,  \* set of [nw |-> words, shift |-> s] the linker may choose
          Hashes,       \* set of records [s |-> [Names -> Nat], g |-> [Names -> Nat]] : candidate hash functions
          MaxSecs,      \* sections enumerated by the selection space
          CorruptLens,  \* corrupt space: sections of these many words ...
          CorruptMax,   \* ... each word in 0..CorruptMax
          CorruptSyms,  \* ... walked against symbol tables of these sizes
          CorruptHashes,\* ... for queries with these hash values
          FixedSelect, FixedSysV, FixedGnu   \* which transcription stands for the implementation

NoName == -1
Min(S) == CHOOSE x \in S : \A y \in S : x <= y
RECURSIVE Pow2(_)
Pow2(k) == IF k = 0 THEN 1 ELSE 2 * Pow2(k - 1)
Bit(w, b) == (w \div Pow2(b)) % 2 = 1
SumBits(S) == LET F[b \in 0..BloomBits] == IF b = 0 THEN 0 ELSE F[b-1] + (IF (b-1) \in S THEN Pow2(b-1) ELSE 0)
              IN F[BloomBits]
Even(h) == h - (h % 2)                          \* h & ~1
InSec(ht, k) == k >= 0 /\ k < Len(ht)           \* word k (0-based) lies inside the section data
W(ht, k) == ht[k + 1]                           \* the 0-based read ht_data[k]
Flat(f, n) == [k \in 1..n |-> f[k - 1]]         \* a 0-based function as a sequence

(* ---------------------------------------------------------------------------------------------- *)
(* Symbol tables.  dyn is a sequence of rows; dyn[i+1] is the symbol with index i; index 0 is the   *)
(* null symbol.                                                                                     *)
NullRow == [name |-> NoName, def |-> FALSE, vs |-> [idx |-> 0, hid |-> FALSE]]
Unversioned == [idx |-> 1, hid |-> FALSE]
Row(n, d, v) == [name |-> n, def |-> d, vs |-> v]
Sym(dyn, i) == dyn[i + 1]

(* get_version_for_symbol(.., get_def_version = true): entries 0, 1, 0x8000, 0x8001 carry no version; *)
(* otherwise the version is the verdef whose vd_ndx equals idx, if any.  0 stands for "no version".   *)
VerOf(row) == IF row.vs.idx <= 1 THEN 0 ELSE IF row.vs.idx \in VerDefs THEN row.vs.idx ELSE 0

(* What a linker guarantees about .dynsym: an undefined name occurs once, unversioned (no verneed in *)
(* this model), and is not also defined; two definitions of a name differ in their version entry;    *)
(* a name has at most one default definition.                                                        *)
ValidDyn(dyn) ==
  /\ Len(dyn) >= 1 /\ dyn[1] = NullRow
  /\ \A i \in 2..Len(dyn) : /\ dyn[i].name \in Names
                            /\ (~dyn[i].def => dyn[i].vs = Unversioned)
  /\ \A i, j \in 2..Len(dyn) : (i # j /\ dyn[i].name = dyn[j].name) =>
        /\ dyn[i].def /\ dyn[j].def
        /\ dyn[i].vs.idx # dyn[j].vs.idx
        /\ ~(~dyn[i].vs.hid /\ ~dyn[j].vs.hid /\ dyn[i].vs.idx > 1 /\ dyn[j].vs.idx > 1)

(* Ground truth (what readelf --dyn-syms -V shows): the versions of the defined rows named n.       *)
DefinedIdx(dyn, n) == {i \in 1..Len(dyn)-1 : Sym(dyn, i).name = n /\ Sym(dyn, i).def}
Present(dyn, n) == DefinedIdx(dyn, n) # {}
BagOf(S, f(_)) == [v \in {0} \cup VerDefs |-> Cardinality({x \in S : f(x) = v})]
ExpectedVersions(dyn, n) == LET V(i) == VerOf(Sym(dyn, i)) IN BagOf(DefinedIdx(dyn, n), V)

(* ---------------------------------------------------------------------------------------------- *)
(* (a) The linker.                                                                                  *)
(* SysV: every symbol of .dynsym (defined or not) is hashed; nchain = number of symbols; a symbol   *)
(* is pushed at the head of its bucket's chain (bfd elf_link_output_extsym / lld HashTableSection). *)
BuildSysV(dyn, hs, nb) ==
  LET n == Len(dyn)
      Bk(i) == hs[Sym(dyn, i).name] % nb
      Top(S) == IF S = {} THEN 0 ELSE CHOOSE x \in S : \A y \in S : x >= y
      Bucket(b) == Top({i \in 1..n-1 : Bk(i) = b})                     \* the last symbol pushed on bucket b
      Chain(i) == IF i = 0 THEN 0 ELSE Top({j \in 1..i-1 : Bk(j) = Bk(i)})   \* the head when i was pushed
  IN <<nb, n>> \o [k \in 1..nb |-> Bucket(k-1)] \o [k \in 1..n |-> Chain(k-1)]

(* GNU: only defined symbols are hashed; .dynsym is reordered: null, the undefined ones, then the   *)
(* defined ones grouped by bucket (stable).                                                         *)
GnuOrder(dyn, hg, nb) ==
  LET rows == Tail(dyn)
      IsU(r) == ~r.def
      F[b \in 0..nb] == IF b = 0 THEN <<>>
                        ELSE F[b-1] \o SelectSeq(rows, LAMBDA r : r.def /\ hg[r.name] % nb = b - 1)
  IN <<NullRow>> \o SelectSeq(rows, IsU) \o F[nb]
SymOffset(dyn) == 1 + Cardinality({i \in 1..Len(dyn)-1 : ~Sym(dyn, i).def})
GnuOrdered(dyn, hg, nb) == dyn = GnuOrder(dyn, hg, nb)

(* dyn must be GnuOrdered; symoff = index of the first hashed symbol; bloom = [nw, shift].           *)
BuildGnu(dyn, hg, nb, symoff, bloom) ==
  LET n == Len(dyn)
      hashed == symoff..(n-1)
      H(i) == hg[Sym(dyn, i).name]
      Bits(w) == UNION {{H(i) % BloomBits, (H(i) \div Pow2(bloom.shift)) % BloomBits} :
                        i \in {j \in hashed : (H(j) \div BloomBits) % bloom.nw = w}}
      Bucket(b) == LET S == {i \in hashed : H(i) % nb = b} IN IF S = {} THEN 0 ELSE Min(S)
      ChainV(i) == Even(H(i)) + (IF i = n-1 \/ H(i+1) % nb # H(i) % nb THEN 1 ELSE 0)
  IN <<nb, symoff, bloom.nw, bloom.shift>>
     \o [w \in 1..bloom.nw |-> SumBits(Bits(w-1))]
     \o [b \in 1..nb |-> Bucket(b-1)]
     \o [k \in 1..(n - symoff) |-> ChainV(symoff + k - 1)]

(* ---------------------------------------------------------------------------------------------- *)
(* (b) The walks.  A result is [out, hits, at]; hits is the sequence of [sym, ver] pushed to        *)
(* syms_found.  Every read of section word a is guarded by Bad(ht, a): outside the section data the   *)
(* outcome is "OOB".  (Model device for the corrupt space: a word whose content has not been chosen   *)
(* yet holds Unread and the outcome is "Need" with the address in `at`; complete tables never say so.) *)
Unread == -1
Fault(ht, a) == IF a < 0 \/ a >= Len(ht) THEN "OOB" ELSE IF ht[a + 1] = Unread THEN "Need" ELSE "none"
Bad(ht, a) == Fault(ht, a) # "none"
RF(ht, a, hits) == [out |-> Fault(ht, a), hits |-> hits, at |-> a]
R(o, hits) == [out |-> o, hits |-> hits, at |-> -1]
NotFound == R("ok", <<>>)
Hit(i, v) == [sym |-> i, ver |-> v]

(* --- lookup_symbol_from_sysv_hash_tab, abg-dwarf-reader.cc:797-881 ------------------------------ *)
(*   nb_buckets = ht_data[0]; nb_chains = ht_data[1]; if (nb_buckets == 0) return false;             *)
(*   symbol_index = ht_buckets[hash % nb_buckets];                                                   *)
(*   do { ABG_ASSERT(gelf_getsym(sym_tab_data, symbol_index, &symbol)); ... compare, push ...        *)
(*        symbol_index = ht_chains[symbol_index];                                                    *)
(*   } while (symbol_index != STN_UNDEF || symbol_index >= nb_chains);                               *)
(* The body runs at least once (also for an empty bucket: symbol 0, whose name is empty).  `ver` is  *)
(* declared inside the loop.  The loop's control state is symbol_index alone, so revisiting an index *)
(* means the loop never ends.                                                                        *)
RECURSIVE SysVWalk(_, _, _, _, _, _)
SysVWalk(ht, dyn, name, idx, seen, hits) ==
  LET nb == W(ht, 0)
      nc == W(ht, 1)
  IN IF idx >= Len(dyn) THEN R("Assert", hits)
     ELSE LET hits2 == IF Sym(dyn, idx).name = name THEN Append(hits, Hit(idx, VerOf(Sym(dyn, idx)))) ELSE hits
              a == 2 + nb + idx
          IN IF Bad(ht, a) THEN RF(ht, a, hits2)
             ELSE LET nxt == W(ht, a)
                  IN IF ~(nxt # 0 \/ nxt >= nc) THEN R("ok", hits2)
                     ELSE IF nxt \in seen THEN R("Loop", hits2)
                     ELSE SysVWalk(ht, dyn, name, nxt, seen \cup {nxt}, hits2)

LookupSysV(ht, dyn, name, h) ==
  IF Bad(ht, 0) THEN RF(ht, 0, <<>>)
  ELSE IF Bad(ht, 1) THEN RF(ht, 1, <<>>)
  ELSE LET nb == W(ht, 0)
       IN IF nb = 0 THEN NotFound
          ELSE LET a == 2 + (h % nb)
               IN IF Bad(ht, a) THEN RF(ht, a, <<>>)
                  ELSE SysVWalk(ht, dyn, name, W(ht, a), {W(ht, a)}, <<>>)

(* corrected: the header must fit the section, indices must be < nchain and inside the symbol table, *)
(* the chain ends at STN_UNDEF, and at most nchain links are followed.                               *)
RECURSIVE SysVWalkFixed(_, _, _, _, _, _)
SysVWalkFixed(ht, dyn, name, idx, steps, hits) ==
  LET nb == W(ht, 0)
      nc == W(ht, 1)
  IN IF idx = 0 \/ idx >= nc \/ steps >= nc \/ idx >= Len(dyn) THEN R("ok", hits)
     ELSE LET hits2 == IF Sym(dyn, idx).name = name THEN Append(hits, Hit(idx, VerOf(Sym(dyn, idx)))) ELSE hits
              a == 2 + nb + idx
          IN IF Bad(ht, a) THEN RF(ht, a, hits2)          \* never "OOB": a < 2 + nb + nc <= Len(ht)
             ELSE SysVWalkFixed(ht, dyn, name, W(ht, a), steps + 1, hits2)

LookupSysVFixed(ht, dyn, name, h) ==
  IF Len(ht) < 2 THEN NotFound
  ELSE IF Bad(ht, 0) THEN RF(ht, 0, <<>>)
  ELSE IF Bad(ht, 1) THEN RF(ht, 1, <<>>)
  ELSE LET nb == W(ht, 0)
           nc == W(ht, 1)
       IN IF nb = 0 \/ Len(ht) < 2 + nb + nc THEN NotFound
          ELSE LET a == 2 + (h % nb)
               IN IF Bad(ht, a) THEN RF(ht, a, <<>>)
                  ELSE SysVWalkFixed(ht, dyn, name, W(ht, a), 0, <<>>)

(* --- setup_gnu_ht + lookup_symbol_from_gnu_hash_tab, abg-dwarf-reader.cc:1004-1175 -------------- *)
(*   nb_buckets = ht_data[0]; if (nb_buckets == 0) return false;                                     *)
(*   first_sym_index = ht_data[1]; bf_nwords = ht_data[2]; shift = ht_data[3];                       *)
(*   bloom_filter = &ht_data[4]; buckets = bloom_filter + bf_size; chain = buckets + nb_buckets;     *)
(*   sym_count = sh_size / sh_entsize of the symbol table                                            *)
(*   h2 = h1 >> shift; n = (h1 / c) % bf_nwords; bitmask = 1 << (h1 % c) | 1 << (h2 % c);            *)
(*   if ((bloom_word_at(n) & bitmask) != bitmask) return false;                                      *)
(*   i = buckets[h1 % nb_buckets]; if (i == STN_UNDEF) return false;                                 *)
(*   for (stop_wordp = &chain[i - first_sym_index];                                                  *)
(*        i != STN_UNDEF && stop_wordp < chain + (sym_count - first_sym_index); ++i, ++stop_wordp)   *)
(*     { stop_word = *stop_wordp;                                                                    *)
(*       if ((stop_word & ~1) != (h1 & ~1)) continue;        <- skips the end-of-chain test below     *)
(*       ABG_ASSERT(gelf_getsym(.., i, &symbol)); compare; get_version_for_symbol(.., ver); push      *)
(*       if (stop_word & 1) break; }                                                                 *)
(* `ver` is declared OUTSIDE the loop and get_version_for_symbol leaves it untouched when the symbol *)
(* has no version: the version of an earlier hit leaks into a later unversioned one.                 *)
(* p = i - first_sym_index is the (signed) offset of stop_wordp from chain; a negative p is a read    *)
(* below the chain array (pointer arithmetic wrapped): "OOB".                                        *)
RECURSIVE GnuWalk(_, _, _, _, _, _, _, _)
GnuWalk(ht, dyn, name, h, i, p, ver, hits) ==
  LET nb == W(ht, 0)
      symoff == W(ht, 1)
      cbase == 4 + W(ht, 2) + nb
  IN IF ~(i # 0 /\ p < Len(dyn) - symoff) THEN R("ok", hits)
     ELSE IF p < 0 THEN R("OOB", hits)
     ELSE IF Bad(ht, cbase + p) THEN RF(ht, cbase + p, hits)
     ELSE LET stop == W(ht, cbase + p)
          IN IF Even(stop) # Even(h) THEN GnuWalk(ht, dyn, name, h, i + 1, p + 1, ver, hits)
             ELSE IF i >= Len(dyn) THEN R("Assert", hits)
             ELSE LET match == Sym(dyn, i).name = name
                      v == VerOf(Sym(dyn, i))
                      ver2 == IF match /\ v # 0 THEN v ELSE ver
                      hits2 == IF match THEN Append(hits, Hit(i, ver2)) ELSE hits
                  IN IF stop % 2 = 1 THEN R("ok", hits2)
                     ELSE GnuWalk(ht, dyn, name, h, i + 1, p + 1, ver2, hits2)

LookupGnu(ht, dyn, name, h) ==
  IF Bad(ht, 0) THEN RF(ht, 0, <<>>)
  ELSE IF W(ht, 0) = 0 THEN NotFound
  ELSE IF Bad(ht, 1) THEN RF(ht, 1, <<>>)
  ELSE IF Bad(ht, 2) THEN RF(ht, 2, <<>>)
  ELSE IF Bad(ht, 3) THEN RF(ht, 3, <<>>)
  ELSE LET nb == W(ht, 0)
           symoff == W(ht, 1)
           nw == W(ht, 2)
           shift == W(ht, 3)
       IN IF shift >= BloomBits THEN R("BadShift", <<>>)
          ELSE IF nw = 0 THEN R("DivZero", <<>>)
          ELSE LET n == (h \div BloomBits) % nw
                   b1 == h % BloomBits
                   b2 == (h \div Pow2(shift)) % BloomBits
               IN IF Bad(ht, 4 + n) THEN RF(ht, 4 + n, <<>>)
                  ELSE IF ~(Bit(W(ht, 4 + n), b1) /\ Bit(W(ht, 4 + n), b2)) THEN NotFound
                  ELSE LET ba == 4 + nw + (h % nb)
                       IN IF Bad(ht, ba) THEN RF(ht, ba, <<>>)
                          ELSE IF W(ht, ba) = 0 THEN NotFound
                          ELSE GnuWalk(ht, dyn, name, h, W(ht, ba), W(ht, ba) - symoff, 0, <<>>)

(* corrected: the header must describe arrays that fit the section and the symbol table, the bucket  *)
(* value must be a hashed symbol, the end-of-chain bit is honoured on every entry, `ver` is per hit. *)
RECURSIVE GnuWalkFixed(_, _, _, _, _, _, _)
GnuWalkFixed(ht, dyn, name, h, i, p, hits) ==
  LET nb == W(ht, 0)
      symoff == W(ht, 1)
      cbase == 4 + W(ht, 2) + nb
  IN IF ~(p < Len(dyn) - symoff) THEN R("ok", hits)
     ELSE IF Bad(ht, cbase + p) THEN RF(ht, cbase + p, hits)      \* never "OOB": see GnuHeaderFits
     ELSE LET stop == W(ht, cbase + p)
              match == Even(stop) = Even(h) /\ Sym(dyn, i).name = name
              hits2 == IF match THEN Append(hits, Hit(i, VerOf(Sym(dyn, i)))) ELSE hits
          IN IF stop % 2 = 1 THEN R("ok", hits2)
             ELSE GnuWalkFixed(ht, dyn, name, h, i + 1, p + 1, hits2)

GnuHeaderFits(ht, symN) ==        \* on known header words
  /\ W(ht, 0) # 0 /\ W(ht, 2) # 0 /\ W(ht, 3) < BloomBits
  /\ W(ht, 1) <= symN
  /\ Len(ht) >= 4 + W(ht, 2) + W(ht, 0) + (symN - W(ht, 1))
GnuHeaderOk(ht, symN) == InSec(ht, 3) /\ GnuHeaderFits(ht, symN)

LookupGnuFixed(ht, dyn, name, h) ==
  IF Len(ht) < 4 THEN NotFound
  ELSE IF Bad(ht, 0) THEN RF(ht, 0, <<>>)
  ELSE IF W(ht, 0) = 0 THEN NotFound
  ELSE IF Bad(ht, 1) THEN RF(ht, 1, <<>>)
  ELSE IF Bad(ht, 2) THEN RF(ht, 2, <<>>)
  ELSE IF Bad(ht, 3) THEN RF(ht, 3, <<>>)
  ELSE IF ~GnuHeaderFits(ht, Len(dyn)) THEN NotFound
  ELSE LET nb == W(ht, 0)
           symoff == W(ht, 1)
           nw == W(ht, 2)
           shift == W(ht, 3)
           wa == 4 + ((h \div BloomBits) % nw)
           ba == 4 + nw + (h % nb)
       IN IF Bad(ht, wa) THEN RF(ht, wa, <<>>)
          ELSE IF ~(Bit(W(ht, wa), h % BloomBits) /\ Bit(W(ht, wa), (h \div Pow2(shift)) % BloomBits)) THEN NotFound
          ELSE IF Bad(ht, ba) THEN RF(ht, ba, <<>>)
          ELSE LET i == W(ht, ba)
               IN IF i = 0 \/ i < symoff \/ i >= Len(dyn) THEN NotFound      \* STN_UNDEF, or not a hashed symbol
                  ELSE GnuWalkFixed(ht, dyn, name, h, i, i - symoff, <<>>)

(* --- lookup_symbol_from_symtab (no hash section): linear scan, versions by definedness ------------ *)
LookupLinear(dyn, name) ==
  LET F[i \in 0..Len(dyn)-1] ==
        LET prev == IF i = 0 THEN <<>> ELSE F[i-1]
        IN IF Sym(dyn, i).name = name
           THEN Append(prev, Hit(i, IF Sym(dyn, i).def THEN VerOf(Sym(dyn, i)) ELSE 0)) ELSE prev
  IN R("ok", F[Len(dyn)-1])

(* ---------------------------------------------------------------------------------------------- *)
(* (c) find_hash_table_section_index, abg-elf-helpers.cc:476-509.  secs[k] = [kind, link] is the    *)
(* section with index k; kind is "hash" (SHT_HASH), "gnu" (SHT_GNU_HASH) or anything else.          *)
(*   for every section: if (type != SHT_HASH && type != SHT_GNU_HASH) continue;                      *)
(*                      ht_section_index = ndx; symtab_section_index = sh_link; found_<type> = true; *)
(*   return found_gnu ? GNU : found_sysv ? SYSV : NONE;                                              *)
IsHt(s) == s.kind \in {"hash", "gnu"}
HtIdx(secs) == {k \in 1..Len(secs) : IsHt(secs[k])}
Max(S) == CHOOSE x \in S : \A y \in S : x >= y
SelectSection(secs) ==
  IF HtIdx(secs) = {} THEN [kind |-> "none", index |-> 0, symtab |-> 0]
  ELSE LET last == Max(HtIdx(secs))
       IN [kind |-> IF \E k \in HtIdx(secs) : secs[k].kind = "gnu" THEN "gnu" ELSE "hash",
           index |-> last, symtab |-> secs[last].link]
(* corrected: the index and the symbol-table link are those of a section of the reported kind.      *)
SelectSectionFixed(secs) ==
  IF HtIdx(secs) = {} THEN [kind |-> "none", index |-> 0, symtab |-> 0]
  ELSE LET G == {k \in HtIdx(secs) : secs[k].kind = "gnu"}
           pick == IF G # {} THEN Max(G) ELSE Max(HtIdx(secs))
       IN [kind |-> secs[pick].kind, index |-> pick, symtab |-> secs[pick].link]

SelectSectionImpl(secs) == IF FixedSelect THEN SelectSectionFixed(secs) ELSE SelectSection(secs)
LookupSysVImpl(ht, dyn, n, h) == IF FixedSysV THEN LookupSysVFixed(ht, dyn, n, h) ELSE LookupSysV(ht, dyn, n, h)
LookupGnuImpl(ht, dyn, n, h) == IF FixedGnu THEN LookupGnuFixed(ht, dyn, n, h) ELSE LookupGnu(ht, dyn, n, h)

(* lookup_symbol_from_elf: select, then walk the section AT THE SELECTED INDEX as the SELECTED KIND. *)
(* tabs[k] is the content of section k (a flat word array) for the hash sections.                    *)
LookupElf(secs, tabs, dyn, name, hf) ==
  LET sel == SelectSectionImpl(secs)
  IN IF sel.kind = "none" THEN LookupLinear(dyn, name)
     ELSE IF sel.kind = "hash" THEN LookupSysVImpl(tabs[sel.index], dyn, name, hf.s[name])
     ELSE LookupGnuImpl(tabs[sel.index], dyn, name, hf.g[name])

(* ---------------------------------------------------------------------------------------------- *)
(* Named deviations of the transcriptions (each is exactly one defect of the code).                 *)
(* D1: a GNU section exists but the LAST hash-ish section is a SysV one: kind and index disagree.    *)
Dev_SelectKindIndexMismatch(secs) ==
  /\ \E k \in HtIdx(secs) : secs[k].kind = "gnu"
  /\ secs[Max(HtIdx(secs))].kind = "hash"
(* D2: in the GNU walk an unversioned definition of `name` follows a versioned one: `ver` leaks.     *)
Dev_GnuVersionLeak(dyn, name) ==
  \E i, j \in DefinedIdx(dyn, name) : i < j /\ VerOf(Sym(dyn, i)) # 0 /\ VerOf(Sym(dyn, j)) = 0
(* D3/D4: the table is not well formed; the transcribed walks check nothing.                         *)
(* A well-formed SysV table: header fits the section and the symbol table, and from every bucket      *)
(* (and from index 0, where the do-while starts for an empty bucket) the chain reaches 0 through      *)
(* indices < nchain.                                                                                 *)
SysVPathOk(ht, symN, start) ==
  LET nb == W(ht, 0)
      nc == W(ht, 1)
      Good(x) == x >= 0 /\ x < nc /\ x < symN
      Step(x) == IF Good(x) THEN W(ht, 2 + nb + x) ELSE nc      \* nc: stuck out of range
      F[k \in 0..nc+1] == IF k = 0 THEN <<start>> ELSE Append(F[k-1], Step(F[k-1][k]))
      P == F[nc+1]                                               \* P[k+1] = the k-th index visited
  IN \E n \in 1..nc+1 : P[n+1] = 0 /\ \A k \in 0..n-1 : Good(P[k+1])
WFSysV(ht, symN, h) ==
  /\ InSec(ht, 1)
  /\ W(ht, 0) = 0 \/ ( /\ Len(ht) >= 2 + W(ht, 0) + W(ht, 1)
                       /\ SysVPathOk(ht, symN, W(ht, 2 + (h % W(ht, 0)))) )
WFGnu(ht, symN, h) ==
  /\ InSec(ht, 0)
  /\ W(ht, 0) = 0 \/ ( /\ GnuHeaderOk(ht, symN)
                       /\ LET i == W(ht, 4 + W(ht, 2) + (h % W(ht, 0))) IN i = 0 \/ (i >= W(ht, 1) /\ i < symN) )

(* ---------------------------------------------------------------------------------------------- *)
(* Properties.                                                                                      *)
DefHits(dyn, res) == {k \in 1..Len(res.hits) : Sym(dyn, res.hits[k].sym).def}
FoundVersions(dyn, res) == LET V(k) == res.hits[k].ver IN BagOf(DefHits(dyn, res), V)
(* C37 for one query: the lookup returns, finds a defined symbol iff one is present, with its versions *)
Agrees(dyn, name, res) ==
  /\ res.out = "ok"
  /\ (DefHits(dyn, res) # {}) = Present(dyn, name)
  /\ FoundVersions(dyn, res) = ExpectedVersions(dyn, name)

Layouts == {<<"hash">>, <<"gnu">>, <<"hash", "gnu">>, <<"gnu", "hash">>}
SecsOf(order) == [k \in 1..Len(order) |-> [kind |-> order[k], link |-> 0]]
HasGnu(order) == \E k \in 1..Len(order) : order[k] = "gnu"
(* the file a linker produces for (rows, nb, hash functions, bloom shape, section order).  (TLC idiom: *)
(* a value bound by a quantifier over a singleton set is computed once.)                              *)
LinkedFrom(d, nb, hf, bloom, order) ==
  [dyn |-> d,
   secs |-> SecsOf(order),
   tabs |-> [k \in 1..Len(order) |-> IF order[k] = "hash" THEN BuildSysV(d, hf.s, nb)
                                      ELSE BuildGnu(d, hf.g, nb, SymOffset(d), bloom)]]
Linked(dyn, nb, hf, bloom, order) ==
  CHOOSE f \in {LinkedFrom(d, nb, hf, bloom, order) : d \in {IF HasGnu(order) THEN GnuOrder(dyn, hf.g, nb) ELSE dyn}} : TRUE

(* which walk the implementation ends up running on which section *)
UsesGnuWalk(order) == SelectSectionImpl(SecsOf(order)).kind = "gnu"
Tolerated(f, order, name) ==
  \/ ~FixedSelect /\ Dev_SelectKindIndexMismatch(f.secs)
  \/ ~FixedGnu /\ UsesGnuWalk(order) /\ Dev_GnuVersionLeak(f.dyn, name)

(* ---------------------------------------------------------------------------------------------- *)
(* Explored spaces.  One module, three specifications over the same variables.                      *)
VARIABLES dyn,     \* SpecBuild: the rows handed to the linker (null symbol first)
          nb, hf,  \*            bucket count, hash functions
          secs,    \* SpecSelect: sections in file order
          ht, cq   \* SpecCorrupt: a section as a flat word array; the walk and query under study
vars == <<dyn, nb, hf, secs, ht, cq>>

DynOf(n) == [k \in 1..n |-> NullRow]     \* a symbol table of n rows none of which matches a query
WalkOf(kind, impl, t, symN, h) ==
  IF kind = "hash" THEN (IF impl = "fixed" THEN LookupSysVFixed(t, DynOf(symN), 0, h) ELSE LookupSysV(t, DynOf(symN), 0, h))
  ELSE (IF impl = "fixed" THEN LookupGnuFixed(t, DynOf(symN), 0, h) ELSE LookupGnu(t, DynOf(symN), 0, h))
CorruptRes == WalkOf(cq.kind, cq.impl, ht, cq.symN, cq.h)

Rows == {Row(n, TRUE, v) : n \in Names, v \in VerSyms} \cup {Row(n, FALSE, Unversioned) : n \in Names}
NoQuery == [kind |-> "none", impl |-> "none", len |-> 0, symN |-> 0, h |-> 0]
InitBuild == dyn = <<NullRow>> /\ nb \in Buckets /\ hf \in Hashes /\ secs = <<>> /\ ht = <<>> /\ cq = NoQuery
NextBuild == /\ Len(dyn) <= MaxSyms
             /\ \E r \in Rows : dyn' = Append(dyn, r) /\ ValidDyn(dyn')
             /\ UNCHANGED <<nb, hf, secs, ht, cq>>
SpecBuild == InitBuild /\ [][NextBuild]_vars

InitSelect == dyn = <<NullRow>> /\ nb = 1 /\ hf = (CHOOSE x \in Hashes : TRUE) /\ secs = <<>> /\ ht = <<>> /\ cq = NoQuery
NextSelect == /\ Len(secs) < MaxSecs
              /\ \E k \in {"hash", "gnu", "other"}, lk \in {0, 1} :
                    secs' = Append(secs, [kind |-> k, link |-> IF k = "other" THEN 0 ELSE lk])
              /\ UNCHANGED <<dyn, nb, hf, ht, cq>>
SpecSelect == InitSelect /\ [][NextSelect]_vars

(* The corrupt space is explored on demand: a section of cq.len words starts with every word Unread; *)
(* the walk under study is run; when it asks for a word ("Need") every value of 0..CorruptMax is      *)
(* chosen for it.  A state whose walk does not ask any more is terminal: it stands for EVERY content  *)
(* of the remaining words.  cq = [kind, impl, len, symN, h] is the walk and the query.                *)
CorruptQueries == [kind : {"hash", "gnu"}, impl : {"faithful", "fixed"}, len : CorruptLens,
                   symN : CorruptSyms, h : CorruptHashes]
InitCorrupt == /\ dyn = <<NullRow>> /\ nb = 1 /\ hf = (CHOOSE x \in Hashes : TRUE) /\ secs = <<>>
               /\ cq \in CorruptQueries
               /\ ht = [k \in 1..cq.len |-> Unread]
NextCorrupt == /\ CorruptRes.out = "Need"
               /\ \E v \in 0..CorruptMax : ht' = [ht EXCEPT ![CorruptRes.at + 1] = v]
               /\ UNCHANGED <<dyn, nb, hf, secs, cq>>
SpecCorrupt == InitCorrupt /\ [][NextCorrupt]_vars

(* --- SpecBuild ----------------------------------------------------------------------------------- *)
(* every file a linker can produce from the current rows *)
Files == {x \in Layouts \X BloomShapes : HasGnu(x[1]) \/ x[2] = (CHOOSE b \in BloomShapes : TRUE)}   \* <<order, bloom>>; a SysV-only file has no bloom filter
FileOf(x) == Linked(dyn, nb, hf, x[2], x[1])
ImplLookup(f, n) == LookupElf(f.secs, f.tabs, f.dyn, n, hf)
FixedLookup(f, n) ==
  LET sel == SelectSectionFixed(f.secs)
  IN IF sel.kind = "hash" THEN LookupSysVFixed(f.tabs[sel.index], f.dyn, n, hf.s[n])
     ELSE LookupGnuFixed(f.tabs[sel.index], f.dyn, n, hf.g[n])

(* the builders produce well-formed tables (sanity of (a), and the bridge to the corrupt space)      *)
FileWellFormed(f, order) ==
  /\ HasGnu(order) => GnuOrdered(f.dyn, hf.g, nb)
  /\ \A k \in 1..Len(order), n \in Names :
       IF order[k] = "hash" THEN WFSysV(f.tabs[k], Len(f.dyn), hf.s[n])
       ELSE WFGnu(f.tabs[k], Len(f.dyn), hf.g[n])
BuildWellFormed == \A x \in Files : \A f \in {FileOf(x)} : FileWellFormed(f, x[1])

(* strict C37 on the implementation's operators *)
LookupIffPresent ==
  \A x \in Files : \A f \in {FileOf(x)} : \A n \in Names : Agrees(f.dyn, n, ImplLookup(f, n))

(* the same, tolerating exactly the named deviations of the parts that are not yet repaired; the      *)
(* version-leak deviation is exact: whenever it is claimed (on a correctly selected GNU section) the  *)
(* result really is wrong                                                                            *)
QueryOkOrDev(f, order, n, res) ==
  \A ok \in {Agrees(f.dyn, n, res)} :
    /\ ok \/ Tolerated(f, order, n)
    /\ (~FixedGnu /\ UsesGnuWalk(order) /\ ~Dev_SelectKindIndexMismatch(f.secs) /\ Dev_GnuVersionLeak(f.dyn, n)) => ~ok
LookupIffPresentOrDev ==
  \A x \in Files : \A f \in {FileOf(x)} : \A n \in Names : \A res \in {ImplLookup(f, n)} : QueryOkOrDev(f, x[1], n, res)

(* the corrected operators satisfy the strict property *)
FixedLookupIffPresent ==
  \A x \in Files : \A f \in {FileOf(x)} : \A n \in Names : \A res \in {FixedLookup(f, n)} : Agrees(f.dyn, n, res)

(* without any hash section the linear scan agrees as well *)
LinearAgrees == \A n \in Names : \A res \in {LookupLinear(dyn, n)} : Agrees(dyn, n, res)

(* BuildWellFormed /\ LookupIffPresentOrDev /\ FixedLookupIffPresent /\ LinearAgrees in one pass over the  *)
(* files (each file is linked once): what the configurations check                                    *)
BuildSpaceOk ==
  /\ LinearAgrees
  /\ \A x \in Files : \A f \in {FileOf(x)} :
       /\ FileWellFormed(f, x[1])
       /\ \A n \in Names : /\ \A res \in {ImplLookup(f, n)} : QueryOkOrDev(f, x[1], n, res)
                            /\ \A rfx \in {FixedLookup(f, n)} : Agrees(f.dyn, n, rfx)

(* --- SpecSelect ---------------------------------------------------------------------------------- *)
Consistent(r) ==
  /\ (r.kind = "none") = (HtIdx(secs) = {})
  /\ r.kind # "none" => /\ r.index \in 1..Len(secs) /\ secs[r.index].kind = r.kind
                        /\ r.symtab = secs[r.index].link
                        /\ (r.kind = "hash" => ~\E k \in HtIdx(secs) : secs[k].kind = "gnu")
SelectionConsistent == Consistent(SelectSectionImpl(secs))
SelectionConsistentOrDev == Consistent(SelectSectionImpl(secs)) \/ (~FixedSelect /\ Dev_SelectKindIndexMismatch(secs))
SelectionDevExact == Dev_SelectKindIndexMismatch(secs) => ~Consistent(SelectSection(secs))
FixedSelectionConsistent == Consistent(SelectSectionFixed(secs))

(* --- SpecCorrupt --------------------------------------------------------------------------------- *)
ImplOf(kind) == IF (kind = "hash" /\ FixedSysV) \/ (kind = "gnu" /\ FixedGnu) THEN "fixed" ELSE "faithful"
OnImpl == cq.impl = ImplOf(cq.kind)              \* this state explores the walk that stands for the implementation
Terminal == CorruptRes.out # "Need"
WFOf == IF cq.kind = "hash" THEN WFSysV(ht, cq.symN, cq.h) ELSE WFGnu(ht, cq.symN, cq.h)
(* strict C34 (model level): for EVERY content the walk stays inside the section and ends *)
LookupInBounds == OnImpl => CorruptRes.out \in {"ok", "Need"}
(* the transcriptions are safe on well-formed tables, and there the corrected walks answer too *)
LookupInBoundsOnWF ==
  (cq.impl = "faithful" /\ Terminal /\ WFOf) =>
     /\ CorruptRes.out = "ok"
     /\ WalkOf(cq.kind, "fixed", ht, cq.symN, cq.h).out = "ok"
(* the corrected walks are safe on EVERY content *)
FixedLookupInBounds == cq.impl = "fixed" => CorruptRes.out \in {"ok", "Need"}
(* tolerated form: a fault of a transcription that is not yet repaired happens only on an ill-formed table *)
LookupInBoundsOrDev ==
  OnImpl => \/ CorruptRes.out \in {"ok", "Need"}
            \/ cq.impl = "faithful" /\ ~WFOf
(* one invariant per fault kind, so that the check can report which faults the implementation reaches *)
NoFault(kind, fault) == ~(OnImpl /\ cq.kind = kind /\ CorruptRes.out = fault)
NoSysVOOB == NoFault("hash", "OOB")
NoSysVAssert == NoFault("hash", "Assert")
NoSysVLoop == NoFault("hash", "Loop")
NoGnuOOB == NoFault("gnu", "OOB")
NoGnuAssert == NoFault("gnu", "Assert")
NoGnuDivZero == NoFault("gnu", "DivZero")
NoGnuBadShift == NoFault("gnu", "BadShift")

(* --- hash function families used by the configurations (names are 0..4) -------------------------- *)
HF(f) == [s |-> [n \in Names |-> f[n + 1]], g |-> [n \in Names |-> f[n + 1]]]
HashFamily == { HF(<<0, 1, 2, 3, 4>>),       \* spread
                HF(<<5, 5, 5, 5, 5>>),       \* every name collides completely
                HF(<<2, 3, 2, 6, 7>>) }      \* 0/1 differ in bit 0 only (same h & ~1), 0/2 collide, 3 shares buckets mod 2 and 4
HashFamilyTwo == { HF(<<0, 1, 2, 3, 4>>), HF(<<2, 3, 2, 6, 7>>) }
BloomShapesTwo == {[nw |-> 1, shift |-> 0], [nw |-> 2, shift |-> 1]}

(* --- record-valued constants (a .cfg cannot spell records) ---------------------------------------- *)
VerSymsNone == {Unversioned}
VerSymsAll == {Unversioned, [idx |-> 2, hid |-> FALSE], [idx |-> 2, hid |-> TRUE], [idx |-> 3, hid |-> FALSE]}
BloomShapesDefault == {[nw |-> 1, shift |-> 0], [nw |-> 2, shift |-> 1], [nw |-> 2, shift |-> 2]}
BloomShapesOne == {[nw |-> 2, shift |-> 1]}
====================================================================================================
