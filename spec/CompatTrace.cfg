CONSTANTS Names <- DefaultNames
          Types <- DefaultTypes
          Oddities = {}
SPECIFICATION TSpec
INVARIANT Report
POSTCONDITION Accepted
CHECK_DEADLOCK FALSE
