CONSTANTS
  FaithfulRegex = FALSE
  FaithfulHeaders = FALSE
  Mode = "none"
  Tier = "thorough"
  MaxMem = 0
  Kinds = {"type", "function", "variable", "file"}
  Fields = {1, 2, 3, 4, 5, 6, 7, 8, 9, 10}
  UseOdds = 3
SPECIFICATION GSpec
CONSTRAINT EmitG
CHECK_DEADLOCK FALSE
