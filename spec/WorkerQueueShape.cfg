\* shape validation: the WorkerQueue constants only serve to instantiate the module (Skeleton is a constant operator).
CONSTANTS MaxWorkers = 1
          MaxTasks = 0
          MaxSpurious = 0
          MutDownWake = "broadcast"
          MutWaitLoop = "while"
          MutDoneLocked = TRUE
SPECIFICATION TSpec
INVARIANT Report
POSTCONDITION Accepted
CHECK_DEADLOCK FALSE
