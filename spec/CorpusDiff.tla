---------------------------------------- MODULE CorpusDiff ----------------------------------------
(* The lookup tables of corpus_diff (C11, C19, part of C10): which functions / variables / symbols   *)
(* not referenced by debug info are reported as removed and added when corpus A is compared with B.  *)
(* Transcribed from corpus_diff::priv::ensure_lookup_tables_populated and corpus::lookup_*_symbol /  *)
(* find_symbol_by_version; the edit scripts are abstracted to "elements without an equal partner"     *)
(* (any shortest script over id-sorted sequences deletes / inserts exactly those; Myers.tla).          *)
(* A symbol is [n, v, d, decl]: name, version ("" = none), default-version flag, whether a declaration *)
(* with debug info is attached (decl-less symbols are the "unreferenced" ones).  One symbol kind is    *)
(* modelled; functions and variables follow the same code path (the variable path is a copy).         *)
EXTENDS Naturals, Sequences, FiniteSets, TLC, Json

CONSTANTS Names, Versions, MaxSyms

Sym == [n : Names, v : Versions \cup {""}, d : BOOLEAN, decl : BOOLEAN]
WellFormed(C) == /\ \A s, t \in C : (s.n = t.n /\ s.v = t.v) => s = t
                 /\ \A s \in C : s.v = "" => ~s.d
                 /\ \A s, t \in C : (s.n = t.n /\ s.d /\ t.d) => s = t
Corpora == {C \in SUBSET Sym : Cardinality(C) <= MaxSyms /\ WellFormed(C)}

SameKey(s, t) == s.n = t.n /\ s.v = t.v               \* elf_symbol equality: name and version string (the default flag is not compared)
Key(s) == <<s.n, s.v>>
Keys(S) == {Key(s) : s \in S}
Decls(C) == {s \in C : s.decl}
Unref(C) == {s \in C : ~s.decl}

(* find_symbol_by_version: an empty version matches an unversioned symbol, else a *default*-versioned one;   *)
(* a non-empty version matches on the version string only.                                                   *)
Lookup(C, n, v) == IF v = "" THEN (\E s \in C : s.n = n /\ s.v = "") \/ (\E s \in C : s.n = n /\ s.d)
                   ELSE \E s \in C : s.n = n /\ s.v = v
(* the added-side special case: a symbol with a default version whose name existed unversioned before.        *)
(* (As found, the code asked Lookup(C, t.n, ""), which also answers yes for a *default*-versioned symbol of that *)
(* name: fn1@@V1 -> fn1@@V2 reported the removal but not the addition.  Repaired in /repo; see known-findings.)  *)
DefaultVersionReexportRule(C, t) == t.v # "" /\ t.d /\ \E s \in C : s.n = t.n /\ s.v = ""

NoPartner(S, T) == {s \in S : ~\E t \in T : SameKey(s, t)}
RemovedDecls(A, B) == {s \in NoPartner(Decls(A), Decls(B)) : ~Lookup(B, s.n, s.v)}
AddedDecls(A, B) == {t \in NoPartner(Decls(B), Decls(A)) : ~Lookup(A, t.n, t.v) /\ ~DefaultVersionReexportRule(A, t)}
RemovedSyms(A, B) == {s \in NoPartner(Unref(A), Unref(B)) : ~Lookup(B, s.n, s.v)}
AddedSyms(A, B) == {t \in NoPartner(Unref(B), Unref(A)) : ~Lookup(A, t.n, t.v) /\ ~DefaultVersionReexportRule(A, t)}

(* what the property statements ask for: plain set difference by (name, version) *)
StrictRemoved(A, B) == {s \in A : ~\E t \in B : SameKey(s, t)}
StrictAdded(A, B) == StrictRemoved(B, A)

(* exit status bits of the comparison (has_net_changes / has_incompatible_changes restricted to these tables) *)
Change(A, B) == RemovedDecls(A, B) \cup AddedDecls(A, B) \cup RemovedSyms(A, B) \cup AddedSyms(A, B) # {}
Incompatible(A, B) == RemovedDecls(A, B) \cup RemovedSyms(A, B) # {}
ExitBits(A, B) == (IF Change(A, B) THEN 4 ELSE 0) + (IF Incompatible(A, B) THEN 8 ELSE 0)

VARIABLES A, B
Init == A \in Corpora /\ B \in Corpora
Next == UNCHANGED <<A, B>>
Spec == Init /\ [][Next]_<<A, B>>

EmitPair == PrintT(ToJson([a |-> A, b |-> B]))      \* generator: the pair space replayed on the real abidiff

(* ---- properties ---------------------------------------------------------------------------------------- *)
(* The one deliberate deviation (upstream's "a symbol that gains a default version is not new"): it can only   *)
(* play when some name is unversioned in one corpus and default-versioned in the other.                        *)
KF_DefaultVersionReexport(X, Y) ==
  \E s \in X \cup Y, t \in X \cup Y : s.n = t.n /\ s.v = "" /\ t.d

Mirror == /\ Keys(RemovedDecls(A, B)) = Keys(AddedDecls(B, A))
          /\ Keys(RemovedSyms(A, B)) = Keys(AddedSyms(B, A))
(* a declaration that merely loses / gains its debug info keeps its symbol: compare the union of both categories *)
SymbolSetDifference ==
  /\ Keys(RemovedDecls(A, B) \cup RemovedSyms(A, B)) = Keys(StrictRemoved(A, B))
  /\ Keys(AddedDecls(A, B) \cup AddedSyms(A, B)) = Keys(StrictAdded(A, B))
  /\ (StrictRemoved(A, B) # {} => Incompatible(A, B))
  /\ (Keys(A) = Keys(B) => ExitBits(A, B) = 0)

MirrorOrKnown == Mirror \/ KF_DefaultVersionReexport(A, B)
SetDifferenceOrKnown == SymbolSetDifference \/ KF_DefaultVersionReexport(A, B)
SelfDiffEmpty == A = B => ExitBits(A, B) = 0 /\ ~Change(A, B)
ExitLattice == Incompatible(A, B) => Change(A, B)
====================================================================================================
