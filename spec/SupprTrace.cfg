CONSTANTS
  FaithfulRegex = FALSE
  FaithfulHeaders = FALSE
  Mode = "none"
  Tier = "thorough"
  MaxMem = 0
SPECIFICATION TSpec
INVARIANT Report
POSTCONDITION Accepted
CHECK_DEADLOCK FALSE
