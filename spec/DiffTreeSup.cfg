CONSTANTS N = 3
  MaxRemoved = 0
  WithSup = TRUE
  WithRed = FALSE
SPECIFICATION Spec
INVARIANTS LatticeDefault Arithmetic FrameUnmatched HidesExactly HarmfulNotFiltered LeafAgreesOrExplained
CHECK_DEADLOCK FALSE
