CONSTANTS Names = {"fn1", "fn2", "fn3", "var1", "var2", "var3"}
  Versions = {"V1", "V2"}
  MaxSyms = 9
SPECIFICATION TSpec
INVARIANT Report
POSTCONDITION Accepted
CHECK_DEADLOCK FALSE
