\* C32 thorough: 1..3 workers, 0..4 tasks, <= 1 spurious wake-up.  1 607 442 distinct states.
\* (checks/C32.py adds 4 workers x 2 tasks x 1 and 2 workers x 4 tasks x 2 spurious wake-ups in the thorough tier.)
CONSTANTS MaxWorkers = 3
          MaxTasks = 4
          MaxSpurious = 1
          MutDownWake = "broadcast"
          MutWaitLoop = "while"
          MutDoneLocked = TRUE
SPECIFICATION Spec
INVARIANTS TypeOK LockDiscipline ExactlyOnce NotifierSequential AllDoneAtReturn
PROPERTIES Terminates AbsSafe
CHECK_DEADLOCK TRUE
