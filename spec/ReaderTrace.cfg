\* trace validation (C33 Load events, C35 San events)
SPECIFICATION TSpec
INVARIANT Report
POSTCONDITION Accepted
CHECK_DEADLOCK FALSE
