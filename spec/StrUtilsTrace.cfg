CONSTANTS Tokens = {}
          MaxLenX = 99
          MaxLenY = 99
          Fns = {}
          Oddities = {}
SPECIFICATION TSpec
INVARIANTS Report Conformance
POSTCONDITION Accepted
CHECK_DEADLOCK FALSE
