\* Default configuration (one mixed alphabet, every helper; ~11 000 states).  The hard invariants check the transcriptions with the
\* configured Oddities against the definitions: with Oddities = {} (the corrected algorithms) they hold; with
\* Oddities = {"BeginsWithEmptyStr", "DeclNamesTrailingSep", "TrimLeadingNoProgress", "SplitRetLeadingSpace"} (the pinned
\* code) TLC stops at the first counterexample.  PinnedDifferences never fails: it prints every input on which the
\* transcription of the pinned code departs from the definitions.  checks/C41.py generates one such configuration per
\* helper family (own alphabet and bounds; for split_string the harness needs tokens that share no byte, which this mixed
\* alphabet does not provide -- it is for the model only).
CONSTANTS Tokens = {"a", "::", ",", " ", "__anonymous_struct__", "1"}
          MaxLenX = 3
          MaxLenY = 2
          Fns = {"decl_names_equal", "begins_with", "ends_with", "suffix", "trim_leading", "split", "trim_ws", "is_ascii", "is_ascii_id"}
          Oddities = {}
SPECIFICATION Spec
INVARIANTS DefinitionsAgree DeclNamesEqualSymmetric DeclNamesEqualIsStringEqWithoutAnon DeclNamesEqualIsComponentwise
           SplitIsFields PrefixSuffixDefs TrimAndClassDefs PinnedDifferences
CHECK_DEADLOCK FALSE
