\* generator: every invocation (layout, first package, second package) as one JSON line; 2 * 4^3 * 4^3 = 8192 initial states
CONSTANTS Paths = {1, 2, 3}
          Layouts <- DefaultLayouts
          Size <- DefaultSize
          PairBits <- DefaultPairBits
          Vers1 = {"absent", "v1", "v2", "v3"}
          Vers2 = {"absent", "v1", "v2", "v3"}
          MaxWorkers = 1
          Fixed = TRUE
          FixedKeys = TRUE
SPECIFICATION Spec
CONSTRAINT Emit
CHECK_DEADLOCK FALSE
