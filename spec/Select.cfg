\* Oddities = {} : the corrected code path satisfies the properties (hard invariants); PinnedDifferences prints the cases on which the
\* transcription of the pinned code (all oddities) departs from them.  With Oddities <- AllOddities TLC stops at the first counterexample.
CONSTANTS Universe <- DefaultUniverse
          ListedNames <- DefaultListed
          Lits <- DefaultLits
          MaxOpts = 2
          Oddities = {}
SPECIFICATION Spec
INVARIANTS WhitelistExact KeepDropExact DefinitionsSane PinnedDifferences
CHECK_DEADLOCK FALSE
