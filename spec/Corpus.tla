------------------------------------------ MODULE Corpus ------------------------------------------
(* The interface of an ABI corpus: which symbols are attached to declarations and which are         *)
(* reported as "not referenced by debug info" (property C17).                                        *)
(*                                                                                                  *)
(* State and actions follow the code:                                                                *)
(*   LoadTable   symtab::load_: the first symbol seen at an address is the main symbol, later ones   *)
(*               are appended to its alias chain                        (src/abg-symtab-reader.cc)   *)
(*   ReadDie     build_function_decl / build_var_decl: update_main_symbol(addr, name), lookup of     *)
(*               the symbol by address, the public-symbol test, set_symbol  (src/abg-dwarf-reader.cc)*)
(*               followed by exported_decls_builder::maybe_add_fn_to_exported_fns (MaybeAdd: the     *)
(*               public-symbol test and the de-duplication by id)                (src/abg-corpus.cc) *)
(*   Finish      corpus::priv::get_unreferenced_function_symbols: the alias walk that starts at the  *)
(*               declaration's symbol and stops at the main symbol              (src/abg-corpus.cc)  *)
(* Functions and variables run through the same code (the variable side lacks only the              *)
(* symbol_already_belongs_to_a_function test); the model has one kind.                               *)
(*                                                                                                  *)
(* The variable dev (fixed along a behaviour) names the deviations of the code from the property     *)
(* that the model mirrors:                                                                          *)
(*   "walk-stops-at-main"   the walk `for (a = sym->get_next_alias(); a && !a->is_main_symbol(); ..)` *)
(*                          covers the whole chain only if sym is the main symbol.                    *)
(*   "lookup-precedes-main-hint"                                                                     *)
(*                          function_is_suppressed / variable_is_suppressed run *before*              *)
(*                          build_function_decl / build_var_decl and ask *_symbol_is_exported(addr),  *)
(*                          i.e. the main symbol the table happens to have at that address; the hint  *)
(*                          update_main_symbol(addr, DIE name) comes only afterwards.  If that main   *)
(*                          symbol is not public (or, in a kernel binary, not exported) the DIE is    *)
(*                          dropped although it names a public / exported alias.                      *)
(* dev = {} is the code as the property wants it (invariant Ideal), dev = AllDev the code as it is   *)
(* (invariant Faithful: the partition holds wherever no named deviation applies), dev = {d} isolates *)
(* d (Witness prints the small cases in which the partition then fails).                             *)
(* "pub" of a symbol stands for is_public(), and in a Linux kernel binary for is_public() and        *)
(* is_in_ksymtab() -- the two tests *_symbol_is_exported applies.                                    *)
EXTENDS Naturals, Sequences, FiniteSets, TLC, Json

CONSTANTS Addrs,     \* addresses
          MaxDies,   \* maximal number of DIEs that describe a function at one of the addresses
          Plans      \* what one TLC run explores: a set of [dev, n]: the value of dev and the maximal number of symbols

AllDev == {"walk-stops-at-main", "lookup-precedes-main-hint"}

(* A symbol table row: [pub |-> is_public(), addr |-> address].  The symbol's name is its index.    *)
(* A DIE: [name |-> index of the symbol it is named after, or 0 for a name no symbol of the table   *)
(* has (a static function whose symbol is not in .dynsym), addr |-> its DW_AT_low_pc].              *)
VARIABLES tab,      \* the table (sequence of rows)
          main,     \* main[i]: current main symbol of symbol i's chain
          chain,    \* chain[a]: the symbols at address a in get_next_alias order (cyclic), starting with the first one loaded
          amap,     \* addr_symbol_map_: address -> symbol returned by lookup_symbol(addr)
          dies,     \* DIEs still to read
          seen,     \* names of the DIEs read so far
          decls,    \* corpus::get_functions(): sequence of [name, sym, id]
          dropped,  \* names of DIEs the suppression test discarded (history, for DeviatesLookup)
          dev,      \* see above
          phase     \* "read" | "done"
vars == <<tab, main, chain, amap, dies, seen, decls, dropped, dev, phase>>

Idx == 1..Len(tab)
RangeOf(s) == {s[j] : j \in 1..Len(s)}
AddrsUsed == {tab[i].addr : i \in Idx}

(* symtab::load_ restricted to what matters here *)
FirstAt(t, a) == CHOOSE i \in 1..Len(t) : t[i].addr = a /\ \A j \in 1..Len(t) : t[j].addr = a => i <= j
ChainAt(t, a) == LET F[i \in 0..Len(t)] == IF i = 0 THEN <<>> ELSE IF t[i].addr = a THEN Append(F[i-1], i) ELSE F[i-1]
                 IN F[Len(t)]

Tables(N) == UNION {[1..n -> [pub : BOOLEAN, addr : Addrs]] : n \in 1..N}
DieSeqs(t) ==
  LET D == {[name |-> k, addr |-> t[k].addr] : k \in 1..Len(t)} \cup {[name |-> 0, addr |-> a] : a \in {t[i].addr : i \in 1..Len(t)}}
  IN UNION {[1..m -> D] : m \in 0..MaxDies}

Init == \E p \in Plans :
        /\ tab \in Tables(p.n) /\ dev = p.dev
        /\ main = [i \in Idx |-> FirstAt(tab, tab[i].addr)]
        /\ chain = [a \in AddrsUsed |-> ChainAt(tab, a)]
        /\ amap = [a \in AddrsUsed |-> FirstAt(tab, a)]
        /\ dies \in DieSeqs(tab)
        /\ seen = {} /\ decls = <<>> /\ dropped = {} /\ phase = "read"

(* elf_symbol::get_next_alias: the successor in the cyclic chain; none if the symbol is alone *)
Next_(i) == LET c == chain[tab[i].addr]
                p == CHOOSE k \in 1..Len(c) : c[k] = i
            IN c[(p % Len(c)) + 1]
HasAliases(i) == Len(chain[tab[i].addr]) > 1

(* symtab::update_main_symbol(addr, name) + elf_symbol::update_main_symbol(name):                   *)
(* the new main symbol is the member of the chain that has that name, if any.                       *)
NewMain(a, name) ==
  LET m == amap[a] IN
  IF ~HasAliases(m) \/ m = name THEN m
  ELSE IF name \in RangeOf(chain[a]) THEN name ELSE m

(* function::get_id(): "name/symbol-id" when the symbol has aliases, else the symbol id *)
FnId(name, s) == IF HasAliases(s) THEN <<name, s>> ELSE <<s>>
(* symbol_already_belongs_to_a_function: some exported function is registered under the bare symbol id *)
AlreadyBelongs(s) == \E k \in 1..Len(decls) : decls[k].id = <<s>>
(* exported_decls_builder::maybe_add_fn_to_exported_fns: needs a public symbol; one entry per (id, name) *)
MaybeAdd(ds, d) ==
  IF \E k \in 1..Len(ds) : ds[k].id = d.id /\ ds[k].name = d.name THEN ds ELSE Append(ds, d)

ReadDie ==
  /\ phase = "read" /\ dies # <<>>
  /\ LET d == Head(dies)
         a == d.addr
         pre == amap[a]                                   \* what lookup_symbol(addr) returns before the hint
         m == NewMain(a, d.name)
         s == IF tab[m].pub THEN m ELSE 0                 \* *_symbol_is_exported: lookup by address, public (and exported) test
     IN IF "lookup-precedes-main-hint" \in dev /\ ~tab[pre].pub
        THEN \* function_is_suppressed: "if (!symbol) return true" -- the DIE is never built
             /\ dropped' = dropped \cup {d.name} /\ seen' = seen \cup {d.name}
             /\ UNCHANGED <<main, amap, decls>>
        ELSE /\ main' = [i \in Idx |-> IF tab[i].addr = a THEN m ELSE main[i]]
             /\ amap' = [amap EXCEPT ![a] = m]
             /\ decls' = IF s # 0 /\ ~AlreadyBelongs(s)
                         THEN MaybeAdd(decls, [name |-> d.name, sym |-> s, id |-> FnId(d.name, s)])
                         ELSE decls
             /\ seen' = seen \cup {d.name}
             /\ UNCHANGED dropped
  /\ dies' = Tail(dies)
  /\ UNCHANGED <<tab, chain, dev, phase>>

Finish == /\ phase = "read" /\ dies = <<>> /\ phase' = "done"
          /\ UNCHANGED <<tab, main, chain, amap, dies, seen, decls, dropped, dev>>

Next == ReadDie \/ Finish
Spec == Init /\ [][Next]_vars

------------------------------------------------------------------------------------------------------
(* corpus::priv::get_unreferenced_function_symbols *)
WalkFrom(s) ==            \* ids marked "referenced" for a declaration whose symbol is s
  IF "walk-stops-at-main" \in dev
  THEN LET W[k \in 0..Len(tab)] ==        \* the k first steps of `for (a = next(s); a && !is_main(a); a = next(a))`
             IF k = 0 THEN [at |-> Next_(s), acc |-> {s}, stop |-> ~HasAliases(s)]
             ELSE LET w == W[k-1] IN
                  IF w.stop \/ main[w.at] = w.at THEN [w EXCEPT !.stop = TRUE]
                  ELSE [at |-> Next_(w.at), acc |-> w.acc \cup {w.at}, stop |-> FALSE]
       IN W[Len(tab)].acc
  ELSE RangeOf(chain[tab[s].addr])

Public       == {i \in Idx : tab[i].pub}
Referenced   == UNION {WalkFrom(decls[k].sym) : k \in 1..Len(decls)}
Unreferenced == Public \ Referenced
(* the property's "attached to a declaration": the alias closure of the symbols of the interface *)
Attached     == {i \in Public : \E k \in 1..Len(decls) : tab[i].addr = tab[decls[k].sym].addr}

Partition ==
  phase = "done" =>
    /\ Attached \cap Unreferenced = {}                       \* never both
    /\ Attached \cup Unreferenced = Public                   \* never neither
    /\ \A k \in 1..Len(decls) : decls[k].sym \in Public      \* every interface is attached to a public symbol of the table
    /\ \A i \in Public : i \in seen => i \in Attached        \* an exported symbol that has debug info is in the interface

(* Where the code as it is departs (necessary conditions): a declaration whose symbol is no longer  *)
(* the main symbol of its chain when the unreferenced symbols are computed; a DIE naming a public    *)
(* symbol that the suppression test discarded.                                                      *)
DeviatesWalk   == \E k \in 1..Len(decls) : main[decls[k].sym] # decls[k].sym
DeviatesLookup == \E i \in Public : i \in dropped
OnlyNamedDeviations == (~DeviatesWalk /\ ~DeviatesLookup) => Partition

PlanQuick    == {[dev |-> {}, n |-> 4], [dev |-> AllDev, n |-> 3], [dev |-> {"walk-stops-at-main"}, n |-> 3], [dev |-> {"lookup-precedes-main-hint"}, n |-> 3]}
PlanThorough == {[dev |-> {}, n |-> 4], [dev |-> AllDev, n |-> 4], [dev |-> {"walk-stops-at-main"}, n |-> 3], [dev |-> {"lookup-precedes-main-hint"}, n |-> 3]}

Ideal    == dev = {} => Partition
Faithful == dev = AllDev => OnlyNamedDeviations
Witness  == (Cardinality(dev) = 1 /\ phase = "done" /\ Len(tab) <= 3 /\ Len(decls) + Cardinality(dropped) <= 2 /\ ~Partition)
            => PrintT(ToJson([witness |-> CHOOSE d \in dev : TRUE, tab |-> tab, seen |-> seen, decls |-> decls, main |-> main, dropped |-> dropped]))

(* sanity of the transcription: the chain structure stays what elf_symbol maintains *)
TypeOK == /\ \A i \in Idx : main[i] \in RangeOf(chain[tab[i].addr])
          /\ \A a \in AddrsUsed : amap[a] = main[chain[a][1]]
====================================================================================================
