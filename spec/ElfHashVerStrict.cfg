\* STRICT C37 on the operators standing for the implementation: fails (by design) while FixedSelect/FixedGnu are FALSE; holds with TRUE.
\* V2 (default or hidden) or V3; 1..3 buckets; all four orders of {.hash, .gnu.hash}.
CONSTANTS Names = {0, 1}
          MaxSyms = 4
          Buckets = {1, 2, 3}
          VerSyms <- VerSymsAll
          VerDefs = {2, 3}
          BloomBits = 4
          BloomShapes <- BloomShapesOne
          Hashes <- HashFamily
          MaxSecs = 0
          CorruptLens = {}
          CorruptMax = 0
          CorruptSyms = {}
          CorruptHashes = {}
          FixedSelect = FALSE
          FixedSysV = FALSE
          FixedGnu = FALSE
SPECIFICATION SpecBuild
INVARIANT LookupIffPresent
CHECK_DEADLOCK FALSE
