\* C33, the reader as transcribed from src/abg-reader.cc: FixedSites = {} (checks/C33.py substitutes the sites whose function text changed).
\* Documents which (mutation class -> outcome) pairs exist (EmitOutcomes prints every final state, one mutation);
\* LoadTotal does NOT hold here -- the check runs it separately and records the counterexample's site.
CONSTANTS MaxMuts = 1
          BaseDocs = {1, 2}
          FixedSites = {}
SPECIFICATION Spec
INVARIANTS TypeOK Progress IllFormedIsError PristineLoads AbortOnlyAtSites EmitOutcomes
CHECK_DEADLOCK TRUE
