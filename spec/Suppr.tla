------------------------------------------- MODULE Suppr -------------------------------------------
(* Suppression specifications as libabigail applies them (src/abg-suppression.cc, the RESULT of      *)
(* parsing a section; the INI layer is spec/Ini.tla).                                                *)
(*                                                                                                    *)
(* Two layers are kept apart:                                                                         *)
(*   - the *transcription* of the matching code (operators ...Code): type_suppression::suppresses_diff *)
(*     / suppresses_type / suppression_matches_type_name / ..._location, the insertion-range loop with  *)
(*     its `break`s and `continue`s, insertion_range::eval_boundary, function_suppression::             *)
(*     suppresses_function, variable_suppression::suppresses_variable, suppression_base::priv::         *)
(*     matches_binary_name / matches_soname, handle_file_entry + suppression_matches_type_location for  *)
(*     the artificial private-type suppression;                                                        *)
(*   - the *properties* as declarative operators: MayHide (C24), HidesExactly / NamesExactly (C23),    *)
(*     MatchesNothing (C22), PrivateTypeRule (C26).                                                    *)
(* A small state machine (selected by Mode) enumerates struct changes x insertion ranges, changed      *)
(* types x sections, interface sets x function/variable sections, type placements x header sets, and   *)
(* TLC checks  HiddenCode => MayHide  and the frame conditions.                                        *)
(*                                                                                                    *)
(* Named deviation of the transcription (switch FaithfulRegex):                                        *)
(*   NullRegexIsSkipped -- regex::compile returns a null pointer for a pattern that does not compile;  *)
(*   every getter (get_type_name_regex, get_name_regex, ...) hands that null pointer on and every      *)
(*   match site is guarded by `if (regex)`, so the constraint is *dropped*: `name_regexp = (` makes a  *)
(*   [suppress_type] section match every type and a [suppress_function] section every function.        *)
(*   FaithfulRegex = TRUE transcribes that; FALSE is the corrected behaviour (a pattern that is not a  *)
(*   valid regular expression matches no name).                                                       *)
(*                                                                                                    *)
(* Named deviations of the private-type suppression generated from --headers-dir / --header-file      *)
(* (switch FaithfulHeaders; src/abg-tools-utils.cc handle_fts_entry / gen_suppr_spec_from_headers):     *)
(*   OnlyThreeHeaderSuffixes -- the directory walk keeps only files named *.h, *.hpp, *.hxx: a type     *)
(*   defined in include/cxx.hh is treated as private;                                                  *)
(*   HeaderFileKeptVerbatim -- --header-file PATH keeps PATH as given, but a type's location is compared *)
(*   by the path DWARF recorded and by its last component: unless PATH is a bare file name the types it   *)
(*   defines are treated as private.                                                                     *)
(*                                                                                                    *)
(* Readings fixed here (weakest reasonable, see checks/C24.py):                                       *)
(*   - `has_data_member_inserted_at = X` is the range [X, end-of-address-space): upstream's own test   *)
(*     test11-add-data-member-2 expects `at = 8` to hide an insertion at offset 32;                    *)
(*   - `at = end` (both boundaries `end`) means "after the last data member of the old type";          *)
(*   - offset_after(m): the manual says "right after the region occupied by m", the code takes the     *)
(*     offset of the next member; the declarative range takes the smaller value as a lower boundary    *)
(*     and the larger one as an upper boundary;                                                       *)
(*   - when `name` is given the code ignores name_regexp / name_not_regexp of a [suppress_type]       *)
(*     section (documented for the constructor); the declarative rule does the same;                  *)
(*   - insertion ranges constrain struct/class changes only (class_diff), not unions or typedefs.     *)
EXTENDS Naturals, Integers, Sequences, FiniteSets, TLC

CONSTANTS FaithfulRegex,  \* TRUE: NullRegexIsSkipped as in the source; FALSE: corrected
          FaithfulHeaders,\* TRUE: OnlyThreeHeaderSuffixes + HeaderFileKeptVerbatim as in the source; FALSE: corrected
          Mode,           \* "ranges" | "names" | "ifaces" | "private" | "none" (library use by SupprTrace)
          MaxMem,         \* members of the old struct in mode "ranges"
          Tier            \* "quick": smaller section products in modes "names" / "ifaces"; "thorough": all

Max == 1000000            \* stands for std::numeric_limits<uint64_t>::max()
Fail == 0 - 1
ToSet(s) == {s[i] : i \in 1..Len(s)}

(* ---- regular expressions: the fragment literal / ^ / $ / .* / alternation, plus InvalidRegex ------ *)
(* [k, a, z, alts, bad]: k = "none" (property absent) | "invalid" (does not compile; `bad` is its text) *)
(* | "re"; a / z = anchored with ^ / $; alts = alternatives, each a sequence of 1..2 literal pieces      *)
(* joined by ".*" (a piece may be empty).  Matching is regexec's: a *search* unless anchored.            *)
NoRe == [k |-> "none", a |-> FALSE, z |-> FALSE, alts |-> <<>>, bad |-> ""]
InvalidRegex(text) == [k |-> "invalid", a |-> FALSE, z |-> FALSE, alts |-> <<>>, bad |-> text]
Re(a, z, alts) == [k |-> "re", a |-> a, z |-> z, alts |-> alts, bad |-> ""]
Lit(x) == <<x>>

OccursAt(p, x, i) == IF p = "" THEN i >= 1 /\ i <= Len(x) + 1
                     ELSE i >= 1 /\ i + Len(p) - 1 <= Len(x) /\ SubSeq(x, i, i + Len(p) - 1) = p
Starts(x, a) == IF a THEN {1} ELSE 1..(Len(x) + 1)
EndsOk(p, x, i, z) == z => (i + Len(p) - 1 = Len(x))
AltMatch(ps, x, a, z) ==
  IF Len(ps) = 1 THEN \E i \in Starts(x, a) : OccursAt(ps[1], x, i) /\ EndsOk(ps[1], x, i, z)
  ELSE \E i \in Starts(x, a) : /\ OccursAt(ps[1], x, i)
                               /\ \E j \in (i + Len(ps[1]))..(Len(x) + 1) : OccursAt(ps[2], x, j) /\ EndsOk(ps[2], x, j, z)
ReMatches(r, x) == r.k = "re" /\ \E n \in 1..Len(r.alts) : AltMatch(r.alts[n], x, r.a, r.z)

(* the pointer the getters return: null for an absent property and -- NullRegexIsSkipped -- for an invalid one *)
NonNull(r) == r.k = "re" \/ (r.k = "invalid" /\ ~FaithfulRegex)
(* `if (regex && !match(regex, x)) return false`  and  `if (regex && match(regex, x)) return false` *)
PosCode(r, x) == NonNull(r) => ReMatches(r, x)
NegCode(r, x) == NonNull(r) => ~ReMatches(r, x)
(* declarative: an invalid pattern matches no name *)
PosOk(r, x) == r.k # "none" => ReMatches(r, x)
NegOk(r, x) == r.k # "none" => ~ReMatches(r, x)

(* ---- sections ------------------------------------------------------------------------------------- *)
Bnd(k, v, m) == [k |-> k, v |-> v, m |-> m]
BInt(v) == Bnd("int", v, "")
BEnd == Bnd("end", 0, "")
BOf(m) == Bnd("offset_of", 0, m)
BAfter(m) == Bnd("offset_after", 0, m)
RangeAt(b) == [form |-> "at", b |-> b, e |-> BEnd]
RangeBetween(b, e) == [form |-> "between", b |-> b, e |-> e]

Section(kind) == [kind |-> kind, name |-> "", name_regexp |-> NoRe, name_not_regexp |-> NoRe, type_kind |-> "",
                  symbol_name |-> "", symbol_version |-> "", change_kind |-> "", accessed_through |-> "",
                  source_location_not_in |-> <<>>, file_name_regexp |-> NoRe, soname_regexp |-> NoRe, ranges |-> <<>>]

(* ---- what a section is evaluated against ------------------------------------------------------------ *)
(* a changed type as a diff node sees it: [name, kind, file, base, viaPtr, old, new, sizeOld, sizeNew];     *)
(* kind = "struct" | "union" | "enum" | "typedef" | "base" | "array" | "ptr" | "const" | "fnptr" | "fntype"; *)
(* file = path of the defining file as DWARF records it ("" = no location), base = its last component;       *)
(* viaPtr = some pointer diff node has this type (behind qualifiers / typedefs) as pointed-to type;            *)
(* old / new = laid-out data members [n, off, size, tsize] (bits; size = the bits the member occupies, tsize = *)
(* the size of its declared type: they differ for a bit-field), struct changes only.                          *)
TypeChange(name, kind, file, base, viaPtr) ==
  [name |-> name, kind |-> kind, file |-> file, base |-> base, viaPtr |-> viaPtr, old |-> <<>>, new |-> <<>>, sizeOld |-> 0, sizeNew |-> 0]
MemNames(ms) == {ms[i].n : i \in 1..Len(ms)}
Removed(c) == MemNames(c.old) \ MemNames(c.new)
Inserted(c) == MemNames(c.new) \ MemNames(c.old)
Mem(ms, n) == ms[CHOOSE i \in 1..Len(ms) : ms[i].n = n]
LastOldOffset(c) == c.old[Len(c.old)].off
(* the two binaries of the comparison *)
Env(paths, sonames) == [paths |-> paths, bases |-> paths, sonames |-> sonames]

(* ======================================= transcription ============================================== *)
(* suppression_base::priv::matches_binary_name / matches_soname for the one regexp the model carries:        *)
(* a null regex means "no regexp at all" -> false.  names_of_binaries_match: one of the two must match.      *)
MatchesStrCode(r, x) == r.k = "re" /\ ReMatches(r, x)      \* an invalid pattern compiles to null: has_regexp stays false
BinariesOkCode(s, env) ==
  /\ (s.file_name_regexp.k # "none" => \E i \in 1..Len(env.paths) : MatchesStrCode(s.file_name_regexp, env.paths[i]))
  /\ (s.soname_regexp.k # "none" => \E i \in 1..Len(env.sonames) : MatchesStrCode(s.soname_regexp, env.sonames[i]))

(* suppression_matches_type_no_name: type_kind (an unknown word is read as UNKNOWN_TYPE_KIND = class) *)
KindCode(s, c) ==
  CASE s.type_kind = "" -> TRUE
    [] s.type_kind = "struct" -> c.kind = "struct"
    [] s.type_kind = "union" -> c.kind = "union"
    [] s.type_kind = "enum" -> c.kind = "enum"
    [] s.type_kind = "array" -> c.kind = "array"
    [] s.type_kind = "typedef" -> c.kind = "typedef"
    [] s.type_kind = "builtin" -> c.kind = "base"
    [] OTHER -> c.kind \in {"struct", "class"}
(* suppression_matches_type_location (user-written section: not artificial) *)
LocCode(s, c) ==
  IF s.source_location_not_in = <<>> THEN TRUE
  ELSE IF c.file = "" THEN FALSE
  ELSE c.base \notin ToSet(s.source_location_not_in) /\ c.file \notin ToSet(s.source_location_not_in)
(* suppression_matches_type_name *)
TypeNameCode(s, x) ==
  IF s.name # "" \/ NonNull(s.name_regexp) \/ NonNull(s.name_not_regexp)
  THEN IF s.name # "" THEN s.name = x
       ELSE PosCode(s.name_regexp, x) /\ NegCode(s.name_not_regexp, x)
  ELSE TRUE
(* the reach kind selects the diff node: the node itself, or a pointer node above it (no references in C) *)
ReachCode(s, c) ==
  CASE s.accessed_through \in {"", "direct"} -> TRUE
    [] s.accessed_through \in {"pointer", "reference-or-pointer"} -> c.viaPtr
    [] s.accessed_through = "reference" -> FALSE
    [] OTHER -> TRUE                                         \* unknown word = DIRECT_REACH_KIND

(* insertion_range::eval_boundary on the *first* class *)
EvalCode(bd, c) ==
  CASE bd.k = "int" -> bd.v
    [] bd.k = "end" -> Max
    [] bd.k = "offset_of" -> IF bd.m \in MemNames(c.old) THEN Mem(c.old, bd.m).off ELSE Fail
    [] bd.k = "offset_after" ->
         IF bd.m \notin MemNames(c.old) THEN Fail
         ELSE LET i == CHOOSE i \in 1..Len(c.old) : c.old[i].n = bd.m
              IN IF i < Len(c.old) THEN c.old[i + 1].off             \* get_next_data_member_offset
                 ELSE c.old[i].off + c.old[i].tsize                    \* ... + (*it)->get_type()->get_size_in_bits()
(* the loop over the ranges for one inserted member at offset off: `break` on a boundary that does not evaluate *)
RECURSIVE RangeLoopCode(_, _, _, _, _)
RangeLoopCode(rs, i, c, off, matched) ==
  IF i > Len(rs) THEN matched
  ELSE LET b == EvalCode(rs[i].b, c)
           e == EvalCode(rs[i].e, c)
       IN IF b = Fail \/ e = Fail THEN matched
          ELSE IF b = Max /\ e = Max /\ off > LastOldOffset(c) THEN RangeLoopCode(rs, i + 1, c, off, TRUE)
          ELSE IF b > e THEN RangeLoopCode(rs, i + 1, c, off, matched)
          ELSE IF off < b \/ off > e THEN RangeLoopCode(rs, i + 1, c, off, matched)
          ELSE RangeLoopCode(rs, i + 1, c, off, TRUE)
RangesCode(s, c) ==
  IF s.ranges = <<>> \/ c.kind # "struct" THEN TRUE                      \* dynamic_cast<const class_diff*>
  ELSE IF Removed(c) # {} \/ c.sizeOld > c.sizeNew THEN FALSE
  ELSE \A n \in Inserted(c) : RangeLoopCode(s.ranges, 1, c, Mem(c.new, n).off, FALSE)

(* type_suppression::suppresses_diff on (a node carrying) the changed type c *)
HiddenCode(s, c, env) ==
  /\ s.kind = "type"
  /\ ReachCode(s, c)
  /\ BinariesOkCode(s, env)
  /\ KindCode(s, c) /\ LocCode(s, c)
  /\ TypeNameCode(s, c.name)
  /\ RangesCode(s, c)

(* an interface as the comparison sees it: [name, kind ("fn" | "var"), ck ("added" | "deleted" | "changed"), sym, ver] *)
Iface(name, kind, ck, sym, ver) == [name |-> name, kind |-> kind, ck |-> ck, sym |-> sym, ver |-> ver]
CkWord(kind, ck) == IF kind = "fn" THEN (CASE ck = "added" -> "added-function" [] ck = "deleted" -> "deleted-function" [] OTHER -> "function-subtype-change")
                    ELSE (CASE ck = "added" -> "added-variable" [] ck = "deleted" -> "deleted-variable" [] OTHER -> "variable-subtype-change")
(* get_change_kind() & k : absent = ALL_CHANGE_KIND, an unknown word = UNDEFINED_CHANGE_KIND = 0 *)
CovCode(s, i) == s.change_kind \in {"", "all", CkWord(i.kind, i.ck)}
(* function_suppression::suppresses_function / variable_suppression::suppresses_variable on unaliased C symbols *)
(* (name and both name regexps all apply to a function; `name` shadows the regexps for a variable)              *)
IfaceCode(s, i, env) ==
  /\ (s.kind = "function" /\ i.kind = "fn") \/ (s.kind = "variable" /\ i.kind = "var")
  /\ CovCode(s, i)
  /\ BinariesOkCode(s, env)
  /\ IF s.kind = "function"
     THEN (s.name # "" => s.name = i.name) /\ PosCode(s.name_regexp, i.name) /\ NegCode(s.name_not_regexp, i.name)
     ELSE IF s.name # "" THEN s.name = i.name ELSE PosCode(s.name_regexp, i.name) /\ NegCode(s.name_not_regexp, i.name)
  /\ (s.symbol_name # "" => s.symbol_name = i.sym)
  /\ (s.symbol_version # "" => s.symbol_version = i.ver)
ApplyCode(s, ifaces, env) == {i \in ifaces : IfaceCode(s, i, env)}

(* the artificial suppression --headers-dir / --header-file generate: a type with a location is private iff      *)
(* neither the path DWARF recorded nor its last component is among the kept names; a class without location is      *)
(* private iff it is declaration-only (suppression_matches_type_location, artificial branch).                       *)
PrivateCode(t, kept) ==
  IF t.file # "" THEN t.base \notin kept /\ t.file \notin kept
  ELSE t.kind \in {"struct", "union"} /\ t.declOnly
(* handle_fts_entry: the walk of a --headers-dir keeps fts_name (the last component) of files named *.h *.hpp *.hxx  *)
(* -- OnlyThreeHeaderSuffixes --; gen_suppr_spec_from_headers keeps a --header-file argument as given               *)
(* -- HeaderFileKeptVerbatim --.  A public header is [arg (as given on the command line), base, suffixOk].           *)
KeptByDirWalk(pub) == {h.base : h \in {h \in pub : h.suffixOk \/ ~FaithfulHeaders}}
KeptByHeaderFile(pub) == {h.arg : h \in pub} \cup (IF FaithfulHeaders THEN {} ELSE {h.base : h \in pub})

(* ======================================== properties ================================================ *)
BinariesOk(s, env) ==
  /\ (s.file_name_regexp.k # "none" => \E i \in 1..Len(env.paths) : ReMatches(s.file_name_regexp, env.paths[i]))
  /\ (s.soname_regexp.k # "none" => \E i \in 1..Len(env.sonames) : ReMatches(s.soname_regexp, env.sonames[i]))
NameOk(s, x) == IF s.name # "" THEN s.name = x ELSE PosOk(s.name_regexp, x) /\ NegOk(s.name_not_regexp, x)
KindOk(s, c) == KindCode(s, c)
LocOk(s, c) == LocCode(s, c)
ReachOk(s, c) == ReachCode(s, c)
(* declarative value of a boundary used as lower / upper end of a range *)
LowOf(bd, c) ==
  IF bd.k = "int" THEN bd.v
  ELSE IF bd.k = "end" THEN Max
  ELSE IF bd.m \notin MemNames(c.old) THEN Fail
  ELSE IF bd.k = "offset_of" THEN Mem(c.old, bd.m).off
  ELSE Mem(c.old, bd.m).off + Mem(c.old, bd.m).size
HighOf(bd, c) == IF bd.k = "offset_after" THEN EvalCode(bd, c) ELSE LowOf(bd, c)
InRange(r, c, off) ==
  \/ r.b.k = "end" /\ r.e.k = "end" /\ off > LastOldOffset(c)
  \/ LowOf(r.b, c) # Fail /\ HighOf(r.e, c) # Fail /\ LowOf(r.b, c) <= off /\ off <= HighOf(r.e, c)
OutsideAllRanges(s, c, n) == \A k \in 1..Len(s.ranges) : ~InRange(s.ranges[k], c, Mem(c.new, n).off)
RangesOk(s, c) ==
  \/ s.ranges = <<>> \/ c.kind # "struct"
  \/ /\ Removed(c) = {} /\ c.sizeNew >= c.sizeOld
     /\ \A n \in Inserted(c) : ~OutsideAllRanges(s, c, n)

(* C24: the section may hide the change of c only if c satisfies every constraint the section gives *)
MayHide(s, c, env) ==
  /\ s.kind = "type"
  /\ NameOk(s, c.name) /\ KindOk(s, c) /\ LocOk(s, c) /\ ReachOk(s, c) /\ BinariesOk(s, env) /\ RangesOk(s, c)

(* C22 / C23 on interfaces *)
IfaceSatisfies(s, i, env) ==
  /\ (s.kind = "function" /\ i.kind = "fn") \/ (s.kind = "variable" /\ i.kind = "var")
  /\ BinariesOk(s, env)
  /\ IF s.kind = "variable" /\ s.name # "" THEN s.name = i.name       \* documented: `name` shadows the regexps of a [suppress_variable]
     ELSE (s.name # "" => s.name = i.name) /\ PosOk(s.name_regexp, i.name) /\ NegOk(s.name_not_regexp, i.name)
  /\ (s.symbol_name # "" => s.symbol_name = i.sym)
  /\ (s.symbol_version # "" => s.symbol_version = i.ver)
Covers(s, i) == s.change_kind \in {"", "all", CkWord(i.kind, i.ck)}
(* C23: s names exactly the interface i among ifaces *)
NamesExactly(s, i, ifaces, env) == i \in ifaces /\ \A j \in ifaces : IfaceSatisfies(s, j, env) <=> j = i
(* what such a section must hide *)
HidesExactly(s, i) == IF Covers(s, i) THEN {i} ELSE {}
(* C22: s matches no artifact: no interface, no changed / known type *)
MatchesNothing(s, ifaces, types, env) ==
  CASE s.kind \in {"function", "variable"} -> \A i \in ifaces : ~IfaceSatisfies(s, i, env)
    [] s.kind = "type" -> \A c \in types : ~MayHide(s, c, env)
    [] OTHER -> \* [suppress_file]: its properties are alternatives (file name -- last component or path --, SONAME)
         /\ \A i \in 1..Len(env.paths) : ~ReMatches(s.file_name_regexp, env.paths[i]) /\ ~ReMatches(s.file_name_regexp, env.bases[i])
         /\ \A i \in 1..Len(env.sonames) : ~ReMatches(s.soname_regexp, env.sonames[i])

(* C26: a type is private iff it is not *defined* in one of the public headers (given as paths);            *)
(* a type only declared there has its definition elsewhere (or nowhere: opaque)                               *)
PrivateTypeRule(t, pub) == IF t.file # "" THEN t.path \notin {h.arg : h \in pub} ELSE t.kind \in {"struct", "union"} /\ t.declOnly

(* ====================================== the state machine =========================================== *)
VARIABLES phase, lay, chg, sec, ifs, obs
vars == <<phase, lay, chg, sec, ifs, obs>>
Env0 == Env(<<"/w/a/lib.so", "/w/b/lib.so">>, <<"", "">>)
NoChange == TypeChange("", "", "", "", FALSE)
NoObs == [hidden |-> FALSE, may |-> FALSE, applied |-> {}]

(* natural layout of members of the given sizes (bits; alignment = size) *)
Align(x, a) == ((x + a - 1) \div a) * a
RECURSIVE OffsetsOf(_, _, _)
OffsetsOf(sizes, i, at) == IF i > Len(sizes) THEN <<>> ELSE <<Align(at, sizes[i])>> \o OffsetsOf(sizes, i + 1, Align(at, sizes[i]) + sizes[i])
MaxOf(S) == CHOOSE x \in S : \A y \in S : y <= x
Members(names, sizes) == LET o == OffsetsOf(sizes, 1, 0) IN [i \in 1..Len(sizes) |-> [n |-> names[i], off |-> o[i], size |-> sizes[i], tsize |-> sizes[i]]]
TotalSize(ms) == IF ms = <<>> THEN 0 ELSE Align(ms[Len(ms)].off + ms[Len(ms)].size, MaxOf({ms[i].size : i \in 1..Len(ms)}))
MName(i) == CASE i = 1 -> "m1" [] i = 2 -> "m2" [] i = 3 -> "m3" [] i = 4 -> "m4" [] OTHER -> "m9"
OldNames(n) == [i \in 1..n |-> MName(i)]
RemoveAt(s, p) == [j \in 1..(Len(s) - 1) |-> IF j < p THEN s[j] ELSE s[j + 1]]
InsertAt(s, p, x) == [j \in 1..(Len(s) + 1) |-> IF j < p THEN s[j] ELSE IF j = p THEN x ELSE s[j - 1]]
StructChange(names1, sizes1, names2, sizes2) ==
  LET o == Members(names1, sizes1)  n == Members(names2, sizes2)
  IN [name |-> "S1", kind |-> "struct", file |-> "types.h", base |-> "types.h", viaPtr |-> TRUE,
      old |-> o, new |-> n, sizeOld |-> TotalSize(o), sizeNew |-> TotalSize(n)]
(* one catalogue mutation (spec/Abi.tla: member-insert / member-remove / member-swap / member-type) of the struct `lay` *)
Mutations(sizes) ==
  LET n == Len(sizes)  nm == OldNames(n) IN
     {StructChange(nm, sizes, InsertAt(nm, p, "m9"), InsertAt(sizes, p, z)) : p \in 1..(n + 1), z \in {8, 32}}
  \cup {StructChange(nm, sizes, RemoveAt(nm, p), RemoveAt(sizes, p)) : p \in {p \in 1..n : n > 1}}
  \cup {StructChange(nm, sizes, [nm EXCEPT ![p] = nm[p + 1], ![p + 1] = nm[p]], [sizes EXCEPT ![p] = sizes[p + 1], ![p + 1] = sizes[p]]) : p \in 1..(n - 1)}
  \cup {StructChange(nm, sizes, nm, [sizes EXCEPT ![p] = IF @ = 8 THEN 32 ELSE 8]) : p \in 1..n}

Boundaries == {BInt(0), BInt(32), BInt(64), BEnd} \cup {BOf(MName(i)) : i \in {1, 2, 3, 9}} \cup {BAfter(MName(i)) : i \in {1, 2, 3, 9}}
FewBoundaries == {BInt(0), BInt(32), BEnd, BOf("m1"), BAfter("m2"), BAfter("m9")}
OneRange == {RangeAt(b) : b \in Boundaries} \cup {RangeBetween(b, e) : b \in Boundaries, e \in Boundaries}
FewRanges == {RangeAt(b) : b \in FewBoundaries} \cup {RangeBetween(b, e) : b \in FewBoundaries, e \in FewBoundaries}
RangeSections == {[Section("type") EXCEPT !.name = "S1", !.ranges = <<r>>] : r \in OneRange}
            \cup {[Section("type") EXCEPT !.name = "S1", !.ranges = <<r, q>>] : r \in FewRanges, q \in FewRanges}

(* mode "names": changed types of a small program: struct S1 in types.h, reached directly and through a pointer *)
NameChanges == {TypeChange("S1", "struct", "types.h", "types.h", TRUE), TypeChange("S12", "struct", "types.h", "types.h", FALSE),
                TypeChange("U2", "union", "src/u.h", "u.h", FALSE), TypeChange("T3", "typedef", "types.h", "types.h", TRUE),
                TypeChange("int", "base", "", "", FALSE), TypeChange("S1*", "ptr", "", "", FALSE), TypeChange("E4", "enum", "types.h", "types.h", FALSE)}
NameRegexes == {NoRe, InvalidRegex("("), Re(TRUE, TRUE, <<Lit("S1")>>), Re(FALSE, FALSE, <<Lit("S1")>>), Re(TRUE, FALSE, <<<<"S", "">>>>),
                Re(TRUE, TRUE, <<Lit("S1"), Lit("T3")>>), Re(TRUE, FALSE, <<Lit("Q7")>>)}
NotRegexes == {NoRe, InvalidRegex("["), Re(TRUE, TRUE, <<Lit("S1")>>), Re(FALSE, FALSE, <<Lit("Q7")>>)}
FileRegexes == {NoRe, InvalidRegex("*a"), Re(FALSE, FALSE, <<Lit("lib")>>), Re(TRUE, FALSE, <<Lit("Q7")>>)}
NameSections ==
  {[Section("type") EXCEPT !.name = n, !.name_regexp = r, !.name_not_regexp = q, !.type_kind = k, !.accessed_through = a,
                           !.source_location_not_in = l, !.file_name_regexp = f, !.soname_regexp = so] :
     n \in {"", "S1", "S9"}, r \in NameRegexes, q \in NotRegexes, k \in {"", "struct", "class", "union", "typedef", "builtin", "enum", "array"},
     a \in (IF Tier = "quick" THEN {"", "pointer", "reference"} ELSE {"", "direct", "pointer", "reference", "reference-or-pointer"}),
     l \in (IF Tier = "quick" THEN {<<>>, <<"types.h">>} ELSE {<<>>, <<"types.h">>, <<"other.h">>}),
     f \in (IF Tier = "quick" THEN {NoRe, InvalidRegex("*a"), Re(TRUE, FALSE, <<Lit("Q7")>>)} ELSE FileRegexes), so \in {NoRe, Re(FALSE, FALSE, <<Lit("Q7")>>)}}

(* mode "ifaces": up to 3 changed interfaces out of 5 *)
AllIfaces == {Iface("fn1", "fn", "changed", "fn1", ""), Iface("fn12", "fn", "deleted", "fn12", "V12"), Iface("fn3", "fn", "added", "fn3", ""),
              Iface("var4", "var", "changed", "var4", "V4"), Iface("var1", "var", "deleted", "var1", "")}
IfaceSets == {S \in SUBSET AllIfaces : Cardinality(S) \in 1..3}
IfaceRegexes == {NoRe, InvalidRegex("a{"), Re(TRUE, TRUE, <<Lit("fn1")>>), Re(FALSE, FALSE, <<Lit("fn1")>>), Re(TRUE, TRUE, <<Lit("fn3"), Lit("var4")>>),
                 Re(TRUE, FALSE, <<<<"var", "">>>>), Re(FALSE, FALSE, <<Lit("Q7")>>)}
IfaceSections ==
  {[Section(kind) EXCEPT !.name = n, !.name_regexp = r, !.name_not_regexp = q, !.symbol_name = sy, !.symbol_version = v, !.change_kind = ck] :
     kind \in {"function", "variable"}, n \in {"", "fn1", "var4", "fn9"}, r \in IfaceRegexes,
     q \in {NoRe, InvalidRegex("("), Re(TRUE, TRUE, <<Lit("fn1")>>)}, sy \in {"", "fn12", "var1", "zz"}, v \in {"", "V12", "V9"},
     ck \in (IF Tier = "quick" THEN {"", "all", "added-function", "function-subtype-change", "deleted-variable", "bogus"}
             ELSE {"", "all", "added-function", "deleted-function", "function-subtype-change", "deleted-variable", "variable-subtype-change", "bogus"})}
(* a section without any of these constraints matches everything (`label` alone is a sufficient property): not a C22 / C23 subject *)
Constrains(s) == s.name # "" \/ s.name_regexp.k # "none" \/ s.name_not_regexp.k # "none" \/ s.symbol_name # "" \/ s.symbol_version # ""

(* mode "private": where a type is defined x the public headers [arg, base, suffixOk] of directory `include` *)
PrivTypes == {[kind |-> k, file |-> f[1], base |-> f[2], path |-> f[3], declOnly |-> d] :
                k \in {"struct", "enum", "typedef", "base"},
                f \in {<<"../include/pub.h", "pub.h", "include/pub.h">>, <<"priv.h", "priv.h", "src/priv.h">>, <<"lib.c", "lib.c", "src/lib.c">>,
                       <<"../include/sub/api.h", "api.h", "include/sub/api.h">>, <<"../include/cxx.hh", "cxx.hh", "include/cxx.hh">>, <<"", "", "">>},
                d \in BOOLEAN}
PublicHeaders == {[arg |-> "include/pub.h", base |-> "pub.h", suffixOk |-> TRUE], [arg |-> "include/sub/api.h", base |-> "api.h", suffixOk |-> TRUE],
                  [arg |-> "include/cxx.hh", base |-> "cxx.hh", suffixOk |-> FALSE]}

Init == /\ phase = (IF Mode = "ranges" THEN "build" ELSE "section")
        /\ lay = <<>> /\ chg = NoChange /\ sec = Section("type") /\ ifs = {} /\ obs = NoObs
AddMember == /\ Mode = "ranges" /\ phase = "build" /\ Len(lay) < MaxMem
             /\ \E z \in {8, 32} : lay' = Append(lay, z)
             /\ UNCHANGED <<phase, chg, sec, ifs, obs>>
Mutate == /\ Mode = "ranges" /\ phase = "build" /\ Len(lay) >= 1
          /\ \E c \in Mutations(lay) : chg' = c
          /\ phase' = "section" /\ UNCHANGED <<lay, sec, ifs, obs>>
ChooseSection ==
  /\ phase = "section"
  /\ \/ Mode = "ranges" /\ \E s \in RangeSections : sec' = s /\ UNCHANGED <<chg, ifs>>
     \/ Mode = "names" /\ \E s \in NameSections, c \in NameChanges : sec' = s /\ chg' = c /\ UNCHANGED ifs
     \/ Mode = "ifaces" /\ \E s \in IfaceSections, S \in IfaceSets : sec' = s /\ ifs' = S /\ UNCHANGED chg
     \/ Mode = "private" /\ \E t \in PrivTypes : chg' = t /\ UNCHANGED <<sec, ifs>>
  /\ phase' = "eval" /\ UNCHANGED <<lay, obs>>
Evaluate == /\ phase = "eval"
            /\ obs' = IF Mode \in {"ranges", "names"} THEN [hidden |-> HiddenCode(sec, chg, Env0), may |-> MayHide(sec, chg, Env0), applied |-> {}]
                      ELSE IF Mode = "ifaces" THEN [hidden |-> FALSE, may |-> FALSE, applied |-> ApplyCode(sec, ifs, Env0)]
                      ELSE [hidden |-> PrivateCode(chg, KeptByDirWalk(PublicHeaders)), may |-> PrivateCode(chg, KeptByHeaderFile(PublicHeaders)), applied |-> {}]
            /\ phase' = "done" /\ UNCHANGED <<lay, chg, sec, ifs>>
Next == AddMember \/ Mutate \/ ChooseSection \/ Evaluate
Spec == Init /\ [][Next]_vars

(* ---- invariants ------------------------------------------------------------------------------------- *)
Done(m) == phase = "done" /\ Mode \in m
(* C24, safety direction: whatever the code hides, the property allows to be hidden *)
Safety == Done({"ranges", "names"}) => (obs.hidden => obs.may)
(* the three clauses of the property's second sentence, stated directly on the transcription *)
RemovalNeverHidden == (Done({"ranges"}) /\ (Removed(chg) # {} \/ chg.sizeNew < chg.sizeOld)) => ~obs.hidden
OutsideNeverHidden == (Done({"ranges"}) /\ \E n \in Inserted(chg) : OutsideAllRanges(sec, chg, n)) => ~obs.hidden
(* "a pattern that is not a valid regular expression matches no name" *)
InvalidMatchesNothing == (Done({"names"}) /\ sec.name = "" /\ sec.name_regexp.k = "invalid") => ~obs.hidden
(* C22 frame condition and C23 on the transcription *)
FrameUnmatched == (Done({"ifaces"}) /\ Constrains(sec) /\ MatchesNothing(sec, ifs, {}, Env0)) => obs.applied = {}
HidesExactlyOne == Done({"ifaces"}) => \A i \in ifs : NamesExactly(sec, i, ifs, Env0) => obs.applied = HidesExactly(sec, i)
(* C26 on the transcription of the artificial suppression: directory walk (hidden) and --header-file (may) *)
PrivateRuleDir == Done({"private"}) => (obs.hidden <=> PrivateTypeRule(chg, PublicHeaders))
PrivateRuleFile == Done({"private"}) => (obs.may <=> PrivateTypeRule(chg, PublicHeaders))
(* vacuity guards: each is expected to be VIOLATED (SupprVacuityRanges.cfg, SupprVacuityIfaces.cfg): the transcription does hide   *)
(* a change because of a range, and does hide exactly the one named interface                                                       *)
NeverHides == ~(Done({"ranges", "names"}) /\ obs.hidden)
NeverHidesWithRange == ~(Done({"ranges"}) /\ obs.hidden /\ Inserted(chg) # {})
NeverExactlyOne == ~(Done({"ifaces"}) /\ \E i \in ifs : NamesExactly(sec, i, ifs, Env0) /\ obs.applied = {i})
====================================================================================================
