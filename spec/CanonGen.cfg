CONSTANTS
  N = 3
  MaxKids = 2
  MaxEdges = 6
  Kinds = {}
  AllowDecl = TRUE
  GraphClass = "any"
  OrderClass = "any"
  CycleCheck = "pair"
  Pass2Cancel = "fresh"
  Outermost = "flush"
  PropagateDespiteCycle = FALSE
  Pass2ClearsDeps = FALSE
SPECIFICATION Spec
CHECK_DEADLOCK FALSE
CONSTRAINT GenOnly
