---------------------------------------- MODULE PkgDiffTrace ----------------------------------------
(* Trace validation of abipkgdiff against PkgDiff (C30, C31).  Stateless: every event is one recorded  *)
(* observation and the step's verdict says whether PkgDiff allows it.                                   *)
(*                                                                                                      *)
(* {"e":"Pkg", "c":<case>, "paths":[name..], "dirs":[[char..]..], "pkg1":[ver..], "pkg2":[ver..],         *)
(*  "size":[n..], "pairBits":[n..], "exit":n, "removed":[i..], "added":[i..], "changedListed":[i..],     *)
(*  "ret":"ok"|<abnormal termination>}                                                                  *)
(*     One run of `abipkgdiff d1 d2` on two directories.  Binaries are numbered 1..n in the order of     *)
(*     their file names; dirs[i] is the directory of binary i below the package root, as characters;     *)
(*     pkgK[i] the build package K ships ("absent": none); size[i] the added file sizes of the two        *)
(*     builds and pairBits[i] the exit status of `abidiff` on them when both packages ship binary i       *)
(*     (0 / -1 otherwise) -- these are recorded facts.  exit, removed, added (numbers of the binaries      *)
(*     listed under "Removed binaries:" / "Added binaries:") and changedListed (numbers of the binaries   *)
(*     that have a "changes of" section, in print order) are what abipkgdiff did.                         *)
(*     Verdict: PkgDiff!VerdictHolds -- C30 as stated -- on exactly these values.  A rejected run is       *)
(*     classified by comparing it with PkgDiff!Outcome under the two transcribed deviations.             *)
(*                                                                                                      *)
(* {"e":"Par", "c":<case>, "seqHash":s, "seqExit":n, "seqRet":.., "parHash":s, "parExit":n, "ret":..,      *)
(*  "workers":n, "seed":n, "tsan":n, "tsanForeign":n, "nTasks":n, "qWorkers":n, "doneOrder":[t..]}         *)
(*     One parallel run against the `--no-parallel` run of the same build on the same directories:        *)
(*     hashes of standard output, exit statuses, number of ThreadSanitizer reports with a libabigail      *)
(*     frame (tsan) / without one (tsanForeign, recorded only), and -- from the H1 events of the           *)
(*     comparison queue, which WorkerQueueAbsTrace validates separately -- the number of comparison        *)
(*     tasks, of its workers and the task numbers in completion order.                                    *)
(*     Verdict (C31): same report, same exit status, no race; the completion order is one that the        *)
(*     queue of PkgDiff admits (so that the orders seen are orders the model has explored).               *)
EXTENDS PkgDiff, IOUtils, KnownFindings

T == ndJsonDeserialize(IOEnv.TRACE)
VARIABLES l, verdict

(* ---- known findings: placeholders; the integrator moves them to KnownFindings.tla ------------------ *)
(* C30: see KnownFindings!KF_C30_listed -- the structural condition is Classify(ev) = "bad:binaries-paired-by-common-prefix",  *)
(* i.e. the observed report and exit are exactly PkgDiff!Outcome with the key deviation transcribed and the status corrected.   *)
KF_C31(ev) == FALSE
(* ---------------------------------------------------------------------------------------------------- *)

NoDup(s) == Cardinality(SeqSet(s)) = Len(s)
Rep(ev) == [exit |-> ev.exit, removed |-> SeqSet(ev.removed), added |-> SeqSet(ev.added), printed |-> ev.changedListed]

Classify(ev) ==
  LET r  == Rep(ev)
      o(fs, fk) == Outcome(ev.dirs, ev.size, ev.pkg1, ev.pkg2, ev.pairBits, fs, fk)
      c  == o(TRUE, TRUE)
  IN IF r = o(FALSE, TRUE) THEN "bad:removal-bits-discarded"
     ELSE IF r = o(TRUE, FALSE) THEN "bad:binaries-paired-by-common-prefix"
     ELSE IF r = o(FALSE, FALSE) THEN "bad:binaries-paired-by-common-prefix+removal-bits-discarded"
     ELSE IF r.removed # c.removed \/ r.added # c.added THEN "bad:removed-added-binaries"
     ELSE IF r.printed # c.printed THEN "bad:per-binary-verdicts"
     ELSE "bad:exit"

PkgVerdict(ev) ==
  IF ev.ret # "ok" THEN "bad:abnormal-termination"
  ELSE IF ~(NoDup(ev.removed) /\ NoDup(ev.added) /\ NoDup(ev.changedListed)) THEN "bad:binary-listed-twice"
  ELSE IF VerdictHolds(Rep(ev), ev.size, ev.pkg1, ev.pkg2, ev.pairBits) THEN "ok"
  ELSE IF KF_C30_listed /\ Classify(ev) = "bad:binaries-paired-by-common-prefix" THEN "kf:C30-paired-by-common-prefix"
  ELSE Classify(ev)

ParVerdict(ev) ==
  IF ev.seqRet # "ok" \/ ev.ret # "ok" THEN "bad:abnormal-termination"
  ELSE IF KF_C31(ev) THEN "kf:C31-parallel"
  ELSE IF ev.parHash # ev.seqHash THEN "bad:report-differs-from-sequential"
  ELSE IF ev.parExit # ev.seqExit THEN "bad:exit-differs-from-sequential"
  ELSE IF ev.tsan > 0 THEN "bad:data-race"
  ELSE IF ev.nTasks > 0 /\ ~Admissible(ev.doneOrder, ev.nTasks, ev.qWorkers) THEN "bad:completion-order-not-admissible"
  ELSE "ok"

TInit == Idle /\ l = 1 /\ verdict = "ok"
TNext == /\ l <= Len(T) /\ l' = l + 1 /\ UNCHANGED vars
         /\ \/ T[l].e = "Pkg" /\ verdict' = PkgVerdict(T[l])
            \/ T[l].e = "Par" /\ verdict' = ParVerdict(T[l])
TSpec == TInit /\ [][TNext]_<<vars, l, verdict>>

Report == verdict = "ok" \/ PrintT(ToJson([i |-> l - 1, v |-> verdict]))
Accepted == TLCGet("stats").diameter - 1 = Len(T)
====================================================================================================
