CONSTANTS Alphabet = {0, 1, 2, 3}
          MaxLen = 99
SPECIFICATION TSpec
INVARIANT Report
POSTCONDITION Accepted
CHECK_DEADLOCK FALSE
