CONSTANTS N = 3
  MaxRemoved = 1
  WithSup = FALSE
  WithRed = FALSE
SPECIFICATION Spec
INVARIANTS LatticeDefault Arithmetic FrameUnmatched HarmlessFiltered HarmfulNotFiltered LeafAgreesOrExplained
CHECK_DEADLOCK FALSE
