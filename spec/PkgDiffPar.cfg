\* C31: up to 4 comparison tasks x 1..3 workers, every completion order; the first package ships v1 or nothing, the second any build
CONSTANTS Paths = {1, 2, 3, 4}
          Layouts <- DefaultLayouts
          Size <- DefaultSize
          PairBits <- DefaultPairBits
          Vers1 = {"absent", "v1"}
          Vers2 = {"v1", "v2", "v3"}
          MaxWorkers = 3
          Fixed = TRUE
          FixedKeys = TRUE
SPECIFICATION Spec
INVARIANTS TypeOK OrderIndependent NotifierStatus EveryBinaryCovered
PROPERTY Terminates
CHECK_DEADLOCK TRUE
