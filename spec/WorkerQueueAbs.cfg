\* atomic abstraction: 1..3 workers, <= 4 tasks.  13 962 distinct states.
CONSTANTS MaxWorkers = 3
          MaxTasks = 4
SPECIFICATION Spec
INVARIANTS TypeOK ExactlyOnce NotifierSequential AllDoneAtReturn DownMeansDrained
PROPERTY Terminates
CHECK_DEADLOCK TRUE
