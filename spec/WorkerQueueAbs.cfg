CONSTANTS MaxWorkers = 3
          MaxTasks = 4
SPECIFICATION Spec
INVARIANTS TypeOK ExactlyOnce NotifierSequential AllDoneAtReturn DownMeansDrained
PROPERTY Terminates
CHECK_DEADLOCK TRUE
