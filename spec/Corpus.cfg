\* C17, code as the property wants it (Dev = {}): every table of <= 4 symbols x alias chains x publicness x <= 3 DIEs in every order
CONSTANTS N = 4
          Addrs = {0, 1}
          MaxDies = 3
          Dev = {}
SPECIFICATION Spec
INVARIANTS Partition TypeOK
CHECK_DEADLOCK FALSE
