\* C17: <= 4 symbols x alias chains x publicness x <= 3 DIEs in every order (Ideal); code as it is and single deviations with <= 3 symbols
CONSTANTS Addrs = {0, 1}
          MaxDies = 3
          Plans <- PlanQuick
SPECIFICATION Spec
INVARIANTS Ideal Faithful Witness TypeOK
CHECK_DEADLOCK FALSE
