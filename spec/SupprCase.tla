----------------------------------------- MODULE SupprCase -----------------------------------------
(* Generator of the suppression campaigns (C22, C23, C24, C26): the program pairs of spec/Abi.tla     *)
(* together with the facts of the *model* the trace specification needs to judge a suppressed run:     *)
(*   c24 -- the types whose diff nodes a [suppress_type] section may legitimately match (the mutated     *)
(*          types and every type that contains or refers to them), with their libabigail names, kinds    *)
(*          and whether a pointer node leads to them;                                                   *)
(*   c26 -- a placement of every named type in include/pub.h, src/priv.h or src/lib.c (a function of    *)
(*          the type's name number, pushed down so that every definition precedes its uses), the        *)
(*          interfaces whose change must survive public-header filtering (mustReport) and the ones      *)
(*          whose change is in private types only (mustFilter).                                         *)
(* Used with TLC -simulate exactly like Abi.tla (CONSTRAINT EmitS prints one JSON case per finished pair). *)
EXTENDS Abi

BaseNames == <<"char", "short int", "int", "long int", "unsigned char", "short unsigned int", "unsigned int", "long unsigned int", "float", "double">>
NameOf(ts, i) ==
  LET ty == ts[i] IN
    CASE ty.k = "struct" -> "S" \o ToString(ty.id)
      [] ty.k = "union" -> "U" \o ToString(ty.id)
      [] ty.k = "enum" -> "E" \o ToString(ty.id)
      [] ty.k = "typedef" -> "T" \o ToString(ty.id)
      [] ty.k = "base" -> BaseNames[ty.id]
      [] OTHER -> ""
HasName(ts, i) == ts[i].k \in {"struct", "union", "enum", "typedef", "base"}
Defined(ts, i) == ts[i].k \in {"struct", "union", "enum", "typedef"}         \* has a definition placed in a file

Live == Reachable(types, fns, vars) \cup Reachable(types2, fns2, vars2)
Touches(i) == (i \in TRef(types2) /\ ReachFrom(types2, {i}) \cap MutTypes # {}) \/ (i \in TRef(types) /\ ReachFrom(types, {i}) \cap MutTypes # {})
(* the member types a member-type mutation exchanges: the diff of the data member is a diff between these two *)
Exchanged == UNION {LET m == muts[j] IN
                      IF m.kind = "member-type" /\ m.pos <= Len(types[m.ty].m) /\ m.pos <= Len(types2[m.ty].m)
                      THEN {types[m.ty].m[m.pos].t, types2[m.ty].m[m.pos].t, Strip(types, types[m.ty].m[m.pos].t), Strip(types2, types2[m.ty].m[m.pos].t)}
                      ELSE {} : j \in 1..Len(muts)}
Impacted == {i \in TRef(types2) \cap Live : Touches(i)} \cup Exchanged

RECURSIVE PeelChain(_, _)
PeelChain(ts, t) == IF t = 0 THEN {} ELSE {t} \cup (IF ts[t].k \in {"const", "typedef"} THEN PeelChain(ts, ts[t].t) ELSE {})
ViaPtr(i) == \E p \in TRef(types2) \cap Live : /\ types2[p].k = "ptr"
                                              /\ (i \in PeelChain(types2, types2[p].t) \/ (p \in TRef(types) /\ i \in PeelChain(types, types[p].t)))

C24 == [mutated |-> {NameOf(types2, i) : i \in MutTypes},
        named |-> {[idx |-> i, name |-> NameOf(types2, i), kind |-> types2[i].k, viaPtr |-> ViaPtr(i)] : i \in {i \in Impacted : HasName(types2, i)}},
        derived |-> {types2[i].k : i \in {i \in Impacted : ~HasName(types2, i)}} \cup {"fntype"}]

(* ---- placement of definitions (C26) ------------------------------------------------------------------ *)
(* names that must be *defined* before a declarator mentioning type t can be written (render/cprog.py Prog.deps) *)
RECURSIVE NamedIn(_, _)
NamedIn(ts, t) ==
  IF t = 0 THEN {} ELSE
  LET ty == ts[t] IN
    CASE ty.k \in {"typedef", "enum"} -> {t}
      [] ty.k \in {"ptr", "const", "array"} -> NamedIn(ts, ty.t)
      [] ty.k = "fnptr" -> NamedIn(ts, ty.t) \cup UNION {NamedIn(ts, ty.m[j].t) : j \in 1..Len(ty.m)}
      [] OTHER -> {}
DepsOf(ts, i) ==
  LET ty == ts[i] IN
    CASE ty.k \in {"struct", "union"} -> UNION {NamedIn(ts, ty.m[j].t) \cup ByVal(ts, ty.m[j].t) : j \in 1..Len(ty.m)} \ {i}
      [] ty.k = "typedef" -> (NamedIn(ts, ty.t) \cup (IF ts[ty.t].k = "array" THEN ByVal(ts, ty.t) ELSE {})) \ {i}
      [] OTHER -> {}
MaxS(S) == CHOOSE x \in S : \A y \in S : y <= x
(* 0 = include/pub.h, 1 = src/priv.h, 2 = src/lib.c; the old program's dependencies are a superset of the new one's for the *)
(* struct / enum / array mutations of the catalogue, so both versions keep every type in the same file                        *)
RECURSIVE Rank(_, _)
Want(ty) == IF ty.id % 4 < 2 THEN 0 ELSE (ty.id % 4) - 1           \* half of the types would like to be public
Rank(ts, i) == MaxS({Want(ts[i])} \cup {Rank(ts, d) : d \in DepsOf(ts, i)})
PlaceWord(r) == CASE r = 0 -> "pub" [] r = 1 -> "priv" [] OTHER -> "src"
Place == [i \in TRef(types) |-> IF Defined(types, i) THEN PlaceWord(Rank(types, i)) ELSE ""]

(* a type whose own layout / definition changes: it contains a mutated type other than through a pointer *)
RefsV(ts, i) ==
  LET ty == ts[i] IN
    CASE ty.k \in {"struct", "union"} -> {ty.m[j].t : j \in 1..Len(ty.m)}
      [] ty.k \in {"typedef", "const", "array"} -> {ty.t} \ {0}
      [] OTHER -> {}
RECURSIVE ReachV(_, _)
ReachV(ts, S) == LET N == S \cup UNION {RefsV(ts, i) : i \in S} IN IF N = S THEN S ELSE ReachV(ts, N)
Dirty == {i \in TRef(types2) : ReachV(types2, {i}) \cap MutTypes # {} \/ ReachV(types, {i}) \cap MutTypes # {}}
IsPub(i) == Defined(types2, i) /\ Place[i] = "pub"
OkPub(i) == ~Defined(types2, i) \/ Place[i] = "pub"
RECURSIVE PubReach(_)
PubReach(S) == LET N == S \cup {x \in UNION {Refs(types2, t) : t \in S} : OkPub(x)} IN IF N = S THEN S ELSE PubReach(N)
RECURSIVE PrivOk(_)
PrivOk(d) == (Defined(types2, d) /\ Place[d] # "pub") \/ (types2[d].k = "const" /\ PrivOk(types2[d].t))
DirectlyMutated == {muts[j].iface : j \in 1..Len(muts)} \ {0}
PubMutated == {i \in MutTypes : IsPub(i)}
InBothFns == {k \in 1..Len(fns2) : ById(fns, fns2[k].id) # {} /\ fns2[k].id \notin DirectlyMutated}
InBothVars == {k \in 1..Len(vars2) : ById(vars, vars2[k].id) # {} /\ vars2[k].id \notin DirectlyMutated}
C26 == [place |-> Place,
        mustReportFns |-> {fns2[k].id : k \in {k \in InBothFns : PubReach({r \in IfaceRoots(fns2[k]) : OkPub(r)}) \cap PubMutated # {}}},
        mustReportVars |-> {vars2[k].id : k \in {k \in InBothVars : PubReach({r \in {vars2[k].t} : OkPub(r)}) \cap PubMutated # {}}},
        mustFilterFns |-> {fns2[k].id : k \in {k \in InBothFns : /\ FnReach(types2, fns2[k]) \cap Dirty # {}
                                                                    /\ \A d \in FnReach(types2, fns2[k]) \cap Dirty : PrivOk(d)}},
        mustFilterVars |-> {vars2[k].id : k \in {k \in InBothVars : /\ VarReach(types2, vars2[k]) \cap Dirty # {}
                                                                       /\ vars2[k].t \notin Dirty
                                                                       /\ \A d \in VarReach(types2, vars2[k]) \cap Dirty : PrivOk(d)}},
        pubMutated |-> {NameOf(types2, i) : i \in PubMutated},
        privMutated |-> {NameOf(types2, i) : i \in {i \in MutTypes : Defined(types2, i) /\ ~IsPub(i)}}]

(* campaign slices (CONSTRAINTs of the generator configurations) *)
TypeMutsOnly == \A j \in 1..Len(muts) : muts[j].ty # 0
StructMutsOnly == \A j \in 1..Len(muts) : muts[j].kind \in {"member-insert", "member-remove", "member-swap", "member-type"} /\ types2[muts[j].ty].k = "struct"

CaseS == Case @@ [c24 |-> C24, c26 |-> C26]
EmitS == phase # "done" \/ PrintT(ToJson(CaseS))
====================================================================================================
