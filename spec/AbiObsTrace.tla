--------------------------------------- MODULE AbiObsTrace ---------------------------------------
(* Trace validation of what abidw *records* about a program against the model program (C15, C16).     *)
(*  Signature : the recorded functions / variables are structurally equal (Abi!Bisim) to the model's: *)
(*              return type, parameter count and types with their typedefs and cv, variadic-ness.      *)
(*  Layout    : the recorded size of every aggregate and the offset of every data member equal what    *)
(*              the compiler uses (observed by a probe program compiled with the same compiler/flags); *)
(*              the probe facts themselves must satisfy the sanity rules of C layouts, otherwise the   *)
(*              case is discarded, not believed.                                                       *)
EXTENDS Abi, IOUtils, KnownFindings

T == ndJsonDeserialize(IOEnv.TRACE)
VARIABLES l, verdict

ToSet(s) == {s[i] : i \in 1..Len(s)}

VSignature(ev) ==
  IF ev.ret # "ok" THEN "bad:crash"
  ELSE LET B == Bisim(ev.types, ev.otypes)
           FnOk(f) == \E k \in 1..Len(ev.ofns) : FnEq(B, f, ev.ofns[k])
           VarOk(v) == \E k \in 1..Len(ev.ovars) : VarEq(B, v, ev.ovars[k])
       IN IF {ev.fns[i].id : i \in 1..Len(ev.fns)} # {ev.ofns[i].id : i \in 1..Len(ev.ofns)} THEN "bad:recorded-functions-differ-from-exported"
          ELSE IF {ev.vars[i].id : i \in 1..Len(ev.vars)} # {ev.ovars[i].id : i \in 1..Len(ev.ovars)} THEN "bad:recorded-variables-differ-from-exported"
          ELSE IF \E i \in 1..Len(ev.fns) : ~FnOk(ev.fns[i]) THEN "bad:function-signature-differs-from-source"
          ELSE IF \E i \in 1..Len(ev.vars) : ~VarOk(ev.vars[i]) THEN "bad:variable-type-differs-from-source"
          ELSE "ok"

(* sanity of the probe facts: members inside the type, offsets non-decreasing in declaration order for structs, 0 for unions *)
ProbeSane(p) ==
  /\ \A j \in 1..Len(p.members) : p.members[j].bit >= 0 /\ p.members[j].bit + p.members[j].width <= p.size * 8
  /\ (p.isUnion => \A j \in 1..Len(p.members) : p.members[j].bit = 0)
  /\ (~p.isUnion => \A j \in 1..(Len(p.members) - 1) : p.members[j].bit <= p.members[j + 1].bit)
MemberSet(ms) == {<<ms[j].n, ms[j].bit>> : j \in 1..Len(ms)}
VLayout(ev) ==
  IF ev.ret # "ok" THEN "bad:crash"
  ELSE IF \E i \in 1..Len(ev.probe) : ~ProbeSane(ev.probe[i]) THEN "discard:probe-facts-not-sane"
  ELSE IF \E i \in 1..Len(ev.obs) : ~\E j \in 1..Len(ev.probe) :
            /\ ev.probe[j].name = ev.obs[i].name /\ ev.probe[j].size * 8 = ev.obs[i].sizeBits
            /\ MemberSet(ev.probe[j].members) = MemberSet(ev.obs[i].members)
       THEN "bad:recorded-layout-differs-from-compiler"
  ELSE IF \E n \in ToSet(ev.reach) : ~\E i \in 1..Len(ev.obs) : ev.obs[i].name = n THEN "bad:reachable-aggregate-not-recorded"
  \* every definition that is reachable in its own translation unit is recorded with ITS layout (same-named types of other units do not stand in for it)
  ELSE IF \E j \in 1..Len(ev.probe) : ev.probe[j].reach /\ ~\E i \in 1..Len(ev.obs) :
            /\ ev.probe[j].name = ev.obs[i].name /\ ev.probe[j].size * 8 = ev.obs[i].sizeBits
            /\ MemberSet(ev.probe[j].members) = MemberSet(ev.obs[i].members)
       THEN "bad:reachable-definition-not-recorded-with-its-own-layout"
  ELSE "ok"

Verdict(ev) == CASE ev.e = "Signature" -> VSignature(ev) [] ev.e = "Layout" -> VLayout(ev) [] OTHER -> "bad:unknown-event"

TInit == /\ l = 1 /\ verdict = "ok" /\ types = <<>> /\ fns = <<>> /\ vars = <<>> /\ types2 = <<>> /\ fns2 = <<>> /\ vars2 = <<>>
         /\ muts = <<>> /\ phase = "done" /\ budget = [ty |-> 0, mem |-> 0, ifc |-> 0, mut |-> 0] /\ fresh = 1 /\ pick = ""
TNext == l <= Len(T) /\ l' = l + 1 /\ verdict' = Verdict(T[l]) /\ UNCHANGED gvars
TSpec == TInit /\ [][TNext]_<<gvars, l, verdict>>
Report == verdict = "ok" \/ PrintT(ToJson([i |-> l - 1, v |-> verdict]))
Accepted == TLCGet("stats").diameter - 1 = Len(T)
====================================================================================================
