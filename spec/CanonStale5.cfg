CONSTANTS
  N = 5
  MaxKids = 1
  MaxEdges = 5
  Kinds = {}
  AllowDecl = FALSE
  GraphClass = "any"
  OrderClass = "any"
  CycleCheck = "pair"
  Pass2Cancel = "freshsticky"
  Outermost = "coded"
  PropagateDespiteCycle = FALSE
  Pass2ClearsDeps = FALSE
SPECIFICATION Spec
CHECK_DEADLOCK FALSE
INVARIANTS CanonIffBisim
