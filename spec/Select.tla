------------------------------------------ MODULE Select ------------------------------------------
(* Selection of the interfaces a tool considers (property C27, second half):                        *)
(*   - KMI whitelists (abidw / abidiff --kmi-whitelist): gen_suppr_spec_from_kernel_abi_whitelists  *)
(*     turns the listed names into  symbol_name_not_regexp = Regex!Gen(names)  + drop-from-IR       *)
(*     suppressions for functions and variables;                                                    *)
(*   - abidiff --keep / --drop / --keep-fn / --drop-fn / --keep-var / --drop-var: the regex lists of *)
(*     corpus::exported_decls_builder (keep_wrt_regex_of_fns_to_keep / ..._to_suppress, same for     *)
(*     variables) and the way tools/abidiff.cc parses the options and hands them to the corpora.    *)
(*                                                                                                  *)
(* An interface is [kind, name, sym]: "fn" / "var", the declaration name the regex lists are matched *)
(* against (function_decl::get_qualified_name) and the ELF symbol name the whitelist is matched       *)
(* against.  Names are token sequences.  A pattern is [bol, lit, eol]: the regular expression        *)
(* ("^" if bol) lit ("$" if eol) with lit free of specials; regexec *searches*, so an unanchored      *)
(* pattern is a substring test (Regex!InterpreterSane proves exactly this about the ERE fragment).   *)
(*                                                                                                  *)
(* Part 1: declarative selection (what the manual states).  Part 2: transcription of the code path,  *)
(* parameterized by the oddities of the pinned code.  Part 3: the enumerated space and properties.   *)
EXTENDS Naturals, Integers, Sequences, FiniteSets, TLC, Json

CONSTANTS Universe,     \* the interfaces a binary may export
          ListedNames,  \* symbol names a whitelist may list (some of them absent from every binary)
          Lits,         \* literals of the patterns
          MaxOpts,      \* maximal number of keep/drop options on a command line
          Oddities      \* the oddities of the pinned code the transcription reproduces ({} = corrected)

AllOddities == {"KeepFnVarDoNotConsumeOperand",  \* tools/abidiff.cc: the --keep-fn and --keep-var branches lack ++i: the pattern is read
                                                 \* again as a positional argument, so the two inputs become arguments 2 and 3 -> usage error
                "PatternsSetAfterBuild",         \* set_corpus_keep_drop_regex_patterns runs after the corpora were read (exported sets already
                                                 \* built with empty lists) and nothing re-applies them (corpus::maybe_drop_some_exported_decls
                                                 \* is never called by abidiff): no keep/drop option has any effect
                "EmptyWhitelistIsNoWhitelist"}   \* a whitelist that lists no name generates no suppression: everything is kept

F(n, s) == [kind |-> "fn", name |-> n, sym |-> s]
V(n, s) == [kind |-> "var", name |-> n, sym |-> s]
DefaultUniverse == {F(<<"fn", "1">>, <<"a">>), F(<<"fn", "1", "0">>, <<"a", ".", "b">>),
                    V(<<"var", "1">>, <<"a", "+">>), V(<<"var", "2", "1">>, <<"a", "x", "b">>)}
DefaultListed   == {<<"a">>, <<"a", ".", "b">>, <<"a", "+">>, <<"a", "x", "b">>, <<"z">>}
DefaultLits     == {<<"fn", "1">>, <<"1">>, <<"var">>}

Patterns == [bol : BOOLEAN, lit : Lits, eol : BOOLEAN]
OptNames == {"keep", "drop", "keep-fn", "drop-fn", "keep-var", "drop-var"}
Opt(o, p) == [opt |-> o, pat |-> p]
Range(s) == {s[i] : i \in 1..Len(s)}

(* ---- pattern matching ------------------------------------------------------------------------- *)
IsInfixAt(s, x, i) == i + Len(s) <= Len(x) /\ SubSeq(x, i + 1, i + Len(s)) = s
PMatch(p, x) == \E i \in 0..Len(x) : /\ IsInfixAt(p.lit, x, i)
                                     /\ (p.bol => i = 0)
                                     /\ (p.eol => i + Len(p.lit) = Len(x))

(* ================================ 1. declarative selection ===================================== *)
(* "Any other function or variable which ELF symbol are not present in that white list will not be considered." *)
Selected(I, W) == {i \in I : i.sym \in W}

(* the four regex lists a command line denotes: --keep R = --keep-fn R --keep-var R, --drop likewise *)
ListOf(opts, names) == {opts[k].pat : k \in {k \in 1..Len(opts) : opts[k].opt \in names}}
KeepFn(opts)  == ListOf(opts, {"keep", "keep-fn"})
DropFn(opts)  == ListOf(opts, {"drop", "drop-fn"})
KeepVar(opts) == ListOf(opts, {"keep", "keep-var"})
DropVar(opts) == ListOf(opts, {"drop", "drop-var"})
(* "--keep-fn: keep the functions which name match the regular expression.  All other functions are dropped"; *)
(* "--drop-fn: drop the functions which name match the regular expression".  Both: kept by the first, not    *)
(* dropped by the second.  Without --keep* of its kind an interface is kept unless dropped.                   *)
KeptBy(i, keep, drop) == /\ (keep = {} \/ \E p \in keep : PMatch(p, i.name))
                         /\ ~\E p \in drop : PMatch(p, i.name)
Kept(i, opts) == IF i.kind = "fn" THEN KeptBy(i, KeepFn(opts), DropFn(opts)) ELSE KeptBy(i, KeepVar(opts), DropVar(opts))
KeepDrop(I, opts) == {i \in I : Kept(i, opts)}

(* ================================ 2. the code path ============================================= *)
(* exported_decls_builder::priv::keep_wrt_regex_of_fns_to_suppress / ..._to_keep on the lists the corpus holds *)
ImplKeepWrtSuppress(i, drop) == ~\E p \in drop : PMatch(p, i.name)          \* a match => keep = false
ImplKeepWrtKeep(i, keep) == IF keep = {} THEN TRUE ELSE \E p \in keep : PMatch(p, i.name)
ImplBuild(I, kf, df, kv, dv) ==     \* maybe_add_fn/var_to_exported_*, maybe_drop_some_exported_decls
  {i \in I : IF i.kind = "fn" THEN ImplKeepWrtSuppress(i, df) /\ ImplKeepWrtKeep(i, kf)
                              ELSE ImplKeepWrtSuppress(i, dv) /\ ImplKeepWrtKeep(i, kv)}

(* abidiff: parse_command_line, read both corpora, set_corpus_keep_drop_regex_patterns, compute_diff.  *)
(* Result: [usage |-> TRUE] or [usage |-> FALSE, compared |-> the interfaces the comparison looks at].  *)
ImplAbidiff(I, opts, O) ==
  IF "KeepFnVarDoNotConsumeOperand" \in O /\ \E k \in 1..Len(opts) : opts[k].opt \in {"keep-fn", "keep-var"}
  THEN [usage |-> TRUE, compared |-> {}]
  ELSE LET built == ImplBuild(I, {}, {}, {}, {})       \* the readers build the exported sets; the corpus' lists are still empty
           after == IF "PatternsSetAfterBuild" \in O THEN built
                    ELSE ImplBuild(built, KeepFn(opts), DropFn(opts), KeepVar(opts), DropVar(opts))   \* maybe_drop_some_exported_decls
       IN [usage |-> FALSE, compared |-> after]

(* whitelist: function / variable suppression with symbol_name_not_regexp = ^(n1|n2|...)$ (Regex.tla proves: membership) *)
ImplWhitelist(I, W, O) == IF W = {} /\ "EmptyWhitelistIsNoWhitelist" \in O THEN I ELSE {i \in I : i.sym \in W}

(* ================================ 3. space and properties ====================================== *)
VARIABLES ifaces,   \* the interfaces of the binary (every one of them differs in the partner binary)
          wl,       \* [given, names]: whether a whitelist was given and the names it lists
          opts      \* the keep/drop options, in command-line order
vars == <<ifaces, wl, opts>>
NoWl == [given |-> FALSE, names |-> {}]
Init == ifaces \in SUBSET Universe /\ wl = NoWl /\ opts = <<>>
GiveWhitelist == ~wl.given /\ opts = <<>> /\ \E W \in SUBSET ListedNames : wl' = [given |-> TRUE, names |-> W] /\ UNCHANGED <<ifaces, opts>>
GiveOption == ~wl.given /\ Len(opts) < MaxOpts
              /\ \E o \in OptNames, p \in Patterns : opts' = Append(opts, Opt(o, p)) /\ UNCHANGED <<ifaces, wl>>
Next == GiveWhitelist \/ GiveOption
Spec == Init /\ [][Next]_vars

(* the property: the compared interfaces are exactly those the whitelist lists / the patterns keep *)
WhitelistExact == wl.given => ImplWhitelist(ifaces, wl.names, Oddities) = Selected(ifaces, wl.names)
KeepDropExact == LET r == ImplAbidiff(ifaces, opts, Oddities) IN ~r.usage /\ r.compared = KeepDrop(ifaces, opts)

(* sanity of the declarative reading itself *)
DefinitionsSane ==
  /\ KeepDrop(ifaces, <<>>) = ifaces
  /\ KeepDrop(ifaces, opts) \subseteq ifaces
  /\ Len(opts) > 1 \/ \A p \in Patterns :
        /\ KeepDrop(ifaces, Append(opts, Opt("drop", p))) \subseteq KeepDrop(ifaces, opts)                       \* dropping only removes
        /\ KeepDrop(ifaces, Append(opts, Opt("drop", p))) = KeepDrop(KeepDrop(ifaces, opts), <<Opt("drop", p)>>)
        /\ KeepDrop(ifaces, Append(opts, Opt("keep", p))) = KeepDrop(ifaces, opts \o <<Opt("keep-fn", p), Opt("keep-var", p)>>)
        /\ {i \in KeepDrop(ifaces, <<Opt("keep-fn", p)>>) : i.kind = "var"} = {i \in ifaces : i.kind = "var"}      \* a function option leaves variables alone
        /\ {i \in KeepDrop(ifaces, <<Opt("keep", p)>>) : TRUE} = {i \in ifaces : PMatch(p, i.name)}
  /\ wl.given => Selected(ifaces, wl.names) = {i \in ifaces : \E n \in wl.names : n = i.sym}

(* "print the difference" (never false): every case on which the transcription of the pinned code departs from the property *)
PinnedDifferences ==
  /\ ~wl.given \/ ImplWhitelist(ifaces, wl.names, AllOddities) = Selected(ifaces, wl.names)
        \/ Cardinality(ifaces) # 2
        \/ PrintT(ToJson([what |-> "whitelist", listed |-> wl.names, kept |-> {i.sym : i \in ImplWhitelist(ifaces, wl.names, AllOddities)}]))
  /\ LET r == ImplAbidiff(ifaces, opts, AllOddities)
     IN (~r.usage /\ r.compared = KeepDrop(ifaces, opts))
        \/ Len(opts) > 1 \/ Cardinality(ifaces) # 2       \* print the small ones only
        \/ PrintT(ToJson([what |-> "keepdrop", opts |-> opts, usage |-> r.usage,
                          compared |-> {i.name : i \in r.compared}, expected |-> {i.name : i \in KeepDrop(ifaces, opts)}]))
====================================================================================================
