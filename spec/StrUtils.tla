----------------------------------------- MODULE StrUtils -----------------------------------------
(* Name and string helpers of abigail::tools_utils (property C41).                                  *)
(*                                                                                                  *)
(* A string is a sequence of *tokens*.  TLC cannot look inside a TLA+ string, so the alphabet is a  *)
(* small set of token names; the harness concatenates the bytes the names stand for ("a", "::",     *)
(* "__anonymous_struct__", " ", "<09>" = the byte 0x09 ...) into the real std::string and projects *)
(* results back.  The harness verifies that the alphabet is a prefix code and a suffix code, so     *)
(* that prefix / suffix / equality on token sequences coincide with the same relations on bytes.    *)
(*                                                                                                  *)
(* Part 1 gives the *declarative definitions* (the contract the property states).  Part 2 gives     *)
(* *transcriptions* of the implementation's algorithms (src/abg-tools-utils.cc).  The places where  *)
(* the pinned code departs from the definitions are named oddities; a transcription takes the set   *)
(* of oddities that are present, so one configuration checks the pinned algorithm against the       *)
(* definitions (and prints every difference) and another one checks the corrected algorithm.        *)
(* Part 3 judges a result (of a transcription or of a recorded call) against the definitions.       *)
(* Part 4 is the enumerated space: all pairs <<x, y>> of token strings up to MaxLenX / MaxLenY.     *)
EXTENDS Naturals, Integers, Sequences, FiniteSets, TLC, Json

CONSTANTS Tokens,     \* the token alphabet (a set of strings)
          MaxLenX,    \* maximal length of the first argument
          MaxLenY,    \* maximal length of the second argument (0: unary helpers only)
          Fns,        \* the helpers that are judged in this configuration
          Oddities    \* the oddities the transcriptions reproduce ({} = corrected algorithms)

AllOddities == {"BeginsWithEmptyStr",      \* string_begins_with returns false for every empty str, even for an empty prefix
                "DeclNamesTrailingSep",    \* decl_names_equal cannot tell "end of name" from "empty last component"
                "TrimLeadingNoProgress",   \* trim_leading_string loops without progress once str = to_trim, or on an empty to_trim
                "SplitRetLeadingSpace"}    \* split_string derives its return value from the scan position, which white space moves too

AllFns == {"decl_names_equal", "begins_with", "ends_with", "suffix", "trim_leading", "split", "trim_ws",
           "is_ascii", "is_ascii_id"}

(* ---- token classes ---------------------------------------------------------------------------- *)
Sep        == "::"
AnonTokens == {"__anonymous_struct__", "__anonymous_union__", "__anonymous_enum__"}
Digits     == {"0", "1", "2", "3", "4", "5", "6", "7", "8", "9"}
Spaces     == {" ", "<09>", "<0A>", "<0B>", "<0C>", "<0D>"}               \* isspace() in the C locale
Controls   == {"<01>", "<09>", "<0A>", "<0B>", "<0C>", "<0D>", "<1F>", "<7F>"}
NonAscii   == {"<80>", "<9F>", "<E9>", "<FF>"}
IdStart    == {"a", "b", "_"} \cup AnonTokens                             \* tokens spelled with letters and '_' only
IdCont     == IdStart \cup Digits

Range(s) == {s[i] : i \in 1..Len(s)}
MinOf(S) == CHOOSE m \in S : \A k \in S : m <= k
MaxOf(S) == CHOOSE m \in S : \A k \in S : m >= k
From(s, i) == SubSeq(s, i, Len(s))           \* the part of s that starts at index i (i = Len(s)+1: empty)

(* =============================== 1. declarative definitions =================================== *)
IsPrefix(p, s) == Len(p) <= Len(s) /\ SubSeq(s, 1, Len(p)) = p
IsSuffix(q, s) == Len(q) <= Len(s) /\ From(s, Len(s) - Len(q) + 1) = q
(* the mathematical definitions the two operators above must agree with *)
Tails(s) == {From(s, i) : i \in 1..Len(s)+1}
Heads(s) == {SubSeq(s, 1, i) : i \in 0..Len(s)}
IsPrefixMath(p, s) == \E t \in Tails(s) : s = p \o t
IsSuffixMath(q, s) == \E h \in Heads(s) : s = h \o q

(* string_suffix: "the suffix of a string, given a prefix"; Reading (DESIGN.md, C41): the contract is *)
(* "a proper prefix" -- found iff p is a prefix of s and something remains; the out-parameter is set  *)
(* iff found.                                                                                         *)
SuffixFound(s, p) == IsPrefix(p, s) /\ Len(p) < Len(s)
SuffixRest(s, p)  == From(s, Len(p) + 1)

(* trim_leading_string: remove the leading repetitions of a pattern.  An empty pattern is repeated    *)
(* nowhere, so nothing is removed.                                                                    *)
RECURSIVE TrimLeadingDef(_, _)
TrimLeadingDef(s, p) == IF p # <<>> /\ IsPrefix(p, s) THEN TrimLeadingDef(From(s, Len(p) + 1), p) ELSE s
(* ... characterized without recursion: s = p^k \o r and p is not a prefix of r *)
RECURSIVE Power(_, _)
Power(p, k) == IF k = 0 THEN <<>> ELSE p \o Power(p, k - 1)
IsTrimLeading(r, s, p) == IF p = <<>> THEN r = s
                          ELSE /\ ~IsPrefix(p, r)
                               /\ \E k \in 0..Len(s) : s = Power(p, k) \o r

(* trim_white_space: leading and trailing white space removed *)
TrimWsDef(s) == LET NS == {i \in 1..Len(s) : s[i] \notin Spaces}
                IN IF NS = {} THEN <<>> ELSE SubSeq(s, MinOf(NS), MaxOf(NS))
TrimLeadWs(s) == LET NS == {i \in 1..Len(s) : s[i] \notin Spaces}
                 IN IF NS = {} THEN <<>> ELSE From(s, MinOf(NS))

(* fields: the maximal runs of non-delimiter tokens, empty runs included, in order ("a,,b" has three) *)
FieldsBy(s, D) ==
  LET F[i \in 0..Len(s)] ==          \* << completed fields, field in progress >>
        IF i = 0 THEN << <<>>, <<>> >>
        ELSE IF s[i] \in D THEN << Append(F[i-1][1], F[i-1][2]), <<>> >>
        ELSE << F[i-1][1], Append(F[i-1][2], s[i]) >>
  IN Append(F[Len(s)][1], F[Len(s)][2])
NonEmpty(f) == f # <<>>
(* split_string.  Reading (DESIGN.md, C41): the trimming demanded is the one the code documents, *leading* *)
(* white space.  The delimiter argument is a set of characters; the harness guarantees that tokens share    *)
(* no byte, so a token is a delimiter iff it occurs in the delimiter string.                               *)
SplitDef(s, d) == LET f == FieldsBy(s, Range(d))
                  IN SelectSeq([i \in 1..Len(f) |-> TrimLeadWs(f[i])], NonEmpty)
(* its return value: "true iff the function found delimiters in the input string and did split it".  Weakest *)
(* reading: certainly false when the input contains no delimiter at all, certainly true when a delimiter     *)
(* separates two reported fields; anything else is accepted either way.                                       *)
SplitRetMustBeFalse(s, d) == Range(s) \cap Range(d) = {}
SplitRetMustBeTrue(s, d)  == Len(SplitDef(s, d)) >= 2

(* decl_names_equal.  A qualified name is its list of components (the fields between "::").  Two names are  *)
(* equal iff they have the same number of components and corresponding components are the same string or    *)
(* are both internal names of anonymous types of the same kind (prefix + optional number).                   *)
Components(s) == FieldsBy(s, {Sep})
AnonKindStrict(c) == IF c # <<>> /\ c[1] \in AnonTokens /\ \A i \in 2..Len(c) : c[i] \in Digits THEN c[1] ELSE "none"
AnonKindLax(c)    == IF c # <<>> /\ c[1] \in AnonTokens THEN c[1] ELSE "none"
NamesEqual(l, r, Kind(_)) ==
  LET cl == Components(l) cr == Components(r)
  IN /\ Len(cl) = Len(cr)
     /\ \A i \in 1..Len(cl) : cl[i] = cr[i] \/ (Kind(cl[i]) # "none" /\ Kind(cl[i]) = Kind(cr[i]))
DeclNamesEqualDef(l, r) == NamesEqual(l, r, AnonKindStrict)
(* Reading: a component that begins with an internal prefix and continues with something that is not a       *)
(* number is not a name libabigail ever generates; for such names both answers are accepted.                 *)
DeclNamesEqualLax(l, r) == NamesEqual(l, r, AnonKindLax)
NoAnon(s) == \A c \in Range(Components(s)) : AnonKindLax(c) = "none"

IsAsciiDef(s)  == Range(s) \cap NonAscii = {}
(* string_is_ascii_identifier: "ascii characters which are identifiers acceptable in C or C++", documented  *)
(* with the rule that excludes control characters.  Weakest reading: a C identifier must be accepted, a      *)
(* string with a non-ascii or control character must be refused.                                             *)
IsCIdent(s)    == s # <<>> /\ s[1] \in IdStart /\ Range(s) \subseteq IdCont
AsciiNoCtl(s)  == Range(s) \cap (NonAscii \cup Controls) = {}

(* ================================ 2. transcriptions =========================================== *)
(* Results are records [ret, res, rev, set, out]: ret = "ok" | "hang"; res the boolean result; rev the result *)
(* of the call with swapped arguments (decl_names_equal only); set = the out-parameter was assigned;          *)
(* out = the sequence of result strings.                                                                      *)
R(ret, res, rev, set, out) == [ret |-> ret, res |-> res, rev |-> rev, set |-> set, out |-> out]

ImplEndsWith(s, q) == IF Len(s) < Len(q) THEN FALSE ELSE From(s, Len(s) - Len(q) + 1) = q

ImplBeginsWith(s, p, O) ==
  IF "BeginsWithEmptyStr" \in O /\ s = <<>> THEN FALSE          \* if (str.empty()) return false;
  ELSE IF p = <<>> THEN TRUE
  ELSE IF Len(p) > Len(s) THEN FALSE
  ELSE SubSeq(s, 1, Len(p)) = p

ImplSuffix(s, p) ==      \* [found, rest]; rest meaningful iff found
  IF Len(p) >= Len(s) THEN [found |-> FALSE, rest |-> <<>>]
  ELSE IF SubSeq(s, 1, Len(p)) # p THEN [found |-> FALSE, rest |-> <<>>]
  ELSE [found |-> TRUE, rest |-> From(s, Len(p) + 1)]

RECURSIVE ImplTrimLeadingLoop(_, _, _)
ImplTrimLeadingLoop(str, p, O) ==
  IF "TrimLeadingNoProgress" \in O
  THEN (* while (string_begins_with(str, to_trim)) string_suffix(str, to_trim, str); *)
       IF ~ImplBeginsWith(str, p, O) THEN [ret |-> "ok", out |-> str]
       ELSE LET sfx == ImplSuffix(str, p)
                nxt == IF sfx.found THEN sfx.rest ELSE str
            IN IF nxt = str THEN [ret |-> "hang", out |-> str]       \* same state again: the loop never ends
               ELSE ImplTrimLeadingLoop(nxt, p, O)
  ELSE (* corrected: while (!to_trim.empty() && string_begins_with(str, to_trim)) str.erase(0, to_trim.length()); *)
       IF p # <<>> /\ ImplBeginsWith(str, p, O) THEN ImplTrimLeadingLoop(From(str, Len(p) + 1), p, O)
       ELSE [ret |-> "ok", out |-> str]

ImplTrimWs(s) ==         \* 0-based positions as in the code; size_t arithmetic made explicit
  IF s = <<>> THEN <<>>
  ELSE LET n == Len(s)
           NSf == {i \in 0..n-1 : s[i+1] \notin Spaces}
           start == IF NSf = {} THEN n ELSE MinOf(NSf)
           NSb == {i \in 1..n-1 : s[i+1] \notin Spaces}      \* for (end = n-1; end > 0; --end)
           end == IF NSb = {} THEN 0 ELSE MaxOf(NSb)
           cnt == end - start + 1                               \* wraps to a huge size_t when negative
           take == IF cnt < 0 \/ cnt > n - start THEN n - start ELSE cnt
       IN SubSeq(s, start + 1, start + take)

(* split_string: cur is the 1-based scan position, did = did_split, fnd = "a delimiter was found" *)
RECURSIVE ImplSplitLoop(_, _, _, _, _, _, _)
ImplSplitLoop(s, D, cur, res, did, fnd, O) ==
  LET NS == {i \in cur..Len(s) : s[i] \notin Spaces}
  IN IF NS = {} THEN [out |-> res, res |-> did]                 \* if (current >= size) break;
     ELSE LET c1 == MinOf(NS)
              DL == {i \in c1..Len(s) : s[i] \in D}             \* find_first_of(delims, current)
          IN IF DL = {}
             THEN [out |-> Append(res, From(s, c1)),
                   res |-> IF "SplitRetLeadingSpace" \in O THEN c1 # 1     \* did_split = (current != 0);
                           ELSE fnd]
             ELSE LET nx == MinOf(DL)
                      f == SubSeq(s, c1, nx - 1)
                  IN ImplSplitLoop(s, D, nx + 1, IF f # <<>> THEN Append(res, f) ELSE res, did \/ f # <<>>, TRUE, O)
ImplSplit(s, d, O) == ImplSplitLoop(s, Range(d), 1, <<>>, FALSE, FALSE, O)

(* decl_names_equal: lp, rp are the 1-based positions of the current components (l_pos1, r_pos1);          *)
(* Len+1 stands for "position = length".                                                                   *)
FindSep(s, p) == LET S == {i \in p..Len(s) : s[i] = Sep} IN IF S = {} THEN 0 ELSE MinOf(S)     \* 0 = npos
BothBegin(lc, rc, k) == lc # <<>> /\ rc # <<>> /\ lc[1] = k /\ rc[1] = k
CompsDiffer(lc, rc) == lc # rc /\ \A k \in AnonTokens : ~BothBegin(lc, rc, k)
RECURSIVE ImplDneLoop(_, _, _, _, _)
ImplDneLoop(l, r, lp, rp, O) ==
  IF "DeclNamesTrailingSep" \in O
  THEN IF lp <= Len(l) /\ rp <= Len(r)                          \* while (l_pos1 < l_length && r_pos1 < r_length)
       THEN LET l2 == IF FindSep(l, lp) = 0 THEN Len(l) + 1 ELSE FindSep(l, lp)
                r2 == IF FindSep(r, rp) = 0 THEN Len(r) + 1 ELSE FindSep(r, rp)
            IN IF CompsDiffer(SubSeq(l, lp, l2 - 1), SubSeq(r, rp, r2 - 1)) THEN FALSE
               ELSE ImplDneLoop(l, r, IF l2 = Len(l) + 1 THEN l2 ELSE l2 + 1, IF r2 = Len(r) + 1 THEN r2 ELSE r2 + 1, O)
       ELSE (lp = Len(l) + 1) = (rp = Len(r) + 1)               \* return (l_pos1 == l_length) == (r_pos1 == r_length);
  ELSE (* corrected: compare component by component, remember whether each one was the last *)
       LET lLast == FindSep(l, lp) = 0
           rLast == FindSep(r, rp) = 0
           l2 == IF lLast THEN Len(l) + 1 ELSE FindSep(l, lp)
           r2 == IF rLast THEN Len(r) + 1 ELSE FindSep(r, rp)
       IN IF CompsDiffer(SubSeq(l, lp, l2 - 1), SubSeq(r, rp, r2 - 1)) THEN FALSE
          ELSE IF lLast \/ rLast THEN lLast = rLast
          ELSE ImplDneLoop(l, r, l2 + 1, r2 + 1, O)
ImplDeclNamesEqual(l, r, O) == ImplDneLoop(l, r, 1, 1, O)

Impl(fn, a, b, O) ==
  CASE fn = "decl_names_equal" -> R("ok", ImplDeclNamesEqual(a, b, O), ImplDeclNamesEqual(b, a, O), FALSE, <<>>)
    [] fn = "begins_with"      -> R("ok", ImplBeginsWith(a, b, O), FALSE, FALSE, <<>>)
    [] fn = "ends_with"        -> R("ok", ImplEndsWith(a, b), FALSE, FALSE, <<>>)
    [] fn = "suffix"           -> LET s == ImplSuffix(a, b) IN R("ok", s.found, FALSE, s.found, IF s.found THEN <<s.rest>> ELSE <<>>)
    [] fn = "trim_leading"     -> LET t == ImplTrimLeadingLoop(a, b, O) IN R(t.ret, FALSE, FALSE, FALSE, IF t.ret = "ok" THEN <<t.out>> ELSE <<>>)
    [] fn = "split"            -> LET s == ImplSplit(a, b, O) IN R("ok", s.res, FALSE, FALSE, s.out)
    [] fn = "trim_ws"          -> R("ok", FALSE, FALSE, FALSE, <<ImplTrimWs(a)>>)
    [] fn = "is_ascii"         -> R("ok", \A i \in 1..Len(a) : a[i] \notin NonAscii, FALSE, FALSE, <<>>)
    [] fn = "is_ascii_id"      -> R("ok", \A i \in 1..Len(a) : a[i] \notin NonAscii \cup Controls, FALSE, FALSE, <<>>)

(* ================================ 3. judging a result ========================================= *)
Judge(fn, a, b, r) ==
  IF r.ret # "ok" THEN "bad:call-did-not-return"
  ELSE CASE fn = "decl_names_equal" ->
              IF r.res # r.rev THEN "bad:not-symmetric"
              ELSE IF NoAnon(a) /\ NoAnon(b) /\ r.res # (a = b) THEN "bad:differs-from-string-equality-without-anonymous-parts"
              ELSE IF r.res # DeclNamesEqualDef(a, b) /\ r.res # DeclNamesEqualLax(a, b) THEN "bad:differs-from-componentwise-equality"
              ELSE "ok"
         [] fn = "begins_with"  -> IF r.res = IsPrefix(b, a) THEN "ok" ELSE "bad:begins-with-is-not-prefix-of"
         [] fn = "ends_with"    -> IF r.res = IsSuffix(b, a) THEN "ok" ELSE "bad:ends-with-is-not-suffix-of"
         [] fn = "suffix"       -> IF r.res # SuffixFound(a, b) THEN "bad:suffix-found"
                                   ELSE IF r.set # r.res THEN "bad:suffix-out-parameter-set-iff-found"
                                   ELSE IF r.res /\ r.out # <<SuffixRest(a, b)>> THEN "bad:suffix-value"
                                   ELSE "ok"
         [] fn = "trim_leading" -> IF r.out = <<TrimLeadingDef(a, b)>> THEN "ok" ELSE "bad:trim-leading-value"
         [] fn = "split"        -> IF r.out # SplitDef(a, b) THEN "bad:split-is-not-the-nonempty-trimmed-fields"
                                   ELSE IF r.res /\ SplitRetMustBeFalse(a, b) THEN "bad:split-returned-true-without-delimiter"
                                   ELSE IF ~r.res /\ SplitRetMustBeTrue(a, b) THEN "bad:split-returned-false-after-splitting"
                                   ELSE "ok"
         [] fn = "trim_ws"      -> IF r.out = <<TrimWsDef(a)>> THEN "ok" ELSE "bad:trim-white-space-value"
         [] fn = "is_ascii"     -> IF r.res = IsAsciiDef(a) THEN "ok" ELSE "bad:is-ascii"
         [] fn = "is_ascii_id"  -> IF r.res /\ ~AsciiNoCtl(a) THEN "bad:identifier-with-control-or-non-ascii-accepted"
                                   ELSE IF ~r.res /\ IsCIdent(a) THEN "bad:c-identifier-refused"
                                   ELSE "ok"
         [] OTHER -> "bad:unknown-function"

(* ================================ 4. the enumerated space ===================================== *)
VARIABLES x, y
vars == <<x, y>>
Init  == x = <<>> /\ y = <<>>
GrowX == Len(x) < MaxLenX /\ y = <<>> /\ \E t \in Tokens : x' = Append(x, t) /\ UNCHANGED y
GrowY == Len(y) < MaxLenY /\ \E t \in Tokens : y' = Append(y, t) /\ UNCHANGED x
Next  == GrowX \/ GrowY
Spec  == Init /\ [][Next]_vars

Binary == {"decl_names_equal", "begins_with", "ends_with", "suffix", "trim_leading", "split"}
Applies(fn) == fn \in Fns /\ (fn \in Binary \/ y = <<>>)
Holds(fn) == Applies(fn) => Judge(fn, x, y, Impl(fn, x, y, Oddities)) = "ok"

(* the properties, over the transcriptions with the configured oddities *)
DeclNamesEqualSymmetric ==
  Applies("decl_names_equal") => ImplDeclNamesEqual(x, y, Oddities) = ImplDeclNamesEqual(y, x, Oddities)
DeclNamesEqualIsStringEqWithoutAnon ==
  Applies("decl_names_equal") /\ NoAnon(x) /\ NoAnon(y) => ImplDeclNamesEqual(x, y, Oddities) = (x = y)
DeclNamesEqualIsComponentwise == Holds("decl_names_equal")
SplitIsFields == Holds("split")
PrefixSuffixDefs == Holds("begins_with") /\ Holds("ends_with") /\ Holds("suffix") /\ Holds("trim_leading")
TrimAndClassDefs == Holds("trim_ws") /\ Holds("is_ascii") /\ Holds("is_ascii_id")

(* the definitions themselves are sane (independent of any transcription) *)
DefinitionsAgree ==
  /\ Fns \cap {"begins_with", "ends_with", "suffix", "trim_leading"} # {} =>
        /\ IsPrefix(y, x) = IsPrefixMath(y, x)
        /\ IsSuffix(y, x) = IsSuffixMath(y, x)
        /\ IsTrimLeading(TrimLeadingDef(x, y), x, y)
        /\ (SuffixFound(x, y) => x = y \o SuffixRest(x, y) /\ SuffixRest(x, y) # <<>>)
  /\ "decl_names_equal" \in Fns =>
        /\ DeclNamesEqualDef(x, y) = DeclNamesEqualDef(y, x)
        /\ (NoAnon(x) /\ NoAnon(y) => DeclNamesEqualDef(x, y) = (x = y))
        /\ (DeclNamesEqualDef(x, y) => DeclNamesEqualLax(x, y))
  /\ "split" \in Fns =>
        /\ \A f \in Range(SplitDef(x, y)) : f # <<>> /\ f[1] \notin Spaces /\ Range(f) \cap Range(y) = {}
        /\ ~(SplitRetMustBeFalse(x, y) /\ SplitRetMustBeTrue(x, y))
  /\ "trim_ws" \in Fns =>
        LET t == TrimWsDef(x) IN t = <<>> \/ (t[1] \notin Spaces /\ t[Len(t)] \notin Spaces)
  /\ "is_ascii_id" \in Fns => (IsCIdent(x) => AsciiNoCtl(x))

(* "print the difference": never false; one JSON line per <<function, arguments>> on which the transcription  *)
(* of the *pinned* code (all oddities) departs from the definitions.  The same run therefore proves the          *)
(* corrected algorithms (hard invariants above, Oddities = {}) and lists what the pinned ones get wrong.         *)
PinnedDifferences ==
  \A fn \in AllFns :
     Applies(fn) =>
        LET r == Impl(fn, x, y, AllOddities) v == Judge(fn, x, y, r)
        IN v = "ok" \/ PrintT(ToJson([fn |-> fn, x |-> x, y |-> y, v |-> v, ret |-> r.ret, res |-> r.res, out |-> r.out]))
====================================================================================================
