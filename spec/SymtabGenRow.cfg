\* generator: every renderable single row
CONSTANT Plans <- PlanGenRow
SPECIFICATION Spec
CONSTRAINT GenEmit
CHECK_DEADLOCK FALSE
