---- MODULE WorkerQueue_TTrace_1790037083 ----
EXTENDS Sequences, WorkerQueue, TLCExt, Toolbox, Naturals, TLC

_expression ==
    LET WorkerQueue_TEExpression == INSTANCE WorkerQueue_TEExpression
    IN WorkerQueue_TEExpression!expression
----

_trace ==
    LET WorkerQueue_TETrace == INSTANCE WorkerQueue_TETrace
    IN WorkerQueue_TETrace!trace
----

_inv ==
    ~(
        TLCGet("level") = Len(_TETrace)
        /\
        drop = (<<FALSE, FALSE>>)
        /\
        cur = (<<1, 2>>)
        /\
        nt = (2)
        /\
        joined = (0)
        /\
        notified = (<<0, 0>>)
        /\
        nw = (2)
        /\
        sleepers = ([todoc |-> {}, donec |-> {}])
        /\
        done = (<<1, 2>>)
        /\
        down = (FALSE)
        /\
        performed = (<<1, 1>>)
        /\
        spur = (0)
        /\
        mtx = ([todo |-> -1, done |-> -1])
        /\
        todo = (<<>>)
        /\
        nsched = (2)
        /\
        pc = ((0 :> "m_s_signal" @@ 1 :> "w_notify" @@ 2 :> "w_notify"))
    )
----

_init ==
    /\ done = _TETrace[1].done
    /\ nsched = _TETrace[1].nsched
    /\ cur = _TETrace[1].cur
    /\ mtx = _TETrace[1].mtx
    /\ nt = _TETrace[1].nt
    /\ nw = _TETrace[1].nw
    /\ pc = _TETrace[1].pc
    /\ drop = _TETrace[1].drop
    /\ joined = _TETrace[1].joined
    /\ todo = _TETrace[1].todo
    /\ down = _TETrace[1].down
    /\ spur = _TETrace[1].spur
    /\ notified = _TETrace[1].notified
    /\ performed = _TETrace[1].performed
    /\ sleepers = _TETrace[1].sleepers
----

_next ==
    /\ \E i,j \in DOMAIN _TETrace:
        /\ \/ /\ j = i + 1
              /\ i = TLCGet("level")
        /\ done  = _TETrace[i].done
        /\ done' = _TETrace[j].done
        /\ nsched  = _TETrace[i].nsched
        /\ nsched' = _TETrace[j].nsched
        /\ cur  = _TETrace[i].cur
        /\ cur' = _TETrace[j].cur
        /\ mtx  = _TETrace[i].mtx
        /\ mtx' = _TETrace[j].mtx
        /\ nt  = _TETrace[i].nt
        /\ nt' = _TETrace[j].nt
        /\ nw  = _TETrace[i].nw
        /\ nw' = _TETrace[j].nw
        /\ pc  = _TETrace[i].pc
        /\ pc' = _TETrace[j].pc
        /\ drop  = _TETrace[i].drop
        /\ drop' = _TETrace[j].drop
        /\ joined  = _TETrace[i].joined
        /\ joined' = _TETrace[j].joined
        /\ todo  = _TETrace[i].todo
        /\ todo' = _TETrace[j].todo
        /\ down  = _TETrace[i].down
        /\ down' = _TETrace[j].down
        /\ spur  = _TETrace[i].spur
        /\ spur' = _TETrace[j].spur
        /\ notified  = _TETrace[i].notified
        /\ notified' = _TETrace[j].notified
        /\ performed  = _TETrace[i].performed
        /\ performed' = _TETrace[j].performed
        /\ sleepers  = _TETrace[i].sleepers
        /\ sleepers' = _TETrace[j].sleepers

\* Uncomment the ASSUME below to write the states of the error trace
\* to the given file in Json format. Note that you can pass any tuple
\* to `JsonSerialize`. For example, a sub-sequence of _TETrace.
    \* ASSUME
    \*     LET J == INSTANCE Json
    \*         IN J!JsonSerialize("WorkerQueue_TTrace_1790037083.json", _TETrace)

=============================================================================

 Note that you can extract this module `WorkerQueue_TEExpression`
  to a dedicated file to reuse `expression` (the module in the 
  dedicated `WorkerQueue_TEExpression.tla` file takes precedence 
  over the module `WorkerQueue_TEExpression` below).

---- MODULE WorkerQueue_TEExpression ----
EXTENDS Sequences, WorkerQueue, TLCExt, Toolbox, Naturals, TLC

expression == 
    [
        \* To hide variables of the `WorkerQueue` spec from the error trace,
        \* remove the variables below.  The trace will be written in the order
        \* of the fields of this record.
        done |-> done
        ,nsched |-> nsched
        ,cur |-> cur
        ,mtx |-> mtx
        ,nt |-> nt
        ,nw |-> nw
        ,pc |-> pc
        ,drop |-> drop
        ,joined |-> joined
        ,todo |-> todo
        ,down |-> down
        ,spur |-> spur
        ,notified |-> notified
        ,performed |-> performed
        ,sleepers |-> sleepers
        
        \* Put additional constant-, state-, and action-level expressions here:
        \* ,_stateNumber |-> _TEPosition
        \* ,_doneUnchanged |-> done = done'
        
        \* Format the `done` variable as Json value.
        \* ,_doneJson |->
        \*     LET J == INSTANCE Json
        \*     IN J!ToJson(done)
        
        \* Lastly, you may build expressions over arbitrary sets of states by
        \* leveraging the _TETrace operator.  For example, this is how to
        \* count the number of times a spec variable changed up to the current
        \* state in the trace.
        \* ,_doneModCount |->
        \*     LET F[s \in DOMAIN _TETrace] ==
        \*         IF s = 1 THEN 0
        \*         ELSE IF _TETrace[s].done # _TETrace[s-1].done
        \*             THEN 1 + F[s-1] ELSE F[s-1]
        \*     IN F[_TEPosition - 1]
    ]

=============================================================================



Parsing and semantic processing can take forever if the trace below is long.
 In this case, it is advised to uncomment the module below to deserialize the
 trace from a generated binary file.

\*
\*---- MODULE WorkerQueue_TETrace ----
\*EXTENDS IOUtils, WorkerQueue, TLC
\*
\*trace == IODeserialize("WorkerQueue_TTrace_1790037083.bin", TRUE)
\*
\*=============================================================================
\*

---- MODULE WorkerQueue_TETrace ----
EXTENDS WorkerQueue, TLC

trace == 
    <<
    ([drop |-> <<FALSE, FALSE>>,cur |-> <<0, 0>>,nt |-> 2,joined |-> 0,notified |-> <<>>,nw |-> 2,sleepers |-> [todoc |-> {}, donec |-> {}],done |-> <<>>,down |-> FALSE,performed |-> <<>>,spur |-> 0,mtx |-> [todo |-> -1, done |-> -1],todo |-> <<>>,nsched |-> 0,pc |-> (0 :> "m_s_lock" @@ 1 :> "w_lock" @@ 2 :> "w_lock")]),
    ([drop |-> <<FALSE, FALSE>>,cur |-> <<0, 0>>,nt |-> 2,joined |-> 0,notified |-> <<>>,nw |-> 2,sleepers |-> [todoc |-> {}, donec |-> {}],done |-> <<>>,down |-> FALSE,performed |-> <<>>,spur |-> 0,mtx |-> [todo |-> 0, done |-> -1],todo |-> <<>>,nsched |-> 0,pc |-> (0 :> "m_s_push" @@ 1 :> "w_lock" @@ 2 :> "w_lock")]),
    ([drop |-> <<FALSE, FALSE>>,cur |-> <<0, 0>>,nt |-> 2,joined |-> 0,notified |-> <<0>>,nw |-> 2,sleepers |-> [todoc |-> {}, donec |-> {}],done |-> <<>>,down |-> FALSE,performed |-> <<0>>,spur |-> 0,mtx |-> [todo |-> 0, done |-> -1],todo |-> <<1>>,nsched |-> 1,pc |-> (0 :> "m_s_unlock" @@ 1 :> "w_lock" @@ 2 :> "w_lock")]),
    ([drop |-> <<FALSE, FALSE>>,cur |-> <<0, 0>>,nt |-> 2,joined |-> 0,notified |-> <<0>>,nw |-> 2,sleepers |-> [todoc |-> {}, donec |-> {}],done |-> <<>>,down |-> FALSE,performed |-> <<0>>,spur |-> 0,mtx |-> [todo |-> -1, done |-> -1],todo |-> <<1>>,nsched |-> 1,pc |-> (0 :> "m_s_signal" @@ 1 :> "w_lock" @@ 2 :> "w_lock")]),
    ([drop |-> <<FALSE, FALSE>>,cur |-> <<0, 0>>,nt |-> 2,joined |-> 0,notified |-> <<0>>,nw |-> 2,sleepers |-> [todoc |-> {}, donec |-> {}],done |-> <<>>,down |-> FALSE,performed |-> <<0>>,spur |-> 0,mtx |-> [todo |-> -1, done |-> -1],todo |-> <<1>>,nsched |-> 1,pc |-> (0 :> "m_s_lock" @@ 1 :> "w_lock" @@ 2 :> "w_lock")]),
    ([drop |-> <<FALSE, FALSE>>,cur |-> <<0, 0>>,nt |-> 2,joined |-> 0,notified |-> <<0>>,nw |-> 2,sleepers |-> [todoc |-> {}, donec |-> {}],done |-> <<>>,down |-> FALSE,performed |-> <<0>>,spur |-> 0,mtx |-> [todo |-> 1, done |-> -1],todo |-> <<1>>,nsched |-> 1,pc |-> (0 :> "m_s_lock" @@ 1 :> "w_test" @@ 2 :> "w_lock")]),
    ([drop |-> <<FALSE, FALSE>>,cur |-> <<0, 0>>,nt |-> 2,joined |-> 0,notified |-> <<0>>,nw |-> 2,sleepers |-> [todoc |-> {}, donec |-> {}],done |-> <<>>,down |-> FALSE,performed |-> <<0>>,spur |-> 0,mtx |-> [todo |-> 1, done |-> -1],todo |-> <<1>>,nsched |-> 1,pc |-> (0 :> "m_s_lock" @@ 1 :> "w_take" @@ 2 :> "w_lock")]),
    ([drop |-> <<FALSE, FALSE>>,cur |-> <<1, 0>>,nt |-> 2,joined |-> 0,notified |-> <<0>>,nw |-> 2,sleepers |-> [todoc |-> {}, donec |-> {}],done |-> <<>>,down |-> FALSE,performed |-> <<0>>,spur |-> 0,mtx |-> [todo |-> 1, done |-> -1],todo |-> <<>>,nsched |-> 1,pc |-> (0 :> "m_s_lock" @@ 1 :> "w_unlock" @@ 2 :> "w_lock")]),
    ([drop |-> <<FALSE, FALSE>>,cur |-> <<1, 0>>,nt |-> 2,joined |-> 0,notified |-> <<0>>,nw |-> 2,sleepers |-> [todoc |-> {}, donec |-> {}],done |-> <<>>,down |-> FALSE,performed |-> <<0>>,spur |-> 0,mtx |-> [todo |-> -1, done |-> -1],todo |-> <<>>,nsched |-> 1,pc |-> (0 :> "m_s_lock" @@ 1 :> "w_perform" @@ 2 :> "w_lock")]),
    ([drop |-> <<FALSE, FALSE>>,cur |-> <<1, 0>>,nt |-> 2,joined |-> 0,notified |-> <<0>>,nw |-> 2,sleepers |-> [todoc |-> {}, donec |-> {}],done |-> <<>>,down |-> FALSE,performed |-> <<0>>,spur |-> 0,mtx |-> [todo |-> 0, done |-> -1],todo |-> <<>>,nsched |-> 1,pc |-> (0 :> "m_s_push" @@ 1 :> "w_perform" @@ 2 :> "w_lock")]),
    ([drop |-> <<FALSE, FALSE>>,cur |-> <<1, 0>>,nt |-> 2,joined |-> 0,notified |-> <<0>>,nw |-> 2,sleepers |-> [todoc |-> {}, donec |-> {}],done |-> <<>>,down |-> FALSE,performed |-> <<1>>,spur |-> 0,mtx |-> [todo |-> 0, done |-> -1],todo |-> <<>>,nsched |-> 1,pc |-> (0 :> "m_s_push" @@ 1 :> "w_performed" @@ 2 :> "w_lock")]),
    ([drop |-> <<FALSE, FALSE>>,cur |-> <<1, 0>>,nt |-> 2,joined |-> 0,notified |-> <<0, 0>>,nw |-> 2,sleepers |-> [todoc |-> {}, donec |-> {}],done |-> <<>>,down |-> FALSE,performed |-> <<1, 0>>,spur |-> 0,mtx |-> [todo |-> 0, done |-> -1],todo |-> <<2>>,nsched |-> 2,pc |-> (0 :> "m_s_unlock" @@ 1 :> "w_performed" @@ 2 :> "w_lock")]),
    ([drop |-> <<FALSE, FALSE>>,cur |-> <<1, 0>>,nt |-> 2,joined |-> 0,notified |-> <<0, 0>>,nw |-> 2,sleepers |-> [todoc |-> {}, donec |-> {}],done |-> <<>>,down |-> FALSE,performed |-> <<1, 0>>,spur |-> 0,mtx |-> [todo |-> -1, done |-> -1],todo |-> <<2>>,nsched |-> 2,pc |-> (0 :> "m_s_signal" @@ 1 :> "w_performed" @@ 2 :> "w_lock")]),
    ([drop |-> <<FALSE, FALSE>>,cur |-> <<1, 0>>,nt |-> 2,joined |-> 0,notified |-> <<0, 0>>,nw |-> 2,sleepers |-> [todoc |-> {}, donec |-> {}],done |-> <<>>,down |-> FALSE,performed |-> <<1, 0>>,spur |-> 0,mtx |-> [todo |-> 2, done |-> -1],todo |-> <<2>>,nsched |-> 2,pc |-> (0 :> "m_s_signal" @@ 1 :> "w_performed" @@ 2 :> "w_test")]),
    ([drop |-> <<FALSE, FALSE>>,cur |-> <<1, 0>>,nt |-> 2,joined |-> 0,notified |-> <<0, 0>>,nw |-> 2,sleepers |-> [todoc |-> {}, donec |-> {}],done |-> <<>>,down |-> FALSE,performed |-> <<1, 0>>,spur |-> 0,mtx |-> [todo |-> 2, done |-> -1],todo |-> <<2>>,nsched |-> 2,pc |-> (0 :> "m_s_signal" @@ 1 :> "w_push" @@ 2 :> "w_test")]),
    ([drop |-> <<FALSE, FALSE>>,cur |-> <<1, 0>>,nt |-> 2,joined |-> 0,notified |-> <<0, 0>>,nw |-> 2,sleepers |-> [todoc |-> {}, donec |-> {}],done |-> <<1>>,down |-> FALSE,performed |-> <<1, 0>>,spur |-> 0,mtx |-> [todo |-> 2, done |-> -1],todo |-> <<2>>,nsched |-> 2,pc |-> (0 :> "m_s_signal" @@ 1 :> "w_notify" @@ 2 :> "w_test")]),
    ([drop |-> <<FALSE, FALSE>>,cur |-> <<1, 0>>,nt |-> 2,joined |-> 0,notified |-> <<0, 0>>,nw |-> 2,sleepers |-> [todoc |-> {}, donec |-> {}],done |-> <<1>>,down |-> FALSE,performed |-> <<1, 0>>,spur |-> 0,mtx |-> [todo |-> 2, done |-> -1],todo |-> <<2>>,nsched |-> 2,pc |-> (0 :> "m_s_signal" @@ 1 :> "w_notify" @@ 2 :> "w_take")]),
    ([drop |-> <<FALSE, FALSE>>,cur |-> <<1, 2>>,nt |-> 2,joined |-> 0,notified |-> <<0, 0>>,nw |-> 2,sleepers |-> [todoc |-> {}, donec |-> {}],done |-> <<1>>,down |-> FALSE,performed |-> <<1, 0>>,spur |-> 0,mtx |-> [todo |-> 2, done |-> -1],todo |-> <<>>,nsched |-> 2,pc |-> (0 :> "m_s_signal" @@ 1 :> "w_notify" @@ 2 :> "w_unlock")]),
    ([drop |-> <<FALSE, FALSE>>,cur |-> <<1, 2>>,nt |-> 2,joined |-> 0,notified |-> <<0, 0>>,nw |-> 2,sleepers |-> [todoc |-> {}, donec |-> {}],done |-> <<1>>,down |-> FALSE,performed |-> <<1, 0>>,spur |-> 0,mtx |-> [todo |-> -1, done |-> -1],todo |-> <<>>,nsched |-> 2,pc |-> (0 :> "m_s_signal" @@ 1 :> "w_notify" @@ 2 :> "w_perform")]),
    ([drop |-> <<FALSE, FALSE>>,cur |-> <<1, 2>>,nt |-> 2,joined |-> 0,notified |-> <<0, 0>>,nw |-> 2,sleepers |-> [todoc |-> {}, donec |-> {}],done |-> <<1>>,down |-> FALSE,performed |-> <<1, 1>>,spur |-> 0,mtx |-> [todo |-> -1, done |-> -1],todo |-> <<>>,nsched |-> 2,pc |-> (0 :> "m_s_signal" @@ 1 :> "w_notify" @@ 2 :> "w_performed")]),
    ([drop |-> <<FALSE, FALSE>>,cur |-> <<1, 2>>,nt |-> 2,joined |-> 0,notified |-> <<0, 0>>,nw |-> 2,sleepers |-> [todoc |-> {}, donec |-> {}],done |-> <<1>>,down |-> FALSE,performed |-> <<1, 1>>,spur |-> 0,mtx |-> [todo |-> -1, done |-> -1],todo |-> <<>>,nsched |-> 2,pc |-> (0 :> "m_s_signal" @@ 1 :> "w_notify" @@ 2 :> "w_push")]),
    ([drop |-> <<FALSE, FALSE>>,cur |-> <<1, 2>>,nt |-> 2,joined |-> 0,notified |-> <<0, 0>>,nw |-> 2,sleepers |-> [todoc |-> {}, donec |-> {}],done |-> <<1, 2>>,down |-> FALSE,performed |-> <<1, 1>>,spur |-> 0,mtx |-> [todo |-> -1, done |-> -1],todo |-> <<>>,nsched |-> 2,pc |-> (0 :> "m_s_signal" @@ 1 :> "w_notify" @@ 2 :> "w_notify")])
    >>
----


=============================================================================

---- CONFIG WorkerQueue_TTrace_1790037083 ----
CONSTANTS
    MaxWorkers = 2
    MaxTasks = 2
    MaxSpurious = 1
    MutDownWake = "broadcast"
    MutWaitLoop = "while"
    MutDoneLocked = FALSE

INVARIANT
    _inv

CHECK_DEADLOCK
    \* CHECK_DEADLOCK off because of PROPERTY or INVARIANT above.
    FALSE

INIT
    _init

NEXT
    _next

CONSTANT
    _TETrace <- _trace

ALIAS
    _expression
=============================================================================
\* Generated on Tue Sep 22 00:31:43 UTC 2026