------------------------------------------- MODULE WorkerQueue -------------------------------------------
(* Fine-grained model of the pthread protocol of abigail::workers::queue (src/abg-workers.cc), C32.     *)
(*                                                                                                      *)
(* One step per statement that touches shared state or calls pthread_*; the label of a step names the   *)
(* statement it is ABOUT TO execute.  Thread 0 is the thread that owns the queue ("main"), threads      *)
(* 1..nw are the workers.  Synchronization objects, as in the code:                                     *)
(*   mutex "todo"  = tasks_todo_mutex  (guards tasks_todo and bring_workers_down)                       *)
(*   mutex "done"  = tasks_done_mutex  (guards tasks_done, serializes notify)                           *)
(*   cond  "todoc" = tasks_todo_cond   (workers sleep on it, with "todo")                               *)
(*   cond  "donec" = tasks_done_cond   (main sleeps on it in do_bring_workers_down, with "todo" (sic))  *)
(* Semantics: pthread_mutex_lock blocks while the mutex is owned; pthread_cond_wait = (release + join   *)
(* the wait set) atomically, then sleep until removed from the wait set, then re-acquire the mutex;     *)
(* pthread_cond_signal removes ONE member of the wait set if there is one (any one: nondeterministic);  *)
(* pthread_cond_broadcast empties the wait set; a spurious wake-up removes a sleeper from a wait set at *)
(* any time, at most MaxSpurious times per behaviour; pthread_join blocks until the joined thread has   *)
(* returned.  Thread creation: a worker that has not yet run is indistinguishable from a worker that    *)
(* has not yet been created, so all workers are in their first statement initially.                     *)
(*                                                                                                      *)
(*   main    schedule_task (xnt):   m_s_lock m_s_push m_s_unlock m_s_signal                             *)
(*           do_bring_workers_down: m_d_lock m_d_test [m_d_wait m_d_woken] m_d_set m_d_unlock m_d_wake  *)
(*                                  m_join (one step per worker, in creation order)  returned           *)
(*   worker  wait_to_execute_a_task: w_lock w_test [w_wait w_woken] w_take w_unlock                     *)
(*                                  [w_perform w_performed w_dlock w_push w_notify w_notifying          *)
(*                                   w_dunlock w_dsignal]  w_lock2 w_read w_unlock2  (loop | w_exited)  *)
(*                                                                                                      *)
(* Skeleton (further down) lists the same statements as data; WorkerQueueShape.tla compares it with the *)
(* pthread call sequence extracted from the current source, so that the code cannot silently stop       *)
(* being the protocol that is model-checked here.                                                       *)
(*                                                                                                      *)
(* The three "Mut" constants select the code as written ("broadcast", "while", TRUE); the other values  *)
(* are the protocol mutants of DESIGN.md section 8 and are used only to show that the properties below  *)
(* are not vacuous (TLC must refute them on the mutated protocol).                                      *)
EXTENDS Integers, Sequences, FiniteSets, TLC

CONSTANTS MaxWorkers, MaxTasks, MaxSpurious,
          MutDownWake,      \* "broadcast" (code) | "signal"
          MutWaitLoop,      \* "while" (code)     | "if"
          MutDoneLocked     \* TRUE (code)        | FALSE: no tasks_done_mutex around push_back + notify

VARIABLES nw,          \* number of workers of this queue (1..MaxWorkers, chosen initially)
          nt,          \* number of tasks the main thread will schedule (0..MaxTasks, chosen initially)
          pc,          \* pc[thread]
          mtx,         \* mtx[m] = owning thread or Free
          sleepers,    \* sleepers[c] = threads blocked in pthread_cond_wait on c and not yet woken
          todo, done,  \* tasks_todo, tasks_done (sequences of task numbers)
          down,        \* bring_workers_down
          cur,         \* worker local `t` (0 = nil)
          drop,        \* worker local `drop_out`
          nsched,      \* number of tasks pushed so far (task numbers are 1..nsched)
          joined,      \* number of workers already joined by main
          spur,        \* spurious wake-ups so far
          performed,   \* history: number of perform() calls started, per task
          notified     \* history: number of notify() calls completed, per task

vars == <<nw, nt, pc, mtx, sleepers, todo, done, down, cur, drop, nsched, joined, spur, performed, notified>>

Workers == 1..MaxWorkers
Threads == 0..MaxWorkers
Free == -1
Count(s, x) == Cardinality({i \in DOMAIN s : s[i] = x})

-----------------------------------------------------------------------------------------------------------
(* pthread primitives *)
Goto(t, l)        == pc' = [pc EXCEPT ![t] = l]
Lock(t, m)        == mtx[m] = Free /\ mtx' = [mtx EXCEPT ![m] = t]
Unlock(t, m)      == mtx[m] = t /\ mtx' = [mtx EXCEPT ![m] = Free]          \* (LockDiscipline shows the guard always holds)
WaitBegin(t, c, m) == /\ mtx[m] = t /\ mtx' = [mtx EXCEPT ![m] = Free]
                      /\ sleepers' = [sleepers EXCEPT ![c] = @ \cup {t}]
WaitEnd(t, c, m)  == t \notin sleepers[c] /\ Lock(t, m)                      \* woken, then re-acquire
Signal(c)         == IF sleepers[c] = {} THEN UNCHANGED sleepers
                     ELSE \E x \in sleepers[c] : sleepers' = [sleepers EXCEPT ![c] = @ \ {x}]
Broadcast(c)      == sleepers' = [sleepers EXCEPT ![c] = {}]

Init ==
  /\ nw \in 1..MaxWorkers /\ nt \in 0..MaxTasks
  /\ pc = [t \in Threads |-> IF t = 0 THEN (IF nt > 0 THEN "m_s_lock" ELSE "m_d_lock")
                             ELSE IF t <= nw THEN "w_lock" ELSE "absent"]
  /\ mtx = [m \in {"todo", "done"} |-> Free]
  /\ sleepers = [c \in {"todoc", "donec"} |-> {}]
  /\ todo = <<>> /\ done = <<>> /\ down = FALSE
  /\ cur = [w \in Workers |-> 0] /\ drop = [w \in Workers |-> FALSE]
  /\ nsched = 0 /\ joined = 0 /\ spur = 0 /\ performed = <<>> /\ notified = <<>>

-----------------------------------------------------------------------------------------------------------
(* main thread: queue::schedule_task for each task of the batch, then queue::wait_for_workers_to_complete *)
M == 0
m_s_lock   == pc[M] = "m_s_lock"   /\ Lock(M, "todo") /\ Goto(M, "m_s_push")
              /\ UNCHANGED <<nw, nt, sleepers, todo, done, down, cur, drop, nsched, joined, spur, performed, notified>>
m_s_push   == pc[M] = "m_s_push"   /\ todo' = Append(todo, nsched + 1) /\ nsched' = nsched + 1
              /\ performed' = Append(performed, 0) /\ notified' = Append(notified, 0) /\ Goto(M, "m_s_unlock")
              /\ UNCHANGED <<nw, nt, mtx, sleepers, done, down, cur, drop, joined, spur>>
m_s_unlock == pc[M] = "m_s_unlock" /\ Unlock(M, "todo") /\ Goto(M, "m_s_signal")
              /\ UNCHANGED <<nw, nt, sleepers, todo, done, down, cur, drop, nsched, joined, spur, performed, notified>>
m_s_signal == pc[M] = "m_s_signal" /\ Signal("todoc") /\ Goto(M, IF nsched < nt THEN "m_s_lock" ELSE "m_d_lock")
              /\ UNCHANGED <<nw, nt, mtx, todo, done, down, cur, drop, nsched, joined, spur, performed, notified>>

m_d_lock   == pc[M] = "m_d_lock"   /\ Lock(M, "todo") /\ Goto(M, "m_d_test")
              /\ UNCHANGED <<nw, nt, sleepers, todo, done, down, cur, drop, nsched, joined, spur, performed, notified>>
m_d_test   == pc[M] = "m_d_test"   /\ Goto(M, IF todo # <<>> THEN "m_d_wait" ELSE "m_d_set")        \* while (!tasks_todo.empty())
              /\ UNCHANGED <<nw, nt, mtx, sleepers, todo, done, down, cur, drop, nsched, joined, spur, performed, notified>>
m_d_wait   == pc[M] = "m_d_wait"   /\ WaitBegin(M, "donec", "todo") /\ Goto(M, "m_d_woken")
              /\ UNCHANGED <<nw, nt, todo, done, down, cur, drop, nsched, joined, spur, performed, notified>>
m_d_woken  == pc[M] = "m_d_woken"  /\ WaitEnd(M, "donec", "todo") /\ Goto(M, "m_d_test")
              /\ UNCHANGED <<nw, nt, sleepers, todo, done, down, cur, drop, nsched, joined, spur, performed, notified>>
m_d_set    == pc[M] = "m_d_set"    /\ down' = TRUE /\ Goto(M, "m_d_unlock")
              /\ UNCHANGED <<nw, nt, mtx, sleepers, todo, done, cur, drop, nsched, joined, spur, performed, notified>>
m_d_unlock == pc[M] = "m_d_unlock" /\ Unlock(M, "todo") /\ Goto(M, "m_d_wake")
              /\ UNCHANGED <<nw, nt, sleepers, todo, done, down, cur, drop, nsched, joined, spur, performed, notified>>
m_d_wake   == pc[M] = "m_d_wake"   /\ (IF MutDownWake = "broadcast" THEN Broadcast("todoc") ELSE Signal("todoc"))
              /\ Goto(M, "m_join")
              /\ UNCHANGED <<nw, nt, mtx, todo, done, down, cur, drop, nsched, joined, spur, performed, notified>>
m_join     == pc[M] = "m_join"     /\ pc[joined + 1] = "w_exited" /\ joined' = joined + 1          \* pthread_join, in creation order
              /\ Goto(M, IF joined + 1 = nw THEN "returned" ELSE "m_join")
              /\ UNCHANGED <<nw, nt, mtx, sleepers, todo, done, down, cur, drop, nsched, spur, performed, notified>>
MainStep == m_s_lock \/ m_s_push \/ m_s_unlock \/ m_s_signal \/ m_d_lock \/ m_d_test \/ m_d_wait \/ m_d_woken
            \/ m_d_set \/ m_d_unlock \/ m_d_wake \/ m_join

-----------------------------------------------------------------------------------------------------------
(* worker thread: worker::wait_to_execute_a_task *)
w_lock(w)    == pc[w] = "w_lock"    /\ Lock(w, "todo") /\ Goto(w, "w_test")
                /\ UNCHANGED <<nw, nt, sleepers, todo, done, down, cur, drop, nsched, joined, spur, performed, notified>>
w_test(w)    == pc[w] = "w_test"    /\ Goto(w, IF todo = <<>> /\ ~down THEN "w_wait" ELSE "w_take")   \* while (empty && !down)
                /\ UNCHANGED <<nw, nt, mtx, sleepers, todo, done, down, cur, drop, nsched, joined, spur, performed, notified>>
w_wait(w)    == pc[w] = "w_wait"    /\ WaitBegin(w, "todoc", "todo") /\ Goto(w, "w_woken")
                /\ UNCHANGED <<nw, nt, todo, done, down, cur, drop, nsched, joined, spur, performed, notified>>
w_woken(w)   == pc[w] = "w_woken"   /\ WaitEnd(w, "todoc", "todo")
                /\ Goto(w, IF MutWaitLoop = "while" THEN "w_test" ELSE "w_take")
                /\ UNCHANGED <<nw, nt, sleepers, todo, done, down, cur, drop, nsched, joined, spur, performed, notified>>
w_take(w)    == pc[w] = "w_take"    /\ Goto(w, "w_unlock")                                           \* if (!empty) {t = front(); pop();}
                /\ (IF todo # <<>> THEN cur' = [cur EXCEPT ![w] = Head(todo)] /\ todo' = Tail(todo)
                                   ELSE UNCHANGED <<cur, todo>>)
                /\ UNCHANGED <<nw, nt, mtx, sleepers, done, down, drop, nsched, joined, spur, performed, notified>>
w_unlock(w)  == pc[w] = "w_unlock"  /\ Unlock(w, "todo") /\ Goto(w, IF cur[w] # 0 THEN "w_perform" ELSE "w_lock2")   \* if (t)
                /\ UNCHANGED <<nw, nt, sleepers, todo, done, down, cur, drop, nsched, joined, spur, performed, notified>>
w_perform(w) == pc[w] = "w_perform" /\ performed' = [performed EXCEPT ![cur[w]] = @ + 1] /\ Goto(w, "w_performed")  \* t->perform() begins
                /\ UNCHANGED <<nw, nt, mtx, sleepers, todo, done, down, cur, drop, nsched, joined, spur, notified>>
w_performed(w) == pc[w] = "w_performed" /\ Goto(w, IF MutDoneLocked THEN "w_dlock" ELSE "w_push")                   \* ... and ends
                /\ UNCHANGED <<nw, nt, mtx, sleepers, todo, done, down, cur, drop, nsched, joined, spur, performed, notified>>
w_dlock(w)   == pc[w] = "w_dlock"   /\ Lock(w, "done") /\ Goto(w, "w_push")
                /\ UNCHANGED <<nw, nt, sleepers, todo, done, down, cur, drop, nsched, joined, spur, performed, notified>>
w_push(w)    == pc[w] = "w_push"    /\ done' = Append(done, cur[w]) /\ Goto(w, "w_notify")
                /\ UNCHANGED <<nw, nt, mtx, sleepers, todo, down, cur, drop, nsched, joined, spur, performed, notified>>
w_notify(w)  == pc[w] = "w_notify"  /\ Goto(w, "w_notifying")                                          \* notify(t) begins
                /\ UNCHANGED <<nw, nt, mtx, sleepers, todo, done, down, cur, drop, nsched, joined, spur, performed, notified>>
w_notifying(w) == pc[w] = "w_notifying" /\ notified' = [notified EXCEPT ![cur[w]] = @ + 1]            \* ... and ends
                /\ cur' = [cur EXCEPT ![w] = 0]                       \* t is dead from here on (the loop body re-declares it)
                /\ Goto(w, IF MutDoneLocked THEN "w_dunlock" ELSE "w_dsignal")
                /\ UNCHANGED <<nw, nt, mtx, sleepers, todo, done, down, drop, nsched, joined, spur, performed>>
w_dunlock(w) == pc[w] = "w_dunlock" /\ Unlock(w, "done") /\ Goto(w, "w_dsignal")
                /\ UNCHANGED <<nw, nt, sleepers, todo, done, down, cur, drop, nsched, joined, spur, performed, notified>>
w_dsignal(w) == pc[w] = "w_dsignal" /\ Signal("donec") /\ Goto(w, "w_lock2")
                /\ UNCHANGED <<nw, nt, mtx, todo, done, down, cur, drop, nsched, joined, spur, performed, notified>>
w_lock2(w)   == pc[w] = "w_lock2"   /\ Lock(w, "todo") /\ Goto(w, "w_read")
                /\ UNCHANGED <<nw, nt, sleepers, todo, done, down, cur, drop, nsched, joined, spur, performed, notified>>
w_read(w)    == pc[w] = "w_read"    /\ drop' = [drop EXCEPT ![w] = down] /\ Goto(w, "w_unlock2")       \* drop_out = bring_workers_down
                /\ UNCHANGED <<nw, nt, mtx, sleepers, todo, done, down, cur, nsched, joined, spur, performed, notified>>
w_unlock2(w) == pc[w] = "w_unlock2" /\ Unlock(w, "todo") /\ Goto(w, IF drop[w] THEN "w_exited" ELSE "w_lock")   \* if (drop_out) break
                /\ UNCHANGED <<nw, nt, sleepers, todo, done, down, cur, drop, nsched, joined, spur, performed, notified>>
WorkerStep(w) == w_lock(w) \/ w_test(w) \/ w_wait(w) \/ w_woken(w) \/ w_take(w) \/ w_unlock(w) \/ w_perform(w)
                 \/ w_performed(w) \/ w_dlock(w) \/ w_push(w) \/ w_notify(w) \/ w_notifying(w) \/ w_dunlock(w)
                 \/ w_dsignal(w) \/ w_lock2(w) \/ w_read(w) \/ w_unlock2(w)

(* environment: a spurious wake-up of any sleeper (not subject to fairness) *)
Spurious == /\ spur < MaxSpurious
            /\ \E c \in {"todoc", "donec"} : \E t \in sleepers[c] : sleepers' = [sleepers EXCEPT ![c] = @ \ {t}]
            /\ spur' = spur + 1
            /\ UNCHANGED <<nw, nt, pc, mtx, todo, done, down, cur, drop, nsched, joined, performed, notified>>

Terminated == pc[M] = "returned" /\ UNCHANGED vars       \* TLC's deadlock check = "stuck before wait_for_workers_to_complete returned"
ThreadStep(t) == IF t = M THEN MainStep ELSE WorkerStep(t)
Next == (\E t \in Threads : ThreadStep(t)) \/ Spurious \/ Terminated

SafeSpec == Init /\ [][Next]_vars
Spec == SafeSpec /\ \A t \in Threads : WF_vars(ThreadStep(t))       \* weak fairness of each thread, nothing else

-----------------------------------------------------------------------------------------------------------
(* Properties (C32) *)
PcMain == {"m_s_lock", "m_s_push", "m_s_unlock", "m_s_signal", "m_d_lock", "m_d_test", "m_d_wait", "m_d_woken", "m_d_set",
           "m_d_unlock", "m_d_wake", "m_join", "returned"}
PcWorker == {"absent", "w_lock", "w_test", "w_wait", "w_woken", "w_take", "w_unlock", "w_perform", "w_performed", "w_dlock",
             "w_push", "w_notify", "w_notifying", "w_dunlock", "w_dsignal", "w_lock2", "w_read", "w_unlock2", "w_exited"}
TypeOK ==
  /\ nw \in 1..MaxWorkers /\ nt \in 0..MaxTasks /\ nsched \in 0..nt /\ joined \in 0..nw /\ spur \in 0..MaxSpurious
  /\ pc[M] \in PcMain /\ \A w \in Workers : pc[w] \in PcWorker /\ (pc[w] = "absent" <=> w > nw)
  /\ mtx \in [{"todo", "done"} -> Threads \cup {Free}]
  /\ sleepers \in [{"todoc", "donec"} -> SUBSET Threads]
  /\ todo \in Seq(1..MaxTasks) /\ done \in Seq(1..MaxTasks) /\ down \in BOOLEAN
  /\ cur \in [Workers -> 0..MaxTasks] /\ drop \in [Workers -> BOOLEAN]
  /\ Len(performed) = nsched /\ Len(notified) = nsched

(* who must own which mutex where: every Unlock / WaitBegin guard holds, shared data is touched only by the owner *)
HoldsTodo(t) == IF t = M THEN pc[t] \in {"m_s_push", "m_s_unlock", "m_d_test", "m_d_wait", "m_d_set", "m_d_unlock"}
                ELSE pc[t] \in {"w_test", "w_wait", "w_take", "w_unlock", "w_read", "w_unlock2"}
HoldsDone(t) == t # M /\ MutDoneLocked /\ pc[t] \in {"w_push", "w_notify", "w_notifying", "w_dunlock"}
LockDiscipline ==
  /\ \A t \in Threads : (HoldsTodo(t) <=> mtx["todo"] = t) /\ (HoldsDone(t) <=> mtx["done"] = t)
  /\ \A t \in Threads : t \in sleepers["todoc"] => pc[t] = "w_woken"
  /\ \A t \in Threads : t \in sleepers["donec"] => pc[t] = "m_d_woken"

ExactlyOnce ==
  \A t \in 1..nsched :
     /\ performed[t] <= 1 /\ Count(done, t) <= 1 /\ notified[t] <= 1
     /\ notified[t] <= Count(done, t) /\ Count(done, t) <= performed[t]
     /\ Count(todo, t) + Cardinality({w \in Workers : cur[w] = t}) + notified[t] = 1

NotifierSequential == Cardinality({w \in Workers : pc[w] \in {"w_notify", "w_notifying"}}) <= 1

AllDoneAtReturn ==
  pc[M] = "returned" =>
     /\ nsched = nt /\ todo = <<>> /\ Len(done) = nt
     /\ \A t \in 1..nt : performed[t] = 1 /\ Count(done, t) = 1 /\ notified[t] = 1
     /\ \A w \in 1..nw : pc[w] = "w_exited"
     /\ mtx = [m \in {"todo", "done"} |-> Free] /\ sleepers = [c \in {"todoc", "donec"} |-> {}]

Terminates == <>(pc[M] = "returned")

-----------------------------------------------------------------------------------------------------------
(* Refinement: WorkerQueue implements WorkerQueueAbs under this mapping (TLC: PROPERTY AbsSafe). *)
AbsWs(w) ==
  CASE pc[w] = "absent" -> "absent"
    [] pc[w] = "w_exited" -> "exited"
    [] pc[w] = "w_unlock" /\ cur[w] # 0 -> "popped"
    [] pc[w] = "w_perform" -> "popped"
    [] pc[w] = "w_performed" -> "performing"
    [] pc[w] \in {"w_dlock", "w_push"} -> "performed"
    [] pc[w] = "w_notify" -> "pushed"
    [] pc[w] = "w_notifying" -> "notifying"
    [] OTHER -> "idle"
AbsMain == IF pc[M] = "returned" THEN "returned" ELSE IF down THEN "down" ELSE "sched"
Abs == INSTANCE WorkerQueueAbs WITH main <- AbsMain, ws <- [w \in Workers |-> AbsWs(w)], wt <- cur
AbsSafe == Abs!SafeSpec

-----------------------------------------------------------------------------------------------------------
(* The same protocol as data: per function, the ordered pthread calls and the statements that touch the *)
(* shared state or leave the function, each with the loop / branch context it sits in (outermost first) *)
(* and the labels of the steps above that implement it.  WorkerQueueShape.tla checks the list extracted *)
(* from the current source by checks/wq_shape.py against this one, item by item.                        *)
S(op, arg, ctx, at) == [op |-> op, arg |-> arg, ctx |-> ctx, at |-> at]
WT == "while(true)"
Skeleton == [
  schedule_task |-> <<
     S("stmt", "return", <<"if(workers.empty()||!t)">>, {}),                        \* not modelled: nw >= 1, tasks non-nil
     S("pthread_mutex_lock", "tasks_todo_mutex", <<>>, {"m_s_lock"}),
     S("stmt", "tasks_todo.push", <<>>, {"m_s_push"}),
     S("pthread_mutex_unlock", "tasks_todo_mutex", <<>>, {"m_s_unlock"}),
     S("pthread_cond_signal", "tasks_todo_cond", <<>>, {"m_s_signal"}),
     S("stmt", "return", <<>>, {}) >>,
  do_bring_workers_down |-> <<
     S("stmt", "return", <<"if(workers.empty())">>, {}),                            \* not modelled: nw >= 1
     S("pthread_mutex_lock", "tasks_todo_mutex", <<>>, {"m_d_lock"}),
     S("pthread_cond_wait", "tasks_done_cond,tasks_todo_mutex", <<"while(!tasks_todo.empty())">>,
       {"m_d_test", "m_d_wait", "m_d_woken"}),
     S("stmt", "bring_workers_down=true", <<>>, {"m_d_set"}),
     S("pthread_mutex_unlock", "tasks_todo_mutex", <<>>, {"m_d_unlock"}),
     S("pthread_cond_broadcast", "tasks_todo_cond", <<>>, {"m_d_wake"}),
     S("pthread_join", "tid", <<"for">>, {"m_join"}),
     S("stmt", "workers.clear", <<>>, {"returned"}) >>,
  wait_to_execute_a_task |-> <<
     S("pthread_mutex_lock", "tasks_todo_mutex", <<WT>>, {"w_lock"}),
     S("pthread_cond_wait", "tasks_todo_cond,tasks_todo_mutex", <<WT, "while(tasks_todo.empty()&&!bring_workers_down)">>,
       {"w_test", "w_wait", "w_woken"}),
     S("stmt", "tasks_todo.front", <<WT, "if(!tasks_todo.empty())">>, {"w_take"}),
     S("stmt", "tasks_todo.pop", <<WT, "if(!tasks_todo.empty())">>, {"w_take"}),
     S("pthread_mutex_unlock", "tasks_todo_mutex", <<WT>>, {"w_unlock"}),
     S("stmt", "perform", <<WT, "if(t)">>, {"w_perform", "w_performed"}),
     S("pthread_mutex_lock", "tasks_done_mutex", <<WT, "if(t)">>, {"w_dlock"}),
     S("stmt", "tasks_done.push_back", <<WT, "if(t)">>, {"w_push"}),
     S("stmt", "notify", <<WT, "if(t)">>, {"w_notify", "w_notifying"}),
     S("pthread_mutex_unlock", "tasks_done_mutex", <<WT, "if(t)">>, {"w_dunlock"}),
     S("pthread_cond_signal", "tasks_done_cond", <<WT, "if(t)">>, {"w_dsignal"}),
     S("pthread_mutex_lock", "tasks_todo_mutex", <<WT>>, {"w_lock2"}),
     S("stmt", "drop_out=bring_workers_down", <<WT>>, {"w_read"}),
     S("pthread_mutex_unlock", "tasks_todo_mutex", <<WT>>, {"w_unlock2"}),
     S("stmt", "break", <<WT, "if(drop_out)">>, {"w_exited"}),
     S("stmt", "return", <<>>, {}) >> ]

(* every label of the model is the implementation of some skeleton item, and vice versa *)
SkeletonLabels == UNION {UNION {Skeleton[f][i].at : i \in DOMAIN Skeleton[f]} : f \in DOMAIN Skeleton}
ASSUME SkeletonCoversModel == SkeletonLabels = (PcMain \cup PcWorker) \ {"absent"}
===========================================================================================================
