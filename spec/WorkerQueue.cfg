\* C32 quick: 1..3 workers, 0..3 tasks, <= 1 spurious wake-up; the code as written.  451 224 distinct states.
\* Safety + deadlock + Terminates (under Spec = weak fairness per thread, no state constraint) + refinement AbsSafe.
CONSTANTS MaxWorkers = 3
          MaxTasks = 3
          MaxSpurious = 1
          MutDownWake = "broadcast"
          MutWaitLoop = "while"
          MutDoneLocked = TRUE
SPECIFICATION Spec
INVARIANTS TypeOK LockDiscipline ExactlyOnce NotifierSequential AllDoneAtReturn
PROPERTIES Terminates AbsSafe
CHECK_DEADLOCK TRUE
