CONSTANTS MaxWorkers = 3
          MaxTasks = 3
          MaxSpurious = 1
          MutDownWake = "broadcast"
          MutWaitLoop = "while"
          MutDoneLocked = TRUE
SPECIFICATION Spec
INVARIANTS TypeOK LockDiscipline ExactlyOnce NotifierSequential AllDoneAtReturn
PROPERTIES Terminates AbsSafe
CHECK_DEADLOCK TRUE
