----------------------------------------- MODULE EqTrace -----------------------------------------
(* Trace validation for C21 (equality, hashing and diffing agree on the IR).                                     *)
(* harness/eqharness.cc loads the two binaries of a TLC-generated program pair (Abi.tla) into ONE environment and *)
(* records, for every same-named function / variable pair, every pair of types of one corpus and every             *)
(* same-named type pair across the two, one event                                                                *)
(*   {"e":"Call", "kind", "a", "b", "same" (a and b are the same object), "ab" = eq(a,b), "ba" = eq(b,a),         *)
(*    "ha", "hb" (equality classes of hash_type_or_decl), "chg" = has_changes(compute_diff(a, b)),                *)
(*    "sab", "sba" = the public structural overload equals(a, b, 0) / equals(b, a, 0) for two types of one kind  *)
(*    (1 / 0; -1: not recorded), "expect": "same" | "changed" | "any"}                                            *)
(* and one {"e":"Run", "ret", "done"} per harness run.  `expect` is the model's word (Abi!Expect): "changed" for   *)
(* an interface in changedFns / changedVars of a pair that carries only mutation kinds whose structural            *)
(* inequality is certain (see checks/C21.py), "same" for the other surviving interfaces, "any" for types.          *)
(* Stateless: one step per event; the guards are the statement of C21.                                            *)
EXTENDS Naturals, Integers, Sequences, FiniteSets, TLC, Json, IOUtils

T == ndJsonDeserialize(IOEnv.TRACE)
VARIABLES l, verdict

(* ---- known findings (placeholders; the integrator moves listed ones to KnownFindings.tla) ---------------- *)
(* C21-compute-diff-function-types: compute_diff(type_base_sptr, type_base_sptr) turns both types into declarations first;  *)
(* a function type is none, so two nil pointers are diffed and has_changes() is false for any two function types.          *)
KF_C21_fn_type_diff(ev) == FALSE
(* C21-enum-equality-asymmetric: equals(enum_type_decl) tests the redundancy of an enumerator missing in r inside r instead *)
(* of inside l: {A=0,B=1} equals {A=0,C=1,D=1} but not the other way round.                                                *)
KF_C21_enum_asymmetric(ev) == FALSE
(* ------------------------------------------------------------------------------------------------------------ *)

VCall(ev) ==
  IF ev.same /\ ~ev.ab THEN "bad:artifact-not-equal-to-itself"
  ELSE IF ev.ab # ev.ba THEN "bad:equality-not-symmetric"
  ELSE IF ev.sab # ev.sba THEN "bad:structural-equality-not-symmetric"
  ELSE IF ev.sab # -1 /\ (ev.sab = 1) # ev.ab THEN "bad:operator==-disagrees-with-structural-equals"
  ELSE IF ev.ab /\ ev.ha # ev.hb THEN "bad:equal-artifacts-with-different-hashes"
  ELSE IF ev.chg /\ ev.ab THEN "bad:diff-reports-a-change-between-equal-artifacts"
  ELSE IF ~ev.chg /\ ~ev.ab THEN "bad:diff-reports-no-change-between-unequal-artifacts"
  ELSE IF ev.expect = "same" /\ ~ev.ab THEN "bad:unmutated-interface-compares-unequal"
  ELSE IF ev.expect = "changed" /\ ev.ab THEN "bad:mutated-interface-compares-equal"
  ELSE "ok"

VRun(ev) == IF ev.ret # "ok" THEN "bad:crash" ELSE IF ~ev.done THEN "bad:harness-did-not-finish" ELSE "ok"

Verdict(ev) == CASE ev.e = "Call" -> (LET v == VCall(ev) IN
                                     IF v = "bad:diff-reports-no-change-between-unequal-artifacts" /\ KF_C21_fn_type_diff(ev) THEN "kf:C21-compute-diff-function-types"
                                     ELSE IF v = "bad:structural-equality-not-symmetric" /\ KF_C21_enum_asymmetric(ev) THEN "kf:C21-enum-equality-asymmetric"
                                     ELSE v)
                 [] ev.e = "Run" -> VRun(ev)
                 [] OTHER -> "bad:unknown-event"

TInit == l = 1 /\ verdict = "ok"
TNext == l <= Len(T) /\ l' = l + 1 /\ verdict' = Verdict(T[l])
TSpec == TInit /\ [][TNext]_<<l, verdict>>
Report == verdict = "ok" \/ PrintT(ToJson([i |-> l - 1, v |-> verdict]))
Accepted == TLCGet("stats").diameter - 1 = Len(T)
====================================================================================================
