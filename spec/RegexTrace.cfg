CONSTANTS Tokens <- AllTokens
          MaxLen = 0
          MaxSet = 0
          EscSpecials <- PinnedSpecials
SPECIFICATION TSpec
INVARIANTS Report Conformance
POSTCONDITION Accepted
CHECK_DEADLOCK FALSE
