----------------------------------------- MODULE WorkerQueueShape -----------------------------------------
(* Static conformance of src/abg-workers.cc with the protocol skeleton of WorkerQueue.tla (C32).         *)
(* checks/wq_shape.py extracts, for each of the three functions that implement the protocol, the ordered  *)
(* pthread_* calls and shared-state statements with their loop / branch context (events "Shape"), the      *)
(* number of items per function ("ShapeFn") and the number of functions ("ShapeEnd").  The source is       *)
(* accepted iff this is exactly WorkerQueue!Skeleton: then the statements, their order, the mutex /        *)
(* condition variable each call names, and `while` vs `if` around each wait are those of the model whose   *)
(* safety and termination TLC has checked.  Anything else (pthread_cond_broadcast -> pthread_cond_signal,  *)
(* a lock dropped, `while` -> `if`, a statement moved out of its critical section) is "bad:shape-...":     *)
(* the model-checking result no longer covers the code.                                                    *)
EXTENDS WorkerQueue, Json, IOUtils

T == ndJsonDeserialize(IOEnv.TRACE)
VARIABLES l, verdict, seen,       \* seen: functions whose item count was confirmed
          pos,                    \* number of items of the current function consumed so far
          failed                  \* functions for which a deviation was already reported (one verdict per function)

Item(ev) == [op |-> ev.op, arg |-> ev.arg, ctx |-> ev.ctx]
Want(f, i) == [op |-> Skeleton[f][i].op, arg |-> Skeleton[f][i].arg, ctx |-> Skeleton[f][i].ctx]

Verdict(ev) ==
  CASE ev.e \in {"Shape", "ShapeFn"} /\ ev.fn \in failed -> "ok"
    [] ev.e = "Shape" ->
         IF ev.fn \notin DOMAIN Skeleton THEN "bad:shape-unknown-function"
         ELSE IF ev.i # pos + 1 THEN "bad:shape-item-numbering"
         ELSE IF ev.i \notin DOMAIN Skeleton[ev.fn] THEN "bad:shape-extra-item-" \o ev.fn
         ELSE IF Item(ev) # Want(ev.fn, ev.i) THEN "bad:shape-" \o ev.fn \o "-expected-" \o Skeleton[ev.fn][ev.i].op
                                                   \o "(" \o Skeleton[ev.fn][ev.i].arg \o ")"
         ELSE "ok"
    [] ev.e = "ShapeFn" ->
         IF ev.fn \notin DOMAIN Skeleton THEN "bad:shape-unknown-function"
         ELSE IF ev.i # pos \/ ev.i # Len(Skeleton[ev.fn]) THEN "bad:shape-item-count-" \o ev.fn
         ELSE "ok"
    [] ev.e = "ShapeEnd" ->
         IF seen \cup failed # DOMAIN Skeleton THEN "bad:shape-function-missing" ELSE "ok"

TInit == Init /\ l = 1 /\ verdict = "ok" /\ seen = {} /\ pos = 0 /\ failed = {}
TNext == /\ l <= Len(T) /\ l' = l + 1
         /\ T[l].e \in {"Shape", "ShapeFn", "ShapeEnd"}
         /\ verdict' = Verdict(T[l])
         /\ seen' = IF T[l].e = "ShapeFn" /\ verdict' = "ok" /\ T[l].fn \notin failed THEN seen \cup {T[l].fn} ELSE seen
         /\ failed' = IF T[l].e # "ShapeEnd" /\ verdict' # "ok" THEN failed \cup {T[l].fn} ELSE failed
         /\ pos' = IF T[l].e = "Shape" THEN pos + 1 ELSE 0
         /\ UNCHANGED vars
TSpec == TInit /\ [][TNext]_<<vars, l, verdict, seen, pos, failed>>

Report == verdict = "ok" \/ PrintT(ToJson([i |-> l - 1, v |-> verdict]))
Accepted == TLCGet("stats").diameter - 1 = Len(T)
===========================================================================================================
