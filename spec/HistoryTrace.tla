---------------------------------------- MODULE HistoryTrace ----------------------------------------
(* Stateful trace validation for C14: events {"e":"Run","key":..,"out":..,"env":..}; Reset starts a new history. *)
EXTENDS History, Json, IOUtils

T == ndJsonDeserialize(IOEnv.TRACE)
VARIABLES l, verdict
TInit == l = 1 /\ verdict = "ok" /\ Init
TStep == LET ev == T[l] IN
  IF ev.e = "Reset" THEN seen' = [k \in {} |-> 0] /\ verdict' = "ok"
  ELSE IF ev.ret # "ok" THEN UNCHANGED seen /\ verdict' = "bad:crash"
  ELSE IF ev.key \in DOMAIN seen /\ seen[ev.key] # ev.out
       THEN UNCHANGED seen /\ verdict' = "bad:same-inputs-different-output"
  ELSE Run(ev.key, ev.out) /\ verdict' = "ok"
TNext == l <= Len(T) /\ l' = l + 1 /\ TStep
TSpec == TInit /\ [][TNext]_<<seen, l, verdict>>
Report == verdict = "ok" \/ PrintT(ToJson([i |-> l - 1, v |-> verdict]))
Accepted == TLCGet("stats").diameter - 1 = Len(T)
====================================================================================================
