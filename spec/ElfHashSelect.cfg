\* C37, selection space: every sequence of <= 4 sections of kind .hash / .gnu.hash / other (sh_link 0 or 1).
CONSTANTS Names = {0, 1}
          MaxSyms = 0
          Buckets = {1}
          VerSyms <- VerSymsNone
          VerDefs = {}
          BloomBits = 4
          BloomShapes <- BloomShapesOne
          Hashes <- HashFamily
          MaxSecs = 4
          CorruptLens = {}
          CorruptMax = 0
          CorruptSyms = {}
          CorruptHashes = {}
          FixedSelect = FALSE
          FixedSysV = FALSE
          FixedGnu = FALSE
SPECIFICATION SpecSelect
INVARIANTS SelectionConsistentOrDev SelectionDevExact FixedSelectionConsistent
CHECK_DEADLOCK FALSE
