\* All hash functions of 4 names into 3 slots, two documents, every order of first mention of every subset of the names.
\* Step = 1 is the code's ++hash; Step = 2 (the mutant of DESIGN.md section 8) breaks IdsWellFormed.
CONSTANTS Names = {"n1", "n2", "n3", "n4"}
          HashRange = 3
          Step = 1
SPECIFICATION Spec
INVARIANTS HashIdStable IdsWellFormed NoCollisionNoProbe ClusteringDifferences
CHECK_DEADLOCK FALSE
