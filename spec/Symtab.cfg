\* C18: one run: code as the property wants it (Ideal), code as it is (Faithful), witnesses of the named deviations (Witness prints them)
CONSTANT Plans <- PlanC18Quick
SPECIFICATION Spec
INVARIANTS Ideal Faithful Witness
CHECK_DEADLOCK FALSE
