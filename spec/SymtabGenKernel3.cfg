\* generator: kernel tables with markers, <= 3 rows
CONSTANT Plans <- PlanGenKernel3
SPECIFICATION Spec
CONSTRAINT GenEmit
CHECK_DEADLOCK FALSE
